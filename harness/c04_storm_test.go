package harness

// C04, storm family: many sessions are created and closed from many
// goroutines at the same virtual instant while other goroutines look up
// unknown ids and iterate the client table (operations that restructure the
// table's internals). The registry invariant is evaluated at quiescence.
// Interleavings come from the Go scheduler (all cores) inside the bubble.

import (
	"fmt"
	"sort"
	"sync"
	"testing"
	"time"

	"github.com/zishang520/engine.io/v2/config"
	"github.com/zishang520/engine.io/v2/engine"
	"github.com/zishang520/engine.io/v2/types"
	"pgregory.net/rapid"
)

type stCase struct {
	N       int   // sessions created up front
	Late    int   // sessions created while the storm closes others
	Closers []int // per up-front session: 0 stays, 1 Close(true), 2 client close packet, 3 Close(false), 4 websocket drop
	Lookups int   // goroutines issuing requests for unknown session ids
	Iter    int   // goroutines iterating the table (Keys / Len / Range)
	Rounds  int
}

func (c stCase) String() string {
	return fmt.Sprintf("{n=%d late=%d closers=%v lookups=%d iter=%d rounds=%d}", c.N, c.Late, c.Closers, c.Lookups, c.Iter, c.Rounds)
}

func genST(rt *rapid.T) stCase {
	c := stCase{}
	c.N = rapid.IntRange(2, 16).Draw(rt, "n")
	c.Late = rapid.IntRange(0, 6).Draw(rt, "late")
	for i := 0; i < c.N; i++ {
		c.Closers = append(c.Closers, rapid.SampledFrom([]int{0, 1, 1, 2, 3, 4}).Draw(rt, fmt.Sprintf("c%d", i)))
	}
	c.Lookups = rapid.IntRange(0, 6).Draw(rt, "lookups")
	c.Iter = rapid.IntRange(0, 3).Draw(rt, "iter")
	c.Rounds = rapid.IntRange(1, 3).Draw(rt, "rounds")
	return c
}

func runST(c stCase) (fail string, stats map[string]bool) {
	stats = map[string]bool{}
	o := config.DefaultServerOptions()
	o.SetTransports(types.NewSet("polling", "websocket"))
	o.SetPingInterval(10 * time.Minute)
	o.SetPingTimeout(10 * time.Minute)
	w := NewWorld(o)
	defer w.Teardown()
	type sess struct {
		pc  *PollClient
		wc  *WSClient
		sid string
		how int
	}
	var all []*sess
	var mu sync.Mutex
	mk := func(ws bool, how int) *sess {
		s := &sess{how: how}
		if ws {
			wc := &WSClient{W: w, O: ClientOpts{Rev: 4}}
			wc.Start()
			s.wc = wc
		} else {
			pc := &PollClient{W: w, O: ClientOpts{Rev: 4}}
			pc.StartHandshake()
			s.pc = pc
		}
		return s
	}
	finish := func(s *sess) string {
		if s.wc != nil {
			s.wc.Pump()
			if s.wc.Open == nil {
				return fmt.Sprintf("websocket handshake failed (%d %v)", s.wc.HTTPStatus, s.wc.Errs)
			}
			s.sid = s.wc.Sid
			return ""
		}
		if err := s.pc.FinishHandshake(); err != nil {
			return err.Error()
		}
		s.sid = s.pc.Sid
		return ""
	}
	live := map[string]bool{}
	invariant := func(where string) string {
		var want []string
		for sid := range live {
			want = append(want, sid)
		}
		sort.Strings(want)
		reg := w.RegistryKeys()
		if fmt.Sprint(reg) != fmt.Sprint(want) {
			return fmt.Sprintf("%s: client table %v, sessions created and not closed %v", where, shortAll(reg), shortAll(want))
		}
		if n := w.Srv.ClientsCount(); n != uint64(len(want)) {
			return fmt.Sprintf("%s: ClientsCount()=%d (as signed %d), live sessions %d", where, n, int64(n), len(want))
		}
		for _, sid := range want {
			if so, ok := w.Srv.Clients().Load(sid); !ok || so.Id() != sid {
				return fmt.Sprintf("%s: live session %s not reachable under its own id", where, short(sid))
			}
		}
		return ""
	}
	for round := 0; round < c.Rounds; round++ {
		// create the round's sessions (concurrently)
		var batch []*sess
		for i := 0; i < c.N; i++ {
			how := c.Closers[i]
			batch = append(batch, mk(how == 4, how))
		}
		Settle()
		for _, s := range batch {
			if f := finish(s); f != "" {
				return "harness: " + f, stats
			}
			live[s.sid] = true
			all = append(all, s)
		}
		if f := invariant(fmt.Sprintf("round %d, after %d concurrent handshakes", round, c.N)); f != "" {
			return f, stats
		}
		// the storm
		var wg sync.WaitGroup
		var late []*sess
		for _, s := range batch {
			if s.how == 0 {
				continue
			}
			wg.Add(1)
			go func() {
				defer wg.Done()
				sr := w.Get(s.sid)
				switch s.how {
				case 1:
					sr.Sock.Close(true)
				case 2:
					s.pc.StartPost([]Pkt{ctl(tClose)}, false)
				case 3:
					sr.Sock.Close(false)
				case 4:
					s.wc.Drop()
				}
			}()
		}
		for i := 0; i < c.Late; i++ {
			wg.Add(1)
			go func() {
				defer wg.Done()
				s := mk(i%2 == 1, 0)
				mu.Lock()
				late = append(late, s)
				mu.Unlock()
			}()
		}
		for i := 0; i < c.Lookups; i++ {
			wg.Add(1)
			go func() {
				defer wg.Done()
				for k := 0; k < 8; k++ {
					Do(w.Srv, NewReq("GET", w.Path, fmt.Sprintf("EIO=4&transport=polling&sid=nosuch-%d-%d", i, k)))
				}
			}()
		}
		for i := 0; i < c.Iter; i++ {
			wg.Add(1)
			go func() {
				defer wg.Done()
				for k := 0; k < 6; k++ {
					switch (i + k) % 3 {
					case 0:
						w.Srv.Clients().Keys()
					case 1:
						w.Srv.Clients().Len()
					default:
						w.Srv.Clients().Range(func(string, engine.Socket) bool { return true })
					}
				}
			}()
		}
		wg.Wait()
		Settle()
		closedNow := 0
		for _, s := range batch {
			if s.how == 0 {
				continue
			}
			sr := w.Get(s.sid)
			if s.how == 3 && len(sr.Closes) == 0 {
				// graceful close of a polling session: completed by its next poll
				s.pc.StartPoll()
				Settle()
			}
			if len(sr.Closes) != 1 {
				return fmt.Sprintf("round %d: session %s closed by cause %d has close events %v", round, short(s.sid), s.how, sr.Closes), stats
			}
			delete(live, s.sid)
			closedNow++
		}
		for _, s := range late {
			if f := finish(s); f != "" {
				return "harness: late " + f, stats
			}
			live[s.sid] = true
			all = append(all, s)
		}
		if closedNow >= 2 {
			stats[">=2-concurrent-closes"] = true
		}
		if closedNow >= 1 && len(late) >= 1 {
			stats["closes-concurrent-with-handshakes"] = true
		}
		if closedNow >= 1 && c.Lookups > 0 {
			stats["closes-concurrent-with-unknown-sid-lookups"] = true
		}
		if closedNow >= 1 && c.Iter > 0 {
			stats["closes-concurrent-with-table-iteration"] = true
		}
		if f := invariant(fmt.Sprintf("round %d, after the storm (%d closes, %d late handshakes, %d lookup and %d iterating goroutines)", round, closedNow, len(late), c.Lookups, c.Iter)); f != "" {
			return f, stats
		}
	}
	// every closed id is refused, every live session still works
	for _, s := range all {
		if live[s.sid] {
			continue
		}
		ex := Do(w.Srv, NewReq("GET", w.Path, "EIO=4&transport=polling&sid="+s.sid))
		Settle()
		if snap := ex.Snap(); snap.Status != 400 {
			return fmt.Sprintf("request naming closed session %s answered %v", short(s.sid), snap), stats
		}
	}
	return "", stats
}

func TestC04Storm(t *testing.T) {
	col := NewCollector("TestC04Storm",
		"rapid: 1-3 rounds; in each 2-16 sessions (polling, websocket) are created concurrently, then at one virtual instant, each from its own goroutine: a drawn subset is closed (Close(true), client close packet, Close(false), connection drop), 0-6 further handshakes arrive, 0-6 goroutines request unknown session ids and 0-3 goroutines iterate the client table (Keys/Len/Range); interleavings come from the Go scheduler on all cores; oracle at quiescence: client table == sessions created and not closed, count == its size, live sessions reachable under their id, each closed session has exactly one close event and its id is refused. non-trivial: >=2 concurrent closes, or closes concurrent with handshakes, lookups or iteration").Use(t)
	rapid.Check(t, func(rt *rapid.T) {
		c := genST(rt)
		journal("C04st %v", c)
		var fail string
		var stats map[string]bool
		res := bubble(t, func() { fail, stats = runST(c) })
		var cl []string
		for k := range stats {
			cl = append(cl, k)
		}
		sort.Strings(cl)
		col.Case(c.String(), len(stats) > 0, map[string]any{"case": c.String()}, cl...)
		res.rethrow()
		if fail != "" {
			rt.Fatalf("%v\n%s", c, clipStr(fail, 1500))
		}
		if res.Leak != "" {
			rt.Fatalf("%v: %s", c, clipStr(res.Leak, 1500))
		}
	})
	col.RequireClasses(t, ">=2-concurrent-closes", "closes-concurrent-with-handshakes", "closes-concurrent-with-unknown-sid-lookups", "closes-concurrent-with-table-iteration")
}

package harness

import (
	"testing"
	"testing/synctest"
	"time"

	"github.com/zishang520/engine.io/v2/config"
)

func TestSmokeRefcodec(t *testing.T) {
	if err := refcodecSelfTest(); err != nil {
		t.Fatal(err)
	}
}

func TestSmokeWorld(t *testing.T) {
	synctest.Test(t, func(t *testing.T) {
		o := config.DefaultServerOptions()
		o.SetTransports(transportsSet("polling", "websocket", "webtransport"))
		o.SetPingInterval(300 * time.Millisecond)
		o.SetPingTimeout(200 * time.Millisecond)
		o.SetAllowEIO3(true)
		w := NewWorld(o)
		pc := &PollClient{W: w, O: ClientOpts{Rev: 4}}
		pc.StartHandshake()
		Settle()
		if err := pc.FinishHandshake(); err != nil {
			t.Fatal(err)
		}
		t.Logf("open: %+v", pc.Open)
		sr := w.Get(pc.Sid)
		w.AppSend(sr, msgT("hello"), nil, true, 0)
		pc.StartPoll()
		Settle()
		t.Logf("poll: %v", pc.Pump())
		pc.StartPost([]Pkt{msgT("up"), msgB([]byte{1, 2})}, false)
		Settle()
		t.Logf("post: %v msgs=%v", pc.Posts[0].Snap(), sr.Msgs)

		// websocket session
		wc := &WSClient{W: w, O: ClientOpts{Rev: 4}}
		wc.Start()
		Settle()
		wc.Pump()
		t.Logf("ws: status=%d open=%+v errs=%v", wc.HTTPStatus, wc.Open, wc.Errs)
		wsr := w.Get(wc.Sid)
		w.AppSend(wsr, msgB([]byte{9, 9}), nil, false, 0)
		wc.SendPacket(msgT("from ws"), nil)
		Settle()
		wc.Pump()
		t.Logf("ws recv=%v app msgs=%v", wc.Recv, wsr.Msgs)

		// webtransport session
		tc := &WTClient{W: w, O: ClientOpts{Rev: 4}}
		tc.Start()
		Settle()
		tc.OpenBidi()
		tc.SendHandshake()
		Settle()
		tc.Pump()
		t.Logf("wt: open=%+v errs=%v recv=%v", tc.Open, tc.Errs, tc.Recv)
		tsr := w.Get(tc.Sid)
		w.AppSend(tsr, msgT("to wt"), nil, false, 0)
		tc.SendPacket(msgB([]byte{7}))
		Settle()
		tc.Pump()
		t.Logf("wt recv=%v app msgs=%v", tc.Recv, tsr.Msgs)

		// upgrade polling -> websocket
		pc.StartPoll()
		Settle()
		uc := &WSClient{W: w, O: ClientOpts{Rev: 4}, Sid: pc.Sid}
		uc.Start()
		Settle()
		uc.Pump()
		uc.SendPacket(ctlD(tPing, "probe"), nil)
		Settle()
		uc.Pump()
		t.Logf("upgrade probe: recv=%v upgrading=%v", uc.Recv, sr.Sock.Upgrading())
		time.Sleep(100 * time.Millisecond)
		Settle()
		t.Logf("poll after check: %v", pc.Pump())
		uc.SendPacket(ctl(tUpgrade), nil)
		Settle()
		t.Logf("transport=%s upgraded=%v", sr.Sock.Transport().Name(), sr.Sock.Upgraded())

		time.Sleep(2 * time.Second)
		Settle()
		for _, s := range w.SessList() {
			t.Logf("%s closes=%v at %v", short(s.Sid), s.Closes, s.CloseAt)
		}
		t.Logf("registry=%v count=%d", w.RegistryKeys(), w.Srv.ClientsCount())
		tc.Pump()
		wc.Pump()
		t.Logf("wt closed=%v code=%d reset=%v; ws eof=%v close=%v", tc.SessionClosed, tc.CloseCode, tc.StreamReset, wc.EOF, wc.GotClose)
	})
}

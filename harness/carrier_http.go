package harness

// In-memory HTTP carrier: a ResponseWriter that records what the handler
// does, with the net/http semantics the engine depends on (request context
// cancelled when the handler returns or the client goes away; Content-Length
// -1 for bodies of unknown length; Hijack hands over a net.Conn).

import (
	"strconv"
	"errors"
	"bufio"
	"context"
	"fmt"
	"io"
	"net"
	"net/http"
	"net/url"
	"runtime/debug"
	"strings"
	"sync"
	"syscall"
	"time"
)

type Exchange struct {
	Method string
	URL    string
	Req    *http.Request

	mu                sync.Mutex
	cond              *sync.Cond
	hdr               http.Header
	HeaderCalls       int
	WriteCalls        int
	Status            int
	Header            http.Header // snapshot at the first WriteHeader/Write
	Body              []byte
	Responded         bool // a header or body write happened
	RespondedAt       time.Time
	Returned          bool // handler returned
	ReturnedAt        time.Time
	StartedAt         time.Time
	Aborted           bool
	WritesAfterAbort  int
	WritesAfterReturn int
	// VoidBytes: body bytes written after the handler had returned (they reach nobody: net/http completed the
	// response, an empty 200 if nothing had been written, when the handler returned)
	VoidBytes int
	Panic     any
	PanicStack        string
	Hijacked          bool
	Client            *memConn // client end when hijacked
	server            *memConn
	cancel            context.CancelFunc
	body              *ctlBody
	flushes           int
	earlyData          []byte
	failHijackedWrites bool
	// holdHeader: a slow connection: the first WriteHeader call blocks until the channel is closed
	holdHeader chan struct{}
	HeldHeader bool // a WriteHeader call is (or was) held
	// holdAfterBody: the Write call that completes the declared Content-Length does not return until the channel
	// is closed: the response has reached the client in full, the goroutine that wrote it has not been scheduled
	// again yet (a real client may react to the response, e.g. poll again, before the writer gets to run)
	holdAfterBody chan struct{}
	HeldBody      bool
	// SurplusBytes: body bytes the handler wrote beyond the Content-Length it had declared (dropped, as net/http does)
	SurplusBytes int
}

func (e *Exchange) Header_() http.Header { return e.hdr }

// --- http.ResponseWriter ---

type recorder struct{ e *Exchange }

func (r recorder) Header() http.Header { return r.e.hdr }

func (r recorder) snapshotLocked() {
	e := r.e
	if e.Header == nil {
		e.Header = e.hdr.Clone()
		if e.Header == nil {
			e.Header = http.Header{}
		}
	}
	if !e.Responded {
		e.Responded = true
		e.RespondedAt = time.Now()
	}
}

func (r recorder) WriteHeader(code int) {
	e := r.e
	e.mu.Lock()
	if ch := e.holdHeader; ch != nil && !e.HeldHeader {
		e.HeldHeader = true
		e.mu.Unlock()
		<-ch
		e.mu.Lock()
	}
	defer e.mu.Unlock()
	if e.Returned {
		// net/http: a ResponseWriter may not be used after the handler has returned; the response was completed
		// when it returned and whatever is written now reaches nobody
		e.WritesAfterReturn++
		return
	}
	e.HeaderCalls++
	if e.Status == 0 {
		e.Status = code
	}
	r.snapshotLocked()
	e.cond.Broadcast()
}

func (r recorder) Write(p []byte) (int, error) {
	e := r.e
	e.mu.Lock()
	defer e.mu.Unlock()
	if e.Returned {
		e.WritesAfterReturn++
		e.VoidBytes += len(p)
		return 0, http.ErrHandlerTimeout
	}
	e.WriteCalls++
	if e.Aborted {
		e.WritesAfterAbort++
	}
	if e.Status == 0 {
		e.Status = 200
	}
	r.snapshotLocked()
	// net/http holds a handler to the Content-Length it declared: surplus bytes are not sent (http.ErrContentLength)
	accepted := p
	var clErr error
	if cl := e.Header.Get("Content-Length"); cl != "" {
		if n, err := strconv.ParseInt(strings.TrimSpace(cl), 10, 64); err == nil && n >= 0 {
			if room := n - int64(len(e.Body)); int64(len(p)) > room {
				if room < 0 {
					room = 0
				}
				accepted = p[:room]
				clErr = http.ErrContentLength
				e.SurplusBytes += len(p) - int(room)
			}
		}
	}
	e.Body = append(e.Body, accepted...)
	e.cond.Broadcast()
	if ch := e.holdAfterBody; ch != nil && !e.HeldBody && !e.Aborted && clErr == nil {
		if cl := e.Header.Get("Content-Length"); cl == fmt.Sprint(len(e.Body)) {
			e.HeldBody = true
			e.mu.Unlock()
			<-ch
			e.mu.Lock()
		}
	}
	if e.Aborted {
		return 0, net.ErrClosed
	}
	if clErr != nil {
		return len(accepted), clErr
	}
	return len(p), nil
}

func (r recorder) Flush() {
	r.e.mu.Lock()
	r.e.flushes++
	r.e.mu.Unlock()
}

func (r recorder) Hijack() (net.Conn, *bufio.ReadWriter, error) {
	e := r.e
	e.mu.Lock()
	defer e.mu.Unlock()
	if e.Hijacked {
		return nil, nil, http.ErrHijacked
	}
	e.Hijacked = true
	e.server, e.Client = newMemConnPair()
	brw := bufio.NewReadWriter(bufio.NewReader(e.server), bufio.NewWriter(e.server))
	if len(e.earlyData) > 0 {
		// net/http hands over its read buffer, which already holds what followed the request head
		e.Client.Write(e.earlyData)
		brw.Reader.Peek(1)
	}
	if e.failHijackedWrites {
		e.server.w.FailNextWrite(syscall.EPIPE)
	}
	e.cond.Broadcast()
	return e.server, brw, nil
}

// --- request body with byte accounting and programmable stalls/faults ---

type ctlBody struct {
	mu       sync.Mutex
	cond     *sync.Cond
	data     []byte
	off      int
	consumed int64
	blockAt  int // -1 = never; reader blocks when off reaches blockAt until released
	released bool
	failAt   int // -1 = never
	failErr  error
	chunk    int // max bytes per Read (0 = unlimited)
	closed   bool
	reads    int
	onEOF    func() // called (once) when the handler has read the body to its end
	sawEOF   bool
	// onConnErr: called (once) when a Read reports the connection's failure
	onConnErr   func()
	connErrSeen bool
}

func newCtlBody(data []byte) *ctlBody {
	b := &ctlBody{data: data, blockAt: -1, failAt: -1}
	b.cond = sync.NewCond(&b.mu)
	return b
}

func (b *ctlBody) Read(p []byte) (int, error) {
	b.mu.Lock()
	defer b.mu.Unlock()
	b.reads++
	for b.blockAt >= 0 && b.off >= b.blockAt && !b.released {
		b.cond.Wait()
	}
	if b.failAt >= 0 && b.off >= b.failAt {
		// the connection failed under a body read: net/http's connection reader cancels the request context
		if b.onConnErr != nil && !b.connErrSeen {
			b.connErrSeen = true
			go b.onConnErr()
		}
		return 0, b.failErr
	}
	if b.off >= len(b.data) {
		b.hitEOFLocked()
		return 0, io.EOF
	}
	n := len(p)
	if rem := len(b.data) - b.off; n > rem {
		n = rem
	}
	if b.chunk > 0 && n > b.chunk {
		n = b.chunk
	}
	if b.blockAt >= 0 && !b.released && b.off+n > b.blockAt {
		n = b.blockAt - b.off
	}
	if b.failAt >= 0 && b.off+n > b.failAt {
		n = b.failAt - b.off
	}
	copy(p, b.data[b.off:b.off+n])
	b.off += n
	b.consumed += int64(n)
	if b.off >= len(b.data) && b.failAt < 0 {
		// net/http notices the end of a body as soon as its last declared byte has been handed out
		b.hitEOFLocked()
	}
	return n, nil
}

func (b *ctlBody) hitEOFLocked() {
	if !b.sawEOF {
		b.sawEOF = true
		if b.onEOF != nil {
			go b.onEOF()
		}
	}
}

func (b *ctlBody) Close() error {
	b.mu.Lock()
	b.closed = true
	b.mu.Unlock()
	return nil
}

func (b *ctlBody) Release() {
	b.mu.Lock()
	b.released = true
	b.cond.Broadcast()
	b.mu.Unlock()
}

func (b *ctlBody) Consumed() int64 {
	b.mu.Lock()
	defer b.mu.Unlock()
	return b.consumed
}

// --- issuing requests ---

type ReqSpec struct {
	Method  string
	Path    string // path only
	Query   string // raw query
	Header  http.Header
	Body    []byte
	HasBody bool
	// ContentLength: -2 = len(Body), otherwise the declared value (-1 = unknown/chunked)
	ContentLength int64
	BlockBodyAt   int // -1 none
	FailBodyAt    int // -1 none
	BodyChunk     int
	RemoteAddr    string
	HoldHeader    chan struct{} // slow connection: the first status line blocks until this channel is closed
	HoldAfterBody chan struct{} // the Write completing the response returns only when this channel is closed
	// BodyErrIsEncoding: the body read failure injected with FailBodyAt is the body's own (malformed chunked
	// encoding): the connection is still there, net/http does not cancel the request context
	BodyErrIsEncoding bool
	// EarlyData: bytes of the client's first frame(s) that arrive together with an upgrade request's head: they
	// are already in the connection's read buffer when the handler hijacks it
	EarlyData []byte
	// FailHijackedWrites: the connection is gone by the time the handler hijacks it: the first write fails
	FailHijackedWrites bool
	// PreHeader: response headers already set on the ResponseWriter when the engine gets the request (the engine
	// mounted behind a host application's handler or middleware that sets defaults before delegating)
	PreHeader http.Header
}

func NewReq(method, path, query string) ReqSpec {
	return ReqSpec{Method: method, Path: path, Query: query, Header: http.Header{}, ContentLength: -2, BlockBodyAt: -1, FailBodyAt: -1}
}

// Do runs the handler for one request in a new goroutine and returns the
// exchange record immediately.
func Do(h http.Handler, spec ReqSpec) *Exchange {
	u := &url.URL{Path: spec.Path, RawQuery: spec.Query}
	ctx, cancel := context.WithCancel(context.Background())
	req := &http.Request{
		Method: spec.Method, URL: u, Proto: "HTTP/1.1", ProtoMajor: 1, ProtoMinor: 1,
		Header: spec.Header, Host: "example.test", RemoteAddr: spec.RemoteAddr,
		RequestURI: u.RequestURI(),
	}
	if req.Header == nil {
		req.Header = http.Header{}
	}
	if req.RemoteAddr == "" {
		req.RemoteAddr = "10.9.9.9:5555"
	}
	e := &Exchange{Method: spec.Method, URL: u.String(), hdr: http.Header{}, cancel: cancel, StartedAt: time.Now(), holdHeader: spec.HoldHeader, holdAfterBody: spec.HoldAfterBody, earlyData: spec.EarlyData, failHijackedWrites: spec.FailHijackedWrites}
	e.cond = sync.NewCond(&e.mu)
	for k, v := range spec.PreHeader {
		e.hdr[k] = append([]string(nil), v...)
	}
	if spec.HasBody {
		data := spec.Body
		short := false
		if spec.ContentLength >= 0 {
			// net/http hands the handler exactly the declared number of bytes:
			// surplus bytes belong to the next request, a short body fails
			if spec.ContentLength < int64(len(data)) {
				data = data[:spec.ContentLength]
			} else if spec.ContentLength > int64(len(data)) {
				short = true
			}
		}
		b := newCtlBody(data)
		b.blockAt, b.failAt, b.chunk = spec.BlockBodyAt, spec.FailBodyAt, spec.BodyChunk
		if short && b.failAt < 0 {
			b.failAt = len(data)
		}
		if b.failAt >= 0 {
			b.failErr = io.ErrUnexpectedEOF
		}
		e.body = b
		req.Body = b
		// net/http watches the connection for the client going away only once the handler has consumed the
		// request body (it starts its background read when the body hits EOF): see Abort
		b.onEOF = func() {
			e.mu.Lock()
			gone := e.Aborted
			e.mu.Unlock()
			if gone {
				cancel()
			}
		}
		if spec.BodyErrIsEncoding && spec.FailBodyAt >= 0 {
			b.failErr = errors.New("malformed chunked encoding")
		} else {
			b.onConnErr = cancel
		}
		if spec.ContentLength == -2 {
			req.ContentLength = int64(len(spec.Body))
		} else {
			req.ContentLength = spec.ContentLength
		}
	} else {
		req.Body = http.NoBody
	}
	req = req.WithContext(ctx)
	e.Req = req
	go func() {
		defer func() {
			if p := recover(); p != nil {
				e.mu.Lock()
				e.Panic = p
				e.PanicStack = string(debug.Stack())
				e.mu.Unlock()
			}
			e.mu.Lock()
			e.Returned = true
			e.ReturnedAt = time.Now()
			e.cond.Broadcast()
			e.mu.Unlock()
			// net/http cancels the request context when the handler returns
			cancel()
		}()
		h.ServeHTTP(recorder{e}, req)
	}()
	return e
}

// Abort emulates the client going away. As with net/http, the request context is cancelled at once only when
// the request has no body or the handler has already read it to the end; while body bytes are unread the
// server does not watch the connection, so the handler only learns of it through a failing body read (the
// unread remainder is lost with the connection; that failing read also cancels the context, as net/http's
// connection reader does) or not at all.
func (e *Exchange) Abort() {
	e.mu.Lock()
	e.Aborted = true
	e.mu.Unlock()
	unread := false
	if e.body != nil {
		e.body.mu.Lock()
		unread = !e.body.sawEOF
		e.body.mu.Unlock()
	}
	if !unread {
		e.cancel()
	}
	if e.body != nil {
		// a real server's body read fails once the connection is gone
		e.body.mu.Lock()
		if e.body.failAt < 0 || e.body.failAt > e.body.off {
			e.body.failAt = e.body.off
			e.body.failErr = io.ErrUnexpectedEOF
		}
		e.body.released = true
		e.body.cond.Broadcast()
		e.body.mu.Unlock()
	}
}

// ClientView is what the client of this exchange has received so far: nothing yet (ok=false), the handler's
// response, or - when the handler returned without writing anything - the empty 200 net/http completes the
// exchange with.
func (e *Exchange) ClientView() (status int, body []byte, ok bool) {
	e.mu.Lock()
	defer e.mu.Unlock()
	if e.Responded {
		return e.Status, append([]byte(nil), e.Body...), true
	}
	if e.Returned && !e.Hijacked && e.Panic == nil {
		return 200, nil, true
	}
	return 0, nil, false
}

type ExSnap struct {
	HeaderCalls, WriteCalls, Status int
	Header                          http.Header
	Body                            []byte
	Responded, Returned, Aborted    bool
	RespondedAt, ReturnedAt         time.Time
	Panic                           any
	PanicStack                      string
	Hijacked                        bool
	WritesAfterReturn               int
}

func (e *Exchange) Snap() ExSnap {
	e.mu.Lock()
	defer e.mu.Unlock()
	return ExSnap{e.HeaderCalls, e.WriteCalls, e.Status, e.Header, append([]byte(nil), e.Body...), e.Responded, e.Returned, e.Aborted,
		e.RespondedAt, e.ReturnedAt, e.Panic, e.PanicStack, e.Hijacked, e.WritesAfterReturn}
}

func (s ExSnap) String() string {
	b := s.Body
	if len(b) > 80 {
		b = append(append([]byte{}, b[:80]...), "..."...)
	}
	return fmt.Sprintf("{status=%d hdrCalls=%d writes=%d responded=%v returned=%v aborted=%v body=%q}", s.Status, s.HeaderCalls, s.WriteCalls, s.Responded, s.Returned, s.Aborted, b)
}

func hdrGet(h http.Header, k string) string {
	if h == nil {
		return ""
	}
	return h.Get(k)
}

func contentTypeBase(h http.Header) string {
	ct := hdrGet(h, "Content-Type")
	if i := strings.IndexByte(ct, ';'); i >= 0 {
		ct = ct[:i]
	}
	return strings.TrimSpace(ct)
}

func stackString() string { return string(debug.Stack()) }

package harness

// C01, a write of the server that fails part-way on a WebTransport stream (a missed write deadline, a cancelled
// write: part of a frame is on the wire, the stream accepts writes again afterwards). Whatever the application
// sends next, plain or with a pre-encoded frame, in the same batch or later: the client, which is in the middle
// of the broken frame, must not be handed anything that was not sent. Received payloads stay a prefix of the sent
// ones, identical in bytes and kind.

import (
	"fmt"
	"testing"
	"time"

	"github.com/zishang520/engine.io-go-parser/packet"
	"github.com/zishang520/engine.io/v2/config"
	"github.com/zishang520/engine.io/v2/types"
	"pgregory.net/rapid"
)

type wfMsg struct {
	Len int
	Pre bool // sent with a pre-encoded frame (as socket.io's adapter does for broadcasts)
	Bin bool
}

type wfCase struct {
	Upgraded bool
	Msgs     []wfMsg
	Held     bool  // the messages are buffered behind a held writer and leave as one batch
	FaultAt  int64 // byte offset (of what the server writes from now on) at which one stream write fails part-way
	ErrKind  string
}

func (c wfCase) String() string {
	return fmt.Sprintf("{webtransport upgraded=%v msgs=%v one-batch=%v write-fails-at-byte=%d error=%s}", c.Upgraded, c.Msgs, c.Held, c.FaultAt, c.ErrKind)
}

func runWF(c wfCase) (fail string, stats map[string]bool) {
	stats = map[string]bool{}
	o := config.DefaultServerOptions()
	o.SetTransports(types.NewSet("polling", "websocket", "webtransport"))
	o.SetPingInterval(10 * time.Minute)
	o.SetPingTimeout(10 * time.Minute)
	w := NewWorld(o)
	defer w.Teardown()
	var tc *WTClient
	if c.Upgraded {
		ps, why := doHandshake(w, c06HS{Carrier: "polling", EIO: "4"})
		if ps == nil {
			return "harness: " + why, stats
		}
		_, t2, err := Upgrade(w, ps.pc, "webtransport")
		if err != nil {
			return "harness: upgrade: " + err.Error(), stats
		}
		tc = t2
	} else {
		s, why := doHandshake(w, c06HS{Carrier: "webtransport", EIO: "4"})
		if s == nil {
			return "harness: " + why, stats
		}
		tc = s.tc
	}
	sr := w.Get(tc.Sid)
	tc.Pump()
	before := 0
	for _, p := range tc.Recv {
		if p.Type == tMessage {
			before++
		}
	}
	var g *Gates
	var gp GatePoint
	if c.Held {
		g = InstallGates(nil)
		defer g.Uninstall()
		gp = GatePoint{"wt.send.start", g.Count("wt.send.start")}
		g.mu.Lock()
		g.plan[gp] = true
		g.mu.Unlock()
		w.AppSend(sr, msgT("takes the writer"), nil, false, 0)
		Settle()
	}
	// the server's side of the stream: one write fails part-way, later writes are accepted again
	var ferr error = errInjected
	switch c.ErrKind {
	case "timeout":
		ferr = &c15NetErr{msg: "i/o timeout (write deadline)", timeout: true}
	case "temporary":
		ferr = &c15NetErr{msg: "temporary failure", temporary: true}
	}
	srvOut := tc.Bidi.out // the pipe the server writes into
	srvOut.mu.Lock()
	srvOut.failWriteAt, srvOut.failWriteE, srvOut.failWriteTransient = srvOut.written+c.FaultAt, ferr, true
	srvOut.mu.Unlock()
	var sent []Pkt
	if c.Held {
		sent = append(sent, msgT("takes the writer"))
	}
	for i, m := range c.Msgs {
		p := Pkt{Type: tMessage, Data: makePayload(m.Len, byte('a'+i)), Binary: m.Bin}
		if !m.Bin {
			for k := range p.Data {
				p.Data[k] = 'a' + byte(i) // keep text payloads valid UTF-8
			}
		}
		var opts *packet.Options
		if m.Pre {
			fr := encPacketFrame(4, false, p)
			var buf types.BufferInterface
			if fr.Binary {
				buf = types.NewBytesBuffer(append([]byte(nil), fr.Data...))
			} else {
				buf = types.NewStringBuffer(append([]byte(nil), fr.Data...))
			}
			opts = &packet.Options{Compress: true, WsPreEncodedFrame: buf}
			stats["pre-encoded-frame-behind-the-fault"] = true
		}
		sent = append(sent, p)
		w.AppSend(sr, p, opts, false, 0)
		if !c.Held {
			Settle()
		}
	}
	if c.Held {
		g.mu.Lock()
		delete(g.plan, gp)
		g.mu.Unlock()
		g.Release(gp)
	}
	Settle()
	srvOut.mu.Lock()
	hit := srvOut.failWriteAt < 0
	srvOut.mu.Unlock()
	if hit {
		stats["a-write-failed-part-way"] = true
	}
	tc.Pump()
	var got []Pkt
	for _, p := range tc.Recv {
		if p.Type == tMessage {
			got = append(got, p)
		}
	}
	got = got[before:]
	if !isPrefix(got, sent) {
		return fmt.Sprintf("the client received %s; sent were %s (one stream write failed part-way at byte %d; session close events %v)", pktsString(got), pktsString(sent), c.FaultAt, sr.Closes), stats
	}
	if len(sr.Closes) == 0 && !hit && len(got) != len(sent) {
		return fmt.Sprintf("no write failed and the session is open; the client received %d of %d messages", len(got), len(sent)), stats
	}
	tc.Drop()
	Settle()
	return "", stats
}

func TestC01WriteFault(t *testing.T) {
	col := NewCollector("TestC01WriteFault",
		"rapid: a webtransport session (direct or upgraded) and 2-6 Sends (text / binary, 1..3000 bytes, plain or with a pre-encoded frame as socket.io's adapter supplies it), each in a batch of its own or all behind a held writer as one batch; one write of the server's stream, at a drawn byte offset, takes only part of its bytes and fails with a plain error or a net.Error calling itself timeout / temporary, later writes being accepted again; oracle: the payloads the client has decoded are a prefix of the Sends, identical in bytes and kind. non-trivial: the failing write fell inside the sequence and a pre-encoded frame came behind it").Use(t)
	rapid.Check(t, func(rt *rapid.T) {
		c := wfCase{Upgraded: rapid.Bool().Draw(rt, "upgraded"), Held: rapid.Bool().Draw(rt, "oneBatch"), ErrKind: rapid.SampledFrom([]string{"plain", "timeout", "temporary"}).Draw(rt, "errorKind")}
		n := rapid.IntRange(2, 6).Draw(rt, "n")
		total := int64(0)
		for i := 0; i < n; i++ {
			m := wfMsg{Len: rapid.SampledFrom([]int{1, 10, 49, 125, 126, 300, 3000}).Draw(rt, "len"), Pre: rapid.Bool().Draw(rt, "preEncoded"), Bin: rapid.IntRange(0, 3).Draw(rt, "binary") == 0}
			c.Msgs = append(c.Msgs, m)
			total += int64(m.Len) + 4
		}
		c.FaultAt = rapid.Int64Range(0, total).Draw(rt, "faultAt")
		journal("C01wf %v", c)
		var fail string
		var stats map[string]bool
		res := bubble(t, func() { fail, stats = runWF(c) })
		res.rethrow()
		var cl []string
		for k := range stats {
			cl = append(cl, k)
		}
		col.Case(c.String(), stats["a-write-failed-part-way"] && stats["pre-encoded-frame-behind-the-fault"], map[string]any{"case": c.String()}, cl...)
		if fail != "" {
			rt.Fatalf("%v: %s", c, fail)
		}
		if res.Leak != "" {
			rt.Fatalf("%v: %s", c, clipStr(res.Leak, 1500))
		}
	})
	col.RequireClasses(t, "a-write-failed-part-way", "pre-encoded-frame-behind-the-fault")
}

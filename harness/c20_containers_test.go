package harness

// C20 (b) — Slice / Set / Map: sequential model-based tests (return values,
// contents, errors instead of panics, no storage shared with caller slices),
// concurrent histories checked for linearizability with porcupine, and
// uniqueness of the id helpers.

import (
	"math"
	"fmt"
	"regexp"
	"runtime"
	"sort"
	"strings"
	"sync"
	"sync/atomic"
	"testing"
	"time"

	"github.com/anishathalye/porcupine"
	"github.com/zishang520/engine.io/v2/types"
	"github.com/zishang520/engine.io/v2/utils"
	"pgregory.net/rapid"
)

const (
	sigSpliceNeg     = "slice-splice-negative-count-panics"
	sigSliceAlias    = "slice-unshift-splice-alias-caller-storage"
	sigYeastDup      = "yeast-concurrent-duplicates"
	callerPoison     = -777000
	callerSpareGuard = -555000
)

// callerSlice is a slice handed to the container: n live elements followed by
// spare capacity filled with guard values.
type callerSlice struct {
	s     []int
	full  []int // s[:cap]
	want  []int // expected contents of full after the call
	where string
}

func mkCaller(vals []int, spare int, where string) *callerSlice {
	full := make([]int, len(vals)+spare)
	copy(full, vals)
	for i := len(vals); i < len(full); i++ {
		full[i] = callerSpareGuard - i
	}
	return &callerSlice{s: full[:len(vals):len(full)], full: full, want: append([]int(nil), full...), where: where}
}

func (c *callerSlice) check() string {
	for i := range c.full {
		if c.full[i] != c.want[i] {
			return fmt.Sprintf("caller's slice passed to %s was modified by the container: backing array index %d (len %d cap %d) is %d, was %d", c.where, i, len(c.s), cap(c.s), c.full[i], c.want[i])
		}
	}
	return ""
}

// poison overwrites the caller's whole backing array: if the container shares
// it, its contents change.
func (c *callerSlice) poison() {
	for i := range c.full {
		c.full[i] = callerPoison - i
	}
	c.want = append([]int(nil), c.full...)
}

type slOp struct {
	Kind  string
	A, B  int
	Vals  []int
	Spare int
	Rev   bool
}

func (o slOp) String() string {
	return fmt.Sprintf("%s(%d,%d,%v+%d,%v)", o.Kind, o.A, o.B, o.Vals, o.Spare, o.Rev)
}

var slKinds = []string{"push", "push", "unshift", "unshift", "pop", "shift", "get", "set", "slice", "filter", "splice", "splice", "splice", "remove", "removeAll", "range", "rangeSplice", "rangeSplice", "findIndex", "all", "clear", "allAndClear", "len", "replace", "doWrite", "doRead"}

var extremeInts = []int{math.MaxInt, math.MaxInt - 1, math.MaxInt - 9, math.MinInt, math.MinInt + 1, 1 << 31, -(1 << 31), 1 << 32, 1 << 62}

func genSlOps(rt *rapid.T, allowNeg, allowSpare bool, col *Collector) []slOp {
	n := rapid.IntRange(1, 30).Draw(rt, "nops")
	ops := make([]slOp, n)
	next := 1
	for i := range ops {
		l := fmt.Sprintf("op%d", i)
		o := slOp{Kind: rapid.SampledFrom(slKinds).Draw(rt, l+".kind")}
		o.A = rapid.IntRange(-2, 9).Draw(rt, l+".a")
		o.B = rapid.IntRange(-2, 9).Draw(rt, l+".b")
		// indices and counts at the ends of the integer range ("delete up to the end" is usually written MaxInt)
		switch rapid.IntRange(0, 11).Draw(rt, l+".extreme") {
		case 0:
			o.B = rapid.SampledFrom(extremeInts).Draw(rt, l+".xb")
			col.Class("extreme-count-or-end")
		case 1:
			o.A = rapid.SampledFrom(extremeInts).Draw(rt, l+".xa")
			col.Class("extreme-index")
		}
		switch o.Kind {
		case "push", "unshift", "splice", "rangeSplice", "replace":
			m := rapid.IntRange(0, 4).Draw(rt, l+".n")
			for j := 0; j < m; j++ {
				o.Vals = append(o.Vals, next)
				next++
			}
			o.Spare = rapid.SampledFrom([]int{0, 0, 1, 3, 8}).Draw(rt, l+".spare")
			if !allowSpare && o.Spare > 0 && (o.Kind == "unshift" || o.Kind == "splice" || o.Kind == "rangeSplice") {
				col.Exclude("caller slice with spare capacity passed to Unshift/Splice (known finding " + sigSliceAlias + ")")
				o.Spare = 0
			}
		case "set":
			o.Vals = []int{next}
			next++
		case "range":
			o.Rev = rapid.Bool().Draw(rt, l+".rev")
		}
		if o.Kind == "rangeSplice" {
			o.Rev = rapid.Bool().Draw(rt, l+".rev")
		}
		if !allowNeg && (o.Kind == "splice" || o.Kind == "rangeSplice") && o.B < 0 {
			col.Exclude("negative delete count (known finding " + sigSpliceNeg + ")")
			o.B = 0
		}
		ops[i] = o
	}
	return ops
}

func eqInts(a, b []int) bool {
	if len(a) != len(b) {
		return false
	}
	for i := range a {
		if a[i] != b[i] {
			return false
		}
	}
	return true
}

func modelSplice(m []int, start, del int, ins []int) (nm, removed []int, ok bool) {
	if start < 0 || start > len(m) || del < 0 {
		return m, nil, false
	}
	if del > len(m)-start {
		del = len(m) - start
	}
	removed = append([]int(nil), m[start:start+del]...)
	nm = append([]int(nil), m[:start]...)
	nm = append(nm, ins...)
	nm = append(nm, m[start+del:]...)
	return nm, removed, true
}

// runSlCase executes ops against types.Slice and a []int model.
func runSlCase(ops []slOp) (fail string, stats map[string]bool) {
	stats = map[string]bool{}
	s := types.NewSlice[int]()
	var model []int
	var callers []*callerSlice // every caller slice ever passed in (outside the exempt operations)
	isEven := func(v int) bool { return v%2 == 0 }
	for i, o := range ops {
		what := fmt.Sprintf("step %d %v on %v", i, o, model)
		var pv any
		func() {
			defer func() { pv = recover() }()
			var cs *callerSlice
			if o.Kind == "push" || o.Kind == "unshift" || o.Kind == "splice" || o.Kind == "rangeSplice" {
				cs = mkCaller(o.Vals, o.Spare, o.Kind)
				if o.Spare > 0 && len(o.Vals) > 0 {
					stats["spare-capacity"] = true
				}
			}
			switch o.Kind {
			case "push":
				got := s.Push(cs.s...)
				model = append(model, o.Vals...)
				if got != len(model) {
					fail = fmt.Sprintf("%s returned %d, want %d", what, got, len(model))
				}
			case "unshift":
				got := s.Unshift(cs.s...)
				model = append(append([]int(nil), o.Vals...), model...)
				if got != len(model) {
					fail = fmt.Sprintf("%s returned %d, want %d", what, got, len(model))
				}
			case "pop":
				v, err := s.Pop()
				if len(model) == 0 {
					stats["invalid-arg"] = true
					if err == nil {
						fail = fmt.Sprintf("%s: no error on empty slice", what)
					}
				} else {
					if err != nil || v != model[len(model)-1] {
						fail = fmt.Sprintf("%s = %d,%v", what, v, err)
					}
					model = model[:len(model)-1]
				}
			case "shift":
				v, err := s.Shift()
				if len(model) == 0 {
					stats["invalid-arg"] = true
					if err == nil {
						fail = fmt.Sprintf("%s: no error on empty slice", what)
					}
				} else {
					if err != nil || v != model[0] {
						fail = fmt.Sprintf("%s = %d,%v", what, v, err)
					}
					model = model[1:]
				}
			case "get":
				v, err := s.Get(o.A)
				if o.A < 0 || o.A >= len(model) {
					stats["invalid-arg"] = true
					if err == nil {
						fail = fmt.Sprintf("%s: no error for index out of range", what)
					}
				} else if err != nil || v != model[o.A] {
					fail = fmt.Sprintf("%s = %d,%v", what, v, err)
				}
			case "set":
				err := s.Set(o.A, o.Vals[0])
				if o.A < 0 || o.A >= len(model) {
					stats["invalid-arg"] = true
					if err == nil {
						fail = fmt.Sprintf("%s: no error for index out of range", what)
					}
				} else {
					if err != nil {
						fail = fmt.Sprintf("%s: %v", what, err)
					}
					model = append([]int(nil), model...)
					model[o.A] = o.Vals[0]
				}
			case "slice":
				got, err := s.Slice(o.A, o.B)
				if o.A < 0 || o.B > len(model) || o.A > o.B {
					stats["invalid-arg"] = true
					if err == nil {
						fail = fmt.Sprintf("%s: no error for invalid range", what)
					}
				} else {
					if err != nil || !eqInts(got, model[o.A:o.B]) {
						fail = fmt.Sprintf("%s = %v,%v", what, got, err)
					}
					for k := range got {
						got[k] = callerPoison // the result is documented as a new slice
					}
				}
			case "filter":
				got := s.Filter(isEven)
				var want []int
				for _, v := range model {
					if isEven(v) {
						want = append(want, v)
					}
				}
				if !eqInts(got, want) {
					fail = fmt.Sprintf("%s = %v want %v", what, got, want)
				}
				for k := range got {
					got[k] = callerPoison
				}
			case "splice":
				removed, err := s.Splice(o.A, o.B, cs.s...)
				nm, wantRemoved, ok := modelSplice(model, o.A, o.B, o.Vals)
				if !ok {
					stats["invalid-arg"] = true
					if o.B < 0 {
						stats["negative-count"] = true
					}
					if err == nil {
						fail = fmt.Sprintf("%s: no error for invalid start/count (returned %v)", what, removed)
					}
				} else {
					if err != nil || !eqInts(removed, wantRemoved) {
						fail = fmt.Sprintf("%s = %v,%v want %v", what, removed, err, wantRemoved)
					}
					model = nm
				}
			case "rangeSplice":
				// splice at the first element (in iteration order) that is even
				calls := 0
				removed, err := s.RangeAndSplice(func(v int, idx int) (bool, int, int, []int) {
					calls++
					if isEven(v) {
						return true, idx + o.A - 2, o.B, cs.s
					}
					return false, 0, 0, nil
				}, o.Rev)
				hit := -1
				if o.Rev {
					for k := len(model) - 1; k >= 0; k-- {
						if isEven(model[k]) {
							hit = k
							break
						}
					}
				} else {
					for k := range model {
						if isEven(model[k]) {
							hit = k
							break
						}
					}
				}
				if hit < 0 {
					if err != nil || len(removed) != 0 {
						fail = fmt.Sprintf("%s: nothing matched but got %v,%v", what, removed, err)
					}
				} else {
					nm, wantRemoved, ok := modelSplice(model, hit+o.A-2, o.B, o.Vals)
					if !ok {
						stats["invalid-arg"] = true
						if err == nil {
							fail = fmt.Sprintf("%s: no error for invalid start/count %d/%d (returned %v)", what, hit+o.A-2, o.B, removed)
						}
					} else {
						if err != nil || !eqInts(removed, wantRemoved) {
							fail = fmt.Sprintf("%s (splice at %d) = %v,%v want %v", what, hit+o.A-2, removed, err, wantRemoved)
						}
						model = nm
					}
				}
			case "remove":
				s.Remove(isEven)
				for k, v := range model {
					if isEven(v) {
						model = append(append([]int(nil), model[:k]...), model[k+1:]...)
						break
					}
				}
			case "removeAll":
				s.RemoveAll(isEven)
				var nm []int
				for _, v := range model {
					if !isEven(v) {
						nm = append(nm, v)
					}
				}
				model = nm
			case "range":
				var got, want []int
				stop := o.A
				s.Range(func(v int, idx int) bool {
					got = append(got, v*1000+idx)
					return len(got) <= stop
				}, o.Rev)
				if o.Rev {
					for k := len(model) - 1; k >= 0; k-- {
						want = append(want, model[k]*1000+k)
						if len(want) > stop {
							break
						}
					}
				} else {
					for k := range model {
						want = append(want, model[k]*1000+k)
						if len(want) > stop {
							break
						}
					}
				}
				if !eqInts(got, want) {
					fail = fmt.Sprintf("%s visited %v want %v", what, got, want)
				}
			case "findIndex":
				got := s.FindIndex(func(v int) bool { return v == o.A })
				want := -1
				for k, v := range model {
					if v == o.A {
						want = k
						break
					}
				}
				if got != want {
					fail = fmt.Sprintf("%s = %d want %d", what, got, want)
				}
			case "all":
				got := s.All()
				if !eqInts(got, model) {
					fail = fmt.Sprintf("%s = %v", what, got)
				}
				for k := range got {
					got[k] = callerPoison // documented as a copy
				}
			case "clear":
				s.Clear()
				model = nil
			case "allAndClear":
				got := s.AllAndClear()
				if !eqInts(got, model) {
					fail = fmt.Sprintf("%s = %v", what, got)
				}
				for k := range got {
					got[k] = callerPoison
				}
				model = nil
			case "len":
				if got := s.Len(); got != len(model) {
					fail = fmt.Sprintf("%s = %d", what, got)
				}
			case "replace":
				// exempt from the no-sharing rule: hand over a slice the harness never touches again
				fresh := append(make([]int, 0, len(o.Vals)+o.Spare), o.Vals...)
				s.Replace(fresh)
				model = append([]int(nil), o.Vals...)
			case "doWrite":
				s.DoWrite(func(e []int) []int {
					if !eqInts(e, model) {
						fail = fmt.Sprintf("%s saw %v", what, e)
					}
					return append(e, 100000+i)
				})
				model = append(append([]int(nil), model...), 100000+i)
			case "doRead":
				s.DoRead(func(e []int) {
					if !eqInts(e, model) {
						fail = fmt.Sprintf("%s saw %v", what, e)
					}
				})
			}
			if fail != "" {
				return
			}
			if cs != nil {
				if msg := cs.check(); msg != "" {
					fail = what + ": " + msg
					return
				}
				cs.poison()
				callers = append(callers, cs)
			}
		}()
		if pv != nil {
			return fmt.Sprintf("%s panicked: %v", what, pv), stats
		}
		if fail != "" {
			return fail, stats
		}
		// after every step: contents equal the model (so poisoned caller/result
		// slices do not show through) and no earlier caller slice was touched
		if got := s.All(); !eqInts(got, model) {
			return fmt.Sprintf("%s: container now holds %v, model %v (values near %d come from a caller's or a returned slice that was overwritten after the call: shared storage)", what, got, model, callerPoison), stats
		}
		for _, c := range callers {
			if msg := c.check(); msg != "" {
				return fmt.Sprintf("%s: %s (after it had returned: shared storage)", what, msg), stats
			}
		}
	}
	return "", stats
}

func TestC20Slice(t *testing.T) {
	col := NewCollector("TestC20Slice",
		"rapid: scripts of 1-30 operations over the full method set of types.Slice[int] (indices/counts in -2..9, caller-owned argument slices with 0-8 elements of spare capacity filled with guard values) against a []int model; oracle: results and contents equal the model after every step, invalid index/count => error and unchanged contents, never a panic; every caller slice's whole backing array is unchanged by the call, is then overwritten with poison and must neither show through the container nor be touched by later operations (constructor, Replace, DoWrite exempt). non-trivial: an invalid argument or a spare-capacity argument slice").Use(t)
	allowNeg := !isKnown("C20", sigSpliceNeg)
	allowSpare := !isKnown("C20", sigSliceAlias)
	rapid.Check(t, func(rt *rapid.T) {
		ops := genSlOps(rt, allowNeg, allowSpare, col)
		journal("C20 slice %v", ops)
		fail, stats := runSlCase(ops)
		var classes []string
		for k := range stats {
			classes = append(classes, k)
		}
		sort.Strings(classes)
		col.Case(fmt.Sprint(ops), len(stats) > 0, map[string]any{"ops": fmt.Sprint(ops)}, classes...)
		if fail != "" {
			rt.Fatalf("script %v\n%s", ops, fail)
		}
	})
	req := []string{"invalid-arg"}
	if allowSpare {
		req = append(req, "spare-capacity")
	}
	if allowNeg {
		req = append(req, "negative-count")
	}
	col.RequireClasses(t, req...)
}

func TestC20SliceFindings(t *testing.T) {
	col := NewCollector("TestC20SliceFindings", "deterministic scripts for the recorded Slice findings (negative Splice count; Unshift/Splice given a caller slice with spare capacity). every case is non-trivial").Use(t)
	for _, sc := range [][]slOp{
		{{Kind: "push", Vals: []int{1, 2, 3}}, {Kind: "splice", A: 1, B: -1}},
		{{Kind: "push", Vals: []int{2}}, {Kind: "rangeSplice", A: 2, B: -2}},
	} {
		fail, _ := runSlCase(sc)
		col.Case(fmt.Sprint(sc), true, map[string]any{"ops": fmt.Sprint(sc), "result": fail}, "negative-count")
		demoFinding(t, col, "C20", sigSpliceNeg, fail != "", fail)
	}
	for _, sc := range [][]slOp{
		{{Kind: "push", Vals: []int{1, 2}}, {Kind: "unshift", Vals: []int{3}, Spare: 3}},
		{{Kind: "unshift", Vals: []int{3, 4}, Spare: 1}, {Kind: "push", Vals: []int{5}}},
		{{Kind: "push", Vals: []int{1, 2, 3}}, {Kind: "splice", A: 1, B: 0, Vals: []int{9}, Spare: 4}},
	} {
		fail, _ := runSlCase(sc)
		col.Case(fmt.Sprint(sc), true, map[string]any{"ops": fmt.Sprint(sc), "result": fail}, "spare-capacity")
		demoFinding(t, col, "C20", sigSliceAlias, fail != "", fail)
	}
}

// ---- Set and Map, sequential -------------------------------------------------

func TestC20SetMapSequential(t *testing.T) {
	col := NewCollector("TestC20SetMapSequential",
		"rapid: scripts of 1-40 operations on types.Set[int] (NewSet, Add, Delete with 0-3 keys, Has, Len, Keys, All, Clear, JSON round trip) and types.Map[int,int] (Load, Store, LoadOrStore, LoadAndDelete, Delete, Swap, CompareAndSwap, CompareAndDelete, Range with early stop and with mutation from the callback, Len, Keys, Values, Clear) over 5 keys against Go maps; oracle: every return value and the full contents equal the model after every step; non-trivial: script with a compare-and-X on a present key, a Range that mutates, or a multi-key Add/Delete").Use(t)
	rapid.Check(t, func(rt *rapid.T) {
		n := rapid.IntRange(1, 40).Draw(rt, "nops")
		init := rapid.SliceOfN(rapid.IntRange(0, 4), 0, 3).Draw(rt, "init")
		set := types.NewSet(init...)
		sm := map[int]bool{}
		for _, k := range init {
			sm[k] = true
		}
		var m types.Map[int, int]
		mm := map[int]int{}
		var trace []string
		nontrivial := false
		stats := map[string]bool{}
		failf := func(f string, a ...any) {
			rt.Fatalf("after %v: %s", trace, fmt.Sprintf(f, a...))
		}
		for i := 0; i < n; i++ {
			l := fmt.Sprintf("op%d", i)
			kind := rapid.SampledFrom([]string{"s.add", "s.delete", "s.has", "s.len", "s.keys", "s.clear", "s.json",
				"m.load", "m.store", "m.store", "m.loadOrStore", "m.loadAndDelete", "m.delete", "m.swap", "m.cas", "m.cad", "m.range", "m.rangeMut", "m.len", "m.keys", "m.clear"}).Draw(rt, l+".kind")
			k := rapid.IntRange(0, 4).Draw(rt, l+".k")
			v := rapid.IntRange(0, 3).Draw(rt, l+".v")
			v2 := rapid.IntRange(0, 3).Draw(rt, l+".v2")
			trace = append(trace, fmt.Sprintf("%s(%d,%d,%d)", kind, k, v, v2))
			if len(trace) > 12 {
				trace = trace[1:]
			}
			switch kind {
			case "s.add", "s.delete":
				keys := rapid.SliceOfN(rapid.IntRange(0, 4), 0, 3).Draw(rt, l+".keys")
				var got bool
				if kind == "s.add" {
					got = set.Add(keys...)
					for _, x := range keys {
						sm[x] = true
					}
				} else {
					got = set.Delete(keys...)
					for _, x := range keys {
						delete(sm, x)
					}
				}
				if got != (len(keys) > 0) {
					failf("%s(%v) returned %v", kind, keys, got)
				}
				if len(keys) > 1 {
					stats["multi-key"] = true
				}
			case "s.has":
				if set.Has(k) != sm[k] {
					failf("Has(%d)=%v", k, set.Has(k))
				}
			case "s.len":
				if set.Len() != len(sm) {
					failf("Set.Len=%d want %d", set.Len(), len(sm))
				}
			case "s.keys":
				ks := set.Keys()
				sort.Ints(ks)
				var want []int
				for x := range sm {
					want = append(want, x)
				}
				sort.Ints(want)
				if !eqInts(ks, want) {
					failf("Set.Keys=%v want %v", ks, want)
				}
				all := set.All()
				if len(all) != len(sm) {
					failf("Set.All has %d entries want %d", len(all), len(sm))
				}
				all[99] = types.NULL // a copy: must not show through
				if set.Has(99) {
					failf("Set.All returned the internal map")
				}
			case "s.clear":
				set.Clear()
				sm = map[int]bool{}
			case "s.json":
				b, err := set.MarshalJSON()
				if err != nil {
					failf("MarshalJSON: %v", err)
				}
				s2 := types.NewSet[int]()
				if err := s2.UnmarshalJSON(b); err != nil {
					failf("UnmarshalJSON(%s): %v", b, err)
				}
				if s2.Len() != len(sm) {
					failf("JSON round trip lost keys: %s -> %v", b, s2.Keys())
				}
				for x := range sm {
					if !s2.Has(x) {
						failf("JSON round trip lost key %d", x)
					}
				}
				// a document the set cannot take (an element of another type, not an array, cut short) is rejected
				// with an error, and a rejected operation leaves the set as it was
				bad := rapid.SampledFrom([]string{`[1,"x",2]`, `["a"]`, `{"a":1}`, `[1,2`, `7`, `[1.5]`, `[null,{}]`}).Draw(rt, l+".badJSON")
				if err := set.UnmarshalJSON([]byte(bad)); err == nil {
					failf("UnmarshalJSON(%s) into a Set[int] reported no error", bad)
				}
				stats["rejected-unmarshal"] = true
				if set.Len() != len(sm) {
					failf("UnmarshalJSON(%s) was rejected with an error and changed the set: keys %v, model %v", bad, set.Keys(), sm)
				}
				for x := range sm {
					if !set.Has(x) {
						failf("UnmarshalJSON(%s) was rejected with an error and the set lost key %d", bad, x)
					}
				}
			case "m.load":
				got, ok := m.Load(k)
				want, wok := mm[k]
				if ok != wok || got != want {
					failf("Load(%d)=%d,%v want %d,%v", k, got, ok, want, wok)
				}
			case "m.store":
				m.Store(k, v)
				mm[k] = v
			case "m.loadOrStore":
				got, loaded := m.LoadOrStore(k, v)
				want, wok := mm[k]
				if !wok {
					mm[k] = v
					want = v
				}
				if loaded != wok || got != want {
					failf("LoadOrStore(%d,%d)=%d,%v want %d,%v", k, v, got, loaded, want, wok)
				}
			case "m.loadAndDelete":
				got, loaded := m.LoadAndDelete(k)
				want, wok := mm[k]
				delete(mm, k)
				if loaded != wok || got != want {
					failf("LoadAndDelete(%d)=%d,%v want %d,%v", k, got, loaded, want, wok)
				}
			case "m.delete":
				m.Delete(k)
				delete(mm, k)
			case "m.swap":
				got, loaded := m.Swap(k, v)
				want, wok := mm[k]
				mm[k] = v
				if loaded != wok || got != want {
					failf("Swap(%d,%d)=%d,%v want %d,%v", k, v, got, loaded, want, wok)
				}
			case "m.cas":
				got := m.CompareAndSwap(k, v, v2)
				cur, ok := mm[k]
				want := ok && cur == v
				if want {
					mm[k] = v2
					stats["cas-hit"] = true
				}
				if got != want {
					failf("CompareAndSwap(%d,%d,%d)=%v want %v (current %d,%v)", k, v, v2, got, want, cur, ok)
				}
			case "m.cad":
				got := m.CompareAndDelete(k, v)
				cur, ok := mm[k]
				want := ok && cur == v
				if want {
					delete(mm, k)
					stats["cas-hit"] = true
				}
				if got != want {
					failf("CompareAndDelete(%d,%d)=%v want %v", k, v, got, want)
				}
			case "m.range":
				seen := map[int]int{}
				stop := v + 1
				m.Range(func(kk, vv int) bool {
					if _, dup := seen[kk]; dup {
						failf("Range visited key %d twice", kk)
					}
					seen[kk] = vv
					return len(seen) < stop
				})
				for kk, vv := range seen {
					if mm[kk] != vv {
						failf("Range yielded %d=%d, model has %d", kk, vv, mm[kk])
					}
				}
				if len(seen) != min(stop, len(mm)) {
					failf("Range visited %d entries, want %d", len(seen), min(stop, len(mm)))
				}
			case "m.rangeMut":
				// the callback mutates the map (allowed): delete the visited key's neighbour and store another key
				stats["range-mutation"] = true
				seen := map[int]bool{}
				before := map[int]int{}
				for a, b := range mm {
					before[a] = b
				}
				m.Range(func(kk, vv int) bool {
					if seen[kk] {
						failf("Range visited key %d twice", kk)
					}
					seen[kk] = true
					m.Delete((kk + 1) % 5)
					delete(mm, (kk+1)%5)
					m.Store((kk+2)%5, vv)
					mm[(kk+2)%5] = vv
					return true
				})
			case "m.len":
				if m.Len() != len(mm) {
					failf("Map.Len=%d want %d", m.Len(), len(mm))
				}
			case "m.keys":
				ks := m.Keys()
				sort.Ints(ks)
				var want []int
				for x := range mm {
					want = append(want, x)
				}
				sort.Ints(want)
				if !eqInts(ks, want) {
					failf("Map.Keys=%v want %v", ks, want)
				}
				vs := m.Values()
				sort.Ints(vs)
				var wv []int
				for _, x := range mm {
					wv = append(wv, x)
				}
				sort.Ints(wv)
				if !eqInts(vs, wv) {
					failf("Map.Values=%v want %v", vs, wv)
				}
			case "m.clear":
				m.Clear()
				mm = map[int]int{}
			}
			// full comparison after every step
			if set.Len() != len(sm) {
				failf("set has %d keys, model %d", set.Len(), len(sm))
			}
			for x := 0; x < 5; x++ {
				if set.Has(x) != sm[x] {
					failf("set.Has(%d)=%v, model %v", x, set.Has(x), sm[x])
				}
				got, ok := m.Load(x)
				want, wok := mm[x]
				if ok != wok || got != want {
					failf("map[%d]=%d,%v model %d,%v", x, got, ok, want, wok)
				}
			}
		}
		var classes []string
		for k := range stats {
			classes = append(classes, k)
			nontrivial = true
		}
		sort.Strings(classes)
		col.Case(fmt.Sprint(init, trace, n), nontrivial, map[string]any{"init": init, "last_ops": fmt.Sprint(trace)}, classes...)
	})
	col.RequireClasses(t, "cas-hit", "range-mutation", "multi-key")
}

// ---- concurrent histories -----------------------------------------------------

type linOp struct {
	Kind    string
	K, V, W int
}

type linOut struct {
	V   int
	Ok  bool
	Arr string
}

func (o linOp) String() string { return fmt.Sprintf("%s(%d,%d,%d)", o.Kind, o.K, o.V, o.W) }

func cloneMap(m map[int]int) map[int]int {
	n := make(map[int]int, len(m))
	for k, v := range m {
		n[k] = v
	}
	return n
}

var mapLinModel = porcupine.Model{
	Init: func() any { return map[int]int{} },
	Step: func(state, in, out any) (bool, any) {
		m := state.(map[int]int)
		o, r := in.(linOp), out.(linOut)
		cur, ok := m[o.K]
		switch o.Kind {
		case "load":
			return r.Ok == ok && r.V == cur, m
		case "store":
			n := cloneMap(m)
			n[o.K] = o.V
			return true, n
		case "loadOrStore":
			if ok {
				return r.Ok && r.V == cur, m
			}
			n := cloneMap(m)
			n[o.K] = o.V
			return !r.Ok && r.V == o.V, n
		case "loadAndDelete":
			n := cloneMap(m)
			delete(n, o.K)
			return r.Ok == ok && r.V == cur, n
		case "delete":
			n := cloneMap(m)
			delete(n, o.K)
			return true, n
		case "swap":
			n := cloneMap(m)
			n[o.K] = o.V
			return r.Ok == ok && r.V == cur, n
		case "cas":
			if ok && cur == o.V {
				n := cloneMap(m)
				n[o.K] = o.W
				return r.Ok, n
			}
			return !r.Ok, m
		case "cad":
			if ok && cur == o.V {
				n := cloneMap(m)
				delete(n, o.K)
				return r.Ok, n
			}
			return !r.Ok, m
		case "clear":
			return true, map[int]int{}
		}
		return false, m
	},
	Equal: func(a, b any) bool {
		x, y := a.(map[int]int), b.(map[int]int)
		if len(x) != len(y) {
			return false
		}
		for k, v := range x {
			if w, ok := y[k]; !ok || w != v {
				return false
			}
		}
		return true
	},
	DescribeOperation: func(in, out any) string { return fmt.Sprintf("%v -> %v", in, out) },
}

var sliceLinModel = porcupine.Model{
	Init: func() any { return "" },
	Step: func(state, in, out any) (bool, any) {
		var s []string
		if st := state.(string); st != "" {
			s = strings.Split(st, ",")
		}
		o, r := in.(linOp), out.(linOut)
		join := func(x []string) string { return strings.Join(x, ",") }
		switch o.Kind {
		case "push":
			n := append(append([]string(nil), s...), fmt.Sprint(o.V))
			return r.V == len(n), join(n)
		case "unshift":
			n := append([]string{fmt.Sprint(o.V)}, s...)
			return r.V == len(n), join(n)
		case "pop":
			if len(s) == 0 {
				return !r.Ok, join(s)
			}
			return r.Ok && fmt.Sprint(r.V) == s[len(s)-1], join(s[:len(s)-1])
		case "shift":
			if len(s) == 0 {
				return !r.Ok, join(s)
			}
			return r.Ok && fmt.Sprint(r.V) == s[0], join(s[1:])
		case "len":
			return r.V == len(s), join(s)
		case "get":
			if o.K >= len(s) {
				return !r.Ok, join(s)
			}
			return r.Ok && fmt.Sprint(r.V) == s[o.K], join(s)
		case "all":
			return r.Arr == join(s), join(s)
		case "allAndClear":
			return r.Arr == join(s), ""
		case "spliceDel":
			if o.K > len(s) {
				return !r.Ok, join(s)
			}
			d := min(1, len(s)-o.K)
			n := append(append([]string(nil), s[:o.K]...), s[o.K+d:]...)
			return r.Ok && r.Arr == join(s[o.K:o.K+d]), join(n)
		}
		return false, state
	},
	Equal:             func(a, b any) bool { return a.(string) == b.(string) },
	DescribeOperation: func(in, out any) string { return fmt.Sprintf("%v -> %v", in, out) },
}

var setLinModel = porcupine.Model{
	Init: func() any { return uint(0) },
	Step: func(state, in, out any) (bool, any) {
		s := state.(uint)
		o, r := in.(linOp), out.(linOut)
		bit := uint(1) << uint(o.K)
		switch o.Kind {
		case "add":
			return true, s | bit
		case "del":
			return true, s &^ bit
		case "has":
			return r.Ok == (s&bit != 0), s
		case "len":
			n := 0
			for x := s; x != 0; x &= x - 1 {
				n++
			}
			return r.V == n, s
		case "clear":
			return true, uint(0)
		}
		return false, s
	},
	Equal:             func(a, b any) bool { return a.(uint) == b.(uint) },
	DescribeOperation: func(in, out any) string { return fmt.Sprintf("%v -> %v", in, out) },
}

func joinInts(a []int) string {
	s := make([]string, len(a))
	for i, v := range a {
		s[i] = fmt.Sprint(v)
	}
	return strings.Join(s, ",")
}

// runLin runs the per-goroutine op lists concurrently and returns the history.
func runLin(progs [][]linOp, apply func(linOp) linOut) []porcupine.Operation {
	var clock atomic.Int64
	var mu sync.Mutex
	var hist []porcupine.Operation
	var ready atomic.Int64
	n := int64(len(progs))
	var wg sync.WaitGroup
	for g, prog := range progs {
		wg.Add(1)
		go func() {
			defer wg.Done()
			local := make([]porcupine.Operation, 0, len(prog))
			// spin barrier: all goroutines enter their first operation together
			ready.Add(1)
			for spins := 0; ready.Load() < n; spins++ {
				if spins > 1<<14 {
					runtime.Gosched()
				}
			}
			for _, op := range prog {
				c := clock.Add(1)
				out := apply(op)
				r := clock.Add(1)
				local = append(local, porcupine.Operation{ClientId: g, Input: op, Call: c, Output: out, Return: r})
			}
			mu.Lock()
			hist = append(hist, local...)
			mu.Unlock()
		}()
	}
	wg.Wait()
	return hist
}

func overlapping(h []porcupine.Operation) bool {
	for i := range h {
		for j := range h {
			if h[i].ClientId != h[j].ClientId && h[i].Call < h[j].Return && h[j].Call < h[i].Return {
				return true
			}
		}
	}
	return false
}

func histString(h []porcupine.Operation) string {
	sort.Slice(h, func(i, j int) bool { return h[i].Call < h[j].Call })
	var b strings.Builder
	for _, o := range h {
		fmt.Fprintf(&b, "\n  g%d [%d,%d] %v -> %+v", o.ClientId, o.Call, o.Return, o.Input, o.Output)
	}
	return b.String()
}

func TestC20Linearizable(t *testing.T) {
	col := NewCollector("TestC20Linearizable",
		"rapid: 2-8 goroutines x 1-5 operations on one shared types.Map (per-key operations and Clear over 2 keys), types.Slice (Push/Unshift/Pop/Shift/Len/Get/All/AllAndClear/Splice-delete) or types.Set (Add/Delete/Has/Len/Clear over 3 keys), released together on the real scheduler, call/return stamped with an atomic counter; oracle: porcupine finds a linearization w.r.t. the sequential model. non-trivial: the recorded history has two overlapping operations of different goroutines. A failure here depends on the Go scheduler: the history is printed, the case cannot be replayed deterministically").Use(t)
	rapid.Check(t, func(rt *rapid.T) {
		which := rapid.SampledFrom([]string{"map", "slice", "set"}).Draw(rt, "container")
		g := rapid.IntRange(2, 8).Draw(rt, "goroutines")
		progs := make([][]linOp, g)
		var kinds []string
		switch which {
		case "map":
			kinds = []string{"load", "store", "loadOrStore", "loadAndDelete", "delete", "swap", "cas", "cad", "clear"}
		case "slice":
			kinds = []string{"push", "push", "unshift", "pop", "shift", "len", "get", "all", "allAndClear", "spliceDel"}
		default:
			kinds = []string{"add", "add", "del", "has", "has", "len", "clear"}
		}
		val := 1
		for i := range progs {
			n := rapid.IntRange(1, 5).Draw(rt, fmt.Sprintf("n%d", i))
			for j := 0; j < n; j++ {
				o := linOp{Kind: rapid.SampledFrom(kinds).Draw(rt, fmt.Sprintf("k%d.%d", i, j))}
				switch which {
				case "map":
					o.K = rapid.IntRange(0, 1).Draw(rt, fmt.Sprintf("key%d.%d", i, j))
					o.V = rapid.IntRange(0, 2).Draw(rt, fmt.Sprintf("v%d.%d", i, j))
					o.W = rapid.IntRange(0, 2).Draw(rt, fmt.Sprintf("w%d.%d", i, j))
				case "slice":
					o.K = rapid.IntRange(0, 2).Draw(rt, fmt.Sprintf("idx%d.%d", i, j))
					o.V = val
					val++
				default:
					o.K = rapid.IntRange(0, 2).Draw(rt, fmt.Sprintf("key%d.%d", i, j))
				}
				progs[i] = append(progs[i], o)
			}
		}
		var hist []porcupine.Operation
		var model porcupine.Model
		switch which {
		case "map":
			var m types.Map[int, int]
			model = mapLinModel
			hist = runLin(progs, func(o linOp) (r linOut) {
				switch o.Kind {
				case "load":
					r.V, r.Ok = m.Load(o.K)
				case "store":
					m.Store(o.K, o.V)
				case "loadOrStore":
					r.V, r.Ok = m.LoadOrStore(o.K, o.V)
				case "loadAndDelete":
					r.V, r.Ok = m.LoadAndDelete(o.K)
				case "delete":
					m.Delete(o.K)
				case "swap":
					r.V, r.Ok = m.Swap(o.K, o.V)
				case "cas":
					r.Ok = m.CompareAndSwap(o.K, o.V, o.W)
				case "cad":
					r.Ok = m.CompareAndDelete(o.K, o.V)
				case "clear":
					m.Clear()
				}
				return
			})
		case "slice":
			s := types.NewSlice[int]()
			model = sliceLinModel
			hist = runLin(progs, func(o linOp) (r linOut) {
				var err error
				switch o.Kind {
				case "push":
					r.V = s.Push(o.V)
				case "unshift":
					r.V = s.Unshift(o.V)
				case "pop":
					r.V, err = s.Pop()
					r.Ok = err == nil
				case "shift":
					r.V, err = s.Shift()
					r.Ok = err == nil
				case "len":
					r.V = s.Len()
				case "get":
					r.V, err = s.Get(o.K)
					r.Ok = err == nil
				case "all":
					r.Arr = joinInts(s.All())
				case "allAndClear":
					r.Arr = joinInts(s.AllAndClear())
				case "spliceDel":
					var rem []int
					rem, err = s.Splice(o.K, 1)
					r.Ok = err == nil
					r.Arr = joinInts(rem)
				}
				return
			})
		default:
			s := types.NewSet[int]()
			model = setLinModel
			hist = runLin(progs, func(o linOp) (r linOut) {
				switch o.Kind {
				case "add":
					s.Add(o.K)
				case "del":
					s.Delete(o.K)
				case "has":
					r.Ok = s.Has(o.K)
				case "len":
					r.V = s.Len()
				case "clear":
					s.Clear()
				}
				return
			})
		}
		ov := overlapping(hist)
		res := porcupine.CheckOperationsTimeout(model, hist, 10*time.Second)
		cls := []string{"container." + which, fmt.Sprintf("overlap=%v", ov)}
		if res == porcupine.Unknown {
			cls = append(cls, "checker-timeout")
		}
		col.Case(fmt.Sprint(which, progs, ov), ov, map[string]any{"container": which, "programs": fmt.Sprint(progs)}, cls...)
		if res == porcupine.Illegal {
			rt.Fatalf("%s history is not linearizable:%s", which, histString(hist))
		}
	})
	col.RequireClasses(t, "container.map", "container.slice", "container.set", "overlap=true")
}

// ---- id helpers ---------------------------------------------------------------

var idRe = regexp.MustCompile(`^[A-Za-z0-9_-]+$`)

func TestC20Ids(t *testing.T) {
	col := NewCollector("TestC20Ids",
		"rapid: 1-16 goroutines x 1-400 calls of utils.Base64Id().GenerateId() and of one utils.Yeast instance (real clock, and in a synctest bubble where the clock is frozen so every call falls into the same millisecond); oracle: no value is returned twice (ids: within the whole process run), ids match ^[A-Za-z0-9_-]+$. non-trivial: >=2 goroutines").Use(t)
	var seenIDs sync.Map
	yeastOK := !isKnown("C20", sigYeastDup)
	rapid.Check(t, func(rt *rapid.T) {
		g := rapid.IntRange(1, 16).Draw(rt, "goroutines")
		per := rapid.IntRange(1, 400).Draw(rt, "calls")
		frozen := rapid.Bool().Draw(rt, "frozenClock")
		if !yeastOK && g > 1 {
			col.Exclude("concurrent Yeast() (known finding " + sigYeastDup + ")")
		}
		var dupID, badID, dupYeast atomic.Value
		run := func() {
			y := utils.NewYeast()
			var ys sync.Map
			var wg sync.WaitGroup
			start := make(chan struct{})
			for i := 0; i < g; i++ {
				wg.Add(1)
				go func() {
					defer wg.Done()
					<-start
					for j := 0; j < per; j++ {
						id, err := utils.Base64Id().GenerateId()
						if err != nil {
							badID.Store("error: " + err.Error())
							continue
						}
						if !idRe.MatchString(id) {
							badID.Store(id)
						}
						if _, dup := seenIDs.LoadOrStore(id, true); dup {
							dupID.Store(id)
						}
						if yeastOK || g == 1 {
							v := y.Yeast()
							if _, dup := ys.LoadOrStore(v, true); dup {
								dupYeast.Store(v)
							}
						}
					}
				}()
			}
			close(start)
			wg.Wait()
		}
		if frozen {
			res := bubble(t, run)
			res.rethrow()
			if res.Leak != "" {
				rt.Fatalf("bubble: %s", res.Leak)
			}
		} else {
			run()
		}
		col.Case(fmt.Sprintf("%d/%d/%v", g, per, frozen), g >= 2, map[string]any{"goroutines": g, "callsEach": per, "frozenClock": frozen}, fmt.Sprintf("frozen=%v", frozen), fmt.Sprintf("concurrent=%v", g >= 2))
		if v := badID.Load(); v != nil {
			rt.Fatalf("GenerateId returned %q (not URL-safe / error)", v)
		}
		if v := dupID.Load(); v != nil {
			rt.Fatalf("GenerateId returned %q twice", v)
		}
		if v := dupYeast.Load(); v != nil {
			rt.Fatalf("Yeast() returned %q twice (%d goroutines x %d calls, frozen clock %v)", v, g, per, frozen)
		}
	})
}

func TestC20YeastFinding(t *testing.T) {
	col := NewCollector("TestC20YeastFinding", "deterministic-ish demonstration: 16 goroutines x 2000 Yeast() calls on one instance, 5 rounds; oracle: no duplicates. every round is non-trivial").Use(t)
	dups := 0
	example := ""
	for round := 0; round < 5; round++ {
		y := utils.NewYeast()
		var ys sync.Map
		var wg sync.WaitGroup
		var d atomic.Int64
		for i := 0; i < 16; i++ {
			wg.Add(1)
			go func() {
				defer wg.Done()
				for j := 0; j < 2000; j++ {
					v := y.Yeast()
					if _, dup := ys.LoadOrStore(v, true); dup {
						d.Add(1)
						example = v
					}
				}
			}()
		}
		wg.Wait()
		dups += int(d.Load())
		col.Case(fmt.Sprint("round", round), true, map[string]any{"round": round, "duplicates": d.Load()}, "yeast-16x2000")
	}
	demoFinding(t, col, "C20", sigYeastDup, dups > 0, fmt.Sprintf("%d duplicate values in 5 rounds of 16 goroutines x 2000 calls, e.g. %q", dups, example))
}

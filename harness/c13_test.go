package harness

import (
	"bufio"
	"bytes"
	"fmt"
	"io"
	"testing"

	webtrans "github.com/zishang520/engine.io/v2/webtransport"
	"pgregory.net/rapid"
)

const sigWTSplit = "wt-streaming-writer-splits-above-write-buffer"

type wtMsgSpec struct {
	Bin     bool
	Len     int
	Path    int
	Chunks  []int
	Seed    byte
	EOFData bool
	cls     string
}

func (m wtMsgSpec) String() string {
	k := "text"
	if m.Bin {
		k = "bin"
	}
	return fmt.Sprintf("{%s len=%d via %s chunks=%v}", k, m.Len, wtPathNames[m.Path], m.Chunks)
}

func genChunks(t *rapid.T, W int, label string) []int {
	switch rapid.IntRange(0, 5).Draw(t, label+".k") {
	case 0:
		return nil // whole
	case 1:
		return []int{1}
	case 2:
		return []int{W}
	case 3:
		return []int{2*(W+9) + 1} // above the "don't buffer" threshold of the server writer
	case 4:
		return rapid.SliceOfN(rapid.IntRange(1, 3*W), 1, 4).Draw(t, label)
	default:
		return rapid.SliceOfN(rapid.IntRange(1, 40), 1, 3).Draw(t, label)
	}
}

func genWTMsg(t *rapid.T, W int, i int, known bool, col *Collector) wtMsgSpec {
	l := fmt.Sprintf("m%d", i)
	m := wtMsgSpec{}
	m.Bin = rapid.Bool().Draw(t, l+".bin")
	m.Path = rapid.IntRange(0, numWTPaths-1).Draw(t, l+".path")
	m.Len, m.cls = genWTLen(t, W, l+".len")
	m.Seed = rapid.Byte().Draw(t, l+".seed")
	if m.Path == pathWriterWrite || m.Path == pathWriterWriteString || m.Path == pathWriterReadFrom {
		m.Chunks = genChunks(t, W, l+".chunks")
	}
	if m.Path == pathWriterReadFrom {
		m.EOFData = rapid.Bool().Draw(t, l+".eofdata")
	}
	streaming := m.Path == pathWriterWrite || m.Path == pathWriterWriteString || m.Path == pathWriterReadFrom
	if known && streaming && m.Len >= W {
		// recorded finding: exclude exactly the class that is known to fail
		col.Exclude("streaming write of >= W bytes (known finding " + sigWTSplit + ")")
		m.Len = m.Len % W
		m.cls = "len<W(excluded)"
	}
	return m
}

func TestC13RoundTrip(t *testing.T) {
	col := NewCollector("TestC13RoundTrip",
		"rapid: sequences of 1-8 messages (kind, boundary-biased length, write path, chunking) through a writer Conn with drawn write-buffer size/pool/role into an in-memory stream read by a peer Conn with drawn read-buffer size and read fragmentation, the stream's end reported after or together with the last bytes; optionally a second connection sharing the buffer pool with a message in flight at the same time (two open writers, alternating chunks); oracle: ReadMessage sequence == written sequence. non-trivial: some message longer than the write buffer, or written in >1 chunk, or read fragmentation finer than a frame header (<=8 bytes)").Use(t)
	known := isKnown("C13", sigWTSplit)
	rapid.Check(t, propC13(col, known))
	col.RequireClasses(t, "msg>W", "chunked", "read.frag<=8", "path.NextWriter+ReadFrom", "path.WritePreparedMessage", "two-connections-sharing-the-pool", "end-with-last-bytes=true", "caller-supplied-write-buffer.smaller-than-configured", "caller-supplied-write-buffer.larger-than-configured", "caller-supplied-reader")
}

// TestC13KnownSplit is the deterministic demonstration of the recorded
// streaming-writer defect (fails as a violation unless listed as known).
func TestC13StreamingAboveBuffer(t *testing.T) {
	col := NewCollector("TestC13StreamingAboveBuffer",
		"deterministic sweep: one text message of W-1..W+1, 2W, 2(W+9)+1 bytes through each streaming write path (Write in one call, WriteString, ReadFrom) on a server-role and client-role Conn with the default buffer; oracle: peer reads exactly one message with identical bytes. every case is non-trivial").Use(t)
	var bad []string
	for _, server := range []bool{true, false} {
		for _, path := range []int{pathWriterWrite, pathWriterWriteString, pathWriterReadFrom} {
			for _, n := range []int{4095, 4096, 4097, 8192, 2*(4096+9) + 1, 9000} {
				for _, eofData := range []bool{false, true} {
					if path != pathWriterReadFrom && eofData {
						continue
					}
					pipe := newHalfPipe()
					wc := webtrans.NewConn(nil, &memWTStream{out: pipe, in: newHalfPipe()}, server, 0, 0, nil, nil, nil)
					rc := webtrans.NewConn(nil, &memWTStream{in: pipe, out: newHalfPipe()}, !server, 0, 0, nil, nil, nil)
					pl := makePayload(n, 7)
					if err := wtWrite(wc, path, false, pl, nil, eofData); err != nil {
						t.Fatalf("write: %v", err)
					}
					pipe.CloseWrite()
					var shape []string
					ok := true
					cnt := 0
					for {
						mt, d, err := rc.ReadMessage()
						if err != nil {
							if err != io.EOF && !webtrans.IsCloseError(err, webtrans.CloseAbnormalClosure) {
								shape = append(shape, "err:"+err.Error())
							}
							break
						}
						cnt++
						k := "text"
						if mt == webtrans.BinaryMessage {
							k = "binary"
						}
						shape = append(shape, fmt.Sprintf("%s:%d", k, len(d)))
						if cnt == 1 && (mt != webtrans.TextMessage || !bytes.Equal(d, pl)) {
							ok = false
						}
					}
					if cnt != 1 {
						ok = false
					}
					col.Case(fmt.Sprintf("%v|%d|%d|%v", server, path, n, eofData), true,
						map[string]any{"server": server, "path": wtPathNames[path], "len": n, "read": shape}, "path."+wtPathNames[path])
					if !ok {
						bad = append(bad, fmt.Sprintf("server=%v %s len=%d => %v", server, wtPathNames[path], n, shape))
					}
				}
			}
		}
	}
	detail := ""
	if len(bad) > 0 {
		detail = fmt.Sprintf("%d of the swept cases are read back as several messages, e.g. %s", len(bad), bad[0])
	}
	demoFinding(t, col, "C13", sigWTSplit, len(bad) > 0, detail)
}

// propC13 is the property body of TestC13RoundTrip, shared with the native fuzz target (rapid.MakeFuzz).
func propC13(col *Collector, known bool) func(rt *rapid.T) {
	return func(rt *rapid.T) {
		W := 0
		if rapid.Bool().Draw(rt, "Wtable") {
			W = rapid.SampledFrom(wtWriteBufSizes).Draw(rt, "W")
		} else {
			W = rapid.IntRange(16, 16384).Draw(rt, "Wr")
		}
		eW := effW(W)
		rbs := rapid.SampledFrom([]int{0, 16, 17, 64, 1024, 4096, 70000}).Draw(rt, "rbs")
		usePool := rapid.Bool().Draw(rt, "pool")
		isServer := rapid.Bool().Draw(rt, "writerIsServer")
		// a write buffer and a buffered reader handed in by the caller (NewConn's last two parameters: what an
		// upgrader that reuses the hijacked connection's buffers passes): their sizes are unrelated to the configured ones
		var ownBuf []byte
		ownReader := rapid.Bool().Draw(rt, "callerSuppliedReader")
		if !usePool && rapid.IntRange(0, 2).Draw(rt, "callerSuppliedWriteBuf") == 0 {
			ownBuf = make([]byte, rapid.SampledFrom([]int{265, 266, 300, 521, 1033, 4096, 4105, 4106, 9000, 20000}).Draw(rt, "ownBufLen"))
			eW = len(ownBuf) - 9
		}
		n := rapid.IntRange(1, 8).Draw(rt, "n")
		msgs := make([]wtMsgSpec, n)
		for i := range msgs {
			msgs[i] = genWTMsg(rt, eW, i, known, col)
		}
		var frag []int
		switch rapid.IntRange(0, 4).Draw(rt, "fragk") {
		case 0:
		case 1:
			frag = []int{1}
		case 2:
			frag = rapid.SliceOfN(rapid.IntRange(1, 8), 1, 4).Draw(rt, "frag")
		case 3:
			frag = rapid.SliceOfN(rapid.IntRange(1, 5000), 1, 4).Draw(rt, "fragL")
		default:
			frag = []int{rapid.IntRange(2, 9).Draw(rt, "frag1")}
		}
		journal("C13 W=%d rbs=%d pool=%v server=%v msgs=%v frag=%v ownBuf=%d ownReader=%v", W, rbs, usePool, isServer, msgs, frag, len(ownBuf), ownReader)

		pipe := newHalfPipe()
		pipe.frag = frag
		// the peer ends the stream after its last message; the carrier may report that end together with the last bytes
		pipe.endWithData = rapid.Bool().Draw(rt, "endWithData")
		var pool webtrans.BufferPool
		mp := &memPool{}
		if usePool {
			pool = mp
		}
		wc := webtrans.NewConn(nil, &memWTStream{out: pipe, in: newHalfPipe()}, isServer, 0, W, pool, nil, ownBuf)
		var rc *webtrans.Conn
		if ownReader {
			rstream := &memWTStream{in: pipe, out: newHalfPipe()}
			rc = webtrans.NewConn(nil, rstream, !isServer, 0, 0, nil, bufio.NewReaderSize(rstream, effW(rbs)), nil)
		} else {
			rc = webtrans.NewConn(nil, &memWTStream{in: pipe, out: newHalfPipe()}, !isServer, rbs, 0, nil, nil, nil)
		}
		type wm struct {
			bin  bool
			data []byte
		}
		var want []wm
		for _, m := range msgs {
			pl := makePayload(m.Len, m.Seed)
			if err := wtWrite(wc, m.Path, m.Bin, pl, m.Chunks, m.EOFData); err != nil {
				rt.Fatalf("write %v: %v", m, err)
			}
			want = append(want, wm{m.Bin, pl})
		}
		// a second connection that shares the buffer pool: two messages in flight at once, one per connection,
		// written in alternating chunks (two open writers); each peer must receive its own bytes
		sharedPool := usePool && rapid.Bool().Draw(rt, "secondConnSharingThePool")
		var pipeB *halfPipe
		var wantA2, wantB []byte
		if sharedPool {
			pipeB = newHalfPipe()
			wcB := webtrans.NewConn(nil, &memWTStream{out: pipeB, in: newHalfPipe()}, isServer, 0, W, pool, nil, nil)
			la := rapid.IntRange(1, 2*eW).Draw(rt, "pairLenA")
			lb := rapid.IntRange(1, 2*eW).Draw(rt, "pairLenB")
			wantA2, wantB = makePayload(la, 0xa1), makePayload(lb, 0xb2)
			chunk := rapid.IntRange(1, eW).Draw(rt, "pairChunk")
			wa, err := wc.NextWriter(webtrans.BinaryMessage)
			if err != nil {
				rt.Fatalf("NextWriter A: %v", err)
			}
			wb, err := wcB.NextWriter(webtrans.BinaryMessage)
			if err != nil {
				rt.Fatalf("NextWriter B: %v", err)
			}
			ra, rb := wantA2, wantB
			for len(ra) > 0 || len(rb) > 0 {
				if n := min(chunk, len(ra)); n > 0 {
					if _, err := wa.Write(ra[:n]); err != nil {
						rt.Fatalf("write A: %v", err)
					}
					ra = ra[n:]
				}
				if n := min(chunk, len(rb)); n > 0 {
					if _, err := wb.Write(rb[:n]); err != nil {
						rt.Fatalf("write B: %v", err)
					}
					rb = rb[n:]
				}
			}
			if err := wa.Close(); err != nil {
				rt.Fatalf("close A: %v", err)
			}
			if err := wb.Close(); err != nil {
				rt.Fatalf("close B: %v", err)
			}
			want = append(want, wm{true, wantA2})
			pipeB.CloseWrite()
		}
		pipe.CloseWrite()
		var got []wm
		for i := 0; i < len(want)+3; i++ {
			mt, data, err := rc.ReadMessage()
			if err != nil {
				break
			}
			got = append(got, wm{mt == webtrans.BinaryMessage, data})
		}
		nontrivial := false
		classes := []string{fmt.Sprintf("role.server=%v", isServer), fmt.Sprintf("pool=%v", usePool), fmt.Sprintf("end-with-last-bytes=%v", pipe.endWithData)}
		if ownBuf != nil {
			cls := "caller-supplied-write-buffer.larger-than-configured"
			if len(ownBuf) < effW(W)+9 {
				cls = "caller-supplied-write-buffer.smaller-than-configured"
			}
			classes = append(classes, cls)
		}
		if ownReader {
			classes = append(classes, "caller-supplied-reader")
		}
		if sharedPool {
			classes = append(classes, "two-connections-sharing-the-pool")
			rcB := webtrans.NewConn(nil, &memWTStream{in: pipeB, out: newHalfPipe()}, !isServer, rbs, 0, nil, nil, nil)
			mt, data, err := rcB.ReadMessage()
			if err != nil || mt != webtrans.BinaryMessage || !bytes.Equal(data, wantB) {
				rt.Fatalf("second connection (sharing the buffer pool): wrote %d bytes, its peer read kind=%d len=%d err=%v equal=%v", len(wantB), mt, len(data), err, bytes.Equal(data, wantB))
			}
		}
		if len(frag) > 0 && frag[0] <= 8 {
			nontrivial = true
			classes = append(classes, "read.frag<=8")
		}
		for _, m := range msgs {
			classes = append(classes, "path."+wtPathNames[m.Path], m.cls)
			if m.Len > eW {
				nontrivial = true
				classes = append(classes, "msg>W")
			}
			if len(m.Chunks) > 0 && m.Len > m.Chunks[0] {
				nontrivial = true
				classes = append(classes, "chunked")
			}
		}
		col.Case(fmt.Sprintf("%d|%d|%v|%v|%v|%v|%d|%v", W, rbs, usePool, isServer, msgs, frag, len(ownBuf), ownReader), nontrivial,
			map[string]any{"W": W, "readBuf": rbs, "pool": usePool, "writerIsServer": isServer, "msgs": fmt.Sprint(msgs), "readFrag": frag, "callerWriteBuf": len(ownBuf), "callerReader": ownReader}, classes...)
		if len(got) != len(want) {
			desc := ""
			for _, g := range got {
				desc += fmt.Sprintf("[bin=%v len=%d]", g.bin, len(g.data))
			}
			rt.Fatalf("wrote %d messages %v, peer read %d: %s", len(want), msgs, len(got), desc)
		}
		for i := range want {
			if got[i].bin != want[i].bin || !bytes.Equal(got[i].data, want[i].data) {
				what := "the message written while the second connection's writer was open"
				if i < len(msgs) {
					what = fmt.Sprint(msgs[i])
				}
				rt.Fatalf("message %d %s: got bin=%v len=%d (equal=%v)", i, what, got[i].bin, len(got[i].data), bytes.Equal(got[i].data, want[i].data))
			}
		}
		_ = mp
	}
}

// TestC13WriteFault: a write of the stream fails once in the middle of the sequence (a write deadline, flow
// control), having taken only part of the bytes; afterwards the stream accepts writes again. The frame that was
// being written is cut short on the wire, so nothing that is written behind it can be read as a message: every
// message the writer ACCEPTED (its write call returned nil) must still be read by the peer intact and in order.
func TestC13WriteFault(t *testing.T) {
	col := NewCollector("TestC13WriteFault",
		"rapid: 2-7 messages (kind, boundary-biased length, write path, chunking) through a writer Conn (drawn buffer size, role); one Write of the underlying stream, at a drawn byte offset of the whole sequence, takes only the bytes up to that offset and fails with a plain error or a net.Error calling itself a timeout or temporary (transient: later stream writes succeed again); the writer carries on with the remaining messages on every path, ignoring errors; oracle: the messages whose write call returned nil are exactly what the peer reads, intact and in order, before its first error. non-trivial: the fault fell inside a frame and at least one message was attempted after it").Use(t)
	rapid.Check(t, func(rt *rapid.T) {
		W := rapid.SampledFrom([]int{0, 16, 64, 128, 1024, 4096}).Draw(rt, "W")
		eW := effW(W)
		isServer := rapid.Bool().Draw(rt, "writerIsServer")
		n := rapid.IntRange(2, 7).Draw(rt, "n")
		msgs := make([]wtMsgSpec, n)
		total := 0
		for i := range msgs {
			msgs[i] = genWTMsg(rt, eW, i, false, col)
			if msgs[i].Len > 70000 {
				msgs[i].Len = 70000
			}
			total += msgs[i].Len + 9
		}
		at := rapid.IntRange(0, total).Draw(rt, "faultAt")
		journal("C13 fault W=%d server=%v msgs=%v faultAt=%d", W, isServer, msgs, at)
		pipe := newHalfPipe()
		// what the stream calls the failure: a plain error, or a net.Error that calls itself a timeout (a missed write
		// deadline) or temporary; whatever its type, part of a frame is on the wire
		var ferr error = errInjected
		errKind := rapid.SampledFrom([]string{"plain", "timeout", "timeout", "temporary"}).Draw(rt, "errorKind")
		switch errKind {
		case "timeout":
			ferr = &c15NetErr{msg: "i/o timeout (write deadline)", timeout: true}
		case "temporary":
			ferr = &c15NetErr{msg: "temporary failure", temporary: true}
		}
		pipe.failWriteAt, pipe.failWriteE, pipe.failWriteTransient = int64(at), ferr, true
		wc := webtrans.NewConn(nil, &memWTStream{out: pipe, in: newHalfPipe()}, isServer, 0, W, nil, nil, nil)
		rc := webtrans.NewConn(nil, &memWTStream{in: pipe, out: newHalfPipe()}, !isServer, 0, 0, nil, nil, nil)
		type wm struct {
			bin  bool
			data []byte
		}
		var accepted []wm
		failedAt, after := -1, 0
		for i, m := range msgs {
			pl := makePayload(m.Len, m.Seed)
			err := wtWrite(wc, m.Path, m.Bin, pl, m.Chunks, m.EOFData)
			if err == nil {
				accepted = append(accepted, wm{m.Bin, pl})
				if failedAt >= 0 {
					after++
				}
			} else if failedAt < 0 {
				failedAt = i
			}
		}
		pipe.CloseWrite()
		var got []wm
		for i := 0; i < len(msgs)+2; i++ {
			mt, data, err := rc.ReadMessage()
			if err != nil {
				break
			}
			got = append(got, wm{mt == webtrans.BinaryMessage, data})
		}
		classes := []string{fmt.Sprintf("role.server=%v", isServer)}
		if failedAt >= 0 {
			classes = append(classes, "a-write-failed", "write-error."+errKind)
			if failedAt < len(msgs)-1 {
				classes = append(classes, "messages-attempted-after-the-failure", "after.path."+wtPathNames[msgs[failedAt+1].Path])
			}
		} else {
			classes = append(classes, "fault-beyond-the-sequence")
		}
		col.Case(fmt.Sprintf("%d|%v|%v|%d", W, isServer, msgs, at), failedAt >= 0 && failedAt < len(msgs)-1,
			map[string]any{"W": W, "writerIsServer": isServer, "msgs": fmt.Sprint(msgs), "faultAt": at, "firstFailedWrite": failedAt, "acceptedAfterTheFailure": after}, classes...)
		if len(got) != len(accepted) {
			rt.Fatalf("stream write fault at byte %d (message %d failed): %d writes returned nil (%d of them after the failure), the peer read %d messages before its first error; msgs %v", at, failedAt, len(accepted), after, len(got), msgs)
		}
		for i := range accepted {
			if got[i].bin != accepted[i].bin || !bytes.Equal(got[i].data, accepted[i].data) {
				rt.Fatalf("stream write fault at byte %d: accepted message %d read back as bin=%v len=%d (equal=%v); msgs %v", at, i, got[i].bin, len(got[i].data), bytes.Equal(got[i].data, accepted[i].data), msgs)
			}
		}
	})
	col.RequireClasses(t, "a-write-failed", "write-error.timeout", "write-error.temporary", "messages-attempted-after-the-failure", "after.path.WritePreparedMessage", "after.path.WriteMessage", "after.path.NextWriter+Write")
}

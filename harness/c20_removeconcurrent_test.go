package harness

// C20 — "removing a listener removes exactly one registration of that
// function" when several goroutines remove listeners of the same event at the
// same time (RemoveListener against RemoveListener, and against Once listeners
// that take themselves out while an emit runs).  Removals commute, so the
// table afterwards is determined whatever the interleaving.

import (
	"fmt"
	"sync"
	"sync/atomic"
	"testing"

	"github.com/zishang520/engine.io/v2/types"
	"pgregory.net/rapid"
)

var rcHits [8]atomic.Int64

func rcL0(...any) { rcHits[0].Add(1) }
func rcL1(...any) { rcHits[1].Add(1) }
func rcL2(...any) { rcHits[2].Add(1) }
func rcL3(...any) { rcHits[3].Add(1) }
func rcL4(...any) { rcHits[4].Add(1) }
func rcL5(...any) { rcHits[5].Add(1) }
func rcL6(...any) { rcHits[6].Add(1) }
func rcL7(...any) { rcHits[7].Add(1) }

var rcFns = []types.Listener{rcL0, rcL1, rcL2, rcL3, rcL4, rcL5, rcL6, rcL7}

func TestC20RemoveConcurrent(t *testing.T) {
	col := NewCollector("TestC20RemoveConcurrent",
		"rapid: 2-8 distinct listener functions registered 0-60 times each on one event in a drawn order (On, some of them Once), then 2-8 goroutines released together on all cores, each with its own drawn list of RemoveListener calls (more calls for a function than it has registrations included) and optionally an Emit that makes the Once registrations take themselves out meanwhile; removals commute, so the oracle holds for every interleaving: afterwards each function has exactly max(0, registered - removal calls) On registrations (counted by one Emit and by ListenerCount), the calls that returned true for a function number exactly min(registered, calls) when no Once registration of it existed, and nothing panics. non-trivial: two goroutines remove from the same event at once (always)").Use(t)
	// the interleaving belongs to the scheduler: a failure need not repeat when rapid re-runs the case to shrink it
	// ("flaky test"), so what was seen is also written to the test's own log
	fatalf := func(rt *rapid.T, format string, args ...any) {
		t.Logf("schedule-dependent failure: "+format, args...)
		rt.Fatalf(format, args...)
	}
	rapid.Check(t, func(rt *rapid.T) {
		k := rapid.IntRange(2, len(rcFns)).Draw(rt, "functions")
		var order []int
		reg := make([]int, k)
		for i := 0; i < k; i++ {
			reg[i] = rapid.IntRange(0, 60).Draw(rt, fmt.Sprintf("registrations%d", i))
			for j := 0; j < reg[i]; j++ {
				order = append(order, i)
			}
		}
		if len(order) > 1 {
			order = rapid.Permutation(order).Draw(rt, "order")
		}
		// a few one-time registrations of their own function (the last one), placed in front so that their
		// self-removal shifts everything behind them
		nOnce := rapid.IntRange(0, 3).Draw(rt, "once")
		withEmit := nOnce > 0
		em := types.NewEventEmitter()
		var onceHits atomic.Int64
		for i := 0; i < nOnce; i++ {
			em.Once("e", func(...any) { onceHits.Add(1) })
		}
		for _, f := range order {
			em.On("e", rcFns[f])
		}
		g := rapid.IntRange(2, 8).Draw(rt, "goroutines")
		plans := make([][]int, g)
		calls := make([]int, k)
		for i := range plans {
			n := rapid.IntRange(1, 40).Draw(rt, fmt.Sprintf("removals%d", i))
			for j := 0; j < n; j++ {
				f := rapid.IntRange(0, k-1).Draw(rt, "fn")
				plans[i] = append(plans[i], f)
				calls[f]++
			}
		}
		for i := range rcHits {
			rcHits[i].Store(0)
		}
		trues := make([]atomic.Int64, k)
		start := make(chan struct{})
		var wg sync.WaitGroup
		var panicked atomic.Value
		for i := 0; i < g; i++ {
			wg.Add(1)
			go func(plan []int) {
				defer wg.Done()
				defer func() {
					if r := recover(); r != nil {
						panicked.Store(fmt.Sprint(r))
					}
				}()
				<-start
				for _, f := range plan {
					if em.RemoveListener("e", rcFns[f]) {
						trues[f].Add(1)
					}
				}
			}(plans[i])
		}
		if withEmit {
			wg.Add(1)
			go func() {
				defer wg.Done()
				defer func() {
					if r := recover(); r != nil {
						panicked.Store(fmt.Sprint(r))
					}
				}()
				<-start
				em.Emit("e")
			}()
		}
		close(start)
		wg.Wait()
		cls := []string{fmt.Sprintf("goroutines=%d", g)}
		if withEmit {
			cls = append(cls, "once-listeners-removing-themselves-meanwhile")
		}
		col.Case(fmt.Sprint(reg, nOnce, plans), true, map[string]any{"registered": fmt.Sprint(reg), "once": nOnce, "removalCallsPerFunction": fmt.Sprint(calls), "goroutines": g}, cls...)
		if p := panicked.Load(); p != nil {
			fatalf(rt, "registered %v (+%d Once), removal calls %v from %d goroutines: panic: %v", reg, nOnce, calls, g, p)
		}
		if withEmit && onceHits.Load() != int64(nOnce) {
			fatalf(rt, "registered %v (+%d Once): the Once listeners ran %d times in one Emit", reg, nOnce, onceHits.Load())
		}
		for i := range rcHits {
			rcHits[i].Store(0)
		}
		em.Emit("e")
		total := 0
		for f := 0; f < k; f++ {
			want := max(0, reg[f]-calls[f])
			total += want
			if got := int(rcHits[f].Load()); got != want {
				fatalf(rt, "registered %v (+%d Once), RemoveListener calls per function %v spread over %d goroutines: function %d has %d registrations left, want %d (each call removes exactly one registration of its own function)", reg, nOnce, calls, g, f, got, want)
			}
			if got, want := int(trues[f].Load()), min(reg[f], calls[f]); got != want {
				fatalf(rt, "registered %v (+%d Once), RemoveListener calls per function %v spread over %d goroutines: %d calls for function %d reported a removal, want %d", reg, nOnce, calls, g, got, f, want)
			}
		}
		if n := em.ListenerCount("e"); n != total {
			fatalf(rt, "registered %v (+%d Once), removal calls %v: ListenerCount = %d, want %d", reg, nOnce, calls, n, total)
		}
	})
	col.RequireClasses(t, "once-listeners-removing-themselves-meanwhile")
}

package harness

// C05 for WebTransport sessions: the CONNECT request passes the application's
// allow-request hook (403 with the hook's text when it refuses) and the
// WebTransport upgrade (400, bad request, when it cannot be performed); then
// the first message on the client's stream decides: "0" opens a session, any
// other first message (or none within the upgrade timeout) opens none. Every
// refusal leaves the server as it was.

import (
	"errors"
	"fmt"
	"github.com/quic-go/quic-go"
	"net/http"
	"sort"
	"testing"
	"time"

	"github.com/zishang520/engine.io/v2/config"
	"github.com/zishang520/engine.io/v2/types"
	"pgregory.net/rapid"
)

type waCase struct {
	Hook    string // none | accept | reject
	HookMsg string
	Shape   string // valid | notConnect | wrongProto | noDraftHeader | draftHeaderTwice
	First   string // open | message | garbage | noStream | binaryOpen | empty | streamEndsAtOnce | streamResetAtOnce | cutInHeader | cutInPayload | cutInPayloadBinary (the stream ends or is reset before / inside the first message)
}

func (c waCase) String() string {
	return fmt.Sprintf("{hook=%s(%q) request=%s firstMessage=%s}", c.Hook, c.HookMsg, c.Shape, c.First)
}

func runWA(c waCase) (fail string, stats map[string]bool) {
	stats = map[string]bool{}
	o := config.DefaultServerOptions()
	o.SetTransports(types.NewSet("polling", "websocket", "webtransport"))
	o.SetUpgradeTimeout(2 * time.Second)
	hookCalls := 0
	switch c.Hook {
	case "accept":
		o.SetAllowRequest(func(*types.HttpContext) error { hookCalls++; return nil })
	case "reject":
		o.SetAllowRequest(func(*types.HttpContext) error { hookCalls++; return errors.New(c.HookMsg) })
	}
	w := NewWorld(o)
	defer w.Teardown()
	// an existing session that must not be disturbed (admitted before the hook could refuse it: hooks see only handshakes)
	var canary *c06Sess
	var csr *SessRec
	if c.Hook != "reject" {
		var why string
		canary, why = doHandshake(w, c06HS{Carrier: "polling", EIO: "4"})
		if canary == nil {
			return "harness: canary: " + why, stats
		}
		csr = w.Get(canary.pc.Sid)
	}
	nErr, nConn, reg, nReg := len(w.ConnErrs), len(w.Order), fmt.Sprint(w.RegistryKeys()), len(w.RegistryKeys())
	tc := &WTClient{W: w, O: ClientOpts{Rev: 4}}
	tc.ReqMod = func(r *http.Request) {
		switch c.Shape {
		case "notConnect":
			r.Method = http.MethodGet
		case "wrongProto":
			r.Proto = "HTTP/3.0"
		case "noDraftHeader":
			r.Header.Del("Sec-Webtransport-Http3-Draft02")
		case "draftHeaderTwice":
			r.Header["Sec-Webtransport-Http3-Draft02"] = []string{"1", "1"}
		}
	}
	ex := tc.Start()
	Settle()
	what := c.String()
	refused := func(status, code int, text string) string {
		snap := ex.Snap()
		if !snap.Returned {
			return fmt.Sprintf("%s: the handler of the refused request never returned", what)
		}
		var body struct {
			Code    int    `json:"code"`
			Message string `json:"message"`
		}
		if snap.Status != status || jsonUnmarshal(snap.Body, &body) != nil || body.Code != code || body.Message != text {
			return fmt.Sprintf("%s: answered %v, want %d {code:%d message:%q}", what, snap, status, code, text)
		}
		if got := len(w.ConnErrs) - nErr; got != 1 {
			return fmt.Sprintf("%s: %d connection_error events, want exactly one", what, got)
		}
		if em := w.ConnErrs[len(w.ConnErrs)-1]; em == nil || em.Code != code {
			return fmt.Sprintf("%s: connection_error %+v, want code %d", what, em, code)
		}
		if len(w.Order) != nConn || fmt.Sprint(w.RegistryKeys()) != reg {
			return fmt.Sprintf("%s: a refused request created a session", what)
		}
		return ""
	}
	switch {
	case c.Hook == "reject":
		stats["refused-by-the-hook"] = true
		if f := refused(403, 4, c.HookMsg); f != "" {
			return f, stats
		}
		if hookCalls != 1 {
			return fmt.Sprintf("%s: hook called %d times", what, hookCalls), stats
		}
		return "", stats
	case c.Shape != "valid":
		stats["upgrade-cannot-be-performed"] = true
		if f := refused(400, 3, "Bad request"); f != "" {
			return f, stats
		}
	default:
		if snap := ex.Snap(); snap.Status != 200 {
			return fmt.Sprintf("%s: a valid WebTransport CONNECT was answered %v", what, snap), stats
		}
		if c.First != "noStream" {
			tc.OpenBidi()
		}
		switch c.First {
		case "open":
			tc.SendFrameRaw(wtEncode(false, []byte("0")))
		case "binaryOpen":
			tc.SendFrameRaw(wtEncode(true, []byte("0")))
		case "message":
			tc.SendFrameRaw(wtEncode(false, []byte("4hello")))
		case "garbage":
			tc.SendFrameRaw(wtEncode(false, []byte("\x00\xff{")))
		case "empty":
			tc.SendFrameRaw(wtEncode(false, nil))
		case "streamEndsAtOnce":
			// the client opens its stream and finishes it without a byte
			tc.Bidi.in.CloseWrite()
			stats["stream-fault-before-the-first-message"] = true
		case "streamResetAtOnce":
			rst := &quic.StreamError{StreamID: tc.Bidi.id, ErrorCode: 0x10, Remote: true}
			tc.Bidi.in.Fail(rst, rst)
			stats["stream-fault-before-the-first-message"] = true
		case "cutInHeader":
			// the first frame announces a 16-bit length and ends inside its header
			tc.SendFrameRaw(wtEncodeForm(false, []byte("0"), 1)[:2])
			Settle()
			tc.Bidi.in.CloseWrite()
			stats["stream-fault-inside-the-first-message"] = true
		case "cutInPayload":
			// the first frame announces 20 bytes, 3 arrive, then the stream is reset
			tc.SendFrameRaw(wtEncode(false, []byte("0{\"sid\":\"0123456789\"}"))[:4])
			Settle()
			rst := &quic.StreamError{StreamID: tc.Bidi.id, ErrorCode: 0x10, Remote: true}
			tc.Bidi.in.Fail(rst, rst)
			stats["stream-fault-inside-the-first-message"] = true
		case "cutInPayloadBinary":
			tc.SendFrameRaw(wtEncode(true, []byte("0{\"sid\":\"0123456789\"}"))[:4])
			Settle()
			tc.Bidi.in.CloseWrite()
			stats["stream-fault-inside-the-first-message"] = true
		}
		Settle()
		tc.Pump()
		if c.First == "open" {
			stats["admitted"] = true
			if tc.Open == nil || len(w.Order) != nConn+1 || len(w.RegistryKeys()) != nReg+1 {
				return fmt.Sprintf("%s: conformant WebTransport handshake not admitted: open=%v connection events %d->%d registry %s -> %v closed=%v %q", what, tc.Open != nil, nConn, len(w.Order), reg, w.RegistryKeys(), tc.SessionClosed, tc.CloseMsg), stats
			}
			if got := len(w.ConnErrs) - nErr; got != 0 {
				return fmt.Sprintf("%s: %d connection_error events for an admitted handshake", what, got), stats
			}
		} else {
			stats["no-session-for-this-first-message"] = true
			if c.First == "noStream" {
				// the server gives up when the client has not opened its stream within the upgrade timeout
				time.Sleep(2*time.Second + time.Millisecond)
				Settle()
				tc.Pump()
				stats["stream-never-opened"] = true
			}
			if len(w.Order) != nConn || fmt.Sprint(w.RegistryKeys()) != reg {
				return fmt.Sprintf("%s: a session was created (connection events %d->%d, registry %s -> %v)", what, nConn, len(w.Order), reg, w.RegistryKeys()), stats
			}
			if c.First != "binaryOpen" || !tc.SessionClosed {
				// (a binary frame holding "0": whether that is an open packet is the parser's business; if a session
				// had been created the check above has fired)
			}
			if !tc.SessionClosed {
				return fmt.Sprintf("%s: the WebTransport session was neither turned into an engine session nor closed by the server", what), stats
			}
			if got := len(w.ConnErrs) - nErr; got > 1 {
				return fmt.Sprintf("%s: %d connection_error events", what, got), stats
			}
			if !ex.Snap().Returned {
				return fmt.Sprintf("%s: the handler never returned", what), stats
			}
		}
	}
	if canary != nil {
		n := len(csr.Msgs)
		canary.pc.StartPost([]Pkt{msgT("canary")}, false)
		Settle()
		if len(csr.Msgs) != n+1 || len(csr.Closes) != 0 {
			return what + ": an existing session was disturbed", stats
		}
	}
	tc.Drop()
	Settle()
	return "", stats
}

func TestC05WebTransportAdmission(t *testing.T) {
	col := NewCollector("TestC05WebTransportAdmission",
		"rapid: a WebTransport CONNECT request (valid; wrong method; wrong protocol; draft header missing or doubled) x allow-request hook (none, accepting, refusing with a drawn text incl. JSON-special and control characters) x first message on the client's stream ('0', a message packet, undecodable bytes, an empty frame, a binary frame, no stream at all within the upgrade timeout); oracle: a refusing hook answers 403 {code 4, the hook's text} before anything else; a request whose upgrade cannot be performed is answered 400 {code 3}; each with exactly one connection_error and no session; a valid request whose first message is '0' opens exactly one session (open packet, one connection event, no connection_error); any other first message (or none) opens no session, the server closes the WebTransport session and the handler returns; an existing session is undisturbed. non-trivial: a refusal").Use(t)
	rapid.Check(t, func(rt *rapid.T) {
		c := waCase{
			Hook:    rapid.SampledFrom([]string{"none", "accept", "reject", "reject"}).Draw(rt, "hook"),
			HookMsg: rapid.SampledFrom([]string{"nope", "", "quote\"back\\slash", "ünï <b>", "line\nbreak", "\x01\x7f", "{\"code\":0}"}).Draw(rt, "hookMsg"),
			Shape:   rapid.SampledFrom([]string{"valid", "valid", "valid", "notConnect", "wrongProto", "noDraftHeader", "draftHeaderTwice"}).Draw(rt, "shape"),
			First:   rapid.SampledFrom([]string{"open", "open", "message", "garbage", "noStream", "binaryOpen", "empty", "streamEndsAtOnce", "streamResetAtOnce", "cutInHeader", "cutInPayload", "cutInPayloadBinary"}).Draw(rt, "first"),
		}
		journal("C05 webtransport admission %v", c)
		var fail string
		var stats map[string]bool
		res := bubble(t, func() { fail, stats = runWA(c) })
		var cl []string
		for k := range stats {
			cl = append(cl, k)
		}
		sort.Strings(cl)
		col.Case(c.String(), stats["refused-by-the-hook"] || stats["upgrade-cannot-be-performed"] || stats["no-session-for-this-first-message"], map[string]any{"case": c.String()}, cl...)
		res.rethrow()
		if fail != "" {
			rt.Fatalf("%s", fail)
		}
		if res.Leak != "" {
			rt.Fatalf("%v: %s", c, clipStr(res.Leak, 1500))
		}
	})
	col.RequireClasses(t, "refused-by-the-hook", "upgrade-cannot-be-performed", "admitted", "no-session-for-this-first-message", "stream-never-opened", "stream-fault-before-the-first-message", "stream-fault-inside-the-first-message")
}

package harness

// Known findings: /verif/known-findings.txt (committed, never written at run
// time). Lines:
//   known: property=C13 sig=<signature> <what fails>
//   fixed: property=C05 <commit> sig=<signature> <what failed>
// A "known" entry makes the dedicated demonstration print a KNOWN-FINDING
// line instead of failing and lets generators exclude exactly that class; a
// "fixed" entry suppresses nothing.

import (
	"bufio"
	"fmt"
	"os"
	"strings"
	"sync"
	"testing"
)

type knownEntry struct {
	Status, Property, Sig, Text string
}

var (
	knownOnce sync.Once
	knownMap  map[string]knownEntry
)

func loadKnown() map[string]knownEntry {
	knownOnce.Do(func() {
		knownMap = map[string]knownEntry{}
		path := os.Getenv("VERIF_KNOWN")
		if path == "" {
			path = "/verif/known-findings.txt"
		}
		f, err := os.Open(path)
		if err != nil {
			return
		}
		defer f.Close()
		sc := bufio.NewScanner(f)
		for sc.Scan() {
			line := strings.TrimSpace(sc.Text())
			if line == "" || strings.HasPrefix(line, "#") {
				continue
			}
			status, rest, ok := strings.Cut(line, ":")
			if !ok {
				continue
			}
			e := knownEntry{Status: strings.TrimSpace(status), Text: strings.TrimSpace(rest)}
			for _, f := range strings.Fields(rest) {
				if v, ok := strings.CutPrefix(f, "property="); ok {
					e.Property = v
				}
				if v, ok := strings.CutPrefix(f, "sig="); ok {
					e.Sig = v
				}
			}
			if e.Property != "" && e.Sig != "" {
				knownMap[e.Property+"|"+e.Sig] = e
			}
		}
	})
	return knownMap
}

// isKnown reports whether the finding is listed with status "known" (still
// present, recorded rather than repaired).
func isKnown(prop, sig string) bool {
	e, ok := loadKnown()[prop+"|"+sig]
	return ok && e.Status == "known"
}

var knownPrinted sync.Map

// demoFinding runs the deterministic demonstration of one specific finding.
// violates=true means the real code still shows the defect. Listed as known:
// print the KNOWN-FINDING line and pass. Not listed (or listed as fixed):
// this is a violation.
func demoFinding(t testing.TB, c *Collector, prop, sig string, violates bool, detail string) {
	t.Helper()
	if violates {
		if isKnown(prop, sig) {
			if _, dup := knownPrinted.LoadOrStore(prop+"|"+sig, true); !dup {
				fmt.Printf("KNOWN-FINDING: property=%s sig=%s %s\n", prop, sig, detail)
			}
			if c != nil {
				c.Known(sig)
			}
			return
		}
		t.Errorf("finding %s/%s present and not listed as known: %s", prop, sig, detail)
		return
	}
	if isKnown(prop, sig) {
		fmt.Printf("NOTE: finding property=%s sig=%s is listed as known but did not reproduce (%s)\n", prop, sig, detail)
	}
}

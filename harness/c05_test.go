package harness

// C05 — routing and admission.
//
//  * TestC05Routing: exhaustive table attach-options x request-path classes,
//    each cell instantiated with rapid-drawn concrete strings, routed through
//    types.HttpServer.ServeHTTP with a marker application handler; oracle: a
//    reference implementation of "cleaned path is the attached engine path".
//  * TestC05Admission: the abstract decision table of the admission checks,
//    cells drawn by rapid and instantiated with random concrete strings;
//    oracle: a reference implementation of the documented precedence.
//  * TestC05AdmissionSweep: the same table enumerated completely with one
//    canonical instantiation per cell.

import (
	"unicode"
	"encoding/json"
	"errors"
	"fmt"
	"net/http"
	"net/url"
	"sort"
	"strings"
	"testing"

	"github.com/zishang520/engine.io/v2/config"
	"github.com/zishang520/engine.io/v2/engine"
	"github.com/zishang520/engine.io/v2/types"
	"pgregory.net/rapid"
)

const (
	sigCode5       = "unsupported-protocol-version-answered-with-code-4"
	sigDefaultPath = "default-mount-path-without-trailing-slash"
)

// ---- routing ------------------------------------------------------------------

// refCleanPath: the canonical form of a URL path as net/http defines it
// (dot segments and repeated slashes removed, rooted, trailing slash kept),
// written from that description.
func refCleanPath(p string) string {
	if p == "" {
		return "/"
	}
	trailing := strings.HasSuffix(p, "/")
	var out []string
	for _, seg := range strings.Split(p, "/") {
		switch seg {
		case "", ".":
		case "..":
			if len(out) > 0 {
				out = out[:len(out)-1]
			}
		default:
			out = append(out, seg)
		}
	}
	// a final "." or ".." segment denotes a directory but path cleaning
	// drops the slash unless the raw path ended in one
	r := "/" + strings.Join(out, "/")
	if trailing && r != "/" {
		r += "/"
	}
	return r
}

type attachSpec struct {
	Kind     string // nil | serverOnly | attach | both
	PathSet  bool
	Path     string
	SlashSet bool
	Slash    bool
	ViaNew   bool // engine.New(httpServer, opts) instead of engine.Attach
}

func (a attachSpec) String() string {
	s := a.Kind
	if a.Kind == "attach" || a.Kind == "both" {
		if a.PathSet {
			s += fmt.Sprintf(" path=%q", a.Path)
		}
		if a.SlashSet {
			s += fmt.Sprintf(" addTrailingSlash=%v", a.Slash)
		}
	}
	if a.ViaNew {
		s += " via engine.New"
	}
	return s
}

type bothOptions struct {
	*config.ServerOptions
	*config.AttachOptions
}

func (a attachSpec) options() any {
	ao := config.DefaultAttachOptions()
	if a.PathSet {
		ao.SetPath(a.Path)
	}
	if a.SlashSet {
		ao.SetAddTrailingSlash(a.Slash)
	}
	switch a.Kind {
	case "nil":
		return nil
	case "serverOnly":
		return config.DefaultServerOptions()
	case "attach":
		return ao
	default:
		return &bothOptions{config.DefaultServerOptions(), ao}
	}
}

// mount: the attached engine path according to the statement.
func (a attachSpec) mount() string {
	base := "/engine.io"
	slash := true
	if a.Kind == "attach" || a.Kind == "both" {
		if a.PathSet {
			base = strings.TrimRight(a.Path, "/")
		}
		if a.SlashSet {
			slash = a.Slash
		}
	}
	if slash {
		return base + "/"
	}
	return base
}

func refRoutesToEngine(mount, rawPath string) bool {
	c := refCleanPath(rawPath)
	if strings.HasSuffix(mount, "/") {
		return strings.HasPrefix(c, mount)
	}
	return c == mount
}

var routingPathClasses = []string{"exact", "exact+slash", "sub-path", "sub-path+slash", "missing-slash", "longer-name", "dot-segments", "dot-segments-out", "doubled-slashes", "case-variant", "unrelated", "root", "parent-of-mount", "final-dot", "final-dotdot-back", "final-dotdot-out", "final-dot-deep", "dot-name"}

func allAttachSpecs() []attachSpec {
	var out []attachSpec
	for _, viaNew := range []bool{false, true} {
		out = append(out, attachSpec{Kind: "nil", ViaNew: viaNew}, attachSpec{Kind: "serverOnly", ViaNew: viaNew})
		for _, kind := range []string{"attach", "both"} {
			for _, p := range []struct {
				set bool
				v   string
			}{{false, ""}, {true, "/engine.io"}, {true, "/engine.io/"}, {true, "/x/y"}, {true, "/x/y/"}, {true, "/socket.io"}, {true, "/a"}} {
				for _, sl := range []struct{ set, v bool }{{false, false}, {true, true}, {true, false}} {
					out = append(out, attachSpec{Kind: kind, PathSet: p.set, Path: p.v, SlashSet: sl.set, Slash: sl.v, ViaNew: viaNew})
				}
			}
		}
	}
	return out
}

func instantiatePath(rt *rapid.T, base, class string) string {
	seg := rapid.StringMatching(`[a-z0-9]{1,6}`).Draw(rt, "seg")
	switch class {
	case "exact":
		return base
	case "exact+slash":
		return base + "/"
	case "sub-path":
		return base + "/" + seg
	case "sub-path+slash":
		return base + "/" + seg + "/"
	case "missing-slash":
		return strings.TrimRight(base, "/")
	case "longer-name":
		return base + seg
	case "dot-segments":
		// resolves to base + "/"
		return "/" + seg + "/.." + base + "/./"
	case "dot-segments-out":
		return base + "/" + seg + "/../../" + seg
	case "doubled-slashes":
		return strings.ReplaceAll(base, "/", "//") + "//"
	case "case-variant":
		return strings.ToUpper(base) + "/"
	case "unrelated":
		return "/" + seg + "zz/" + seg
	case "root":
		return "/"
	case "final-dot":
		// a last segment "." without a slash behind it: cleans to the mount without its slash
		return base + "/."
	case "final-dotdot-back":
		// ... "/seg/.." at the very end: cleans to the mount without its slash
		return base + "/" + seg + "/.."
	case "final-dotdot-out":
		// cleans to the parent of the mount
		return base + "/.."
	case "final-dot-deep":
		// cleans to a sub-path of the mount
		return base + "/" + seg + "/" + seg + "/."
	case "dot-name":
		// segments that merely contain dots are ordinary names
		return base + "/..." + seg + "/.x./" + seg + ".."
	default: // parent-of-mount
		if i := strings.LastIndex(base, "/"); i > 0 {
			return base[:i] + "/"
		}
		return "/"
	}
}

type markerHandler struct{ hits []string }

func (m *markerHandler) ServeHTTP(w http.ResponseWriter, r *http.Request) {
	m.hits = append(m.hits, r.Method+" "+r.URL.Path+"?"+r.URL.RawQuery)
	w.WriteHeader(299)
	w.Write([]byte("app"))
}

func TestC05Routing(t *testing.T) {
	col := NewCollector("TestC05Routing",
		"exhaustive table: attach mode {nil, server options only, attach options, both} x path {unset, /engine.io, /engine.io/, /x/y, /x/y/, /socket.io, /a} x addTrailingSlash {unset,true,false} x {engine.Attach, engine.New} x request path class {exact, exact+slash, sub-path, sub-path+slash, missing-slash, longer-name, dot-segments (resolving to the path), dot-segments leaving it, a final dot or dot-dot segment without a slash behind it (cleaning to the mount without its slash, to its parent, to a sub-path), names that merely contain dots, doubled-slashes, case-variant, unrelated, root, parent}; every cell instantiated with rapid-drawn segments and methods, sent through types.HttpServer.ServeHTTP whose default handler is a marker; oracle: engine iff refClean(path) equals the mount (prefix iff mount ends in '/'), other requests reach the marker with method/path/query untouched. non-trivial: the raw path differs from its cleaned form, or the attach options are absent/partial (default mount)").Use(t)
	specs := allAttachSpecs()
	knownDefault := isKnown("C05", sigDefaultPath)
	rapid.Check(t, func(rt *rapid.T) {
		for _, spec := range specs {
			if knownDefault && (spec.Kind == "nil" || spec.Kind == "serverOnly") {
				col.Exclude("attach without attach options (known finding " + sigDefaultPath + ")")
				continue
			}
			marker := &markerHandler{}
			hs := types.NewWebServer(marker)
			var srv engine.Server
			if spec.ViaNew {
				srv = engine.New(hs, spec.options())
			} else {
				srv = engine.Attach(hs, spec.options())
			}
			mount := spec.mount()
			base := strings.TrimRight(mount, "/")
			if base == "" {
				base = "/engine.io"
			}
			for _, class := range routingPathClasses {
				raw := instantiatePath(rt, base, class)
				method := rapid.SampledFrom([]string{"GET", "POST", "OPTIONS", "DELETE"}).Draw(rt, "method")
				q := rapid.SampledFrom([]string{"", "x=1", "transport=flash", "EIO=4&transport=flashsocket&t=" + "abc"}).Draw(rt, "query")
				before := len(marker.hits)
				ex := Do(hs, NewReq(method, raw, q))
				waitReturned(ex)
				s := ex.Snap()
				want := refRoutesToEngine(mount, raw)
				gotEngine := len(marker.hits) == before
				nontrivial := refCleanPath(raw) != raw || spec.Kind == "nil" || spec.Kind == "serverOnly" || !spec.PathSet || !spec.SlashSet
				col.Case(fmt.Sprintf("%v|%s|%s|%s|%s", spec, class, raw, method, q), nontrivial,
					map[string]any{"attach": spec.String(), "mount": mount, "class": class, "path": raw, "cleaned": refCleanPath(raw), "engine": want},
					"class."+class, "attach."+spec.Kind, fmt.Sprintf("engine=%v", want))
				if gotEngine != want {
					rt.Fatalf("attach{%v} (mount %q): %s %q (cleaned %q, class %s) was served by the %s, want the %s; response %v",
						spec, mount, method, raw, refCleanPath(raw), class, who(gotEngine), who(want), s)
				}
				if !gotEngine {
					h := marker.hits[len(marker.hits)-1]
					if h != method+" "+raw+"?"+q || s.Status != 299 {
						rt.Fatalf("attach{%v}: request %s %q?%s reached the application as %q (status %d): not untouched", spec, method, raw, q, h, s.Status)
					}
				} else if s.Status != 400 || !strings.Contains(string(s.Body), `"code":0`) {
					rt.Fatalf("attach{%v}: engine answered %s %q?%s with %v, want 400 transport unknown", spec, method, raw, q, s)
				}
			}
			if n := srv.ClientsCount(); n != 0 {
				rt.Fatalf("routing probes created %d sessions", n)
			}
		}
	})
	col.SetExhaustive(true)
	col.RequireClasses(t, "engine=true", "engine=false", "class.dot-segments", "class.missing-slash", "attach.nil", "attach.serverOnly")
}

func who(engine bool) string {
	if engine {
		return "engine"
	}
	return "application handler"
}

// waitReturned spins until the handler goroutine has returned (used outside
// bubbles; the requests here are answered synchronously).
func waitReturned(e *Exchange) {
	e.mu.Lock()
	for !e.Returned {
		e.cond.Wait()
	}
	e.mu.Unlock()
}

// TestC05DefaultPathFinding: deterministic demonstration of the default-mount defect.
func TestC05DefaultPathFinding(t *testing.T) {
	col := NewCollector("TestC05DefaultPathFinding", "deterministic: engine.Attach / engine.New with nil and with server-only options, request GET /engine.io/?EIO=4&transport=polling (the standard client URL); oracle: it reaches the engine and is answered with a handshake. every case is non-trivial").Use(t)
	res := bubble(t, func() {
		for _, spec := range []attachSpec{{Kind: "nil"}, {Kind: "serverOnly"}, {Kind: "nil", ViaNew: true}, {Kind: "serverOnly", ViaNew: true}} {
			marker := &markerHandler{}
			hs := types.NewWebServer(marker)
			var srv engine.Server
			if spec.ViaNew {
				srv = engine.New(hs, spec.options())
			} else {
				srv = engine.Attach(hs, spec.options())
			}
			ex := Do(hs, NewReq("GET", "/engine.io/", "EIO=4&transport=polling"))
			Settle()
			s := ex.Snap()
			bad := len(marker.hits) > 0 || s.Status != 200
			col.Case(spec.String(), true, map[string]any{"attach": spec.String(), "status": s.Status, "served_by_app": len(marker.hits) > 0}, "default-mount")
			demoFinding(t, col, "C05", sigDefaultPath, bad, fmt.Sprintf("attach{%v}: GET /engine.io/?EIO=4&transport=polling was served by the %s (status %d)", spec, who(len(marker.hits) == 0), s.Status))
			srv.Close()
			Settle()
		}
	})
	res.rethrow()
	if res.Leak != "" {
		t.Fatalf("bubble: %s", res.Leak)
	}
}

// ---- admission ----------------------------------------------------------------

type admCfg struct {
	Hook      string // none | accept | reject
	HookMsg   string
	// PreflightContinue: a CORS policy is configured that passes OPTIONS requests on to the engine's own checks
	PreflightContinue bool
	// MW: none | ok | fail | chain-fail (three middlewares, the last one fails) | fail-first (the first of two fails, the
	// second would accept) | ok-late / fail-late (the middleware calls next from another goroutine after it returned)
	// | keeps (the middleware answers the request itself with 401 and never calls next, as the built-in CORS
	// middleware does with a preflight)
	MW        string
	AllowEIO3 bool
	Enabled   string // pw | p | w | pwt
}

func (c admCfg) String() string {
	return fmt.Sprintf("{hook=%s(%q) middleware=%s allowEIO3=%v transports=%s corsPreflightContinue=%v}", c.Hook, c.HookMsg, c.MW, c.AllowEIO3, c.Enabled, c.PreflightContinue)
}

func (c admCfg) mwFails() bool {
	return c.MW == "fail" || c.MW == "chain-fail" || c.MW == "fail-first" || c.MW == "fail-late"
}

func (c admCfg) enabled(tr string) bool {
	switch tr {
	case "polling":
		return strings.Contains(c.Enabled, "p")
	case "websocket":
		return strings.Contains(c.Enabled, "w")
	case "webtransport":
		return strings.Contains(c.Enabled, "t")
	}
	return false
}

type admReq struct {
	Transport string // absent | garbage | polling | websocket | webtransport
	Origin    string // absent | valid | ctl
	Sid       string // absent | unknown | polling | ws | closed
	Method    string
	Upgrade   bool
	EIO       string // 4 | 3 | absent | garbage | 4x2 | 3x2
}

func (r admReq) String() string {
	return fmt.Sprintf("{transport=%s origin=%s sid=%s %s upgrade=%v EIO=%s}", r.Transport, r.Origin, r.Sid, r.Method, r.Upgrade, r.EIO)
}

type admExpect struct {
	Outside  string // non-empty: cell outside the documented table (reason); nothing asserted
	Reject   bool
	Status   int
	Code     int
	Message  string
	AfterWS  bool   // refusal happens after the WebSocket connection was accepted
	Admitted string // handshake | existing
	// Kept: a middleware answered the request itself and did not pass it on: its answer is the only one, the engine's
	// checks do not run (no connection_error), no session is created
	Kept bool
}

// refAdmission: the documented precedence, written from the statement.
func refAdmission(c admCfg, r admReq) admExpect {
	if r.Upgrade && !c.enabled("websocket") {
		return admExpect{Outside: "websocket upgrade request while websocket is disabled (server answers 501 itself)"}
	}
	rej := func(status, code int, msg string) admExpect {
		return admExpect{Reject: true, Status: status, Code: code, Message: msg}
	}
	if r.Upgrade && (c.MW == "ok-late" || c.MW == "fail-late") {
		return admExpect{Outside: "a middleware that passes a websocket upgrade request on after the net/http handler has returned (the connection is no longer the handler's)"}
	}
	if c.MW == "keeps" {
		return admExpect{Kept: true}
	}
	if c.mwFails() {
		return rej(400, 3, "Bad request")
	}
	tv := r.Transport
	if tv == "absent" || tv == "garbage" || tv == "webtransport" || !c.enabled(tv) {
		return rej(400, 0, "Transport unknown")
	}
	if r.Origin == "ctl" {
		return rej(400, 3, "Bad request")
	}
	switch r.Sid {
	case "unknown", "closed":
		return rej(400, 1, "Session ID unknown")
	case "polling", "ws":
		if !r.Upgrade && tv != map[string]string{"polling": "polling", "ws": "websocket"}[r.Sid] {
			return rej(400, 3, "Bad request")
		}
		if !r.Upgrade && r.Sid == "ws" {
			// a plain HTTP request naming a session that lives on a WebSocket: no transport serves it, so it is
			// a bad request (it used to be left without any answer: finding plain-http-request-to-non-polling-session)
			return rej(400, 3, "Bad request")
		}
		return admExpect{Outside: "request admitted to an existing session (poll/data/upgrade candidate: C08, C11)"}
	}
	if r.Method != "GET" {
		return rej(400, 2, "Bad handshake method")
	}
	if tv == "websocket" && !r.Upgrade {
		return rej(400, 3, "Bad request")
	}
	if tv == "polling" && r.Upgrade {
		return admExpect{Outside: "websocket upgrade request naming the polling transport (connection dropped without a message)"}
	}
	if c.Hook == "reject" {
		return rej(403, 4, c.HookMsg)
	}
	four := r.EIO == "4" || r.EIO == "4x2"
	if !four && !c.AllowEIO3 {
		e := rej(400, 5, "Unsupported protocol version")
		e.AfterWS = r.Upgrade
		return e
	}
	return admExpect{Admitted: "handshake"}
}

const admKeptBody = "kept by the middleware"

var (
	admTransports = []string{"absent", "garbage", "polling", "websocket", "webtransport"}
	admOrigins    = []string{"absent", "valid", "ctl"}
	admSids       = []string{"absent", "unknown", "polling", "ws", "closed"}
	admMethods    = []string{"GET", "POST", "OPTIONS", "PUT"}
	admEIOs       = []string{"4", "3", "absent", "garbage", "4x2", "3x2"}
	admHooks      = []string{"none", "accept", "reject"}
	admMWs        = []string{"none", "ok", "fail"}
	admEnabled    = []string{"pw", "p", "w", "pwt"}
)

// admWorld: one server for one configuration, with a canary polling session,
// a target polling session, a target websocket session and a closed sid.
type admWorld struct {
	cfg       admCfg
	w         *World
	canary    *PollClient
	target    *PollClient
	wsTarget  *WSClient
	closedSid string
	canarySeq int
	mwOn      *bool
}

func newAdmWorld(cfg admCfg) (*admWorld, error) {
	o := config.DefaultServerOptions()
	var set []string
	if cfg.enabled("polling") {
		set = append(set, "polling")
	}
	if cfg.enabled("websocket") {
		set = append(set, "websocket")
	}
	if cfg.enabled("webtransport") {
		set = append(set, "webtransport")
	}
	o.SetTransports(types.NewSet(set...))
	o.SetAllowEIO3(cfg.AllowEIO3)
	if cfg.PreflightContinue {
		o.SetCors(&types.Cors{Origin: "*", PreflightContinue: true})
	}
	aw := &admWorld{cfg: cfg}
	hookOn := false
	switch cfg.Hook {
	case "accept":
		o.SetAllowRequest(func(*types.HttpContext) error { return nil })
	case "reject":
		o.SetAllowRequest(func(*types.HttpContext) error {
			if hookOn {
				return errors.New(cfg.HookMsg)
			}
			return nil
		})
	}
	w := NewWorld(o)
	aw.w = w
	mwOn := false
	aw.mwOn = &mwOn
	switch cfg.MW {
	case "ok":
		w.Srv.Use(func(_ *types.HttpContext, next func(error)) { next(nil) })
	case "fail":
		w.Srv.Use(func(_ *types.HttpContext, next func(error)) {
			if mwOn {
				next(errors.New("middleware says no"))
			} else {
				next(nil)
			}
		})
	case "chain-fail", "fail-first":
		fail := func(_ *types.HttpContext, next func(error)) {
			if mwOn {
				next(errors.New("middleware says no"))
			} else {
				next(nil)
			}
		}
		ok := func(_ *types.HttpContext, next func(error)) { next(nil) }
		if cfg.MW == "chain-fail" {
			w.Srv.Use(ok)
			w.Srv.Use(ok)
			w.Srv.Use(fail)
		} else {
			w.Srv.Use(fail)
			w.Srv.Use(ok)
		}
	case "ok-late":
		w.Srv.Use(func(_ *types.HttpContext, next func(error)) {
			if mwOn {
				go next(nil)
			} else {
				next(nil)
			}
		})
	case "fail-late":
		w.Srv.Use(func(_ *types.HttpContext, next func(error)) {
			if mwOn {
				go next(errors.New("middleware says no, a little later"))
			} else {
				next(nil)
			}
		})
	case "keeps":
		w.Srv.Use(func(ctx *types.HttpContext, next func(error)) {
			if mwOn {
				ctx.SetStatusCode(http.StatusUnauthorized)
				ctx.Write([]byte(admKeptBody))
				return
			}
			next(nil)
		})
	}
	// fixtures are created with hook and middleware passive
	if cfg.enabled("polling") {
		for _, pc := range []**PollClient{&aw.canary, &aw.target} {
			c := &PollClient{W: w, O: ClientOpts{Rev: 4}}
			c.StartHandshake()
			Settle()
			if err := c.FinishHandshake(); err != nil {
				return nil, fmt.Errorf("fixture handshake: %w", err)
			}
			*pc = c
		}
		c := &PollClient{W: w, O: ClientOpts{Rev: 4}}
		c.StartHandshake()
		Settle()
		if err := c.FinishHandshake(); err != nil {
			return nil, err
		}
		w.Get(c.Sid).Sock.Close(true)
		Settle()
		aw.closedSid = c.Sid
	}
	if cfg.enabled("websocket") {
		wc := &WSClient{W: w, O: ClientOpts{Rev: 4}}
		wc.Start()
		Settle()
		wc.Pump()
		if wc.Open == nil {
			return nil, fmt.Errorf("fixture websocket handshake failed: status %d errs %v", wc.HTTPStatus, wc.Errs)
		}
		aw.wsTarget = wc
		if aw.closedSid == "" {
			c2 := &WSClient{W: w, O: ClientOpts{Rev: 4}}
			c2.Start()
			Settle()
			c2.Pump()
			w.Get(c2.Sid).Sock.Close(true)
			Settle()
			aw.closedSid = c2.Sid
		}
	}
	hookOn, mwOn = true, true
	return aw, nil
}

// concrete instantiation of a cell
type admConcrete struct {
	Query  string
	Header http.Header
	Method string
}

func encodeSome(rt *rapid.T, s string, label string) string {
	if rt == nil || s == "" || !rapid.Bool().Draw(rt, label+".pct") {
		return url.QueryEscape(s)
	}
	var b strings.Builder
	for i := 0; i < len(s); i++ {
		if rapid.IntRange(0, 2).Draw(rt, label+".c") == 0 {
			fmt.Fprintf(&b, "%%%02X", s[i])
		} else {
			b.WriteString(url.QueryEscape(string(s[i])))
		}
	}
	return b.String()
}

func (aw *admWorld) instantiate(rt *rapid.T, r admReq) (admConcrete, string) {
	var params []string
	add := func(k, v string) { params = append(params, k+"="+encodeSome(rt, v, k)) }
	pick := func(label string, choices ...string) string {
		if rt == nil {
			return choices[0]
		}
		return rapid.SampledFrom(choices).Draw(rt, label)
	}
	switch r.Transport {
	case "garbage":
		add("transport", pick("garbageTransport", "flashsocket", "Polling", "polling ", "websocket\x00", "xhr", "webtransport2", ""))
	case "polling", "websocket", "webtransport":
		add("transport", r.Transport)
	}
	switch r.EIO {
	case "4":
		add("EIO", "4")
	case "3":
		add("EIO", "3")
	case "garbage":
		add("EIO", pick("garbageEIO", "5", "2", "04", "4.0", " 4", "four", "-4", ""))
	case "4x2":
		add("EIO", "4")
		add("EIO", "4")
	case "3x2":
		add("EIO", "3")
		add("EIO", "3")
	}
	sidNote := ""
	switch r.Sid {
	case "unknown":
		s := "nosuchsid"
		if rt != nil {
			s = rapid.StringMatching(`[A-Za-z0-9_-]{1,24}`).Draw(rt, "unknownSid")
		}
		if _, ok := aw.w.Srv.Clients().Load(s); ok {
			s += "x"
		}
		add("sid", s)
	case "polling":
		add("sid", aw.target.Sid)
	case "ws":
		add("sid", aw.wsTarget.Sid)
	case "closed":
		add("sid", aw.closedSid)
	}
	if rt != nil {
		for i := 0; i < rapid.IntRange(0, 2).Draw(rt, "extraParams"); i++ {
			params = append(params, rapid.SampledFrom([]string{"t=N8hyd6w", "b64=1", "x=%F0%9F%98%80", "j=0", "foo", "sidx=1", "Transport=polling"}).Draw(rt, "extra"))
		}
		// parameter order is irrelevant
		perm := rapid.Permutation(params).Draw(rt, "order")
		params = perm
	}
	h := http.Header{}
	switch r.Origin {
	case "valid":
		h.Set("Origin", pick("origin", "https://example.test", "http://localhost:3000", "null", "https://a.b.c:8443", "chrome-extension://abc", "https://exa mple.test\t", "https://łódź.example", "http://zażółć.pl:8080", "https://例え.test", "https://\u0080\u009f.example", "https://münchen.example"))
	case "ctl":
		ctl := pick("ctl", "\x00", "\x01", "\x7f", "\r", "\n", "\x1f", "\x0b")
		pos := pick("ctlPos", "mid", "start", "end")
		switch pos {
		case "start":
			h.Set("Origin", ctl+"https://example.test")
		case "end":
			h.Set("Origin", "https://example.test"+ctl)
		default:
			h.Set("Origin", "https://exa"+ctl+"mple.test")
		}
	}
	if r.Upgrade {
		h.Set("Connection", pick("connHdr", "Upgrade", "keep-alive, Upgrade", "upgrade"))
		h.Set("Upgrade", pick("upgHdr", "websocket", "WebSocket"))
		h.Set("Sec-WebSocket-Version", "13")
		h.Set("Sec-WebSocket-Key", "dGhlIHNhbXBsZSBub25jZQ==")
	}
	return admConcrete{Query: strings.Join(params, "&"), Header: h, Method: r.Method}, sidNote
}

type jsonErr struct {
	Code    *int    `json:"code"`
	Message *string `json:"message"`
}

// runAdmCell sends one request and checks it against the reference.
func (aw *admWorld) runCell(rt *rapid.T, r admReq) (exp admExpect, fail string) {
	exp = refAdmission(aw.cfg, r)
	if (r.Sid == "polling" || r.Sid == "closed" && aw.closedSid == "") && aw.target == nil {
		exp.Outside = "fixture needs the polling transport"
		return
	}
	if r.Sid == "ws" && aw.wsTarget == nil {
		exp.Outside = "fixture needs the websocket transport"
		return
	}
	if r.Sid == "closed" && aw.closedSid == "" {
		exp.Outside = "no closed session fixture"
		return
	}
	if exp.Outside != "" {
		return
	}
	w := aw.w
	conc, _ := aw.instantiate(rt, r)
	regBefore := w.RegistryKeys()
	errsBefore := len(w.ConnErrs)
	spec := NewReq(conc.Method, w.Path, conc.Query)
	spec.Header = conc.Header
	ex := Do(w.Srv, spec)
	Settle()
	s := ex.Snap()
	desc := fmt.Sprintf("%v %v: %s %s?%s origin=%q", aw.cfg, r, conc.Method, w.Path, conc.Query, conc.Header.Get("Origin"))
	if s.Panic != nil {
		return exp, fmt.Sprintf("%s: handler panicked: %v", desc, s.Panic)
	}
	newErrs := w.ConnErrs[errsBefore:]
	regAfter := w.RegistryKeys()
	if exp.Kept {
		if !s.Responded || s.Status != http.StatusUnauthorized || string(s.Body) != admKeptBody || s.HeaderCalls != 1 || !s.Returned {
			return exp, fmt.Sprintf("%s: the middleware answered 401 %q itself and did not pass the request on; the client got %v", desc, admKeptBody, s)
		}
		if len(newErrs) != 0 {
			return exp, fmt.Sprintf("%s: a request the middleware kept produced connection_error %+v: the engine's checks ran although the request was not passed on", desc, newErrs[0].CodeMessage)
		}
	}
	if exp.Reject || exp.Kept {
		if exp.Kept {
		} else if exp.AfterWS {
			// accepted as a WebSocket, then closed with a close frame carrying the text
			if !s.Hijacked {
				return exp, fmt.Sprintf("%s: want the WebSocket accepted and then closed with %q; got %v", desc, exp.Message, s)
			}
			wc := &WSClient{W: w, O: ClientOpts{Rev: 4}, Ex: ex}
			wc.Pump()
			if wc.HTTPStatus != 101 || !wc.GotClose || wc.CloseText != exp.Message || len(wc.Recv) != 0 {
				return exp, fmt.Sprintf("%s: want 101 then a close frame with text %q and no packet; got status=%d close=%v code=%d text=%q packets=%v", desc, exp.Message, wc.HTTPStatus, wc.GotClose, wc.CloseCode, wc.CloseText, wc.Recv)
			}
		} else {
			if !s.Responded || s.Status != exp.Status {
				return exp, fmt.Sprintf("%s: want status %d {code:%d message:%q}; got %v", desc, exp.Status, exp.Code, exp.Message, s)
			}
			var je jsonErr
			dec := json.NewDecoder(strings.NewReader(string(s.Body)))
			dec.DisallowUnknownFields()
			if err := dec.Decode(&je); err != nil || je.Code == nil {
				return exp, fmt.Sprintf("%s: body %q is not the documented JSON error object (%v)", desc, s.Body, err)
			}
			msg := ""
			if je.Message != nil {
				msg = *je.Message
			}
			if *je.Code != exp.Code || msg != exp.Message {
				return exp, fmt.Sprintf("%s: want {code:%d message:%q}; got {code:%d message:%q}", desc, exp.Code, exp.Message, *je.Code, msg)
			}
			if ct := hdrGet(s.Header, "Content-Type"); !strings.HasPrefix(ct, "application/json") {
				return exp, fmt.Sprintf("%s: error body sent with Content-Type %q", desc, ct)
			}
			if s.HeaderCalls != 1 || !s.Returned {
				return exp, fmt.Sprintf("%s: rejected request got %d header writes, handler returned=%v", desc, s.HeaderCalls, s.Returned)
			}
			if cl := hdrGet(s.Header, "Content-Length"); cl != "" && cl != fmt.Sprint(len(s.Body)) {
				return exp, fmt.Sprintf("%s: Content-Length %q for a body of %d bytes", desc, cl, len(s.Body))
			}
		}
		if exp.Kept {
		} else if len(newErrs) != 1 {
			return exp, fmt.Sprintf("%s: %d connection_error events, want exactly 1", desc, len(newErrs))
		} else if newErrs[0] == nil || newErrs[0].CodeMessage == nil || newErrs[0].Code != exp.Code {
			return exp, fmt.Sprintf("%s: connection_error carries %+v, want code %d", desc, newErrs[0], exp.Code)
		}
		if fmt.Sprint(regBefore) != fmt.Sprint(regAfter) {
			return exp, fmt.Sprintf("%s: registry changed by a rejected request: %v -> %v", desc, regBefore, regAfter)
		}
		if int(w.Srv.ClientsCount()) != len(regAfter) {
			return exp, fmt.Sprintf("%s: ClientsCount=%d, registry has %d", desc, w.Srv.ClientsCount(), len(regAfter))
		}
		// existing sessions undisturbed
		if aw.target != nil {
			if st := w.Get(aw.target.Sid).Sock.ReadyState(); st != "open" {
				return exp, fmt.Sprintf("%s: the session named by/alongside the rejected request is now %s", desc, st)
			}
		}
		if aw.wsTarget != nil {
			if st := w.Get(aw.wsTarget.Sid).Sock.ReadyState(); st != "open" {
				return exp, fmt.Sprintf("%s: websocket session is now %s", desc, st)
			}
		}
		if aw.canary != nil {
			aw.canarySeq++
			sr := w.Get(aw.canary.Sid)
			n := len(sr.Msgs)
			msg := fmt.Sprintf("canary-%d", aw.canarySeq)
			*aw.mwOn = false // the canary's own request is not the one under test
			pe := aw.canary.StartPost([]Pkt{msgT(msg)}, false)
			Settle()
			*aw.mwOn = true
			ps := pe.Snap()
			if ps.Status != 200 || string(ps.Body) != "ok" || len(sr.Msgs) != n+1 || string(sr.Msgs[n].Data) != msg {
				return exp, fmt.Sprintf("%s: canary session disturbed: post -> %v, messages %d -> %d", desc, ps, n, len(sr.Msgs))
			}
		}
		return exp, ""
	}
	// admitted handshake
	if len(newErrs) != 0 {
		return exp, fmt.Sprintf("%s: admitted handshake produced connection_error %+v", desc, newErrs[0].CodeMessage)
	}
	if len(regAfter) != len(regBefore)+1 {
		return exp, fmt.Sprintf("%s: want exactly one new session; registry %v -> %v (response %v)", desc, regBefore, regAfter, s)
	}
	if r.Upgrade {
		wc := &WSClient{W: w, O: ClientOpts{Rev: revOf(r.EIO)}, Ex: ex}
		wc.Pump()
		if wc.HTTPStatus != 101 || wc.Open == nil {
			return exp, fmt.Sprintf("%s: websocket handshake: status %d open=%v errs=%v", desc, wc.HTTPStatus, wc.Open, wc.Errs)
		}
		w.Get(wc.Sid).Sock.Close(true)
	} else {
		if s.Status != 200 {
			return exp, fmt.Sprintf("%s: admitted handshake answered %v", desc, s)
		}
		for _, sid := range regAfter {
			found := false
			for _, b := range regBefore {
				if b == sid {
					found = true
				}
			}
			if !found {
				w.Get(sid).Sock.Close(true)
			}
		}
	}
	Settle()
	return exp, ""
}

func revOf(eio string) int {
	if eio == "4" || eio == "4x2" {
		return 4
	}
	return 3
}

func (aw *admWorld) close() {
	aw.w.Srv.Close()
	Settle()
}

func admClasses(exp admExpect) (classes []string, failing int) {
	switch {
	case exp.Outside != "":
		classes = append(classes, "outside-table")
	case exp.Kept:
		classes = append(classes, "kept-by-a-middleware")
	case exp.Reject:
		classes = append(classes, fmt.Sprintf("reject.code%d", exp.Code))
		if exp.AfterWS {
			classes = append(classes, "reject.after-websocket-accept")
		}
	default:
		classes = append(classes, "admitted")
	}
	return
}

// failingChecks counts how many of the documented checks the request fails
// (precedence is exercised when >= 2).
func failingChecks(c admCfg, r admReq) int {
	n := 0
	if c.mwFails() {
		n++
	}
	if r.Transport == "absent" || r.Transport == "garbage" || r.Transport == "webtransport" || !c.enabled(r.Transport) {
		n++
	}
	if r.Origin == "ctl" {
		n++
	}
	if r.Sid == "unknown" || r.Sid == "closed" {
		n++
	}
	if r.Sid == "absent" && r.Method != "GET" {
		n++
	}
	if r.Transport == "websocket" && !r.Upgrade {
		n++
	}
	if c.Hook == "reject" {
		n++
	}
	if !(r.EIO == "4" || r.EIO == "4x2") && !c.AllowEIO3 {
		n++
	}
	return n
}

func TestC05Admission(t *testing.T) {
	col := NewCollector("TestC05Admission",
		"rapid: a server configuration (hook none/accept/reject with a drawn message incl. JSON-special and non-ASCII characters, middleware none / accepting / failing / a chain of three whose last one fails / a failing one in front of an accepting one / one that passes the request on or refuses it from another goroutine after it has returned / one that answers the request itself (401) and never passes it on, allowEIO3, enabled transports) and 12 abstract requests (transport x Origin x sid x method x upgrade x EIO) per case, each instantiated with drawn concrete strings (parameter order, percent-encoding, extra parameters, repeated equal parameters, garbage values, control bytes and positions, header spellings); oracle: reference implementation of the documented precedence -> status, exact JSON {code,message}, exactly one connection_error with that code, registry and ClientsCount unchanged, named/other sessions still open, canary session round-trips; refusal after WebSocket accept -> close frame with the same text; a request kept by a middleware gets that middleware's answer only, no connection_error, no session. non-trivial: the request fails >= 2 of the documented checks (precedence matters), is refused after the WebSocket was accepted, is kept by a middleware or passed on late").Use(t)
	known5 := isKnown("C05", sigCode5)
	rapid.Check(t, propC05Admission(t, col, known5))
	req := []string{"reject.code0", "reject.code1", "reject.code2", "reject.code3", "reject.code4", "admitted", "precedence-exercised",
		"kept-by-a-middleware", "middleware.chain-fail", "middleware.fail-first", "middleware.ok-late", "middleware.fail-late"}
	if !known5 {
		req = append(req, "reject.code5", "reject.after-websocket-accept")
	}
	col.RequireClasses(t, req...)
}

// TestC05AdmissionSweep enumerates the abstract table completely.
func TestC05AdmissionSweep(t *testing.T) {
	col := NewCollector("TestC05AdmissionSweep",
		"exhaustive: hook{none,accept,reject} x middleware{none,ok,fail} x allowEIO3 x enabled{polling+websocket, polling, websocket, all three} x transport{absent,garbage,polling,websocket,webtransport} x Origin{absent,valid,control byte} x sid{absent,unknown,known polling,known websocket,closed} x method{GET,POST,OPTIONS,PUT} x upgrade x EIO{4,3,absent,garbage,4 twice,3 twice}, one canonical instantiation per cell; same oracle as TestC05Admission. distinct non-trivial = rejected cells failing >= 2 checks or refused after WebSocket accept").Use(t)
	known5 := isKnown("C05", sigCode5)
	var firstFail string
	for _, hook := range admHooks {
		for _, mw := range admMWs {
			for _, a3 := range []bool{false, true} {
				for _, en := range admEnabled {
					cfg := admCfg{Hook: hook, MW: mw, AllowEIO3: a3, Enabled: en, HookMsg: `no "entry" for you`}
					if known5 && !a3 {
						col.Exclude("allowEIO3=false (known finding " + sigCode5 + ")")
						continue
					}
					res := bubble(t, func() {
						aw, err := newAdmWorld(cfg)
						if err != nil {
							firstFail = "harness fixture: " + err.Error()
							return
						}
						defer aw.close()
						for _, tr := range admTransports {
							for _, or := range admOrigins {
								for _, sid := range admSids {
									for _, m := range admMethods {
										for _, up := range []bool{false, true} {
											for _, eio := range admEIOs {
												r := admReq{tr, or, sid, m, up, eio}
												exp, f := aw.runCell(nil, r)
												classes, _ := admClasses(exp)
												n := failingChecks(cfg, r)
												col.Case(fmt.Sprint(cfg, r), exp.Outside == "" && ((n >= 2 && exp.Reject) || exp.AfterWS), map[string]any{"config": cfg.String(), "request": r.String(), "expect": fmt.Sprintf("%+v", exp)}, classes...)
												if f != "" && firstFail == "" {
													firstFail = f
													return
												}
											}
										}
									}
								}
							}
						}
					})
					res.rethrow()
					if firstFail == "" && res.Leak != "" {
						firstFail = fmt.Sprintf("config %v: %s", cfg, res.Leak)
					}
					if firstFail != "" {
						t.Fatalf("%s", firstFail)
					}
				}
			}
		}
	}
	col.SetExhaustive(true)
}

// TestC05Code5Finding: deterministic demonstration of the code-4-for-5 defect.
func TestC05Code5Finding(t *testing.T) {
	col := NewCollector("TestC05Code5Finding", "deterministic: polling handshake with EIO in {3, absent, 5} on a server with allowEIO3=false; oracle: 400 {code:5, message:'Unsupported protocol version'}. every case is non-trivial").Use(t)
	res := bubble(t, func() {
		aw, err := newAdmWorld(admCfg{Hook: "none", MW: "none", Enabled: "pw"})
		if err != nil {
			t.Fatalf("fixture: %v", err)
		}
		defer aw.close()
		for _, eio := range []string{"3", "absent", "garbage"} {
			r := admReq{"polling", "absent", "absent", "GET", false, eio}
			_, f := aw.runCell(nil, r)
			col.Case(r.String(), true, map[string]any{"request": r.String(), "result": f}, "eio."+eio)
			demoFinding(t, col, "C05", sigCode5, f != "", f)
		}
	})
	res.rethrow()
}

var _ = sort.Strings

// propC05Admission is the property body of TestC05Admission, shared with the native fuzz target (rapid.MakeFuzz).
func propC05Admission(t *testing.T, col *Collector, known5 bool) func(rt *rapid.T) {
	return func(rt *rapid.T) {
		cfg := admCfg{
			Hook:      rapid.SampledFrom([]string{"none", "accept", "reject", "reject"}).Draw(rt, "hook"),
			MW:        rapid.SampledFrom([]string{"none", "none", "ok", "ok", "ok", "fail", "chain-fail", "fail-first", "ok-late", "ok-late", "fail-late", "keeps"}).Draw(rt, "mw"),
			AllowEIO3: rapid.Bool().Draw(rt, "allowEIO3"),
			Enabled:   rapid.SampledFrom(admEnabled).Draw(rt, "enabled"),
		}
		cfg.PreflightContinue = rapid.IntRange(0, 3).Draw(rt, "corsPreflightContinue") == 0
		if cfg.PreflightContinue {
			col.Class("cors-preflight-continue")
		}
		if cfg.Hook == "reject" {
			cfg.HookMsg = rapid.OneOf(
				rapid.SampledFrom([]string{"nope", "", "Forbidden", `he said "no"`, `back\slash`, "line\nbreak", "</script><!--", "tab\there", "ünïcödé 😀", `{"code":0}`, " x",
					"\x1b[31mdenied\x1b[0m", "nul\x00byte", "del\x7f", "bell\a vt\v ff\f bs\b cr\r", "ps\u2029", "astral \U0001F600 \U000E0001", "\ufeffbom"}),
				rapid.StringMatching(`[ -~]{0,40}`),
				rapid.StringOfN(rapid.RuneFrom(nil, unicode.Cc, unicode.Latin, unicode.Zl, unicode.Zp, unicode.Cf, unicode.So), 0, 12, -1),
			).Draw(rt, "hookMsg")
		}
		if known5 && !cfg.AllowEIO3 {
			col.Exclude("allowEIO3=false (known finding " + sigCode5 + ")")
			cfg.AllowEIO3 = true
		}
		reqs := make([]admReq, 12)
		for i := range reqs {
			reqs[i] = admReq{
				Transport: rapid.SampledFrom([]string{"polling", "polling", "polling", "websocket", "websocket", "websocket", "absent", "garbage", "webtransport"}).Draw(rt, "transport"),
				Origin:    rapid.SampledFrom([]string{"absent", "absent", "valid", "valid", "valid", "ctl"}).Draw(rt, "origin"),
				Sid:       rapid.SampledFrom([]string{"absent", "absent", "absent", "unknown", "polling", "ws", "closed"}).Draw(rt, "sid"),
				Method:    rapid.SampledFrom([]string{"GET", "GET", "GET", "POST", "OPTIONS", "PUT"}).Draw(rt, "method"),
				Upgrade:   rapid.Bool().Draw(rt, "upgrade"),
				EIO:       rapid.SampledFrom(admEIOs).Draw(rt, "eio"),
			}
		}
		journal("C05 %v %v", cfg, reqs)
		var fail string
		res := bubble(t, func() {
			aw, err := newAdmWorld(cfg)
			if err != nil {
				fail = "harness fixture: " + err.Error()
				return
			}
			defer aw.close()
			for _, r := range reqs {
				exp, f := aw.runCell(rt, r)
				classes, _ := admClasses(exp)
				n := failingChecks(cfg, r)
				if n >= 2 && exp.Reject {
					classes = append(classes, "precedence-exercised")
				}
				if exp.Outside == "" && cfg.MW != "none" && cfg.MW != "ok" {
					classes = append(classes, "middleware."+cfg.MW)
				}
				col.Case(fmt.Sprint(cfg, r), exp.Outside == "" && ((n >= 2 && exp.Reject) || exp.AfterWS || exp.Kept || cfg.MW == "ok-late"), map[string]any{"config": cfg.String(), "request": r.String(), "expect": fmt.Sprintf("%+v", exp)}, classes...)
				if f != "" {
					fail = f
					return
				}
			}
		})
		res.rethrow()
		if fail != "" {
			rt.Fatalf("%s", fail)
		}
		if res.Leak != "" {
			rt.Fatalf("config %v: %s\n%s", cfg, res.Leak, goroutineDump("engine", "transports"))
		}
	}
}

package harness

// C09, clause "no client input can leave a handler goroutine stuck after its
// connection is gone": plain HTTP requests of every shape that name a session
// of every kind. The carrier follows net/http: the server notices a client
// going away only when the request has no body or the handler has read it to
// the end (or a body read fails); a handler that neither reads the body nor
// answers nor returns is stuck for ever.

import (
	"fmt"
	"net/http"
	"sort"
	"strings"
	"testing"
	"time"

	"github.com/zishang520/engine.io/v2/config"
	"github.com/zishang520/engine.io/v2/types"
	"pgregory.net/rapid"
)

const (
	sigOctetUnanswered = "v4-octet-stream-data-request-never-answered"
	sigPlainToWS       = "plain-http-request-to-non-polling-session-never-answered"
)

type hrReq struct {
	Method    string
	Transport string // value of the transport parameter
	Sid       string // own | none | unknown
	CT        string
	Body      int // -1 none, else length
	Chunked   bool
	Upgrade   bool // carries websocket upgrade headers
	// BadChunk: the (chunked) body is malformed after this many bytes: the read fails, the connection stays (-1: no)
	BadChunk int
}

type hrCase struct {
	Sess string // polling | jsonp | websocket | webtransport | up-websocket
	Rev  int
	Reqs []hrReq
}

func (c hrCase) String() string { return fmt.Sprintf("{%s rev%d %+v}", c.Sess, c.Rev, c.Reqs) }

func genHR(rt *rapid.T, knownOctet, knownPlain bool, col *Collector) hrCase {
	c := hrCase{Rev: 4}
	c.Sess = rapid.SampledFrom([]string{"polling", "polling", "jsonp", "websocket", "webtransport", "up-websocket"}).Draw(rt, "sess")
	if c.Sess != "webtransport" && rapid.IntRange(0, 3).Draw(rt, "rev3") == 0 {
		c.Rev = 3
	}
	n := rapid.IntRange(1, 4).Draw(rt, "nreqs")
	for i := 0; i < n; i++ {
		l := fmt.Sprintf("r%d", i)
		r := hrReq{
			Method:    rapid.SampledFrom([]string{"POST", "POST", "POST", "GET", "PUT", "DELETE", "OPTIONS", "PATCH"}).Draw(rt, l+".method"),
			Transport: rapid.SampledFrom([]string{"polling", "polling", "websocket", "webtransport", "bogus"}).Draw(rt, l+".transport"),
			Sid:       rapid.SampledFrom([]string{"own", "own", "own", "own", "none", "unknown"}).Draw(rt, l+".sid"),
			CT:        rapid.SampledFrom([]string{"text/plain;charset=UTF-8", "application/octet-stream", "application/octet-stream", "application/x-www-form-urlencoded", "", "application/json"}).Draw(rt, l+".ct"),
			Body:      rapid.SampledFrom([]int{-1, 0, 1, 5, 5, 300, 70000}).Draw(rt, l+".body"),
			Chunked:   rapid.IntRange(0, 3).Draw(rt, l+".chunked") == 0,
			Upgrade:   rapid.IntRange(0, 5).Draw(rt, l+".upgrade") == 0,
			BadChunk:  rapid.SampledFrom([]int{-1, -1, -1, 0, 1, 3}).Draw(rt, l+".badChunk"),
		}
		if knownPlain && r.Sid == "own" && c.Sess != "polling" && c.Sess != "jsonp" && !r.Upgrade {
			col.Exclude("plain HTTP request naming a session that is not on polling (known finding " + sigPlainToWS + ")")
			r.Sid = "unknown"
		}
		if knownOctet && r.CT == "application/octet-stream" {
			col.Exclude("application/octet-stream request body (known finding " + sigOctetUnanswered + ")")
			r.CT = "text/plain;charset=UTF-8"
		}
		c.Reqs = append(c.Reqs, r)
	}
	return c
}

func runHR(c hrCase) (fail string, stats map[string]bool) {
	stats = map[string]bool{}
	o := config.DefaultServerOptions()
	o.SetAllowEIO3(true)
	o.SetTransports(types.NewSet("polling", "websocket", "webtransport"))
	o.SetPingInterval(10 * time.Minute)
	o.SetPingTimeout(10 * time.Minute)
	w := NewWorld(o)
	defer w.Teardown()
	eio := "4"
	if c.Rev == 3 {
		eio = "3"
	}
	// a bystander that must stay healthy
	by := &PollClient{W: w, O: ClientOpts{Rev: 4}}
	by.StartHandshake()
	Settle()
	if err := by.FinishHandshake(); err != nil {
		return "harness: " + err.Error(), stats
	}
	bysr := w.Get(by.Sid)
	carrier := strings.TrimPrefix(c.Sess, "up-")
	hs := c06HS{Carrier: carrier, EIO: eio}
	if strings.HasPrefix(c.Sess, "up-") {
		hs.Carrier = "polling"
	}
	if c.Sess == "jsonp" {
		hs = c06HS{Carrier: "jsonp", EIO: eio, B64: true, J: "5"}
	}
	s, why := doHandshake(w, hs)
	if s == nil {
		return "harness: handshake: " + why, stats
	}
	sid := s.open.Sid
	sr := w.Get(sid)
	if strings.HasPrefix(c.Sess, "up-") {
		if _, _, err := Upgrade(w, s.pc, carrier); err != nil {
			return "conformant upgrade: " + err.Error(), stats
		}
	} else if s.pc != nil {
		s.pc.StartPoll()
		Settle()
	}
	var exs []*Exchange
	for i, r := range c.Reqs {
		q := "EIO=" + eio + "&transport=" + r.Transport
		switch r.Sid {
		case "own":
			q += "&sid=" + sid
		case "unknown":
			q += "&sid=nosuchsession"
		}
		spec := NewReq(r.Method, w.Path, q)
		if r.CT != "" {
			spec.Header.Set("Content-Type", r.CT)
		}
		if r.Upgrade {
			spec.Header.Set("Connection", "Upgrade")
			spec.Header.Set("Upgrade", "websocket")
			spec.Header.Set("Sec-WebSocket-Version", "13")
			spec.Header.Set("Sec-WebSocket-Key", "dGhlIHNhbXBsZSBub25jZQ==")
		}
		if r.Body >= 0 {
			spec.HasBody = true
			spec.Body = []byte(strings.Repeat("4", r.Body))
			if r.Chunked {
				spec.ContentLength = -1
			}
			if r.BadChunk >= 0 && r.Body > r.BadChunk {
				spec.ContentLength = -1
				spec.FailBodyAt = r.BadChunk
				spec.BodyErrIsEncoding = true
				stats["malformed-chunked-body"] = true
			}
			stats["request-with-body"] = true
			if r.Sid == "own" && r.Body > 0 {
				stats["body-sent-to-a-"+c.Sess+"-session"] = true
			}
		}
		e := Do(w.Srv, spec)
		exs = append(exs, e)
		Settle()
		snap := e.Snap()
		if snap.Panic != nil {
			return fmt.Sprintf("request #%d %+v: handler panicked: %v\n%s", i, r, snap.Panic, clipStr(snap.PanicStack, 1200)), stats
		}
		if snap.Hijacked {
			// a websocket was accepted: the client drops it again
			e.mu.Lock()
			cl := e.Client
			e.mu.Unlock()
			if cl != nil {
				cl.Close()
			}
			Settle()
		}
		if !snap.Responded && !snap.Hijacked {
			stats["request-left-unanswered-while-the-client-waits"] = true
		}
	}
	// a request whose body turned out malformed is still a request on a live connection: it is answered
	for i, e := range exs {
		if r := c.Reqs[i]; r.BadChunk >= 0 && r.Body > r.BadChunk {
			if snap := e.Snap(); !snap.Responded && !snap.Hijacked {
				return fmt.Sprintf("request #%d %+v: its chunked body is malformed (read error after %d bytes), the connection is alive, and the request was left without any answer", i, r, r.BadChunk), stats
			}
		}
	}
	// every client goes away
	for _, e := range exs {
		e.Abort()
	}
	if s.pc != nil && s.pc.Poll != nil {
		s.pc.Poll.Abort()
	}
	Settle()
	for i, e := range exs {
		if snap := e.Snap(); !snap.Returned {
			body := "no body"
			if e.body != nil {
				body = fmt.Sprintf("%d of %d body bytes read by the handler", e.body.Consumed(), len(e.body.data))
			}
			return fmt.Sprintf("request #%d %+v (%s): its client has gone away but the handler is still running; responded=%v", i, c.Reqs[i], body, snap.Responded), stats
		}
	}
	// the bystander was not disturbed
	if len(bysr.Closes) != 0 {
		return fmt.Sprintf("the bystander session closed: %v", bysr.Closes), stats
	}
	e := by.StartPost([]Pkt{msgT("still here")}, false)
	Settle()
	if snap := e.Snap(); snap.Status != 200 || len(bysr.Msgs) != 1 {
		return fmt.Sprintf("the bystander's message was answered %v, delivered %d", snap, len(bysr.Msgs)), stats
	}
	if len(sr.Closes) > 1 {
		return fmt.Sprintf("the named session emitted %d close events", len(sr.Closes)), stats
	}
	stats["session."+c.Sess] = true
	return "", stats
}

func TestC09HandlersReturn(t *testing.T) {
	col := NewCollector("TestC09HandlersReturn",
		"rapid: a session on polling/JSONP/websocket/webtransport or upgraded to websocket (revision 3/4) next to a bystander session, and 1-4 plain HTTP requests: method x transport parameter (polling/websocket/webtransport/unknown) x sid (the session's own, none, unknown) x content type (incl. application/octet-stream) x body (none, 0..70000 bytes, declared or chunked, or chunked and malformed after 0/1/3 bytes: the read fails while the connection stays) x websocket upgrade headers; then every client goes away. The carrier follows net/http (checked against a real server by TestSelfCarrierDisconnect): a client going away is noticed only when the request has no body, the handler has read the body to its end, or a body read fails. oracle: no handler panics, every handler has returned once its client has gone, the bystander still round-trips a message, the named session closes at most once. non-trivial: a request with a body").Use(t)
	known, knownPlain := isKnown("C09", sigOctetUnanswered), isKnown("C09", sigPlainToWS)
	rapid.Check(t, func(rt *rapid.T) {
		c := genHR(rt, known, knownPlain, col)
		journal("C09hr %v", c)
		var fail string
		var stats map[string]bool
		res := bubble(t, func() { fail, stats = runHR(c) })
		var cl []string
		for k := range stats {
			cl = append(cl, k)
		}
		sort.Strings(cl)
		col.Case(c.String(), stats["request-with-body"], map[string]any{"case": c.String()}, cl...)
		res.rethrow()
		if fail != "" {
			rt.Fatalf("%v\n%s", c, clipStr(fail, 1800))
		}
		if res.Leak != "" {
			rt.Fatalf("%v: %s", c, clipStr(res.Leak, 1500))
		}
	})
	col.RequireClasses(t, "session.polling", "session.websocket", "session.webtransport", "session.up-websocket", "body-sent-to-a-polling-session", "body-sent-to-a-websocket-session", "body-sent-to-a-webtransport-session", "malformed-chunked-body")
}

// TestC09OctetFinding: deterministic demonstrations of the two repaired defects.
func TestC09OctetFinding(t *testing.T) {
	col := NewCollector("TestC09OctetFinding", "deterministic: (a) revision-4 polling session; a data request with Content-Type application/octet-stream (1 byte, and 300 bytes chunked); (b) a websocket / webtransport / upgraded session and a plain HTTP POST naming it with its own transport and a body; the client then goes away; oracle of TestC09HandlersReturn. every case is non-trivial").Use(t)
	for _, sess := range []string{"websocket", "webtransport", "up-websocket"} {
		tr := strings.TrimPrefix(sess, "up-")
		c := hrCase{Sess: sess, Rev: 4, Reqs: []hrReq{{Method: "POST", Transport: tr, Sid: "own", CT: "text/plain;charset=UTF-8", Body: 5, BadChunk: -1}}}
		var fail string
		res := bubble(t, func() { fail, _ = runHR(c) })
		res.rethrow()
		if fail == "" && res.Leak != "" {
			fail = clipStr(res.Leak, 300)
		}
		col.Case(c.String(), true, map[string]any{"case": c.String(), "result": clipStr(fail, 300)}, "plain-http-to-"+sess)
		demoFinding(t, col, "C09", sigPlainToWS, fail != "", fmt.Sprintf("%v: %s", c, clipStr(fail, 400)))
	}
	for _, r := range []hrReq{{Method: "POST", Transport: "polling", Sid: "own", CT: "application/octet-stream", Body: 1, BadChunk: -1}, {Method: "POST", Transport: "polling", Sid: "own", CT: "application/octet-stream", Body: 300, Chunked: true, BadChunk: -1}} {
		c := hrCase{Sess: "polling", Rev: 4, Reqs: []hrReq{r}}
		var fail string
		res := bubble(t, func() { fail, _ = runHR(c) })
		res.rethrow()
		if fail == "" && res.Leak != "" {
			fail = clipStr(res.Leak, 300)
		}
		col.Case(c.String(), true, map[string]any{"case": c.String(), "result": clipStr(fail, 300)}, "octet-stream")
		demoFinding(t, col, "C09", sigOctetUnanswered, fail != "", fmt.Sprintf("%v: %s", c, clipStr(fail, 400)))
	}
}

var _ = http.MethodGet

const sigCandidateNilRace = "upgrade-candidate-variable-reset-while-its-reader-handles-a-packet"

// runCandRace: a probed upgrade candidate sends a packet that ends the attempt
// (anything but a probe; here the upgrade packet or a message) at the very
// moment the session closes. Both paths run the attempt's cleanup and close
// the candidate; they used to share, and one of them reset, the variable that
// holds it.
func runCandRace(cause int, pkt int) string {
	o := config.DefaultServerOptions()
	o.SetTransports(types.NewSet("polling", "websocket"))
	w := NewWorld(o)
	defer w.Teardown()
	pc := &PollClient{W: w, O: ClientOpts{Rev: 4}}
	pc.StartHandshake()
	Settle()
	if err := pc.FinishHandshake(); err != nil {
		return "harness: " + err.Error()
	}
	sr := w.Get(pc.Sid)
	cand := &WSClient{W: w, O: ClientOpts{Rev: 4}, Sid: pc.Sid}
	cand.Start()
	Settle()
	cand.Pump()
	cand.SendPacket(ctlD(tPing, "probe"), nil)
	Settle()
	pc.StartPoll()
	Settle()
	done := make(chan struct{}, 2)
	go func() {
		if pkt == 0 {
			cand.SendPacket(ctl(tUpgrade), nil)
		} else {
			cand.SendPacket(msgT("x"), nil)
		}
		done <- struct{}{}
	}()
	go func() {
		switch cause {
		case 0:
			sr.Sock.Close(true)
		case 1:
			pc.StartPost([]Pkt{ctl(tClose)}, false)
		default:
			pc.StartPost([]Pkt{ctl(tPing)}, false)
		}
		done <- struct{}{}
	}()
	<-done
	<-done
	Settle()
	if len(sr.Closes) == 0 {
		// (the upgrade packet won the race against a client-side cause sent on the old transport: the session lives on)
		sr.Sock.Close(true)
		Settle()
	}
	if len(sr.Closes) != 1 {
		return fmt.Sprintf("close events %v", sr.Closes)
	}
	cand.Drop()
	Settle()
	return ""
}

// TestC09CandidateRaceFinding: demonstration of the repaired crash. The
// interleaving is not owned by the harness: the history is repeated on all
// cores; on a tree with the defect one of the repetitions kills the test
// process with a nil dereference in /repo (the driver attributes it).
func TestC09CandidateRaceFinding(t *testing.T) {
	col := NewCollector("TestC09CandidateRaceFinding", "repetition (4000x, all cores): polling session with a probed websocket candidate; at one instant, from two goroutines, the candidate sends its upgrade packet or a message and the session closes (Close(true), client close packet, wrong-direction heartbeat); oracle: the process survives, exactly one close event. every case is non-trivial").Use(t)
	bad := ""
	n := 0
	for i := 0; i < 4000 && bad == ""; i++ {
		journal("C09race cause=%d pkt=%d (repetition %d)", i%3, (i/3)%2, i)
		var f string
		res := bubble(t, func() { f = runCandRace(i%3, (i/3)%2) })
		res.rethrow()
		n++
		if f != "" {
			bad = f
		} else if res.Leak != "" {
			bad = clipStr(res.Leak, 300)
		}
	}
	col.Case("candidate packet racing with session close", true, map[string]any{"repetitions": n, "result": clipStr(bad, 300)}, "candidate-race")
	demoFinding(t, col, "C09", sigCandidateNilRace, bad != "", clipStr(bad, 400))
}

package harness

// Self-tests of the machinery (run by `./check --setup`): the HTTP carrier is
// compared with a real net/http server on loopback for the semantics the
// checks depend on: when a handler learns that its client has gone away.

import (
	"fmt"
	"io"
	"net"
	"net/http"
	"strings"
	"testing"
	"time"
)

type discScenario struct {
	Name     string
	Request  string // raw request head + whatever part of the body the client sends before it closes
	Method   string
	Body     []byte // carrier: bytes available
	Declared int64  // carrier: declared length (-1 chunked), -2 = len(Body), -3 = no body
	ReadBody bool   // the handler reads the body to the end before waiting
}

type discOutcome struct {
	BodyBytes int
	BodyErr   bool // the body read ended with an error other than EOF
	Cancelled bool // the request context was cancelled within the observation window
}

func (o discOutcome) String() string {
	return fmt.Sprintf("{body bytes read=%d, body read error=%v, context cancelled=%v}", o.BodyBytes, o.BodyErr, o.Cancelled)
}

func discHandler(sc discScenario, window time.Duration, out chan<- discOutcome) http.Handler {
	return http.HandlerFunc(func(w http.ResponseWriter, r *http.Request) {
		var o discOutcome
		if sc.ReadBody {
			b, err := io.ReadAll(r.Body)
			o.BodyBytes, o.BodyErr = len(b), err != nil
		}
		select {
		case <-r.Context().Done():
			o.Cancelled = true
		case <-time.After(window):
		}
		out <- o
	})
}

func TestSelfCarrierDisconnect(t *testing.T) {
	ln, err := net.Listen("tcp", "127.0.0.1:0")
	if err != nil {
		t.Skipf("loopback not available (%v): carrier fidelity for client disconnects is an assumption", err)
	}
	ln.Close()
	scs := []discScenario{
		{Name: "GET without a body, handler waits", Request: "GET / HTTP/1.1\r\nHost: x\r\n\r\n", Method: "GET", Declared: -3},
		{Name: "POST, body sent in full, handler does not read it", Request: "POST / HTTP/1.1\r\nHost: x\r\nContent-Length: 5\r\n\r\nhello", Method: "POST", Body: []byte("hello"), Declared: -2},
		{Name: "POST, body sent in full, handler reads it", Request: "POST / HTTP/1.1\r\nHost: x\r\nContent-Length: 5\r\n\r\nhello", Method: "POST", Body: []byte("hello"), Declared: -2, ReadBody: true},
		{Name: "POST, 4 of 10 declared bytes sent, handler reads", Request: "POST / HTTP/1.1\r\nHost: x\r\nContent-Length: 10\r\n\r\nhell", Method: "POST", Body: []byte("hell"), Declared: 10, ReadBody: true},
		{Name: "POST, empty chunked body, handler does not read it", Request: "POST / HTTP/1.1\r\nHost: x\r\nTransfer-Encoding: chunked\r\n\r\n0\r\n\r\n", Method: "POST", Body: []byte{}, Declared: -1},
		{Name: "POST, empty chunked body, handler reads it", Request: "POST / HTTP/1.1\r\nHost: x\r\nTransfer-Encoding: chunked\r\n\r\n0\r\n\r\n", Method: "POST", Body: []byte{}, Declared: -1, ReadBody: true},
	}
	const window = 400 * time.Millisecond
	for _, sc := range scs {
		// (a) the real thing
		realOut := make(chan discOutcome, 1)
		srv := &http.Server{Handler: discHandler(sc, window, realOut)}
		l, err := net.Listen("tcp", "127.0.0.1:0")
		if err != nil {
			t.Fatalf("listen: %v", err)
		}
		go srv.Serve(l)
		c, err := net.Dial("tcp", l.Addr().String())
		if err != nil {
			t.Fatalf("dial: %v", err)
		}
		io.WriteString(c, sc.Request)
		time.Sleep(100 * time.Millisecond)
		c.Close()
		var real discOutcome
		select {
		case real = <-realOut:
		case <-time.After(5 * time.Second):
			t.Fatalf("%s: real server's handler did not finish", sc.Name)
		}
		srv.Close()
		// (b) the carrier
		carOut := make(chan discOutcome, 1)
		spec := NewReq(sc.Method, "/", "")
		if sc.Declared != -3 {
			spec.HasBody = true
			spec.Body = sc.Body
			spec.ContentLength = sc.Declared
		}
		e := Do(discHandler(sc, window, carOut), spec)
		time.Sleep(100 * time.Millisecond)
		e.Abort()
		var car discOutcome
		select {
		case car = <-carOut:
		case <-time.After(5 * time.Second):
			t.Fatalf("%s: carrier's handler did not finish", sc.Name)
		}
		t.Logf("%-55s net/http %v | carrier %v", sc.Name, real, car)
		if real != car {
			fmt.Printf("HARNESS-BROKEN test=TestSelfCarrierDisconnect scenario %q: net/http %v, carrier %v\n", sc.Name, real, car)
			t.Errorf("%s: net/http %v, carrier %v", sc.Name, real, car)
		}
	}
}

// TestSelfCarrierLateWrite: what a client receives when a handler returns without writing and something writes to
// the ResponseWriter afterwards (net/http: the response was completed, as an empty 200, when the handler returned;
// the late bytes reach nobody). The carrier must show the same.
func TestSelfCarrierLateWrite(t *testing.T) {
	l, err := net.Listen("tcp", "127.0.0.1:0")
	if err != nil {
		t.Skipf("loopback not available (%v): carrier fidelity for writes after the handler returned is an assumption", err)
	}
	late := make(chan struct{})
	mk := func() http.Handler {
		return http.HandlerFunc(func(w http.ResponseWriter, r *http.Request) {
			go func() {
				defer func() { recover(); late <- struct{}{} }()
				time.Sleep(150 * time.Millisecond)
				w.Header().Set("X-Late", "1")
				w.WriteHeader(201)
				io.WriteString(w, "late")
			}()
		})
	}
	srv := &http.Server{Handler: mk()}
	go srv.Serve(l)
	defer srv.Close()
	c, err := net.Dial("tcp", l.Addr().String())
	if err != nil {
		t.Fatalf("dial: %v", err)
	}
	defer c.Close()
	io.WriteString(c, "GET / HTTP/1.1\r\nHost: x\r\n\r\n")
	<-late
	c.SetReadDeadline(time.Now().Add(500 * time.Millisecond))
	raw, _ := io.ReadAll(c)
	realStatus, realBody := 0, ""
	if head, body, ok := strings.Cut(string(raw), "\r\n\r\n"); ok {
		fmt.Sscanf(head, "HTTP/1.1 %d", &realStatus)
		realBody = body
	}
	e := Do(mk(), NewReq("GET", "/", ""))
	<-late
	st, body, ok := e.ClientView()
	t.Logf("handler returns without writing, write 150ms later: net/http client sees status %d body %q | carrier client sees answered=%v status %d body %q (void writes %d)", realStatus, realBody, ok, st, body, e.Snap().WritesAfterReturn)
	if !ok || st != realStatus || string(body) != realBody {
		fmt.Printf("HARNESS-BROKEN test=TestSelfCarrierLateWrite: net/http %d %q, carrier %v %d %q\n", realStatus, realBody, ok, st, body)
		t.Errorf("net/http %d %q, carrier %v %d %q", realStatus, realBody, ok, st, body)
	}
}

var _ = strings.Repeat

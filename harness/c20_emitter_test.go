package harness

// C20 (a) — event emitter: sequential model-based test.
//
// Listeners are identified by code pointer in the implementation, so the
// harness uses six distinct top-level functions.  The statement leaves open
// *which* registration of a function RemoveListener removes when it is
// registered several times; the model therefore tracks the set of all
// listener tables that are still possible and a step only fails when no
// possible table explains what was observed.

import (
	"time"
	"fmt"
	"sort"
	"strings"
	"sync"
	"testing"

	"github.com/zishang520/engine.io/v2/types"
	"pgregory.net/rapid"
)

const (
	sigNilListener = "emitter-nil-listener-registered-as-nil-entry"
	sigOnceRemoves = "emitter-once-removes-first-registration-of-same-function"
)

type emReaction struct {
	Kind  string // on once remove removeAll clear emitB
	Ev    string
	Fn    int
	Limit int // applies on the first Limit hits of the reacting listener
}

type emCase struct {
	em    types.EventEmitter
	react map[int]emReaction
	hits  map[int]int
	calls []int
	depth int
	curEv string
	mu    sync.Mutex
}

var curEm *emCase

func emHit(k int, args []any) {
	c := curEm
	if c == nil {
		return
	}
	c.calls = append(c.calls, k)
	c.hits[k]++
	r, ok := c.react[k]
	if !ok || c.hits[k] > r.Limit {
		return
	}
	switch r.Kind {
	case "on":
		c.em.On(types.EventName(r.Ev), emFns[r.Fn])
	case "once":
		c.em.Once(types.EventName(r.Ev), emFns[r.Fn])
	case "remove":
		c.em.RemoveListener(types.EventName(r.Ev), emFns[r.Fn])
	case "removeAll":
		c.em.RemoveAllListeners(types.EventName(r.Ev))
	case "clear":
		c.em.Clear()
	case "emitB":
		if c.depth == 0 && c.curEv == "a" {
			c.depth++
			c.em.Emit("b", "nested")
			c.depth--
		}
	case "emitSame":
		// the listener emits the very event it is being called for
		if c.depth == 0 {
			c.depth++
			c.em.Emit(types.EventName(c.curEv), "nested")
			c.depth--
		}
	}
}

func emL0(a ...any) { emHit(0, a) }
func emL1(a ...any) { emHit(1, a) }
func emL2(a ...any) { emHit(2, a) }
func emL3(a ...any) { emHit(3, a) }
func emL4(a ...any) { emHit(4, a) }
func emL5(a ...any) { emHit(5, a) }

var emFns []types.Listener

func init() { emFns = []types.Listener{emL0, emL1, emL2, emL3, emL4, emL5} }

// ---- model -----------------------------------------------------------------

type emReg struct {
	Fn   int
	Once bool
	ID   int
}

type emState struct {
	regs map[string][]emReg
	hits [6]int
}

func (s *emState) clone() *emState {
	n := &emState{regs: map[string][]emReg{}, hits: s.hits}
	for k, v := range s.regs {
		n.regs[k] = append([]emReg(nil), v...)
	}
	return n
}

func (s *emState) key() string {
	var b strings.Builder
	for _, ev := range []string{"a", "b"} {
		fmt.Fprintf(&b, "%s:", ev)
		for _, r := range s.regs[ev] {
			fmt.Fprintf(&b, "%d%v.%d,", r.Fn, r.Once, r.ID)
		}
	}
	fmt.Fprintf(&b, "%v", s.hits)
	return b.String()
}

func (s *emState) table() string {
	var b strings.Builder
	for _, ev := range []string{"a", "b"} {
		fmt.Fprintf(&b, "%s=[", ev)
		for _, r := range s.regs[ev] {
			if r.Once {
				fmt.Fprintf(&b, "once(L%d) ", r.Fn)
			} else {
				fmt.Fprintf(&b, "L%d ", r.Fn)
			}
		}
		b.WriteString("] ")
	}
	return b.String()
}

func dedupStates(in []*emState) []*emState {
	seen := map[string]bool{}
	var out []*emState
	for _, s := range in {
		k := s.key()
		if !seen[k] {
			seen[k] = true
			out = append(out, s)
		}
	}
	return out
}

// removeOne returns every table reachable by removing one registration of fn.
func removeOne(s *emState, ev string, fn int) []*emState {
	var out []*emState
	for i, r := range s.regs[ev] {
		if r.Fn == fn {
			n := s.clone()
			n.regs[ev] = append(append([]emReg(nil), s.regs[ev][:i]...), s.regs[ev][i+1:]...)
			out = append(out, n)
		}
	}
	if len(out) == 0 {
		out = append(out, s)
	}
	return out
}

type emSim struct {
	st    *emState
	calls []int
	fired map[int]bool // once registrations that have run, in this emit or in one nested in it
}

func copyFired(m map[int]bool) map[int]bool {
	n := make(map[int]bool, len(m)+1)
	for k, v := range m {
		n[k] = v
	}
	return n
}

var emNextID int

// set by simEmit when a listener (a once listener) emits the very event it is being called for
var emSawSame, emSawOnceSame bool

// simEmit simulates one Emit on one possible table: every registration
// present when the call starts is called once, in order (a once registration
// that has already run, e.g. in a nested emit of the same event, is spent and
// not called again); a once registration removes itself; reactions run inside
// the listeners.
func simEmit(react map[int]emReaction, start *emState, ev string, depth int, fired map[int]bool) []emSim {
	cur := []emSim{{st: start.clone(), fired: copyFired(fired)}}
	snapshot := append([]emReg(nil), start.regs[ev]...)
	for _, reg := range snapshot {
		var next []emSim
		for _, sim := range cur {
			if reg.Once && sim.fired[reg.ID] {
				next = append(next, sim)
				continue
			}
			st := sim.st.clone()
			calls := append(append([]int(nil), sim.calls...), reg.Fn)
			st.hits[reg.Fn]++
			fd := copyFired(sim.fired)
			if reg.Once {
				fd[reg.ID] = true
			}
			branches := []emSim{{st: st, calls: calls, fired: fd}}
			if r, ok := react[reg.Fn]; ok && st.hits[reg.Fn] <= r.Limit {
				switch r.Kind {
				case "on", "once":
					emNextID++
					st.regs[r.Ev] = append(st.regs[r.Ev], emReg{Fn: r.Fn, Once: r.Kind == "once", ID: emNextID})
				case "remove":
					branches = nil
					for _, n := range removeOne(st, r.Ev, r.Fn) {
						branches = append(branches, emSim{st: n, calls: calls, fired: fd})
					}
				case "removeAll":
					delete(st.regs, r.Ev)
				case "clear":
					st.regs = map[string][]emReg{}
				case "emitB", "emitSame":
					target := "b"
					if r.Kind == "emitSame" {
						target = ev
					}
					if depth == 0 && (r.Kind == "emitSame" || ev == "a") {
						if r.Kind == "emitSame" {
							emSawSame = true
							if reg.Once {
								emSawOnceSame = true
							}
						}
						branches = nil
						for _, inner := range simEmit(react, st, target, depth+1, fd) {
							branches = append(branches, emSim{st: inner.st, calls: append(append([]int(nil), calls...), inner.calls...), fired: inner.fired})
						}
					}
				}
			}
			// a once registration is gone after it fired (if something else has not removed it already)
			if reg.Once {
				for _, b := range branches {
					rs := b.st.regs[ev]
					for i, x := range rs {
						if x.ID == reg.ID {
							b.st.regs[ev] = append(append([]emReg(nil), rs[:i]...), rs[i+1:]...)
							break
						}
					}
				}
			}
			next = append(next, branches...)
		}
		cur = next
	}
	return cur
}

type emOp struct {
	Kind string // on once addListener remove removeAll clear emit count listeners len
	Ev   string
	Fns  []int // -1 = nil listener
}

func (o emOp) String() string {
	var fs []string
	for _, f := range o.Fns {
		if f < 0 {
			fs = append(fs, "nil")
		} else {
			fs = append(fs, fmt.Sprintf("L%d", f))
		}
	}
	return fmt.Sprintf("%s(%s %s)", o.Kind, o.Ev, strings.Join(fs, ","))
}

func genEmCase(rt *rapid.T, allowNil, allowSameOnce bool, col *Collector) ([]emOp, map[int]emReaction) {
	react := map[int]emReaction{}
	for i := 0; i < rapid.IntRange(0, 2).Draw(rt, "nreact"); i++ {
		k := rapid.SampledFrom([]int{0, 0, 1, 1, 2, 2, 3, 4, 5}).Draw(rt, "react.k")
		react[k] = emReaction{
			Kind:  rapid.SampledFrom([]string{"on", "once", "remove", "remove", "removeAll", "clear", "emitB", "emitSame", "emitSame"}).Draw(rt, "react.kind"),
			Ev:    rapid.SampledFrom([]string{"a", "b"}).Draw(rt, "react.ev"),
			Fn:    rapid.SampledFrom([]int{0, 0, 1, 1, 2, 2, 3, 4, 5}).Draw(rt, "react.fn"),
			Limit: rapid.IntRange(1, 2).Draw(rt, "react.limit"),
		}
	}
	n := rapid.IntRange(1, 25).Draw(rt, "nops")
	ops := make([]emOp, 0, n)
	// generation-time view: which functions are registered how on which event
	type flav struct{ on, once bool }
	seen := map[string]flav{}
	for i := 0; i < n; i++ {
		l := fmt.Sprintf("op%d", i)
		k := rapid.SampledFrom([]string{"on", "on", "once", "addListener", "remove", "remove", "removeAll", "clear", "emit", "emit", "emit", "count", "listeners", "len"}).Draw(rt, l+".kind")
		o := emOp{Kind: k, Ev: rapid.SampledFrom([]string{"a", "a", "b"}).Draw(rt, l+".ev")}
		switch k {
		case "on", "once", "addListener":
			m := rapid.SampledFrom([]int{0, 1, 1, 1, 2, 2, 3}).Draw(rt, l+".n")
			for j := 0; j < m; j++ {
				f := rapid.SampledFrom([]int{-1, 0, 0, 1, 1, 2, 2, 3, 4, 5}).Draw(rt, l+".fn")
				if f < 0 && !allowNil {
					col.Exclude("nil listener (known finding " + sigNilListener + ")")
					f = 0
				}
				if f >= 0 {
					key := fmt.Sprintf("%s/%d", o.Ev, f)
					fl := seen[key]
					if k == "once" {
						fl.once = true
					} else {
						fl.on = true
					}
					if fl.on && fl.once && !allowSameOnce {
						col.Exclude("same function registered with On and Once on one event (known finding " + sigOnceRemoves + ")")
						continue
					}
					seen[key] = fl
				}
				o.Fns = append(o.Fns, f)
			}
		case "remove":
			o.Fns = []int{rapid.SampledFrom([]int{-1, 0, 0, 1, 1, 2, 2, 3, 4, 5}).Draw(rt, l+".fn")}
		}
		ops = append(ops, o)
	}
	if !allowSameOnce {
		// reactions may also register: keep them from creating the excluded shape
		for k, r := range react {
			if r.Kind == "on" || r.Kind == "once" {
				key := fmt.Sprintf("%s/%d", r.Ev, r.Fn)
				fl := seen[key]
				if (r.Kind == "once" && fl.on) || (r.Kind == "on" && fl.once) || (fl.on && fl.once) {
					delete(react, k)
					continue
				}
				if r.Kind == "once" {
					fl.once = true
				} else {
					fl.on = true
				}
				seen[key] = fl
			}
		}
	}
	return ops, react
}

// runEmCase executes the script against a fresh emitter and the model.
func runEmCase(ops []emOp, react map[int]emReaction) (fail string, stats map[string]bool) {
	stats = map[string]bool{}
	c := &emCase{em: types.NewEventEmitter(), react: react, hits: map[int]int{}}
	curEm = c
	defer func() { curEm = nil }()
	states := []*emState{{regs: map[string][]emReg{}}}
	for i, o := range ops {
		what := fmt.Sprintf("step %d %v", i, o)
		var panicked any
		func() {
			defer func() { panicked = recover() }()
			ev := types.EventName(o.Ev)
			switch o.Kind {
			case "on", "once", "addListener":
				ls := make([]types.Listener, len(o.Fns))
				for j, f := range o.Fns {
					if f >= 0 {
						ls[j] = emFns[f]
					} else {
						stats["nil-listener"] = true
					}
				}
				var err error
				switch o.Kind {
				case "on":
					err = c.em.On(ev, ls...)
				case "once":
					err = c.em.Once(ev, ls...)
				default:
					err = c.em.AddListener(ev, ls...)
				}
				if err != nil {
					fail = fmt.Sprintf("%s returned error %v", what, err)
					return
				}
				for _, s := range states {
					for _, f := range o.Fns {
						if f >= 0 {
							emNextID++
							s.regs[o.Ev] = append(s.regs[o.Ev], emReg{Fn: f, Once: o.Kind == "once", ID: emNextID})
						}
					}
				}
			case "remove":
				var l types.Listener
				if o.Fns[0] >= 0 {
					l = emFns[o.Fns[0]]
				}
				got := c.em.RemoveListener(ev, l)
				var next []*emState
				want := false
				for _, s := range states {
					has := false
					for _, r := range s.regs[o.Ev] {
						if r.Fn == o.Fns[0] {
							has = true
						}
					}
					if has {
						want = true
						if len(s.regs[o.Ev]) > 1 {
							stats["remove-among-several"] = true
						}
					}
					if has == got {
						next = append(next, removeOne(s, o.Ev, o.Fns[0])...)
					}
				}
				if len(next) == 0 {
					fail = fmt.Sprintf("%s returned %v, but the function %s registered (possible tables: %s)", what, got, map[bool]string{true: "is", false: "is not"}[want], tables(states))
					return
				}
				states = dedupStates(next)
			case "removeAll":
				got := c.em.RemoveAllListeners(ev)
				for _, s := range states {
					if len(s.regs[o.Ev]) > 0 && !got {
						fail = fmt.Sprintf("%s returned false although listeners were registered (%s)", what, s.table())
						return
					}
					delete(s.regs, o.Ev)
				}
			case "clear":
				c.em.Clear()
				for _, s := range states {
					s.regs = map[string][]emReg{}
				}
			case "count", "listeners":
				var got int
				if o.Kind == "count" {
					got = c.em.ListenerCount(ev)
				} else {
					ls := c.em.Listeners(ev)
					got = len(ls)
					for _, l := range ls {
						if l == nil {
							fail = fmt.Sprintf("%s returned a nil listener", what)
							return
						}
					}
				}
				var next []*emState
				for _, s := range states {
					if len(s.regs[o.Ev]) == got {
						next = append(next, s)
					}
				}
				if len(next) == 0 {
					fail = fmt.Sprintf("%s = %d; possible tables: %s", what, got, tables(states))
					return
				}
				states = next
			case "len":
				got := c.em.Len()
				names := c.em.EventNames()
				if got != len(names) {
					fail = fmt.Sprintf("%s: Len()=%d but EventNames()=%v", what, got, names)
					return
				}
				for _, s := range states {
					for ev, rs := range s.regs {
						if len(rs) > 0 {
							found := false
							for _, n := range names {
								if string(n) == ev {
									found = true
								}
							}
							if !found {
								fail = fmt.Sprintf("%s: event %q has listeners (%s) but is missing from EventNames()=%v", what, ev, s.table(), names)
								return
							}
						}
					}
				}
			case "emit":
				c.calls = nil
				c.curEv = o.Ev
				c.em.Emit(ev, "x", i)
				got := append([]int(nil), c.calls...)
				var next []*emState
				var wants []string
				for _, s := range states {
					for _, sim := range simEmit(react, s, o.Ev, 0, nil) {
						wants = append(wants, fmt.Sprint(sim.calls))
						if fmt.Sprint(sim.calls) == fmt.Sprint(got) {
							next = append(next, sim.st)
						}
					}
					if len(s.regs[o.Ev]) >= 2 {
						stats["emit>=2"] = true
					}
					for _, r := range s.regs[o.Ev] {
						if r.Once {
							stats["emit-once"] = true
						}
						if _, ok := react[r.Fn]; ok {
							stats["mutating-listener"] = true
						}
					}
				}
				if emSawSame {
					stats["listener-emits-its-own-event"] = true
				}
				if emSawOnceSame {
					stats["once-listener-emits-its-own-event"] = true
				}
				emSawSame, emSawOnceSame = false, false
				if len(next) == 0 {
					sort.Strings(wants)
					fail = fmt.Sprintf("%s called listeners %v; the registrations present when the call started require %s (possible tables: %s)", what, got, strings.Join(uniq(wants), " or "), tables(states))
					return
				}
				states = dedupStates(next)
			}
		}()
		if panicked != nil {
			return fmt.Sprintf("%s panicked: %v", what, panicked), stats
		}
		if fail != "" {
			return fail, stats
		}
		if len(states) > 1 {
			stats["ambiguous-removal"] = true
		}
		if len(states) > 64 {
			states = states[:64]
		}
	}
	return "", stats
}

func uniq(s []string) []string {
	var out []string
	for i, x := range s {
		if i == 0 || x != s[i-1] {
			out = append(out, x)
		}
	}
	return out
}

func tables(st []*emState) string {
	var out []string
	for i, s := range st {
		if i >= 4 {
			out = append(out, "...")
			break
		}
		out = append(out, s.table())
	}
	return strings.Join(out, " | ")
}

func TestC20Emitter(t *testing.T) {
	col := NewCollector("TestC20Emitter",
		"rapid: scripts of 1-25 emitter operations (On/Once/AddListener with 0-3 listeners incl. nil entries, RemoveListener incl. nil and unregistered, RemoveAllListeners, Clear, Emit, ListenerCount, Listeners, Len/EventNames) over 2 events and 6 distinct listener functions, up to 2 of which mutate the emitter (add/remove/removeAll/clear/nested emit of the other or of the very same event) while an emit is in progress; oracle: set-of-possible-listener-tables model (which registration of a multiply registered function is removed is left open); non-trivial: a nil listener, an emit with >=2 registrations, a once registration or a mutating listener in an emit, or a removal among several registrations").Use(t)
	allowNil := !isKnown("C20", sigNilListener)
	allowSameOnce := !isKnown("C20", sigOnceRemoves)
	rapid.Check(t, func(rt *rapid.T) {
		ops, react := genEmCase(rt, allowNil, allowSameOnce, col)
		journal("C20 emitter %v react=%v", ops, react)
		fail, stats := runEmCase(ops, react)
		var classes []string
		for k := range stats {
			classes = append(classes, k)
		}
		sort.Strings(classes)
		col.Case(fmt.Sprint(ops, react), len(stats) > 0, map[string]any{"ops": fmt.Sprint(ops), "reactions": fmt.Sprint(react)}, classes...)
		if fail != "" {
			rt.Fatalf("script %v reactions %v\n%s", ops, react, fail)
		}
	})
	req := []string{"emit>=2", "emit-once", "mutating-listener", "remove-among-several", "ambiguous-removal", "listener-emits-its-own-event", "once-listener-emits-its-own-event"}
	if allowNil {
		req = append(req, "nil-listener")
	}
	col.RequireClasses(t, req...)
}

// TestC20EmitterFindings: deterministic demonstrations of the two emitter defects.
func TestC20EmitterFindings(t *testing.T) {
	col := NewCollector("TestC20EmitterFindings", "deterministic scripts for the recorded emitter findings (nil listener then Listeners/RemoveListener/ListenerCount; On(f)+Once(f) then two emits). every case is non-trivial").Use(t)
	for _, sc := range [][]emOp{
		{{Kind: "on", Ev: "a", Fns: []int{-1, 1}}, {Kind: "count", Ev: "a"}},
		{{Kind: "on", Ev: "a", Fns: []int{-1, 1}}, {Kind: "listeners", Ev: "a"}},
		{{Kind: "once", Ev: "a", Fns: []int{2, -1}}, {Kind: "remove", Ev: "a", Fns: []int{3}}},
		{{Kind: "addListener", Ev: "a", Fns: []int{-1}}, {Kind: "remove", Ev: "a", Fns: []int{0}}, {Kind: "emit", Ev: "a"}},
	} {
		fail, _ := runEmCase(sc, nil)
		col.Case(fmt.Sprint(sc), true, map[string]any{"ops": fmt.Sprint(sc), "result": fail}, "nil-listener")
		demoFinding(t, col, "C20", sigNilListener, fail != "", fail)
	}
	for _, sc := range [][]emOp{
		{{Kind: "on", Ev: "a", Fns: []int{0}}, {Kind: "once", Ev: "a", Fns: []int{0}}, {Kind: "emit", Ev: "a"}, {Kind: "emit", Ev: "a"}},
		{{Kind: "on", Ev: "a", Fns: []int{1, 0}}, {Kind: "once", Ev: "a", Fns: []int{0}}, {Kind: "emit", Ev: "a"}, {Kind: "count", Ev: "a"}, {Kind: "emit", Ev: "a"}},
	} {
		fail, _ := runEmCase(sc, nil)
		col.Case(fmt.Sprint(sc), true, map[string]any{"ops": fmt.Sprint(sc), "result": fail}, "on+once-same-function")
		demoFinding(t, col, "C20", sigOnceRemoves, fail != "", fail)
	}
	// a once listener that emits the very event it is being called for (run on its own goroutine with a
	// real-time limit: when the defect is present the emit never returns)
	for _, sc := range [][]emOp{
		{{Kind: "once", Ev: "a", Fns: []int{1}}, {Kind: "emit", Ev: "a"}, {Kind: "count", Ev: "a"}, {Kind: "emit", Ev: "a"}},
		{{Kind: "on", Ev: "a", Fns: []int{0}}, {Kind: "once", Ev: "a", Fns: []int{1, 2}}, {Kind: "emit", Ev: "a"}, {Kind: "emit", Ev: "a"}},
	} {
		react := map[int]emReaction{1: {Kind: "emitSame", Limit: 1}}
		done := make(chan string, 1)
		go func() {
			fail, _ := runEmCase(sc, react)
			done <- fail
		}()
		var fail string
		select {
		case fail = <-done:
		case <-time.After(3 * time.Second):
			fail = "the emit never returned: the once listener waits for itself"
		}
		col.Case(fmt.Sprint(sc, react), true, map[string]any{"ops": fmt.Sprint(sc), "reactions": fmt.Sprint(react), "result": fail}, "once-listener-emits-its-own-event")
		demoFinding(t, col, "C20", sigOnceReentrant, fail != "", fail)
	}
}

const sigOnceReentrant = "once-listener-emitting-its-own-event-deadlocks"

// TestC20OnceConcurrent: a Once listener runs exactly once under concurrent emits.
func TestC20OnceConcurrent(t *testing.T) {
	col := NewCollector("TestC20OnceConcurrent",
		"rapid: 1-4 Once listeners and 0-2 On listeners on one event, 2-8 goroutines released together each emitting 1-3 times (real scheduler); oracle: every Once listener ran exactly once overall, every On listener once per emit, emitter has no Once registration left. non-trivial: >=2 emitting goroutines (always)").Use(t)
	rapid.Check(t, func(rt *rapid.T) {
		nOnce := rapid.IntRange(1, 4).Draw(rt, "nOnce")
		nOn := rapid.IntRange(0, 2).Draw(rt, "nOn")
		g := rapid.IntRange(2, 8).Draw(rt, "goroutines")
		per := rapid.IntRange(1, 3).Draw(rt, "emitsEach")
		em := types.NewEventEmitter()
		var mu sync.Mutex
		onceHits := make([]int, nOnce)
		onHits := make([]int, nOn)
		for i := 0; i < nOnce; i++ {
			i := i
			em.Once("e", func(...any) { mu.Lock(); onceHits[i]++; mu.Unlock() })
		}
		for i := 0; i < nOn; i++ {
			i := i
			em.On("e", func(...any) { mu.Lock(); onHits[i]++; mu.Unlock() })
		}
		start := make(chan struct{})
		var wg sync.WaitGroup
		for i := 0; i < g; i++ {
			wg.Add(1)
			go func() {
				defer wg.Done()
				<-start
				for j := 0; j < per; j++ {
					em.Emit("e", j)
				}
			}()
		}
		close(start)
		wg.Wait()
		col.Case(fmt.Sprintf("%d/%d/%d/%d", nOnce, nOn, g, per), true, map[string]any{"once": nOnce, "on": nOn, "goroutines": g, "emitsEach": per}, fmt.Sprintf("goroutines=%d", g))
		for i, h := range onceHits {
			if h != 1 {
				rt.Fatalf("Once listener %d ran %d times under %d goroutines x %d emits", i, h, g, per)
			}
		}
		for i, h := range onHits {
			if h != g*per {
				rt.Fatalf("On listener %d ran %d times, want %d", i, h, g*per)
			}
		}
		if n := em.ListenerCount("e"); n != nOn {
			rt.Fatalf("ListenerCount after all Once listeners fired = %d, want %d", n, nOn)
		}
	})
}

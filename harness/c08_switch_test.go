package harness

// C08 / C12, a session that closes while its transports are being switched: the candidate's upgrade packet has been
// accepted (the attempt's own listeners and timeout are gone), the candidate is not yet the session's transport
// (yield point socket.upgrade.switching) when the session closes on another goroutine (the application closes it;
// its old transport fails). The candidate must not be left over: the server closes it, the client behind it learns
// that the session is gone, nothing stays registered.

import (
	"fmt"
	"testing"
	"time"

	"github.com/zishang520/engine.io/v2/config"
	"github.com/zishang520/engine.io/v2/types"
	"pgregory.net/rapid"
)

const sigCandidateLeftOver = "candidate-left-open-when-the-session-closes-during-the-switch"

type swCase struct {
	Rev int
	To  string // websocket | webtransport
	How string // appCloseNow | appClose | none
}

func (c swCase) String() string {
	return fmt.Sprintf("{rev%d to=%s session-closes-during-the-switch-by=%s}", c.Rev, c.To, c.How)
}

func runSW(c swCase) (fail string, stats map[string]bool) {
	stats = map[string]bool{}
	o := config.DefaultServerOptions()
	o.SetAllowEIO3(true)
	o.SetTransports(types.NewSet("polling", "websocket", "webtransport"))
	o.SetPingInterval(10 * time.Minute)
	o.SetPingTimeout(10 * time.Minute)
	o.SetUpgradeTimeout(5 * time.Second)
	w := NewWorld(o)
	defer w.Teardown()
	g := InstallGates(nil)
	defer g.Uninstall()
	eio := fmt.Sprint(c.Rev)
	pc := &PollClient{W: w, O: ClientOpts{Rev: c.Rev, EIO: eio}}
	pc.StartHandshake()
	Settle()
	if err := pc.FinishHandshake(); err != nil {
		return "harness: " + err.Error(), stats
	}
	sr := w.Get(pc.Sid)
	pc.StartPoll()
	Settle()
	var wc *WSClient
	var tc *WTClient
	send := func(p Pkt) {
		if wc != nil {
			wc.SendPacket(p, nil)
		} else {
			tc.SendPacket(p)
		}
	}
	if c.To == "websocket" {
		wc = &WSClient{W: w, O: ClientOpts{Rev: c.Rev, EIO: eio}, Sid: pc.Sid}
		wc.Start()
		Settle()
		wc.Pump()
	} else {
		tc = &WTClient{W: w, O: ClientOpts{Rev: 4}, Sid: pc.Sid}
		tc.Start()
		Settle()
		tc.OpenBidi()
		tc.SendHandshake()
		Settle()
	}
	send(ctlD(tPing, "probe"))
	Settle()
	for i := 0; i < 4 && pc.Poll != nil; i++ {
		time.Sleep(100 * time.Millisecond)
		Settle()
		pc.Pump()
	}
	gp := GatePoint{"socket.upgrade.switching", g.Count("socket.upgrade.switching")}
	g.mu.Lock()
	g.plan[gp] = true
	g.mu.Unlock()
	send(ctl(tUpgrade))
	Settle()
	parked := false
	for _, p := range g.Parked() {
		if p == gp {
			parked = true
		}
	}
	g.mu.Lock()
	delete(g.plan, gp)
	g.mu.Unlock()
	if !parked {
		return "harness: the upgrade packet did not reach the yield point", stats
	}
	stats["held-between-accepting-the-upgrade-packet-and-the-switch"] = true
	switch c.How {
	case "appCloseNow":
		sr.Sock.Close(true)
	case "appClose":
		sr.Sock.Close(false)
	}
	Settle()
	stats["meanwhile."+c.How] = true
	g.Release(gp)
	Settle()
	time.Sleep(time.Second)
	Settle()
	candClosed := func() bool {
		if wc != nil {
			wc.Pump()
			return wc.EOF || wc.GotClose
		}
		tc.Pump()
		return tc.SessionClosed || tc.StreamReset
	}
	switch c.How {
	case "none":
		if len(sr.Closes) != 0 || sr.Sock.Transport().Name() != c.To {
			return fmt.Sprintf("nothing happened during the switch: close events %v, transport %s", sr.Closes, sr.Sock.Transport().Name()), stats
		}
		n := len(sr.Msgs)
		send(msgT("after"))
		Settle()
		if len(sr.Msgs) != n+1 {
			return "the upgraded session does not deliver messages", stats
		}
	default:
		if len(sr.Closes) != 1 || sr.Closes[0] != "forced close" {
			return fmt.Sprintf("the application closed the session during the switch: close events %v (state %s)", sr.Closes, sr.Sock.ReadyState()), stats
		}
		if _, ok := w.Srv.Clients().Load(pc.Sid); ok || w.Srv.ClientsCount() != 0 {
			return fmt.Sprintf("the session closed during the switch and is still registered (count %d)", w.Srv.ClientsCount()), stats
		}
		if !candClosed() {
			return fmt.Sprintf("the session closed (%v) while its transports were being switched: one second later the server has not closed the candidate's connection; its client believes it has upgraded and will get neither data nor a close", sr.Closes), stats
		}
		stats["candidate-closed-by-the-server"] = true
	}
	if wc != nil {
		wc.Drop()
	} else {
		tc.Drop()
	}
	Settle()
	return "", stats
}

func TestC08SessionClosesDuringSwitch(t *testing.T) {
	col := NewCollector("TestC08SessionClosesDuringSwitch",
		"rapid: a polling session (revision 3/4) with a probed websocket / webtransport candidate whose upgrade packet is held right after it was accepted (yield point socket.upgrade.switching: the attempt's listeners and timeout are gone, the transports not yet switched) while the application closes the session (Close(true), Close(false); control: nothing); oracle: exactly one close event 'forced close', nothing registered, and the server has closed the candidate's connection one second later (control: the switch completes and traffic flows). every case is non-trivial").Use(t)
	known := isKnown("C08", sigCandidateLeftOver)
	rapid.Check(t, func(rt *rapid.T) {
		c := swCase{Rev: 4, To: rapid.SampledFrom([]string{"websocket", "webtransport"}).Draw(rt, "to"), How: rapid.SampledFrom([]string{"appCloseNow", "appCloseNow", "appClose", "none"}).Draw(rt, "how")}
		if c.To == "websocket" && rapid.IntRange(0, 2).Draw(rt, "rev3") == 0 {
			c.Rev = 3
		}
		if known && c.How != "none" {
			col.Exclude("session closing during the switch (known finding " + sigCandidateLeftOver + ")")
			c.How = "none"
		}
		journal("C08sw %v", c)
		var fail string
		var stats map[string]bool
		res := bubble(t, func() { fail, stats = runSW(c) })
		res.rethrow()
		var cl []string
		for k := range stats {
			cl = append(cl, k)
		}
		col.Case(c.String(), true, map[string]any{"case": c.String()}, cl...)
		if fail != "" {
			rt.Fatalf("%v: %s", c, fail)
		}
		if res.Leak != "" {
			rt.Fatalf("%v: %s", c, clipStr(res.Leak, 1500))
		}
	})
	col.RequireClasses(t, "held-between-accepting-the-upgrade-packet-and-the-switch", "meanwhile.none")
}

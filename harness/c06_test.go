package harness

// C06 — handshake: one session, one connection event, the open packet
// advertises the effective configuration, initial packet first, revision
// determines heartbeat mode and payload format.

import (
	"bytes"
	"encoding/json"
	"fmt"
	"net/http"
	"sort"
	"strings"
	"testing"
	"time"

	"github.com/zishang520/engine.io/v2/config"
	"github.com/zishang520/engine.io/v2/types"
	"pgregory.net/rapid"
)

const sigInitialPacket = "initial-packet-reader-shared-between-sessions"

type c06Cfg struct {
	PingInterval, PingTimeout time.Duration
	MaxPayload                int64
	Transports                []string
	AllowUpgrades             *bool
	AllowEIO3                 bool
	Initial                   string // none | text | binary
	// InitialAs: how the application hands the packet to SetInitialPacket (the option takes any io.Reader):
	// "" the library's own buffer types, "std": a strings.Reader (text) / bytes.Buffer (binary) of the standard library
	InitialAs   string
	InitialData []byte
	Cookie      bool
	// Greeting: the application's connection listener sends a message on the new session before it returns
	// (the usual greeting idiom); with an initial packet configured the greeting comes after it
	Greeting bool
}

func (c c06Cfg) String() string {
	au := "unset"
	if c.AllowUpgrades != nil {
		au = fmt.Sprint(*c.AllowUpgrades)
	}
	return fmt.Sprintf("{pingInterval=%v pingTimeout=%v maxPayload=%d transports=%v allowUpgrades=%s allowEIO3=%v initial=%s(%d bytes) cookie=%v greetingInConnectionListener=%v}",
		c.PingInterval, c.PingTimeout, c.MaxPayload, c.Transports, au, c.AllowEIO3, c.Initial, len(c.InitialData), c.Cookie, c.Greeting)
}

type c06HS struct {
	Carrier string // polling | jsonp | websocket | webtransport
	EIO     string // "4" | "3" | "" (absent)
	B64     bool
	J       string
	Chunk   int // polling / jsonp: data requests without a declared length, body in pieces of this size (0 = declared)
}

func (h c06HS) String() string {
	return fmt.Sprintf("{%s EIO=%q b64=%v j=%q}", h.Carrier, h.EIO, h.B64, h.J)
}

func (h c06HS) rev() int {
	if h.EIO == "4" || h.Carrier == "webtransport" {
		return 4
	}
	return 3
}

var msGrid = []time.Duration{1 * time.Millisecond, 2 * time.Millisecond, 25 * time.Millisecond, 999 * time.Millisecond, time.Second, 20 * time.Second, 25 * time.Second, time.Hour}

func genC06Cfg(rt *rapid.T) c06Cfg {
	c := c06Cfg{}
	dur := func(l string) time.Duration {
		if rapid.Bool().Draw(rt, l+".grid") {
			return rapid.SampledFrom(msGrid).Draw(rt, l)
		}
		return time.Duration(rapid.Int64Range(1, 3_600_000).Draw(rt, l+".ms")) * time.Millisecond
	}
	c.PingInterval, c.PingTimeout = dur("pingInterval"), dur("pingTimeout")
	c.MaxPayload = rapid.OneOf(rapid.SampledFrom([]int64{1, 100, 1e6, 1e8}), rapid.Int64Range(1, 1e8)).Draw(rt, "maxPayload")
	all := []string{"polling", "websocket", "webtransport"}
	mask := rapid.IntRange(1, 7).Draw(rt, "transports")
	for i, n := range all {
		if mask&(1<<i) != 0 {
			c.Transports = append(c.Transports, n)
		}
	}
	switch rapid.IntRange(0, 2).Draw(rt, "allowUpgrades") {
	case 1:
		b := true
		c.AllowUpgrades = &b
	case 2:
		b := false
		c.AllowUpgrades = &b
	}
	c.AllowEIO3 = rapid.Bool().Draw(rt, "allowEIO3")
	c.Initial = rapid.SampledFrom([]string{"none", "none", "text", "binary"}).Draw(rt, "initial")
	if c.Initial == "text" {
		c.InitialData = []byte(rapid.SampledFrom([]string{"0", "hello", "", "42[\"x\"]", "ünï😀", "a:b;c", "5:4abc"}).Draw(rt, "initialText"))
	} else if c.Initial == "binary" {
		c.InitialData = rapid.SliceOfN(rapid.Byte(), 0, 40).Draw(rt, "initialBin")
	}
	if c.Initial != "none" && rapid.IntRange(0, 2).Draw(rt, "initialAsStdReader") == 0 {
		c.InitialAs = "std"
	}
	c.Cookie = rapid.Bool().Draw(rt, "cookie")
	c.Greeting = rapid.IntRange(0, 2).Draw(rt, "greetingInConnectionListener") == 0
	return c
}

func (c c06Cfg) options() *config.ServerOptions {
	o := config.DefaultServerOptions()
	o.SetPingInterval(c.PingInterval)
	o.SetPingTimeout(c.PingTimeout)
	o.SetMaxHttpBufferSize(c.MaxPayload)
	o.SetTransports(types.NewSet(c.Transports...))
	if c.AllowUpgrades != nil {
		o.SetAllowUpgrades(*c.AllowUpgrades)
	}
	o.SetAllowEIO3(c.AllowEIO3)
	switch c.Initial {
	case "text":
		if c.InitialAs == "std" {
			o.SetInitialPacket(strings.NewReader(string(c.InitialData)))
		} else {
			o.SetInitialPacket(types.NewStringBuffer(append([]byte(nil), c.InitialData...)))
		}
	case "binary":
		if c.InitialAs == "std" {
			o.SetInitialPacket(bytes.NewBuffer(append([]byte(nil), c.InitialData...)))
		} else {
			o.SetInitialPacket(types.NewBytesBuffer(append([]byte(nil), c.InitialData...)))
		}
	}
	if c.Cookie {
		o.SetCookie(&httpCookieIO)
	}
	return o
}

func has(xs []string, x string) bool {
	for _, y := range xs {
		if x == y {
			return true
		}
	}
	return false
}

// expectedUpgrades: upgrade targets of the chosen transport that are enabled.
func (c c06Cfg) expectedUpgrades(carrier string) []string {
	if c.AllowUpgrades != nil && !*c.AllowUpgrades {
		return []string{}
	}
	if carrier != "polling" && carrier != "jsonp" {
		return []string{}
	}
	out := []string{}
	for _, t := range []string{"websocket", "webtransport"} {
		if has(c.Transports, t) {
			out = append(out, t)
		}
	}
	return out
}

// session handle independent of the carrier
type c06Sess struct {
	hs   c06HS
	pc   *PollClient
	wc   *WSClient
	tc   *WTClient
	open *OpenInfo
	raw  []byte
}

func (s *c06Sess) recv() []Pkt {
	switch {
	case s.pc != nil:
		return s.pc.Recv
	case s.wc != nil:
		s.wc.Pump()
		return s.wc.Recv
	default:
		s.tc.Pump()
		return s.tc.Recv
	}
}

func (s *c06Sess) errs() []string {
	switch {
	case s.pc != nil:
		return s.pc.Errs
	case s.wc != nil:
		return s.wc.Errs
	default:
		return s.tc.Errs
	}
}

// doHandshake performs a handshake on the carrier; returns nil,reason when
// the server refused it.
func doHandshake(w *World, h c06HS) (*c06Sess, string) {
	s := &c06Sess{hs: h}
	o := ClientOpts{Rev: h.rev(), EIO: h.EIO, B64: h.B64, NoEIO: h.EIO == "", Chunk: h.Chunk}
	switch h.Carrier {
	case "polling", "jsonp":
		if h.Carrier == "jsonp" {
			o.JSONP, o.J = true, h.J
		}
		pc := &PollClient{W: w, O: o}
		pc.StartHandshake()
		Settle()
		if err := pc.FinishHandshake(); err != nil {
			return nil, err.Error()
		}
		s.pc, s.open = pc, pc.Open
	case "websocket":
		wc := &WSClient{W: w, O: o}
		wc.Start()
		Settle()
		wc.Pump()
		if wc.Open == nil {
			return nil, fmt.Sprintf("websocket handshake: status=%d close=%q errs=%v", wc.HTTPStatus, wc.CloseText, wc.Errs)
		}
		s.wc, s.open = wc, wc.Open
	case "webtransport":
		tc := &WTClient{W: w, O: ClientOpts{Rev: 4}}
		tc.Start()
		Settle()
		tc.OpenBidi()
		tc.SendHandshake()
		Settle()
		tc.Pump()
		if tc.Open == nil {
			return nil, fmt.Sprintf("webtransport handshake failed: closed=%v msg=%q errs=%v", tc.SessionClosed, tc.CloseMsg, tc.Errs)
		}
		s.tc, s.open = tc, tc.Open
	}
	return s, ""
}

func TestC06Handshake(t *testing.T) {
	col := NewCollector("TestC06Handshake",
		"rapid: a server configuration (ping interval/timeout on a ms grid 1ms..1h, maxHttpBufferSize 1..1e8, every non-empty subset of {polling,websocket,webtransport}, allowUpgrades unset/true/false, allowEIO3, initial packet none/text/binary, cookie, an application connection listener that sends a greeting on the new session before it returns) and 1-4 handshakes (carrier polling/jsonp/websocket/webtransport x EIO 4/3/absent x b64 x j) on one server inside a virtual-time bubble; oracle: admitted iff transport enabled and (EIO=4 or allowEIO3); exactly one connection event (session open) and one registry entry per admitted handshake; first packet is open with exactly {sid,upgrades,pingInterval,pingTimeout,maxPayload} equal to the session id / configured ms / configured limit / (upgrade targets of the transport ∩ enabled, empty when upgrades disabled or not polling); configured initial packet is the first message, byte- and kind-identical, for every session; Socket.Protocol() is 4 iff EIO=4; afterwards a revision-4 session is pinged by the server after one ping interval and a revision-3 session answers a client ping with a pong, payloads decode in the revision's format. non-trivial: >=2 non-default option dimensions or a second session on the same server").Use(t)
	knownInit := isKnown("C06", sigInitialPacket)
	rapid.Check(t, func(rt *rapid.T) {
		cfg := genC06Cfg(rt)
		n := rapid.IntRange(1, 4).Draw(rt, "nHandshakes")
		hss := make([]c06HS, n)
		for i := range hss {
			hss[i] = c06HS{
				Carrier: rapid.SampledFrom([]string{"polling", "polling", "jsonp", "websocket", "webtransport"}).Draw(rt, "carrier"),
				EIO:     rapid.SampledFrom([]string{"4", "4", "3", ""}).Draw(rt, "eio"),
				B64:     rapid.Bool().Draw(rt, "b64"),
				J:       rapid.SampledFrom([]string{"0", "7", "12"}).Draw(rt, "j"),
			}
			if hss[i].Carrier == "jsonp" {
				hss[i].B64 = true
			}
		}
		if knownInit && cfg.Initial != "none" && n > 1 {
			col.Exclude("initial packet with more than one session (known finding " + sigInitialPacket + ")")
			hss = hss[:1]
		}
		journal("C06 %v %v", cfg, hss)
		var fail string
		classes := map[string]bool{}
		var w *World
		res := bubble(t, func() {
			w = NewWorld(cfg.options())
			defer w.Teardown()
			if cfg.Greeting {
				w.OnConn = func(sr *SessRec) { sr.Sock.Send(strings.NewReader(c06Greeting), nil, nil) }
			}
			admittedCount := 0
			for i, h := range hss {
				desc := fmt.Sprintf("%v handshake #%d %v", cfg, i, h)
				transportName := h.Carrier
				if h.Carrier == "jsonp" {
					transportName = "polling"
				}
				wantAdmit := (has(cfg.Transports, transportName) || h.Carrier == "webtransport") && (h.rev() == 4 || cfg.AllowEIO3)
				connBefore := len(w.Order)
				regBefore := len(w.RegistryKeys())
				s, why := doHandshake(w, h)
				if (s != nil) != wantAdmit {
					if h.Carrier == "webtransport" && !has(cfg.Transports, "webtransport") {
						// the application routes WebTransport sessions itself; not part of this property
						classes["wt-not-enabled"] = true
						continue
					}
					fail = fmt.Sprintf("%s: admitted=%v want %v (%s)", desc, s != nil, wantAdmit, why)
					return
				}
				if s == nil {
					classes["refused"] = true
					if len(w.Order) != connBefore || len(w.RegistryKeys()) != regBefore {
						fail = fmt.Sprintf("%s: refused handshake left a session behind", desc)
					}
					if fail != "" {
						return
					}
					continue
				}
				admittedCount++
				classes["carrier."+h.Carrier] = true
				classes[fmt.Sprintf("rev%d", h.rev())] = true
				if len(w.Order) != connBefore+1 {
					fail = fmt.Sprintf("%s: %d connection events, want exactly 1", desc, len(w.Order)-connBefore)
					return
				}
				if got := len(w.RegistryKeys()); got != regBefore+1 || int(w.Srv.ClientsCount()) != got {
					fail = fmt.Sprintf("%s: registry %d -> %d, count %d", desc, regBefore, got, w.Srv.ClientsCount())
					return
				}
				sr := w.Get(w.Order[len(w.Order)-1])
				if sr.ConnState != "open" {
					fail = fmt.Sprintf("%s: session handed to the application in state %q", desc, sr.ConnState)
					return
				}
				recv := s.recv()
				if len(recv) == 0 || recv[0].Type != tOpen {
					fail = fmt.Sprintf("%s: first packet is %v, want open", desc, recv)
					return
				}
				var raw map[string]json.RawMessage
				if err := json.Unmarshal(recv[0].Data, &raw); err != nil {
					fail = fmt.Sprintf("%s: open packet data %q: %v", desc, recv[0].Data, err)
					return
				}
				var keys []string
				for k := range raw {
					keys = append(keys, k)
				}
				sort.Strings(keys)
				if strings.Join(keys, ",") != "maxPayload,pingInterval,pingTimeout,sid,upgrades" {
					fail = fmt.Sprintf("%s: open packet has keys %v", desc, keys)
					return
				}
				oi := s.open
				if oi.Sid != sr.Sid || oi.Sid != sr.Sock.Id() {
					fail = fmt.Sprintf("%s: open sid %q, session id %q", desc, oi.Sid, sr.Sid)
					return
				}
				if _, ok := w.Srv.Clients().Load(oi.Sid); !ok {
					fail = fmt.Sprintf("%s: sid %q not in the client table", desc, oi.Sid)
					return
				}
				if oi.PingInterval != int64(cfg.PingInterval/time.Millisecond) || oi.PingTimeout != int64(cfg.PingTimeout/time.Millisecond) {
					fail = fmt.Sprintf("%s: open advertises pingInterval=%d pingTimeout=%d", desc, oi.PingInterval, oi.PingTimeout)
					return
				}
				if oi.MaxPayload != cfg.MaxPayload {
					fail = fmt.Sprintf("%s: open advertises maxPayload=%d", desc, oi.MaxPayload)
					return
				}
				gotUp := append([]string{}, oi.Upgrades...)
				sort.Strings(gotUp)
				wantUp := cfg.expectedUpgrades(h.Carrier)
				sort.Strings(wantUp)
				if string(raw["upgrades"]) == "null" || fmt.Sprint(gotUp) != fmt.Sprint(wantUp) {
					fail = fmt.Sprintf("%s: open advertises upgrades=%s, want %v", desc, raw["upgrades"], wantUp)
					return
				}
				if len(wantUp) > 0 {
					classes["upgrades-nonempty"] = true
				}
				if got := sr.Sock.Protocol(); got != h.rev() {
					fail = fmt.Sprintf("%s: Socket.Protocol()=%d want %d", desc, got, h.rev())
					return
				}
				if got := sr.Sock.Transport().Name(); got != transportName {
					fail = fmt.Sprintf("%s: transport %q want %q", desc, got, transportName)
					return
				}
				// initial packet
				wantAfterOpen := 0
				if cfg.Initial != "none" {
					wantAfterOpen++
				}
				if cfg.Greeting {
					wantAfterOpen++
				}
				if s.pc != nil && len(recv) < 1+wantAfterOpen {
					// polling: may arrive with the next poll
					s.pc.StartPoll()
					Settle()
					s.pc.Pump()
					recv = s.recv()
				}
				if cfg.Initial != "none" {
					classes["initial-packet"] = true
					if admittedCount > 1 {
						classes["initial-packet-second-session"] = true
						if cfg.InitialAs == "std" {
							classes["initial-packet-given-as-a-standard-library-reader-second-session"] = true
						}
					}
					want := Pkt{Type: tMessage, Data: cfg.InitialData, Binary: cfg.Initial == "binary"}
					if len(recv) < 2 || !recv[1].Equal(want) {
						fail = fmt.Sprintf("%s (session %d on this server): packets after open are %v, want the initial packet %v first", desc, admittedCount, recv[1:], want)
						return
					}
					if cfg.Greeting {
						classes["initial-packet-and-a-greeting-from-the-connection-listener"] = true
					}
				}
				if cfg.Greeting {
					if g := (Pkt{Type: tMessage, Data: []byte(c06Greeting)}); len(recv) != 1+wantAfterOpen || !recv[wantAfterOpen].Equal(g) {
						fail = fmt.Sprintf("%s: packets after open are %v, want the connection listener's greeting %v after the open packet and the initial packet, and nothing else", desc, recv[1:], g)
						return
					}
				} else if len(recv) > 1+wantAfterOpen {
					fail = fmt.Sprintf("%s: unexpected packets after open: %v", desc, recv[1:])
					return
				}
				if e := s.errs(); len(e) > 0 {
					fail = fmt.Sprintf("%s: client could not decode what it received: %v", desc, e)
					return
				}
				// heartbeat mode and payload format of the revision (bounded: one interval)
				before := len(s.recv())
				fits := true
				if s.pc != nil {
					hb := ctl(tPong)
					if h.rev() == 3 {
						hb = ctl(tPing)
					}
					body, _ := s.pc.EncodePost([]Pkt{hb}, false)
					fits = int64(len(body)) <= cfg.MaxPayload
				}
				if !fits {
					// the client's heartbeat body does not fit the configured limit
				} else if h.rev() == 4 {
					if s.pc != nil && s.pc.Poll == nil {
						s.pc.StartPoll()
					}
					Settle()
					if cfg.PingInterval <= 2*time.Second && cfg.PingTimeout > time.Millisecond {
						time.Sleep(cfg.PingInterval)
						Settle()
						if s.pc != nil {
							s.pc.Pump()
						}
						got := s.recv()[before:]
						if len(got) != 1 || got[0].Type != tPing {
							fail = fmt.Sprintf("%s: one ping interval after opening a revision-4 session received %v, want one ping (errs %v)", desc, got, s.errs())
							return
						}
						classes["v4-server-ping-seen"] = true
						// answer it so that the session stays healthy for the rest of the case
						switch {
						case s.pc != nil:
							s.pc.StartPost([]Pkt{ctl(tPong)}, false)
						case s.wc != nil:
							s.wc.SendPacket(ctl(tPong), nil)
						default:
							s.tc.SendPacket(ctl(tPong))
						}
						Settle()
					}
				} else {
					switch {
					case s.pc != nil:
						if s.pc.Poll == nil {
							s.pc.StartPoll()
						}
						s.pc.StartPost([]Pkt{ctl(tPing)}, false)
					case s.wc != nil:
						s.wc.SendPacket(ctl(tPing), nil)
					}
					Settle()
					if s.pc != nil {
						s.pc.Pump()
					}
					got := s.recv()[before:]
					if len(got) != 1 || got[0].Type != tPong {
						fail = fmt.Sprintf("%s: revision-3 client ping answered with %v, want one pong (errs %v)", desc, got, s.errs())
						return
					}
					classes["v3-pong-seen"] = true
				}
				if e := s.errs(); len(e) > 0 {
					fail = fmt.Sprintf("%s: client could not decode in the revision's format: %v", desc, e)
					return
				}
				if len(sr.Closes) > 0 {
					fail = fmt.Sprintf("%s: session closed during the handshake checks: %v", desc, sr.Closes)
					return
				}
			}
			if admittedCount >= 2 {
				classes["second-session"] = true
			}
		})
		nonDefault := 0
		if cfg.PingInterval != 25*time.Second {
			nonDefault++
		}
		if cfg.PingTimeout != 20*time.Second {
			nonDefault++
		}
		if cfg.MaxPayload != 1e6 {
			nonDefault++
		}
		if fmt.Sprint(cfg.Transports) != "[polling websocket]" {
			nonDefault++
		}
		if cfg.Initial != "none" {
			nonDefault++
		}
		var cl []string
		for k := range classes {
			cl = append(cl, k)
		}
		sort.Strings(cl)
		col.Case(fmt.Sprint(cfg, hss), nonDefault >= 2 || classes["second-session"], map[string]any{"config": cfg.String(), "handshakes": fmt.Sprint(hss)}, cl...)
		res.rethrow()
		if fail != "" {
			rt.Fatalf("%s", fail)
		}
		if res.Leak != "" {
			rt.Fatalf("%v %v: %s\nevents: %v", cfg, hss, clipStr(res.Leak, 1500), w.Log)
		}
	})
	req := []string{"carrier.polling", "carrier.jsonp", "carrier.websocket", "carrier.webtransport", "rev3", "rev4", "refused", "upgrades-nonempty", "second-session", "initial-packet", "v4-server-ping-seen", "v3-pong-seen", "initial-packet-and-a-greeting-from-the-connection-listener"}
	if !knownInit {
		req = append(req, "initial-packet-second-session", "initial-packet-given-as-a-standard-library-reader-second-session")
	}
	col.RequireClasses(t, req...)
}

const c06Greeting = "greeting from the connection listener"

var httpCookieIO = http.Cookie{Name: "io", Path: "/", HttpOnly: true, SameSite: http.SameSiteLaxMode}

func clipStr(s string, n int) string {
	if len(s) > n {
		return s[:n] + "..."
	}
	return s
}

// TestC06InitialPacketFinding: deterministic demonstration.
func TestC06InitialPacketFinding(t *testing.T) {
	col := NewCollector("TestC06InitialPacketFinding", "deterministic: server with a text / binary initial packet, three polling or websocket handshakes in a row; oracle: every session's first message equals the configured packet. every case is non-trivial").Use(t)
	for _, kind := range []string{"text", "binary"} {
		for _, carrier := range []string{"polling", "websocket"} {
			cfg := c06Cfg{PingInterval: 25 * time.Second, PingTimeout: 20 * time.Second, MaxPayload: 1e6, Transports: []string{"polling", "websocket"}, Initial: kind, InitialData: []byte("hello")}
			var bad []string
			res := bubble(t, func() {
				w := NewWorld(cfg.options())
				defer w.Teardown()
				for i := 0; i < 3; i++ {
					s, why := doHandshake(w, c06HS{Carrier: carrier, EIO: "4"})
					if s == nil {
						bad = append(bad, "handshake failed: "+why)
						return
					}
					if s.pc != nil {
						s.pc.StartPoll()
						Settle()
						s.pc.Pump()
					}
					recv := s.recv()
					want := Pkt{Type: tMessage, Data: []byte("hello"), Binary: kind == "binary"}
					if len(recv) < 2 || !recv[1].Equal(want) {
						bad = append(bad, fmt.Sprintf("session %d received %v after open, want %v", i+1, recv[1:], want))
					}
				}
			})
			res.rethrow()
			col.Case(kind+"/"+carrier, true, map[string]any{"initial": kind, "carrier": carrier, "result": bad}, "initial."+kind)
			demoFinding(t, col, "C06", sigInitialPacket, len(bad) > 0, fmt.Sprintf("%s initial packet over %s: %v", kind, carrier, bad))
		}
	}
}

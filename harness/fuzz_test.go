package harness

// Native coverage-guided fuzz targets (go test -fuzz), thorough tier.
//
// Every target carries the semantic oracle of its property inside the target
// (differential against the independent codec / scanner, round-trip, model of
// the session), not just "does not crash".  The byte-level targets take the
// fuzzer's bytes as the hostile or well-formed input itself; the targets built
// with rapid.MakeFuzz reuse the rapid property bodies of the corresponding
// Test* functions with the fuzzer's bytes as the source of all draws.
//
// The committed seed corpus (f.Add below and testdata/fuzz/<target>/) is
// replayed in both tiers as a seconds-long regression tier.
//
// Known findings are excluded by construction exactly as in the rapid checks
// (the input is skipped before it reaches the code under test).

import (
	"bytes"
	"fmt"
	"strings"
	"testing"
	"time"
	"unicode/utf8"

	"github.com/zishang520/engine.io/v2/config"
	"github.com/zishang520/engine.io/v2/types"
	wt "github.com/zishang520/webtransport-go"
	"pgregory.net/rapid"
)

func fuzzInit() {
	journalOff = true
}

// ---------------------------------------------------------------- C15 / C14

var fuzzWTS *wt.Server

// FuzzC15Reader: the bytes are the stream a WebTransport peer sends.
// Oracle: runC15 (independent left-to-right scan predicts every read).
func FuzzC15Reader(f *testing.F) {
	fuzzInit()
	f.Add([]byte{}, uint32(0), uint32(0))
	f.Add([]byte{0x05, 'h', 'e', 'l', 'l', 'o'}, uint32(0), uint32(0))
	f.Add([]byte{0x85, 1, 2, 3, 4, 5, 0x00, 0x7e, 0x00, 0x03, 'a', 'b', 'c'}, uint32(4), uint32(1))
	f.Add([]byte{0x7f, 0, 0, 0, 0, 0, 0, 0, 2, 'x', 'y', 0xfe, 0x00, 0x01, 'z'}, uint32(0), uint32(0x10))
	f.Add([]byte{0xff, 0xff, 0xff, 0xff, 0xff, 0xff, 0xff, 0xff, 0xff, 1}, uint32(0), uint32(7))
	f.Add([]byte{0x7f, 0x80, 0, 0, 0, 0, 0, 0, 0}, uint32(100), uint32(2))
	f.Add([]byte{0x7e, 0xff, 0xff, 'a'}, uint32(0), uint32(0x2c))
	f.Add(append([]byte{0x7e, 0x01, 0x00}, bytes.Repeat([]byte{'q'}, 256)...), uint32(255), uint32(0x135))
	f.Add([]byte{0x03, 'a', 'b'}, uint32(0), uint32(1<<3))
	f.Add([]byte{0x01, 'a', 0x81, 'b', 0x02, 'c', 'd'}, uint32(0), uint32(2))
	f.Add([]byte{0x01, 'a', 0x81, 'b', 0x02, 'c', 'd'}, uint32(0), uint32(1))
	f.Add([]byte{0x7f, 0x7f, 0xff, 0xff, 0xff, 0xff, 0xff, 0xff, 0xff, 'a'}, uint32(0), uint32(1))
	f.Add([]byte{0xff, 0, 0, 0, 1, 0, 0, 0, 0, 'a'}, uint32(0), uint32(1))
	f.Add([]byte{0x7e, 0x00, 0x7f, 'a'}, uint32(7), uint32(0x41))
	// the stream reports its end together with its last bytes; small bufio buffer, large application reads
	f.Add(append([]byte{0x7e, 0x00, 0x40}, bytes.Repeat([]byte{'r'}, 40)...), uint32(0), uint32(1<<26|1<<4|5<<10))
	f.Add(append([]byte{0x7e, 0x00, 0x40}, bytes.Repeat([]byte{'r'}, 40)...), uint32(0), uint32(1<<26|1<<4|5<<10|1))
	f.Add([]byte{0x03, 'a', 'b', 'c'}, uint32(0), uint32(1<<26|4))
	if fuzzWTS == nil {
		fuzzWTS = NewWTServer()
	}
	f.Fuzz(func(t *testing.T, stream []byte, limit uint32, ctl uint32) {
		if len(stream) > 1<<16 {
			return
		}
		cs := c15Case{Stream: stream}
		// the flags that select whole code paths sit in the low bits (single-bit mutations reach them)
		cs.ReadMsg = ctl&1 != 0
		cs.Stale = ctl&2 != 0
		cs.TailErr = ctl&4 != 0
		cs.Server = ctl&8 != 0
		if limit&3 == 3 {
			cs.Limit = int64(limit>>2)%70000 + 1
		}
		cs.ReadBuf = []int{0, 16, 64, 4096}[(ctl>>4)&3]
		switch (ctl >> 6) & 3 {
		case 1:
			cs.Frag = []int{1}
		case 2:
			cs.Frag = []int{int((ctl>>16)&7) + 1, int((ctl>>19)&7) + 1}
		case 3:
			cs.Frag = []int{int((ctl>>16)&0xfff) + 1}
		}
		switch (ctl >> 8) & 3 {
		case 1:
			cs.Consume = []int{int((ctl >> 22) & 15)}
		case 2:
			cs.Consume = []int{-1, int((ctl >> 22) & 15), 0}
		}
		cs.ReadSize = []int{int((ctl>>10)&0x3f)*80 + 1}
		cs.EndData = ctl&(1<<26) != 0
		if viol, _ := runC15(cs, fuzzWTS); viol != "" {
			t.Fatalf("%s\ncase: %v", viol, cs)
		}
	})
}

// FuzzC14Frame: the bytes are one message payload. Oracle: every write path
// emits exactly wtEncode(kind, payload) (header byte, minimal length form,
// payload, nothing else), and the reader yields the same message from each of
// the three length forms a peer may use.
func FuzzC14Frame(f *testing.F) {
	fuzzInit()
	f.Add([]byte{}, uint16(0))
	f.Add([]byte("hello"), uint16(1))
	f.Add(bytes.Repeat([]byte{0xab}, 125), uint16(2))
	f.Add(bytes.Repeat([]byte{0xab}, 126), uint16(3))
	f.Add(bytes.Repeat([]byte{0x7e}, 127), uint16(0x14))
	f.Add(bytes.Repeat([]byte{0xff}, 300), uint16(0x25))
	for i, n := range []int{124, 125, 126, 127, 128, 4095, 4096, 4097, 65534, 65535, 65536, 65537} {
		f.Add(makePayload(n, byte(i)), uint16(i))
		f.Add(makePayload(n, byte(i)), uint16(i*37+1))
	}
	f.Fuzz(func(t *testing.T, payload []byte, ctl uint16) {
		if len(payload) > 1<<17 {
			return
		}
		bin := ctl&1 != 0
		path := int(ctl>>1) % len(wtPathNames)
		W := []int{0, 16, 64, 128, 4096}[int(ctl>>4)%5]
		server := ctl&(1<<8) != 0
		var chunks []int
		if c := int(ctl>>9) & 7; c > 0 {
			chunks = []int{c * 19, c}
		}
		got, err := captureWrite(server, W, path, bin, payload, chunks, ctl&(1<<12) != 0, nil)
		if err != nil {
			t.Fatalf("write path %s: %v", wtPathNames[path], err)
		}
		want := wtEncode(bin, payload)
		if !bytes.Equal(got, want) {
			t.Fatalf("path %s W=%d bin=%v len=%d: emitted % x…(%d bytes), the format prescribes % x…(%d bytes)", wtPathNames[path], W, bin, len(payload), clip(got, 12), len(got), clip(want, 12), len(want))
		}
		// converse: all admissible length forms decode to the same message
		for form := 0; form < 3; form++ {
			if form == 1 && len(payload) > 65535 {
				continue
			}
			cs := c15Case{Stream: wtEncodeForm(bin, payload, form), ReadSize: []int{4096}, ReadBuf: []int{0, 16, 4096}[int(ctl>>13)%3], ReadMsg: ctl&(1<<15) != 0}
			if fr := int(ctl>>9) & 7; fr > 0 {
				cs.Frag = []int{fr}
			}
			if viol, _ := runC15(cs, nil); viol != "" {
				t.Fatalf("length form %d: %s", form, viol)
			}
		}
	})
}

// FuzzC13RoundTrip: rapid property body of TestC13RoundTrip driven by the fuzzer's bytes.
func FuzzC13RoundTrip(f *testing.F) {
	fuzzInit()
	known := isKnown("C13", sigWTSplit)
	col := NewDiscardCollector()
	f.Fuzz(rapid.MakeFuzz(propC13(col, known)))
}

// ---------------------------------------------------------------- C02

// FuzzC02Packets: up to three packets whose data are the fuzzer's bytes,
// encoded by the independent codec for the drawn carrier. Oracle: runC02.
func FuzzC02Packets(f *testing.F) {
	fuzzInit()
	knownV3 := isKnown("C02", sigV3BinMulti)
	f.Add(uint32(0), []byte("hello"), []byte{}, []byte("x"))
	f.Add(uint32(0x0101), []byte("5:4abc"), []byte{0, 1, 2, 0xff}, []byte("ünï😀"))
	f.Add(uint32(0x4212), []byte("with\nnewline"), []byte("\\n"), []byte("\\\\n"))
	f.Add(uint32(0x0a23), []byte("b4aGVsbG8="), []byte("a\x1eb"), []byte{0xfe, 0xff})
	f.Add(uint32(0x1b34), []byte("%41+%2B&d=x"), []byte("12:"), []byte(";"))
	f.Add(uint32(0x2c05), []byte("\xf0\x9d\x84\x9e"), []byte("1:2"), []byte{0})
	f.Add(uint32(0x3d16), []byte("quote\"'"), []byte("back\\slash"), []byte("\t\r"))
	f.Add(uint32(0xff07), []byte{}, []byte{}, []byte{})
	f.Fuzz(func(t *testing.T, cfg uint32, a, b, c []byte) {
		if len(a)+len(b)+len(c) > 1<<17 {
			return
		}
		cs := c02Case{Rev: 4, Tail: "none"}
		cs.Carrier = []string{"polling", "jsonp", "websocket", "webtransport"}[cfg&3]
		if cfg&4 != 0 && cs.Carrier != "webtransport" {
			cs.Rev = 3
		}
		cs.B64 = cfg&8 != 0 || cs.Carrier == "jsonp"
		cs.V3Binary = cs.Rev == 3 && cs.Carrier == "polling" && !cs.B64 && cfg&16 != 0
		cs.Split = []int{int(cfg>>5)&3 + 1}
		cs.WTForm = int(cfg>>7) % 3
		if f := int(cfg>>9) & 7; f > 0 && cs.Carrier == "websocket" {
			cs.Frags = []int{f, f * 3}
		}
		kinds := (cfg >> 12) & 0xfff
		for i, d := range [][]byte{a, b, c} {
			k := (kinds >> (4 * i)) & 15
			var p Pkt
			switch {
			case k < 7: // text message
				if !utf8.Valid(d) {
					return
				}
				if cs.Rev == 4 && (cs.Carrier == "polling" || cs.Carrier == "jsonp") && bytes.IndexByte(d, 0x1e) >= 0 {
					return // the separator cannot occur inside a packet of a revision-4 payload
				}
				if cs.Carrier == "jsonp" && bytes.Contains(d, []byte("\\\n")) {
					return // the JSONP newline escaping is not injective on backslash followed by a line feed (DESIGN.md section 3)
				}
				p = msgT(string(d))
			case k < 12:
				p = msgB(d)
			case k == 12:
				p = ctl(tNoop)
			case k == 13:
				if cs.Carrier != "polling" && cs.Carrier != "jsonp" {
					p = ctl(tNoop)
				} else {
					p = ctl(tClose)
				}
			case k == 14:
				if cs.Rev == 4 {
					p = ctl(tPong)
				} else {
					p = ctlD(tPing, "probe")
				}
			default:
				continue
			}
			cs.Pkts = append(cs.Pkts, p)
		}
		if len(cs.Pkts) == 0 {
			return
		}
		if cs.V3Binary && knownV3 {
			cs.StringLast = true
			for j, p := range cs.Pkts {
				if !p.Binary && !isASCII(p.Data) {
					return
				}
				_ = j
			}
		}
		var fail string
		res := bubble(t, func() { fail, _ = runC02(cs) })
		res.rethrow()
		if fail != "" {
			t.Fatalf("%v\n%s", clipStr(cs.String(), 1500), clipStr(fail, 1500))
		}
		if res.Leak != "" {
			t.Fatalf("%v: %s", clipStr(cs.String(), 800), clipStr(res.Leak, 1500))
		}
	})
}

// ---------------------------------------------------------------- C09 (and C02 on canonical bodies)

type rawBodyCfg struct {
	Rev   int
	JSONP bool
	CT    string
}

var rawCTs = []string{"text/plain;charset=UTF-8", "application/octet-stream", "application/x-www-form-urlencoded", "", "application/json", "text/html"}

// runRawBody posts body as one data request of a fresh polling session next
// to a canary session. Safety oracle for every input: no handler panics, the
// handler returns, the offender closes at most once, the canary still
// exchanges a message in both directions, nothing is left when both clients
// are gone. Delivery oracle when the body is the canonical encoding of
// packets of modelled types (message, noop, the legal heartbeat, close):
// 200 "ok" and exactly the messages before the first close packet.
func runRawBody(c rawBodyCfg, body []byte, knownV3 bool) (fail string) {
	o := config.DefaultServerOptions()
	o.SetAllowEIO3(true)
	o.SetTransports(types.NewSet("polling"))
	o.SetPingInterval(10 * time.Minute)
	o.SetPingTimeout(10 * time.Minute)
	o.SetMaxHttpBufferSize(1_000_000)
	w := NewWorld(o)
	defer w.Teardown()
	eio := "4"
	if c.Rev == 3 {
		eio = "3"
	}
	pc := &PollClient{W: w, O: ClientOpts{Rev: c.Rev, EIO: eio, B64: c.JSONP, JSONP: c.JSONP, J: "1"}}
	pc.StartHandshake()
	Settle()
	if err := pc.FinishHandshake(); err != nil {
		return "harness: handshake: " + err.Error()
	}
	canary := &PollClient{W: w, O: ClientOpts{Rev: 4, EIO: "4"}}
	canary.StartHandshake()
	Settle()
	if err := canary.FinishHandshake(); err != nil {
		return "harness: canary handshake: " + err.Error()
	}
	sr := w.Get(pc.Sid)
	csr := w.Get(canary.Sid)
	if sr == nil || csr == nil {
		return "harness: sessions not announced"
	}

	// reference view of the body
	var want []Pkt
	modelled := false
	{
		payload := body
		okCT := false
		var ps []Pkt
		var err error
		switch {
		case c.JSONP:
			// canonical JSONP bodies are produced below from the payload; a raw form body is safety-only
		case c.Rev == 4 && strings.HasPrefix(c.CT, "text/plain"):
			ps, err = decPayloadV4(payload)
			okCT = err == nil && bytes.Equal(encPayloadV4(ps), payload) && len(ps) > 0
		case c.Rev == 3 && strings.HasPrefix(c.CT, "text/plain"):
			ps, err = decPayloadV3Text(payload)
			okCT = err == nil && bytes.Equal(encPayloadV3Text(ps), payload) && len(ps) > 0
		case c.Rev == 3 && c.CT == "application/octet-stream" && !knownV3:
			ps, err = decPayloadV3Binary(payload)
			okCT = err == nil && bytes.Equal(encPayloadV3Binary(ps), payload) && len(ps) > 0
		}
		if okCT {
			modelled = true
			for _, p := range ps {
				legalHB := (c.Rev == 4 && p.Type == tPong) || (c.Rev == 3 && p.Type == tPing)
				if !(p.Type == tMessage || p.Type == tNoop || p.Type == tClose || legalHB) {
					modelled = false
				}
				if p.Type != tMessage && (p.Binary || (len(p.Data) > 0 && !legalHB)) {
					modelled = false
				}
				if !p.Binary && !utf8.Valid(p.Data) {
					modelled = false
				}
			}
			if modelled {
				for _, p := range ps {
					if p.Type == tClose {
						break
					}
					if p.Type == tMessage {
						want = append(want, p)
					}
				}
			}
		}
	}

	ex := pc.StartPostRaw(body, c.CT, nil)
	Settle()
	snap := ex.Snap()
	if snap.Panic != nil {
		return fmt.Sprintf("handler panicked: %v\n%s", snap.Panic, clipStr(snap.PanicStack, 2500))
	}
	if snap.HeaderCalls > 1 {
		return fmt.Sprintf("%d WriteHeader calls for one request", snap.HeaderCalls)
	}
	if modelled {
		if snap.Status != 200 || string(snap.Body) != "ok" {
			return fmt.Sprintf("canonical revision-%d payload %q answered %v, want 200 ok", c.Rev, clip(body, 200), snap)
		}
		if !pktsEqual(sr.Msgs, want) {
			return fmt.Sprintf("canonical revision-%d payload %q: message events %s, submitted before any close packet: %s", c.Rev, clip(body, 200), pktsString(sr.Msgs), pktsString(want))
		}
	}
	nclose := 0
	for _, e := range sr.Events {
		if e.Name == "close" {
			nclose++
		}
	}
	if nclose > 1 {
		return fmt.Sprintf("offender announced closed %d times", nclose)
	}
	// canary: one message in each direction
	before := len(csr.Msgs)
	pe := canary.StartPost([]Pkt{msgT("canary-in")}, false)
	Settle()
	if s := pe.Snap(); s.Status != 200 || len(csr.Msgs) != before+1 {
		return fmt.Sprintf("canary session disturbed after the offending body: data request %v, %d messages delivered", s, len(csr.Msgs)-before)
	}
	w.AppSend(csr, msgT("canary-out"), nil, false, 0)
	if canary.Poll == nil {
		canary.StartPoll()
	}
	Settle()
	got := canary.Pump()
	found := false
	for _, p := range got {
		if p.Type == tMessage && string(p.Data) == "canary-out" {
			found = true
		}
	}
	if !found || len(csr.Closes) != 0 {
		return fmt.Sprintf("canary session disturbed after the offending body: poll delivered %s, closes %v, client errors %v", pktsString(got), csr.Closes, canary.Errs)
	}
	// the offending client goes away: its handler must not stay behind
	if !ex.Snap().Returned {
		ex.Abort()
		Settle()
		if !ex.Snap().Returned {
			return fmt.Sprintf("handler of the data request is still running after its client went away: %v", ex.Snap())
		}
	}
	return ""
}

func FuzzC09Body(f *testing.F) {
	fuzzInit()
	knownV3 := isKnown("C02", sigV3BinMulti)
	knownSpin := isKnown("C09", sigV3LengthSpin)
	seeds := [][]byte{
		[]byte("4hello"), []byte("4a\x1e4b\x1ebAQID"), []byte("6:4hello2:4x"), []byte("1:1"), []byte("2:4€"),
		{0, 6, 0xff, '4', 'h', 'e', 'l', 'l', 'o'}, {1, 4, 0xff, 4, 1, 2, 3}, {0, 9, 9, 9, 9, 9, 0xff, '4'},
		[]byte("d=4hello"), []byte("d=6%3A4hello"), []byte("99999999999999999999:4"), []byte("-1:4"), []byte(":"), []byte("\x1e\x1e\x1e"),
		[]byte("b"), []byte("b4"), []byte("bb==="), []byte("4\xff\xfe"), []byte("2"), []byte("3"), []byte("5"), []byte("0{}"), []byte("1\x1e4late"),
		[]byte("4:4abc4:4abc"), []byte("1:b"), []byte("3:b4="), {0, 1, 0xff}, {1, 1, 0xff, 9}, {2, 1, 0xff, '4'}, {0, 0xff},
	}
	for i, s := range seeds {
		f.Add(uint8(i), s)
		f.Add(uint8(i+8), s)
	}
	f.Fuzz(func(t *testing.T, cfg uint8, body []byte) {
		if len(body) > 1<<16 {
			return
		}
		c := rawBodyCfg{Rev: 4}
		if cfg&1 != 0 {
			c.Rev = 3
		}
		c.JSONP = cfg&2 != 0
		c.CT = rawCTs[int(cfg>>2)%len(rawCTs)]
		if c.JSONP && cfg&32 == 0 {
			// the bytes are the payload; the form body is built the way the reference client does
			body = jsonpFormBody(body)
			c.CT = "application/x-www-form-urlencoded"
		}
		if c.Rev == 3 && knownSpin && looksLikeHugeV3Length(body) {
			return
		}
		var fail string
		res := bubble(t, func() { fail = runRawBody(c, body, knownV3) })
		res.rethrow()
		if fail != "" {
			t.Fatalf("rev%d jsonp=%v content-type=%q body=%q\n%s", c.Rev, c.JSONP, c.CT, clip(body, 300), clipStr(fail, 3000))
		}
		if res.Leak != "" {
			t.Fatalf("rev%d jsonp=%v content-type=%q body=%q: goroutines left after every client had gone: %s", c.Rev, c.JSONP, c.CT, clip(body, 300), clipStr(res.Leak, 3000))
		}
	})
}

// FuzzC09Script: rapid property body of TestC09Adversarial driven by the fuzzer's bytes.
func FuzzC09Script(f *testing.F) {
	fuzzInit()
	known := map[string]bool{sigNilPingTimer: isKnown("C09", sigNilPingTimer), sigWTNullHS: isKnown("C09", sigWTNullHS), sigV3LengthSpin: isKnown("C09", sigV3LengthSpin)}
	col := NewDiscardCollector()
	f.Fuzz(func(t *testing.T, data []byte) {
		rapid.MakeFuzz(propC09(t, col, known))(t, data)
	})
}

// ---------------------------------------------------------------- C05

// FuzzC05Admission: rapid property body of TestC05Admission driven by the fuzzer's bytes.
func FuzzC05Admission(f *testing.F) {
	fuzzInit()
	known5 := isKnown("C05", sigCode5)
	col := NewDiscardCollector()
	f.Fuzz(func(t *testing.T, data []byte) {
		rapid.MakeFuzz(propC05Admission(t, col, known5))(t, data)
	})
}

// ---------------------------------------------------------------- C16

func printableASCII(s string) bool {
	for i := 0; i < len(s); i++ {
		if s[i] < 0x20 && s[i] != '\t' || s[i] > 0x7e {
			return false
		}
	}
	return true
}

// FuzzC16Response: the j parameter, the Accept-Encoding value and one message
// text are the fuzzer's; oracle: runC16 (independent payload codec, content
// decoders, strict JSONP literal parser).
func FuzzC16Response(f *testing.F) {
	fuzzInit()
	knownDeflate := isKnown("C16", sigDeflateRaw)
	knownSubstr := isKnown("C16", sigCodingSubstr)
	knownV3BinText := isKnown("C16", sigV3BinText)
	f.Add(uint16(0), "0", "gzip", []byte("hello"))
	f.Add(uint16(1), ");alert(1)//", "deflate, gzip;q=0.5", []byte("</script><script>alert(1)</script>"))
	f.Add(uint16(2), "1a2b", "br;q=1.0, zstd;q=0.8", []byte("quote\"d back\\slash new\nline    "))
	f.Add(uint16(0x13), "9", "abbr", []byte("ünï😀"))
	f.Add(uint16(0x24), "", "zstd", []byte{0, 1, 0x1f})
	f.Add(uint16(0x35), "12", "identity", bytes.Repeat([]byte("ab\n"), 400))
	f.Add(uint16(0x46), "3", "gzip;q=0", bytes.Repeat([]byte("<"), 1100))
	f.Add(uint16(0x87), "7", "*", []byte("');alert(1);//"))
	f.Fuzz(func(t *testing.T, flags uint16, j string, ae string, text []byte) {
		if len(text) > 1<<15 || len(j) > 64 || len(ae) > 128 {
			return
		}
		if !utf8.Valid(text) || !utf8.ValidString(j) || !printableASCII(ae) {
			return
		}
		c := c16Case{Rev: 4}
		if flags&1 != 0 {
			c.Rev = 3
		}
		c.JSONP = flags&2 != 0
		c.B64 = c.JSONP || flags&4 != 0
		if c.JSONP {
			c.J = j
		}
		c.Threshold = []int{-1, 0, 1, 100, 1024, 1 << 30}[int(flags>>3)%6]
		c.AESet = flags&(1<<6) == 0
		if c.AESet {
			c.AE = ae
			if knownDeflate && aeTokens(c.AE)["deflate"] && !aeTokens(c.AE)["gzip"] {
				return
			}
			if knownSubstr && codingBySubstring(c.AE) != codingByToken(c.AE) {
				return
			}
		}
		if c.Rev == 4 && bytes.IndexByte(text, 0x1e) >= 0 {
			return
		}
		batch := []c16Send{{P: msgT(string(text)), Compress: int(flags>>7) % 3}}
		if flags&(1<<9) != 0 {
			batch = append(batch, c16Send{P: msgB(text), Compress: int(flags>>10) % 3})
			if knownV3BinText && c.Rev == 3 && !c.B64 && !isASCII(text) {
				return
			}
		}
		c.Batches = [][]c16Send{batch}
		c.CloseLast = flags&(1<<12) != 0
		var fail string
		res := bubble(t, func() { fail, _ = runC16(c) })
		res.rethrow()
		if fail != "" {
			t.Fatalf("%v\n%s", clipStr(c.String(), 2000), clipStr(fail, 1500))
		}
		if res.Leak != "" {
			t.Fatalf("%v: %s", clipStr(c.String(), 800), clipStr(res.Leak, 1500))
		}
	})
}

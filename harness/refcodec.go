package harness

// Independent reference codecs, written from the Engine.IO protocol documents
// (revisions 3 and 4), the JSONP polling description and the WebTransport
// framing paragraph. Nothing in this file calls /repo or its parser
// dependency.

import (
	"bytes"
	"compress/gzip"
	"compress/zlib"
	"encoding/base64"
	"encoding/binary"
	"errors"
	"fmt"
	"io"
	"strconv"
	"strings"
	"unicode/utf16"
	"unicode/utf8"

	"github.com/andybalholm/brotli"
	"github.com/klauspost/compress/zstd"
)

// Packet types as protocol digits.
const (
	tOpen    = '0'
	tClose   = '1'
	tPing    = '2'
	tPong    = '3'
	tMessage = '4'
	tUpgrade = '5'
	tNoop    = '6'
)

var typeNames = map[byte]string{'0': "open", '1': "close", '2': "ping", '3': "pong", '4': "message", '5': "upgrade", '6': "noop"}

type Pkt struct {
	Type   byte // '0'..'6'
	Data   []byte
	Binary bool
}

func (p Pkt) String() string {
	d := p.Data
	suffix := ""
	if len(d) > 24 {
		d = d[:24]
		suffix = fmt.Sprintf("…(%d)", len(p.Data))
	}
	k := "t"
	if p.Binary {
		k = "b"
	}
	return fmt.Sprintf("%s/%s%q%s", typeNames[p.Type], k, d, suffix)
}

func (p Pkt) Equal(q Pkt) bool {
	return p.Type == q.Type && p.Binary == q.Binary && bytes.Equal(p.Data, q.Data)
}

func msgT(s string) Pkt         { return Pkt{Type: tMessage, Data: []byte(s)} }
func msgB(b []byte) Pkt         { return Pkt{Type: tMessage, Data: b, Binary: true} }
func ctl(t byte) Pkt            { return Pkt{Type: t} }
func ctlD(t byte, s string) Pkt { return Pkt{Type: t, Data: []byte(s)} }

func utf16Len(s []byte) int {
	n := 0
	for len(s) > 0 {
		r, l := utf8.DecodeRune(s)
		s = s[l:]
		if r >= 0x10000 {
			n += 2
		} else {
			n++
		}
	}
	return n
}

var errRef = errors.New("refcodec: malformed")

// ---------------------------------------------------------------- packets

// encPacketText encodes a packet in its textual form (used in payloads and in
// text frames). Binary data is base64: rev 4 "b<base64>", rev 3 "b<type><base64>".
func encPacketText(rev int, p Pkt) []byte {
	if p.Binary {
		if rev == 4 {
			return append([]byte{'b'}, base64.StdEncoding.EncodeToString(p.Data)...)
		}
		return append([]byte{'b', p.Type}, base64.StdEncoding.EncodeToString(p.Data)...)
	}
	return append([]byte{p.Type}, p.Data...)
}

func decPacketText(rev int, b []byte) (Pkt, error) {
	if len(b) == 0 {
		return Pkt{}, errRef
	}
	if b[0] == 'b' {
		if rev == 4 {
			d, err := base64.StdEncoding.DecodeString(string(b[1:]))
			if err != nil {
				return Pkt{}, err
			}
			return Pkt{Type: tMessage, Data: d, Binary: true}, nil
		}
		if len(b) < 2 || b[1] < '0' || b[1] > '6' {
			return Pkt{}, errRef
		}
		d, err := base64.StdEncoding.DecodeString(string(b[2:]))
		if err != nil {
			return Pkt{}, err
		}
		return Pkt{Type: b[1], Data: d, Binary: true}, nil
	}
	if b[0] < '0' || b[0] > '6' {
		return Pkt{}, errRef
	}
	return Pkt{Type: b[0], Data: append([]byte(nil), b[1:]...)}, nil
}

// Frame is one message of a message-oriented transport (WebSocket or
// WebTransport): a text or binary unit.
type Frame struct {
	Binary bool
	Data   []byte
}

// encPacketFrame encodes one packet as one frame. With binary support a
// binary packet is a binary frame: rev 4 raw data, rev 3 <type byte 0..6><data>.
func encPacketFrame(rev int, b64 bool, p Pkt) Frame {
	if p.Binary && !b64 {
		if rev == 4 {
			return Frame{Binary: true, Data: append([]byte(nil), p.Data...)}
		}
		return Frame{Binary: true, Data: append([]byte{p.Type - '0'}, p.Data...)}
	}
	return Frame{Data: encPacketText(rev, p)}
}

func decPacketFrame(rev int, f Frame) (Pkt, error) {
	if f.Binary {
		if rev == 4 {
			return Pkt{Type: tMessage, Data: append([]byte(nil), f.Data...), Binary: true}, nil
		}
		if len(f.Data) == 0 || f.Data[0] > 6 {
			return Pkt{}, errRef
		}
		return Pkt{Type: f.Data[0] + '0', Data: append([]byte(nil), f.Data[1:]...), Binary: true}, nil
	}
	return decPacketText(rev, f.Data)
}

// ---------------------------------------------------------------- payloads

// rev 4: packets separated by 0x1e, binary as base64.
func encPayloadV4(ps []Pkt) []byte {
	var out []byte
	for i, p := range ps {
		if i > 0 {
			out = append(out, 0x1e)
		}
		out = append(out, encPacketText(4, p)...)
	}
	return out
}

func decPayloadV4(b []byte) ([]Pkt, error) {
	if len(b) == 0 {
		return nil, nil
	}
	var ps []Pkt
	for _, part := range bytes.Split(b, []byte{0x1e}) {
		p, err := decPacketText(4, part)
		if err != nil {
			return ps, err
		}
		ps = append(ps, p)
	}
	return ps, nil
}

// rev 3 string payload: <length in UTF-16 code units>:<packet> ...
func encPayloadV3Text(ps []Pkt) []byte {
	var out []byte
	if len(ps) == 0 {
		return []byte("0:")
	}
	for _, p := range ps {
		e := encPacketText(3, p)
		out = append(out, strconv.Itoa(utf16Len(e))...)
		out = append(out, ':')
		out = append(out, e...)
	}
	return out
}

func decPayloadV3Text(b []byte) ([]Pkt, error) {
	var ps []Pkt
	for len(b) > 0 {
		i := bytes.IndexByte(b, ':')
		if i <= 0 {
			return ps, errRef
		}
		n, err := strconv.Atoi(string(b[:i]))
		if err != nil || n < 0 {
			return ps, errRef
		}
		b = b[i+1:]
		// take n UTF-16 code units
		j, units := 0, 0
		for units < n {
			if j >= len(b) {
				return ps, errRef
			}
			r, l := utf8.DecodeRune(b[j:])
			j += l
			if r >= 0x10000 {
				units += 2
			} else {
				units++
			}
		}
		if units != n {
			return ps, errRef
		}
		if n == 0 {
			continue
		}
		p, err := decPacketText(3, b[:j])
		if err != nil {
			return ps, err
		}
		ps = append(ps, p)
		b = b[j:]
	}
	return ps, nil
}

// rev 3 binary payload: per packet
//
//	string: 0x00 <decimal digits of length, one per byte, value 0..9> 0xff <type digit><UTF-8 data>
//	        where length = 1 + number of UTF-8 bytes (each byte is one "character")
//	binary: 0x01 <digits of 1+len(data)> 0xff <type byte 0..6><data>
func encPayloadV3Binary(ps []Pkt) []byte {
	var out []byte
	for _, p := range ps {
		var body []byte
		if p.Binary {
			out = append(out, 1)
			body = append([]byte{p.Type - '0'}, p.Data...)
		} else {
			out = append(out, 0)
			body = append([]byte{p.Type}, p.Data...)
		}
		for _, d := range strconv.Itoa(len(body)) {
			out = append(out, byte(d-'0'))
		}
		out = append(out, 0xff)
		out = append(out, body...)
	}
	return out
}

func decPayloadV3Binary(b []byte) ([]Pkt, error) {
	var ps []Pkt
	for len(b) > 0 {
		kind := b[0]
		if kind > 1 {
			return ps, errRef
		}
		b = b[1:]
		n, i := 0, 0
		for ; i < len(b) && b[i] != 0xff; i++ {
			if b[i] > 9 || i > 9 {
				return ps, errRef
			}
			n = n*10 + int(b[i])
		}
		if i == len(b) || i == 0 {
			return ps, errRef
		}
		b = b[i+1:]
		if n > len(b) || n < 1 {
			return ps, errRef
		}
		body := b[:n]
		b = b[n:]
		if kind == 1 {
			if body[0] > 6 {
				return ps, errRef
			}
			ps = append(ps, Pkt{Type: body[0] + '0', Data: append([]byte(nil), body[1:]...), Binary: true})
		} else {
			if body[0] < '0' || body[0] > '6' {
				return ps, errRef
			}
			ps = append(ps, Pkt{Type: body[0], Data: append([]byte(nil), body[1:]...)})
		}
	}
	return ps, nil
}

// ---------------------------------------------------------------- JSONP

// Client side of a JSONP POST: the payload goes into the form field d with
// newlines escaped the way the reference client does: "\n" -> "\\n" after
// which the server maps "\\n" back to "\n" (and "\\\\n" back to "\\n").
func jsonpFormBody(payload []byte) []byte {
	s := string(payload)
	s = strings.ReplaceAll(s, `\n`, `\\n`) // already escaped newlines
	s = strings.ReplaceAll(s, "\n", `\n`)
	return []byte("d=" + queryEscape(s))
}

func queryEscape(s string) string {
	const hex = "0123456789ABCDEF"
	var b strings.Builder
	for i := 0; i < len(s); i++ {
		c := s[i]
		switch {
		case 'a' <= c && c <= 'z', 'A' <= c && c <= 'Z', '0' <= c && c <= '9', c == '-', c == '_', c == '.', c == '~':
			b.WriteByte(c)
		case c == ' ':
			b.WriteByte('+')
		default:
			b.WriteByte('%')
			b.WriteByte(hex[c>>4])
			b.WriteByte(hex[c&15])
		}
	}
	return b.String()
}

// parseJSONP parses `___eio[<digits>]("<js string>");` strictly and returns
// the digits and the decoded string. The literal must be a double-quoted
// ECMAScript string literal: no raw line terminators (LF, CR, U+2028,
// U+2029), escapes \" \\ \/ \b \f \n \r \t \uXXXX only.
func parseJSONP(body []byte) (digits string, payload []byte, err error) {
	s := string(body)
	const pre = "___eio["
	if !strings.HasPrefix(s, pre) {
		return "", nil, fmt.Errorf("jsonp: missing prefix in %.40q", s)
	}
	s = s[len(pre):]
	i := 0
	for i < len(s) && s[i] >= '0' && s[i] <= '9' {
		i++
	}
	digits = s[:i]
	s = s[i:]
	if !strings.HasPrefix(s, "](\"") {
		return "", nil, fmt.Errorf("jsonp: expected ]( and string start after digits, got %.20q", s)
	}
	s = s[3:]
	var out []rune
	var pendingHigh rune = -1
	flushHigh := func() {
		if pendingHigh >= 0 {
			out = append(out, utf8.RuneError)
			pendingHigh = -1
		}
	}
	for {
		if len(s) == 0 {
			return "", nil, errors.New("jsonp: unterminated string")
		}
		r, l := utf8.DecodeRuneInString(s)
		if r == utf8.RuneError && l == 1 {
			return "", nil, errors.New("jsonp: invalid UTF-8 in literal")
		}
		if r == '"' {
			s = s[l:]
			break
		}
		if r == '\n' || r == '\r' || r == 0x2028 || r == 0x2029 {
			return "", nil, fmt.Errorf("jsonp: raw line terminator U+%04X in string literal", r)
		}
		if r < 0x20 {
			// raw control characters are legal in JS strings except line terminators; accept
		}
		if r != '\\' {
			flushHigh()
			out = append(out, r)
			s = s[l:]
			continue
		}
		if len(s) < 2 {
			return "", nil, errors.New("jsonp: dangling backslash")
		}
		c := s[1]
		s = s[2:]
		switch c {
		case '"', '\\', '/':
			flushHigh()
			out = append(out, rune(c))
		case 'b':
			flushHigh()
			out = append(out, '\b')
		case 'f':
			flushHigh()
			out = append(out, '\f')
		case 'n':
			flushHigh()
			out = append(out, '\n')
		case 'r':
			flushHigh()
			out = append(out, '\r')
		case 't':
			flushHigh()
			out = append(out, '\t')
		case 'u':
			if len(s) < 4 {
				return "", nil, errors.New("jsonp: short \\u escape")
			}
			v, e := strconv.ParseUint(s[:4], 16, 16)
			if e != nil {
				return "", nil, errors.New("jsonp: bad \\u escape")
			}
			s = s[4:]
			cu := rune(v)
			if pendingHigh >= 0 && utf16.IsSurrogate(cu) && cu >= 0xdc00 {
				out = append(out, utf16.DecodeRune(pendingHigh, cu))
				pendingHigh = -1
			} else {
				flushHigh()
				if cu >= 0xd800 && cu < 0xdc00 {
					pendingHigh = cu
				} else {
					out = append(out, cu)
				}
			}
		default:
			return "", nil, fmt.Errorf("jsonp: unsupported escape \\%c", c)
		}
	}
	flushHigh()
	if s != ");" {
		return "", nil, fmt.Errorf("jsonp: trailer %.20q, want \");\"", s)
	}
	return digits, []byte(string(out)), nil
}

// ---------------------------------------------------------------- content codings

func decodeContent(coding string, body []byte) ([]byte, error) {
	switch coding {
	case "", "identity":
		return body, nil
	case "gzip":
		r, err := gzip.NewReader(bytes.NewReader(body))
		if err != nil {
			return nil, err
		}
		return io.ReadAll(r)
	case "deflate":
		// RFC 9110 8.4.1.2: "deflate" is the zlib format (RFC 1950)
		r, err := zlib.NewReader(bytes.NewReader(body))
		if err != nil {
			return nil, err
		}
		return io.ReadAll(r)
	case "br":
		return io.ReadAll(brotli.NewReader(bytes.NewReader(body)))
	case "zstd":
		d, err := zstd.NewReader(bytes.NewReader(body))
		if err != nil {
			return nil, err
		}
		defer d.Close()
		return io.ReadAll(d)
	}
	return nil, fmt.Errorf("unknown content coding %q", coding)
}

// ---------------------------------------------------------------- WebTransport framing

// wtEncode: header byte (high bit = binary, low 7 bits = length / 126 / 127),
// optional 16- or 64-bit big-endian length, payload.
func wtEncode(binaryMsg bool, payload []byte) []byte {
	return wtEncodeForm(binaryMsg, payload, 0)
}

// form: 0 minimal, 1 force 16-bit (if it fits), 2 force 64-bit.
func wtEncodeForm(binaryMsg bool, payload []byte, form int) []byte {
	var hdr [9]byte
	var b0 byte
	if binaryMsg {
		b0 = 0x80
	}
	n := len(payload)
	var h []byte
	switch {
	case form == 2 || n >= 65536:
		hdr[0] = b0 | 127
		binary.BigEndian.PutUint64(hdr[1:], uint64(n))
		h = hdr[:9]
	case form == 1 || n >= 126:
		hdr[0] = b0 | 126
		binary.BigEndian.PutUint16(hdr[1:], uint16(n))
		h = hdr[:3]
	default:
		hdr[0] = b0 | byte(n)
		h = hdr[:1]
	}
	return append(append([]byte(nil), h...), payload...)
}

// wtDecodeAll decodes a complete stream of frames; trailing partial frame is an error.
func wtDecodeAll(b []byte) ([]Frame, error) {
	var fs []Frame
	for len(b) > 0 {
		bin := b[0]&0x80 != 0
		n := uint64(b[0] & 0x7f)
		b = b[1:]
		switch n {
		case 126:
			if len(b) < 2 {
				return fs, io.ErrUnexpectedEOF
			}
			n = uint64(binary.BigEndian.Uint16(b))
			b = b[2:]
		case 127:
			if len(b) < 8 {
				return fs, io.ErrUnexpectedEOF
			}
			n = binary.BigEndian.Uint64(b)
			b = b[8:]
		}
		if n > uint64(len(b)) {
			return fs, io.ErrUnexpectedEOF
		}
		fs = append(fs, Frame{Binary: bin, Data: append([]byte(nil), b[:n]...)})
		b = b[n:]
	}
	return fs, nil
}

// ---------------------------------------------------------------- self test

// refcodecSelfTest checks the codecs against literal examples from the
// protocol documents and against each other.
func refcodecSelfTest() error {
	// rev 4 examples
	if got := string(encPayloadV4([]Pkt{msgT("hello"), msgT("€"), msgB([]byte{1, 2, 3, 4})})); got != "4hello\x1e4€\x1ebAQIDBA==" {
		return fmt.Errorf("v4 payload example: %q", got)
	}
	// rev 3 examples from the protocol document
	if got := string(encPayloadV3Text([]Pkt{msgT("hello"), msgT("€")})); got != "6:4hello2:4€" {
		return fmt.Errorf("v3 text payload example: %q", got)
	}
	if got := string(encPayloadV3Text([]Pkt{msgT("€"), msgB([]byte{1, 2, 3, 4})})); got != "2:4€10:b4AQIDBA==" {
		return fmt.Errorf("v3 b64 payload example: %q", got)
	}
	want := []byte{0, 4, 255, '4', 0xe2, 0x82, 0xac, 1, 5, 255, 4, 1, 2, 3, 4}
	if got := encPayloadV3Binary([]Pkt{msgT("€"), msgB([]byte{1, 2, 3, 4})}); !bytes.Equal(got, want) {
		return fmt.Errorf("v3 binary payload example: %v", got)
	}
	sets := [][]Pkt{
		{msgT("")}, {msgT("a\x1eb")}, {msgT("12:34"), msgB(nil), msgB([]byte{0, 255, 1}), ctl(tPing), ctlD(tPong, "probe"), msgT("𝄞x")},
	}
	for _, ps := range sets {
		for name, rt := range map[string]func([]Pkt) ([]Pkt, error){
			"v3text": func(p []Pkt) ([]Pkt, error) { return decPayloadV3Text(encPayloadV3Text(p)) },
			"v3bin":  func(p []Pkt) ([]Pkt, error) { return decPayloadV3Binary(encPayloadV3Binary(p)) },
		} {
			got, err := rt(ps)
			if err != nil || len(got) != len(ps) {
				return fmt.Errorf("%s roundtrip %v: %v %v", name, ps, got, err)
			}
			for i := range ps {
				if !got[i].Equal(ps[i]) {
					return fmt.Errorf("%s roundtrip %v: %v", name, ps, got)
				}
			}
		}
	}
	// v4 cannot carry 0x1e inside text unambiguously only when split; check simple set
	ps := []Pkt{msgT("12:34"), msgB(nil), msgB([]byte{0, 255, 1}), ctl(tPing), msgT("𝄞x")}
	got, err := decPayloadV4(encPayloadV4(ps))
	if err != nil || len(got) != len(ps) {
		return fmt.Errorf("v4 roundtrip: %v %v", got, err)
	}
	// JSONP
	d, p, err := parseJSONP([]byte(`___eio[12]("4a\"b\\c\nd\u2028e𝄞");`))
	if err != nil || d != "12" || string(p) != "4a\"b\\c\nd\u2028e𝄞" {
		return fmt.Errorf("jsonp parse: %q %q %v", d, p, err)
	}
	if _, _, err := parseJSONP([]byte("___eio[1](\"a\u2028\");")); err == nil {
		return errors.New("jsonp parser accepted raw U+2028")
	}
	// WT framing
	for _, n := range []int{0, 1, 125, 126, 127, 65535, 65536, 70000} {
		pl := bytes.Repeat([]byte{7}, n)
		for form := 0; form < 3; form++ {
			if form == 1 && n >= 65536 {
				continue
			}
			fs, err := wtDecodeAll(wtEncodeForm(n%2 == 0, pl, form))
			if err != nil || len(fs) != 1 || !bytes.Equal(fs[0].Data, pl) || fs[0].Binary != (n%2 == 0) {
				return fmt.Errorf("wt roundtrip n=%d form=%d", n, form)
			}
		}
	}
	if b := wtEncode(true, []byte("ab")); !bytes.Equal(b, []byte{0x82, 'a', 'b'}) {
		return fmt.Errorf("wt literal: %v", b)
	}
	if b := wtEncode(false, bytes.Repeat([]byte{1}, 126)); b[0] != 126 || b[1] != 0 || b[2] != 126 || len(b) != 129 {
		return fmt.Errorf("wt 126 literal: %v", b[:3])
	}
	return nil
}

package harness

// C02 — inbound messages: every well-formed message packet submitted on the
// session's current transport while it is open is delivered exactly once, in
// order, intact; nothing after a close packet, nothing from a candidate
// transport that has not completed an upgrade, nothing after the close event.

import (
	"fmt"
	"sort"
	"strings"
	"testing"
	"time"

	"github.com/zishang520/engine.io/v2/config"
	"github.com/zishang520/engine.io/v2/types"
	"pgregory.net/rapid"
)

const (
	sigV4Scanner  = "v4-polling-packet-of-64KiB-or-more-silently-dropped"
	sigV3BinMulti = "v3-binary-payload-string-packets-misdecoded"
)

type c02Case struct {
	Carrier  string // polling | jsonp | websocket | webtransport
	Rev      int
	B64      bool
	V3Binary bool   // revision 3 polling: application/octet-stream payload
	Pkts     []Pkt  // what the client submits
	Split    []int  // polling: packets per data request (cycled)
	Frags    []int  // websocket: fragment sizes
	WTForm   int    // webtransport: length form 0 minimal, 1 16-bit, 2 64-bit
	Tail     string // none | afterClose | candidate
	// StringLast: in a revision-3 binary payload a string packet is only ever the last packet of its request
	// (exclusion by construction of the recorded parser finding)
	StringLast bool
	// CutAt: tail family cutUpload: the connection dies after this many bytes of one more payload / frame
	CutAt int
	// Tight: maxHttpBufferSize is exactly the largest single request body / frame of the case
	Tight bool
	// NetCut: websocket / webtransport: every frame reaches the server in two pieces, the first of this many
	// bytes (0 = in one piece): the boundary may fall inside the frame header
	NetCut int
	// Chunk: polling / jsonp: data requests without a declared length, the body arriving in pieces of this size
	Chunk int
	// Deflated: websocket: perMessageDeflate is configured, the client negotiated it and sends its messages
	// compressed (those that get smaller that way)
	Deflated bool
	// OversizedAt > 0: polling / jsonp: before the data request with this number (1 = the first) the client submits one whose declared
	// length exceeds maxHttpBufferSize; it is refused (413, C10) and the session goes on: the requests after it are
	// delivered as if it had not been there
	OversizedAt int
}

func (c c02Case) String() string {
	return fmt.Sprintf("{%s rev%d b64=%v v3binary=%v pkts=%s split=%v frags=%v wtform=%d tail=%s tight=%v netcut=%d chunk=%d deflated=%v oversizedRequestBefore=%d}", c.Carrier, c.Rev, c.B64, c.V3Binary, pktsString(c.Pkts), c.Split, c.Frags, c.WTForm, c.Tail, c.Tight, c.NetCut, c.Chunk, c.Deflated, c.OversizedAt)
}

var c02Texts = []string{"", "a", "hello", "4", "0", "2probe", "5:4abc", "1:2", "12:", "b4aGVsbG8=", "bQUJD", "ünï", "😀", "a😀b€c", "日本語テキスト", "with\nnewline", "back\\slash", "\\n", "\\\\n", "quote\"'", "a:b:c", "%41+%2B&d=x", "\t\r", "{\"k\":[1,2]}", "  ", "</script>"}

func genC02Text(rt *rapid.T, l string, allowBig bool) []byte {
	switch rapid.IntRange(0, 5).Draw(rt, l+".tk") {
	case 0, 1:
		return []byte(rapid.SampledFrom(c02Texts).Draw(rt, l+".tbl"))
	case 2:
		// random valid UTF-8 incl. astral code points
		rs := rapid.SliceOfN(rapid.SampledFrom([]rune{'a', 'Z', '0', '9', ':', 'b', ' ', '\n', '\\', 'n', 'é', '€', '😀', '𝄞', '"', '&', '=', '+', '%', ';', 0x7f, 0x80, 0x7ff, 0xffff}), 0, 30).Draw(rt, l+".runes")
		return []byte(string(rs))
	case 3:
		if allowBig {
			n := rapid.SampledFrom([]int{125, 126, 127, 4096, 65534, 65535, 65536, 65537, 100_000}).Draw(rt, l+".big")
			return []byte(strings.Repeat("x", n))
		}
		return []byte("mid")
	default:
		return []byte(rapid.StringMatching(`[ -~]{0,40}`).Draw(rt, l+".ascii"))
	}
}

func genC02(rt *rapid.T, knownScanner bool, col *Collector) c02Case {
	c := c02Case{}
	c.Carrier = rapid.SampledFrom([]string{"polling", "polling", "jsonp", "websocket", "webtransport"}).Draw(rt, "carrier")
	c.Rev = 4
	if c.Carrier != "webtransport" && rapid.IntRange(0, 2).Draw(rt, "rev3") == 0 {
		c.Rev = 3
	}
	c.B64 = c.Carrier == "jsonp" || rapid.IntRange(0, 3).Draw(rt, "b64") == 0
	if c.Carrier == "polling" && c.Rev == 3 && !c.B64 {
		c.V3Binary = rapid.Bool().Draw(rt, "v3binary")
	}
	n := rapid.IntRange(0, 12).Draw(rt, "npkts")
	if rapid.IntRange(0, 9).Draw(rt, "many") == 0 {
		n = rapid.IntRange(13, 30).Draw(rt, "npktsMany")
	}
	bigUsed := false
	for i := 0; i < n; i++ {
		l := fmt.Sprintf("p%d", i)
		kinds := []string{"text", "text", "text", "binary", "binary", "empty", "noop", "hb"}
		if c.Carrier == "polling" || c.Carrier == "jsonp" {
			kinds = append(kinds, "close")
		}
		switch rapid.SampledFrom(kinds).Draw(rt, l+".kind") {
		case "text":
			d := genC02Text(rt, l, !bigUsed)
			if len(d) > 60000 {
				bigUsed = true
				if knownScanner && c.Rev == 4 && (c.Carrier == "polling" || c.Carrier == "jsonp") {
					col.Exclude("v4 polling packet >= 64KiB (known finding " + sigV4Scanner + ")")
					d = d[:1000]
				}
			}
			if c.Carrier == "jsonp" {
				// the JSONP newline escaping is not injective on backslash followed by a line feed (section 3 of DESIGN.md)
				if strings.Contains(string(d), "\\\n") {
					col.Exclude("JSONP text with backslash immediately before a line feed")
					d = []byte(strings.ReplaceAll(string(d), "\\\n", "\\ \n"))
				}
			}
			if c.Rev == 4 && (c.Carrier == "polling" || c.Carrier == "jsonp") && strings.ContainsRune(string(d), 0x1e) {
				d = []byte(strings.ReplaceAll(string(d), "\x1e", "?"))
			}
			c.Pkts = append(c.Pkts, Pkt{Type: tMessage, Data: d})
		case "binary":
			var d []byte
			if rapid.IntRange(0, 6).Draw(rt, l+".bbig") == 0 && !bigUsed {
				bigUsed = true
				nn := rapid.SampledFrom([]int{126, 4096, 49150, 49151, 49152, 65535, 65536, 70000}).Draw(rt, l+".bn")
				if knownScanner && c.Rev == 4 && nn > 40000 && (c.Carrier == "polling" || c.Carrier == "jsonp") {
					col.Exclude("v4 polling packet >= 64KiB (known finding " + sigV4Scanner + ")")
					nn = 4096
				}
				d = makePayload(nn, byte(i))
			} else {
				d = rapid.SliceOfN(rapid.Byte(), 0, 24).Draw(rt, l+".bytes")
			}
			c.Pkts = append(c.Pkts, Pkt{Type: tMessage, Data: d, Binary: true})
		case "empty":
			c.Pkts = append(c.Pkts, Pkt{Type: tMessage})
		case "noop":
			c.Pkts = append(c.Pkts, ctl(tNoop))
		case "hb":
			// the heartbeat that is legal for a client of this revision
			if c.Rev == 4 {
				c.Pkts = append(c.Pkts, ctl(tPong))
			} else {
				c.Pkts = append(c.Pkts, ctl(tPing))
			}
		case "close":
			c.Pkts = append(c.Pkts, ctl(tClose))
		}
	}
	c.Split = rapid.SliceOfN(rapid.IntRange(1, 8), 1, 4).Draw(rt, "split")
	if c.Carrier == "websocket" && rapid.Bool().Draw(rt, "fragmented") {
		c.Frags = rapid.SliceOfN(rapid.IntRange(0, 50), 1, 3).Draw(rt, "frags")
	}
	if c.Carrier == "webtransport" {
		c.WTForm = rapid.IntRange(0, 2).Draw(rt, "wtform")
	}
	if c.Carrier == "webtransport" || c.Carrier == "websocket" {
		c.NetCut = rapid.SampledFrom([]int{0, 0, 0, 1, 2, 3, 4, 5, 7, 8, 9, 10, 13}).Draw(rt, "netcut")
	}
	if (c.Carrier == "polling" || c.Carrier == "jsonp") && rapid.IntRange(0, 2).Draw(rt, "chunked") == 0 {
		c.Chunk = rapid.SampledFrom([]int{1, 3, 100, 4096, 70000}).Draw(rt, "chunk")
	}
	if (c.Carrier == "polling" || c.Carrier == "jsonp") && rapid.IntRange(0, 3).Draw(rt, "oversizedRequest") == 0 {
		c.OversizedAt = rapid.IntRange(1, 4).Draw(rt, "oversizedAt")
	}
	c.Deflated = c.Carrier == "websocket" && rapid.IntRange(0, 2).Draw(rt, "deflated") == 0
	c.Tight = rapid.IntRange(0, 2).Draw(rt, "tightLimit") == 0
	c.Tail = rapid.SampledFrom([]string{"none", "none", "afterClose", "candidate", "cutUpload", "cutUpload"}).Draw(rt, "tail")
	c.CutAt = rapid.IntRange(1, 60).Draw(rt, "cutAt")
	if c.Tail == "candidate" && c.Carrier != "polling" {
		c.Tail = "afterClose"
	}
	return c
}

func runC02(c c02Case) (fail string, stats map[string]bool) {
	stats = map[string]bool{}
	o := config.DefaultServerOptions()
	o.SetAllowEIO3(true)
	o.SetTransports(types.NewSet("polling", "websocket", "webtransport"))
	o.SetPingInterval(10 * time.Minute)
	o.SetPingTimeout(10 * time.Minute)
	o.SetMaxHttpBufferSize(5_000_000)
	if c.Tight {
		// every single body/frame fits exactly; the sum of them does not
		limit := int64(64) // room for the tail families' own small packets and the webtransport handshake
		switch c.Carrier {
		case "polling", "jsonp":
			tmp := &PollClient{O: ClientOpts{Rev: c.Rev, B64: c.B64, JSONP: c.Carrier == "jsonp", J: "3"}}
			i, k := 0, 0
			for i < len(c.Pkts) {
				n := c.Split[k%len(c.Split)]
				k++
				if i+n > len(c.Pkts) {
					n = len(c.Pkts) - i
				}
				if c.V3Binary && c.StringLast {
					for j := 0; j < n-1; j++ {
						if !c.Pkts[i+j].Binary {
							n = j + 1
							break
						}
					}
				}
				body, _ := tmp.EncodePost(c.Pkts[i:i+n], c.V3Binary)
				if int64(len(body)) > limit {
					limit = int64(len(body))
				}
				i += n
			}
		default:
			for _, p := range c.Pkts {
				if n := int64(len(encPacketFrame(c.Rev, c.B64, p).Data)); n > limit {
					limit = n
				}
			}
		}
		o.SetMaxHttpBufferSize(limit)
		stats["tight-limit"] = true
	}
	if c.Deflated {
		o.SetPerMessageDeflate(&types.PerMessageDeflate{Threshold: 1024})
	}
	w := NewWorld(o)
	defer w.Teardown()
	w.WSOfferDeflate = c.Deflated
	eio := "4"
	if c.Rev == 3 {
		eio = "3"
	}
	s, why := doHandshake(w, c06HS{Carrier: c.Carrier, EIO: eio, B64: c.B64, J: "3", Chunk: c.Chunk})
	if s == nil {
		return "harness: handshake: " + why, stats
	}
	sr := w.Get(s.open.Sid)

	// reference: messages before the first close packet; packet events for everything before it
	var wantMsgs []Pkt
	var wantPackets []string
	closeAt := -1
	for i, p := range c.Pkts {
		if p.Type == tClose {
			closeAt = i
			break
		}
		wantPackets = append(wantPackets, typeNames[p.Type])
		if p.Type == tMessage {
			wantMsgs = append(wantMsgs, p)
		}
	}

	switch c.Carrier {
	case "polling", "jsonp":
		i, k := 0, 0
		for i < len(c.Pkts) {
			n := c.Split[k%len(c.Split)]
			k++
			if i+n > len(c.Pkts) {
				n = len(c.Pkts) - i
			}
			if c.V3Binary && c.StringLast {
				for j := 0; j < n-1; j++ {
					if !c.Pkts[i+j].Binary {
						n = j + 1
						stats["v3-binary-split-after-string"] = true
						break
					}
				}
			}
			chunk := c.Pkts[i : i+n]
			hadCloseBefore := closeAt >= 0 && closeAt < i
			if c.OversizedAt == k && !hadCloseBefore {
				ob, oct := s.pc.EncodePost([]Pkt{msgT("part of a request that is too large")}, c.V3Binary)
				limit := w.Srv.Opts().MaxHttpBufferSize()
				var oe *Exchange
				if limit <= 1<<16 && c.CutAt%2 == 0 {
					// the length is not declared: the server finds out by reading (a body of limit+1.. bytes, a
					// well-formed payload of one long message)
					ob, oct = s.pc.EncodePost([]Pkt{msgT(strings.Repeat("z", int(limit)+1))}, c.V3Binary)
					oe = s.pc.StartPostRaw(ob, oct, func(r *ReqSpec) { r.ContentLength = -1; r.BodyChunk = 1024 })
					stats["oversized-request-of-undeclared-length-refused"] = true
				} else {
					oe = s.pc.StartPostRaw(ob, oct, func(r *ReqSpec) { r.ContentLength = limit + 1; r.BodyChunk = 0 })
				}
				Settle()
				if osnap := oe.Snap(); osnap.Status != 413 {
					return fmt.Sprintf("data request declaring %d bytes (limit %d) answered %v, want 413", limit+1, limit, osnap), stats
				}
				stats["data-request-after-an-oversized-one-was-refused"] = true
			}
			ex := s.pc.StartPost(chunk, c.V3Binary)
			Settle()
			snap := ex.Snap()
			if hadCloseBefore {
				// the session is gone: the request must be refused, not processed
				if snap.Status != 400 {
					return fmt.Sprintf("data request after the close packet answered %v, want 400 (session id unknown)", snap), stats
				}
				stats["post-after-close"] = true
			} else if snap.Status != 200 || string(snap.Body) != "ok" {
				return fmt.Sprintf("data request %d (%s) answered %v, want 200 ok", k, pktsString(chunk), snap), stats
			}
			if len(chunk) > 1 {
				stats["multi-packet-payload"] = true
			}
			i += n
		}
		if k > 1 {
			stats["several-requests"] = true
		}
	case "websocket":
		for _, p := range c.Pkts {
			var frags []int
			if len(c.Frags) > 0 {
				frags = c.Frags
				stats["fragmented-frames"] = true
			}
			if c.NetCut > 0 && len(frags) == 0 {
				fr := encPacketFrame(c.Rev, c.B64, p)
				op := byte(opText)
				if fr.Binary {
					op = opBinary
				}
				raw := buildWSFrame(op, true, false, fr.Data, true, s.wc.MaskKey, 0)
				if c.NetCut < len(raw) {
					s.wc.SendRaw(raw[:c.NetCut])
					Settle()
					s.wc.SendRaw(raw[c.NetCut:])
					continue
				}
			}
			if c.Deflated && len(frags) == 0 && s.wc.Negotiated() {
				if plain := len(encPacketFrame(c.Rev, c.B64, p).Data); deflatedLen(encPacketFrame(c.Rev, c.B64, p).Data) <= plain {
					s.wc.SendPacketDeflated(p)
					stats["message-sent-compressed"] = true
					continue
				}
			}
			s.wc.SendPacket(p, frags)
		}
		Settle()
	case "webtransport":
		for _, p := range c.Pkts {
			fr := encPacketFrame(4, c.B64, p)
			form := c.WTForm
			if form == 1 && len(fr.Data) > 65535 {
				form = 2
			}
			raw := wtEncodeForm(fr.Binary, fr.Data, form)
			if c.NetCut > 0 && c.NetCut < len(raw)-len(fr.Data) {
				stats["frame-header-split-in-transit"] = true
			}
			s.tc.SendFrameRawCut(raw, c.NetCut)
		}
		if c.WTForm > 0 {
			stats["non-minimal-length-form"] = true
		}
		Settle()
	}

	verify := func(where string) string {
		if !pktsEqual(sr.Msgs, wantMsgs) {
			return fmt.Sprintf("%s: message events %s; submitted before any close packet: %s", where, pktsString(sr.Msgs), pktsString(wantMsgs))
		}
		if !pktsEqual(sr.Datas, wantMsgs) {
			return fmt.Sprintf("%s: data events %s differ from the message events %s", where, pktsString(sr.Datas), pktsString(wantMsgs))
		}
		var gotPackets []string
		for _, e := range sr.Events {
			if e.Name == "packet" && len(e.Pkts) == 1 {
				gotPackets = append(gotPackets, e.Pkts[0].Type)
			}
		}
		if fmt.Sprint(gotPackets) != fmt.Sprint(wantPackets) {
			return fmt.Sprintf("%s: packet events %v, submitted %v", where, gotPackets, wantPackets)
		}
		if closeAt >= 0 {
			if len(sr.Closes) != 1 {
				return fmt.Sprintf("%s: close packet submitted, close events %v", where, sr.Closes)
			}
		} else if len(sr.Closes) != 0 {
			return fmt.Sprintf("%s: session closed (%v) although only well-formed packets were submitted", where, sr.Closes)
		}
		return ""
	}
	if f := verify("after submission"); f != "" {
		return f, stats
	}
	for _, p := range wantMsgs {
		if !p.Binary && !isASCII(p.Data) {
			stats["non-ascii-text"] = true
		}
		if p.Binary {
			stats["binary"] = true
		}
		if len(p.Data) == 0 {
			stats["empty-data"] = true
		}
		if len(p.Data) >= 65535 {
			stats[">=64KiB"] = true
		}
		if !p.Binary && len(p.Data) > 0 && (strings.ContainsAny(string(p.Data[:1]), "0123456789b") || strings.Contains(string(p.Data), ":")) {
			stats["looks-like-framing"] = true
		}
	}
	if closeAt >= 0 && closeAt < len(c.Pkts)-1 {
		stats["close-not-last"] = true
	}
	stats[fmt.Sprintf("carrier.%s.rev%d", c.Carrier, c.Rev)] = true
	if c.Chunk > 0 {
		stats["data-requests-without-declared-length"] = true
	}
	if c.V3Binary {
		stats["v3-binary-payload"] = true
	}

	// ---- tail families ----
	switch c.Tail {
	case "candidate":
		if closeAt >= 0 {
			break
		}
		// packets on a candidate transport that has not completed the upgrade are never messages
		stats["candidate-traffic"] = true
		s.pc.StartPoll()
		Settle()
		probe := len(c.Pkts)%2 == 0
		wc := &WSClient{W: w, O: ClientOpts{Rev: c.Rev, B64: c.B64}, Sid: s.pc.Sid}
		wc.Start()
		Settle()
		wc.Pump()
		if probe {
			wc.SendPacket(ctlD(tPing, "probe"), nil)
			Settle()
		}
		wc.SendPacket(msgT("from the candidate"), nil)
		wc.SendPacket(msgB([]byte{1, 2, 3}), nil)
		Settle()
		if f := verify("after traffic on a candidate transport"); f != "" {
			return f, stats
		}
		if sr.Sock.Transport().Name() != "polling" {
			return "candidate that never sent the upgrade packet became the session's transport", stats
		}
		// the session itself still works
		ex := s.pc.StartPost([]Pkt{msgT("still here")}, c.V3Binary)
		Settle()
		wantMsgs = append(wantMsgs, msgT("still here"))
		wantPackets = append(wantPackets, "message")
		if snap := ex.Snap(); snap.Status != 200 {
			return fmt.Sprintf("after a failed candidate the session's own data request answered %v", snap), stats
		}
		if f := verify("after the failed candidate"); f != "" {
			return f, stats
		}
	case "cutUpload":
		// the connection dies in the middle of one more payload (polling: the upload ends early; websocket /
		// webtransport: the peer vanishes inside a frame): nothing the client did not submit in full is delivered
		if closeAt >= 0 || c.Tight {
			break
		}
		more := []Pkt{msgT("complete one"), msgT("the second message of the payload, long enough to be cut in the middle"), msgB([]byte{1, 2, 3, 4, 5, 6, 7, 8})}
		before := len(sr.Msgs)
		switch {
		case s.pc != nil:
			if c.V3Binary && c.StringLast {
				more = []Pkt{msgB([]byte{9, 8, 7, 6, 5, 4, 3, 2, 1, 0, 9, 8, 7, 6, 5, 4, 3, 2, 1}), msgB([]byte{1, 2, 3, 4, 5, 6, 7, 8, 1, 2, 3, 4, 5, 6, 7, 8}), msgT("and a string packet at the end")}
			}
			body, ct := s.pc.EncodePost(more, c.V3Binary)
			cut := 1 + c.CutAt%(len(body)-1)
			s.pc.StartPostRaw(body, ct, func(r *ReqSpec) { r.FailBodyAt = cut })
			Settle()
		case s.wc != nil:
			raw := buildWSFrame(1, true, false, encPacketFrame(c.Rev, c.B64, more[1]).Data, true, [4]byte{1, 2, 3, 4}, 0)
			cut := 1 + c.CutAt%(len(raw)-1)
			s.wc.SendRaw(raw[:cut])
			Settle()
			s.wc.Drop()
			Settle()
		default:
			raw := wtEncode(false, encPacketFrame(4, c.B64, more[1]).Data)
			cut := 1 + c.CutAt%(len(raw)-1)
			s.tc.SendFrameRaw(raw[:cut])
			Settle()
			s.tc.Drop()
			Settle()
		}
		stats["connection-died-inside-a-payload"] = true
		extra := sr.Msgs[before:]
		if s.pc == nil && len(extra) != 0 {
			return fmt.Sprintf("the peer vanished inside a frame; the application received %s", pktsString(extra)), stats
		}
		if !isPrefix(extra, more) {
			return fmt.Sprintf("an upload of %s was cut short; the application received %s, which the client never submitted", pktsString(more), pktsString(extra)), stats
		}
	case "afterClose":
		// close the session (client close packet on polling, server-side otherwise), then keep talking
		stats["traffic-after-close"] = true
		if len(sr.Closes) == 0 {
			if s.pc != nil {
				s.pc.StartPost([]Pkt{ctl(tClose)}, c.V3Binary)
				closeAt = len(c.Pkts)
			} else {
				sr.Sock.Close(true)
				closeAt = len(c.Pkts)
			}
			Settle()
		}
		nEv := len(sr.Events)
		switch {
		case s.pc != nil:
			ex := s.pc.StartPost([]Pkt{msgT("late")}, c.V3Binary)
			Settle()
			if snap := ex.Snap(); snap.Status == 200 {
				return fmt.Sprintf("data request after the close event answered %v", snap), stats
			}
		case s.wc != nil:
			s.wc.SendPacket(msgT("late"), nil)
			Settle()
		default:
			s.tc.SendPacket(msgT("late"))
			Settle()
		}
		time.Sleep(time.Second)
		Settle()
		if f := verify("after the close event"); f != "" {
			return f, stats
		}
		for _, e := range sr.Events[nEv:] {
			return fmt.Sprintf("event %v after the close event", e), stats
		}
	}
	return "", stats
}

func isASCII(b []byte) bool {
	for _, c := range b {
		if c >= 0x80 {
			return false
		}
	}
	return true
}

func TestC02Inbound(t *testing.T) {
	col := NewCollector("TestC02Inbound",
		"rapid: 0-30 client packets (text from a table of framing look-alikes / random UTF-8 incl. astral code points / sizes 125..100000, binary incl. base64 padding boundaries, empty, noop, the revision's legal heartbeat, close at a drawn position on polling) encoded by the independent codec as v4 payloads, v3 string payloads, v3 binary payloads, JSONP form bodies (1-8 packets per data request), one WebSocket frame per packet (optionally fragmented) or one WebTransport frame per packet (minimal and non-minimal length forms); then optionally traffic after the close event or on an un-upgraded candidate transport; oracle: message events == data events == the message packets submitted before the first close packet (bytes and kind), packet events == all packets before it, every accepted data request answered 200 ok, requests after the close refused, nothing from the candidate, no event after close. non-trivial: >=2 packets and one of: non-ASCII text, binary, empty data, a close packet that is not last, text that looks like framing, a packet >= 64KiB").Use(t)
	known := isKnown("C02", sigV4Scanner)
	knownV3 := isKnown("C02", sigV3BinMulti)
	rapid.Check(t, func(rt *rapid.T) {
		c := genC02(rt, known, col)
		if c.V3Binary && knownV3 {
			c.StringLast = true
			for j, p := range c.Pkts {
				if !p.Binary && !isASCII(p.Data) {
					c.Pkts[j].Data = []byte(fmt.Sprintf("%+q", p.Data))
				}
			}
			col.Exclude("revision-3 binary payload with a string packet before another packet or with non-ASCII text (known finding " + sigV3BinMulti + "): such payloads are split after the string packet and the text is made ASCII")
		}
		journal("C02 %v", c)
		var fail string
		var stats map[string]bool
		res := bubble(t, func() { fail, stats = runC02(c) })
		var cl []string
		for k := range stats {
			cl = append(cl, k)
		}
		sort.Strings(cl)
		nt := len(c.Pkts) >= 2 && (stats["non-ascii-text"] || stats["binary"] || stats["empty-data"] || stats["close-not-last"] || stats["looks-like-framing"] || stats[">=64KiB"])
		col.Case(c.String(), nt, map[string]any{"case": clipStr(c.String(), 600)}, cl...)
		res.rethrow()
		if fail != "" {
			rt.Fatalf("%v\n%s", clipStr(c.String(), 1500), clipStr(fail, 1500))
		}
		if res.Leak != "" {
			rt.Fatalf("%v: %s", clipStr(c.String(), 800), clipStr(res.Leak, 1500))
		}
	})
	req := []string{"carrier.polling.rev4", "carrier.polling.rev3", "carrier.jsonp.rev4", "carrier.jsonp.rev3", "carrier.websocket.rev4", "carrier.websocket.rev3", "carrier.webtransport.rev4", "v3-binary-payload", "multi-packet-payload", "non-ascii-text", "binary", "empty-data", "close-not-last", "post-after-close", "candidate-traffic", "traffic-after-close", "fragmented-frames", "non-minimal-length-form", ">=64KiB", "tight-limit"}
	req = append(req, "connection-died-inside-a-payload", "frame-header-split-in-transit", "data-requests-without-declared-length", "message-sent-compressed", "data-request-after-an-oversized-one-was-refused", "oversized-request-of-undeclared-length-refused")
	col.RequireClasses(t, req...)
}

func TestC02ScannerFinding(t *testing.T) {
	col := NewCollector("TestC02ScannerFinding", "deterministic: one text message of 65535/65536/100000 bytes and one binary message of 49152 bytes (65537 base64 characters) posted to a revision-4 polling and JSONP session (limit 5MB); oracle: 200 ok and the message is delivered. every case is non-trivial").Use(t)
	for _, carrier := range []string{"polling", "jsonp"} {
		for _, p := range []Pkt{msgT(strings.Repeat("x", 65535)), msgT(strings.Repeat("x", 65536)), msgT(strings.Repeat("x", 100000)), msgB(makePayload(49152, 1))} {
			c := c02Case{Carrier: carrier, Rev: 4, B64: carrier == "jsonp", Pkts: []Pkt{p}, Split: []int{1}, Tail: "none"}
			var fail string
			res := bubble(t, func() { fail, _ = runC02(c) })
			res.rethrow()
			col.Case(c.String(), true, map[string]any{"carrier": carrier, "packet": p.String(), "result": clipStr(fail, 300)}, "big-v4-packet")
			demoFinding(t, col, "C02", sigV4Scanner, fail != "", fmt.Sprintf("%s %v: %s", carrier, p, clipStr(fail, 300)))
		}
	}
}

func TestC02V3BinaryFinding(t *testing.T) {
	col := NewCollector("TestC02V3BinaryFinding", "deterministic: revision-3 polling session, one application/octet-stream payload [text a, text b], [noop, text], [text é], [binary, text 日本]; oracle: every message delivered in order. every case is non-trivial").Use(t)
	for _, ps := range [][]Pkt{
		{msgT("a"), msgT("b")},
		{ctl(tNoop), msgT("x")},
		{msgT("é")},
		{msgB([]byte{1}), msgT("日本")},
	} {
		c := c02Case{Carrier: "polling", Rev: 3, V3Binary: true, Pkts: ps, Split: []int{8}, Tail: "none"}
		var fail string
		res := bubble(t, func() { fail, _ = runC02(c) })
		res.rethrow()
		col.Case(c.String(), true, map[string]any{"payload": pktsString(ps), "result": clipStr(fail, 300)}, "v3-binary-multi")
		demoFinding(t, col, "C02", sigV3BinMulti, fail != "", fmt.Sprintf("payload %s: %s", pktsString(ps), clipStr(fail, 300)))
	}
}

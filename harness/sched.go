package harness

// Schedule control.
//
//  * bubble(): runs one generated case inside a testing/synctest bubble
//    (virtual clock, quiescence detection) and converts everything that can
//    go wrong there (rapid's own control-flow panics, panics of the code under
//    test on the root goroutine, "blocked goroutines remain" at bubble exit)
//    into something the caller can report on the *rapid.T after the bubble
//    has ended.
//  * Gates: dispatcher for the vhook yield points compiled into /repo with
//    the build tag "verif".  A case installs a plan {site, nth arrival}; a
//    goroutine arriving at a planned point parks on a bubble channel, so
//    synctest.Wait treats it as durably blocked and the root goroutine can
//    decide what happens inside the window before releasing it.

import (
	"fmt"
	"runtime"
	"strings"
	"sync"
	"sync/atomic"
	"testing"
	"testing/synctest"

	"github.com/zishang520/engine.io/v2/vhook"
)

type bubbleResult struct {
	Panicked bool
	Value    any
	Stack    string
	Leak     string // non-empty: the bubble ended with blocked goroutines
}

// bubble runs f inside a bubble. A panic on the root goroutine is captured
// (with its stack) and returned; a bubble that ends while goroutines are
// still blocked is returned as Leak.
func bubble(t *testing.T, f func()) (res bubbleResult) {
	defer func() {
		if r := recover(); r != nil {
			s := fmt.Sprint(r)
			if strings.Contains(s, "blocked goroutines remain") || strings.Contains(s, "deadlock") {
				res.Leak = s
				if !strings.Contains(s, "\ngoroutine ") {
					// make sure the report says which goroutines were left
					res.Leak += "\n" + goroutineDump("synctest bubble")
				}
				if len(res.Leak) > 6000 {
					res.Leak = res.Leak[:6000] + "..."
				}
				return
			}
			panic(r)
		}
	}()
	synctest.Test(t, func(*testing.T) {
		defer func() {
			if r := recover(); r != nil {
				res.Panicked = true
				res.Value = r
				buf := make([]byte, 1<<16)
				res.Stack = string(buf[:runtime.Stack(buf, false)])
			}
		}()
		f()
	})
	return
}

// rethrow re-raises a panic captured in the bubble on the calling goroutine
// (needed for rapid's own control-flow panics: failed assertions, invalid
// data during shrinking, Skip).
func (r bubbleResult) rethrow() {
	if r.Panicked {
		if _, ok := r.Value.(error); ok || fmt.Sprintf("%T", r.Value) == "string" {
			panic(fmt.Sprintf("panic on the root goroutine of the bubble: %v\n%s", r.Value, r.Stack))
		}
		panic(r.Value)
	}
}

// ---------------------------------------------------------------------------

type GatePoint struct {
	Site string
	Nth  int // 0-based arrival index at that site within the case
}

type parked struct {
	GatePoint
	ch chan struct{}
}

type Gates struct {
	mu sync.Mutex
	// stackPlan: site -> substring: the next arrival at the site whose call stack contains the substring parks
	// (as GatePoint{site, -1}); for sites that many unrelated callers pass (the yield points inside types.Map)
	stackPlan map[string]string
	plan      map[GatePoint]bool
	counts  map[string]int
	parkedL []*parked
	Fired   []GatePoint
	closed  bool
}

var curGates atomic.Pointer[Gates]

func init() {
	vhook.Install(func(site string) {
		if g := curGates.Load(); g != nil {
			g.yield(site)
		}
	})
}

// InstallGates activates a plan for the current case; call Uninstall (which
// also releases anything still parked) before the bubble ends.
func InstallGates(plan []GatePoint) *Gates {
	g := &Gates{plan: map[GatePoint]bool{}, counts: map[string]int{}, stackPlan: map[string]string{}}
	for _, p := range plan {
		g.plan[p] = true
	}
	curGates.Store(g)
	return g
}

func (g *Gates) yield(site string) {
	g.mu.Lock()
	n := g.counts[site]
	g.counts[site] = n + 1
	if want, ok := g.stackPlan[site]; ok && !g.closed {
		buf := make([]byte, 8192)
		if strings.Contains(string(buf[:runtime.Stack(buf, false)]), want) {
			delete(g.stackPlan, site)
			n = -1
			g.plan[GatePoint{site, -1}] = true
		}
	}
	if g.closed || !g.plan[GatePoint{site, n}] {
		g.mu.Unlock()
		return
	}
	p := &parked{GatePoint: GatePoint{site, n}, ch: make(chan struct{})}
	g.parkedL = append(g.parkedL, p)
	g.Fired = append(g.Fired, p.GatePoint)
	g.mu.Unlock()
	<-p.ch
}

// Parked returns the goroutines currently parked (call after Settle).
func (g *Gates) Parked() []GatePoint {
	g.mu.Lock()
	defer g.mu.Unlock()
	out := make([]GatePoint, 0, len(g.parkedL))
	for _, p := range g.parkedL {
		out = append(out, p.GatePoint)
	}
	return out
}

// Release lets the goroutine parked at gp continue.
func (g *Gates) Release(gp GatePoint) bool {
	g.mu.Lock()
	for i, p := range g.parkedL {
		if p.GatePoint == gp {
			g.parkedL = append(g.parkedL[:i], g.parkedL[i+1:]...)
			g.mu.Unlock()
			close(p.ch)
			return true
		}
	}
	g.mu.Unlock()
	return false
}

func (g *Gates) ReleaseAll() {
	g.mu.Lock()
	ps := g.parkedL
	g.parkedL = nil
	g.mu.Unlock()
	for _, p := range ps {
		close(p.ch)
	}
}

func (g *Gates) Count(site string) int {
	g.mu.Lock()
	defer g.mu.Unlock()
	return g.counts[site]
}

// Uninstall disables the plan, releases parked goroutines and removes the
// dispatcher.
func (g *Gates) Uninstall() {
	g.mu.Lock()
	g.closed = true
	g.mu.Unlock()
	g.ReleaseAll()
	curGates.CompareAndSwap(g, nil)
}

// goroutineDump returns the stacks of all goroutines whose stack mentions
// one of the needles (diagnostics for leak reports).
func goroutineDump(needles ...string) string {
	buf := make([]byte, 1<<20)
	buf = buf[:runtime.Stack(buf, true)]
	var out []string
	for _, g := range strings.Split(string(buf), "\n\n") {
		for _, n := range needles {
			if strings.Contains(g, n) {
				out = append(out, g)
				break
			}
		}
	}
	return strings.Join(out, "\n\n")
}

package harness

// Out-of-bubble watchdog. A goroutine of the library that blocks on a mutex
// for ever (self-deadlock, a callback run under a lock that the callback's
// own calls need, a cancellation that can never return) does not fail a case:
// synctest.Wait never returns (a goroutine waiting for a mutex is not
// "durably blocked") and the test would simply run into its deadline, which
// the driver reports as inconclusive. The watchdog runs on a goroutine outside
// every bubble, in real time: when no case has started for a while it takes
// two stack dumps; goroutines of the library that wait for a mutex in both
// are a proven wedge (as are goroutines found busy inside library code in both:
// a loop that never ends). If a harness gate holds a goroutine at that moment the
// wedge may be the harness's own doing and is reported as such.

import (
	"fmt"
	"os"
	"regexp"
	"runtime"
	"strings"
	"sync"
	"sync/atomic"
	"time"
)

var (
	progressAt   atomic.Int64 // unix nanos (real clock) of the last case start
	progressMu   sync.Mutex
	progressWhat string
	wedgeAfter   = 30 * time.Second
)

func noteProgress(what string) {
	progressAt.Store(time.Now().UnixNano())
	progressMu.Lock()
	progressWhat = what
	progressMu.Unlock()
}

var wedgeBlockedRe = regexp.MustCompile(`(?m)^goroutine (\d+) \[(sync\.Mutex\.Lock|sync\.RWMutex\.Lock|sync\.RWMutex\.RLock)[^\]]*\]:`)

// wedgeSpinRe: a goroutine that is running or ready to run. When its innermost frame lies in the library (not
// in the runtime, which is where a harness loop that merely yields shows up) in two dumps while no case makes
// progress, the library is spinning: a loop that never ends (a live-lock) hangs a caller just as a deadlock does.
var wedgeSpinRe = regexp.MustCompile(`(?m)^goroutine (\d+) \[(running|runnable)[^\]]*\]:\n(\S+)`)

func libraryMutexWaiters() map[string]string {
	buf := make([]byte, 8<<20)
	buf = buf[:runtime.Stack(buf, true)]
	out := map[string]string{}
	for _, g := range strings.Split(string(buf), "\n\n") {
		if m := wedgeBlockedRe.FindStringSubmatch(g); m != nil && strings.Contains(g, "engine.io/v2/") {
			out[m[1]] = g
		}
		if m := wedgeSpinRe.FindStringSubmatch(g); m != nil && strings.HasPrefix(m[3], "github.com/zishang520/engine.io/v2/") {
			out["spin"+m[1]] = g
		}
	}
	return out
}

func gateParkedNow() bool {
	if g := curGates.Load(); g != nil {
		return len(g.Parked()) > 0
	}
	return false
}

func init() {
	if os.Getenv("VERIF_NO_WEDGE_WATCH") != "" {
		return
	}
	go func() {
		for {
			time.Sleep(2 * time.Second)
			last := progressAt.Load()
			if last == 0 || time.Since(time.Unix(0, last)) < wedgeAfter {
				continue
			}
			first := libraryMutexWaiters()
			if time.Since(time.Unix(0, last)) < 2*wedgeAfter {
				// goroutines that are merely busy inside the library get twice the time: a heavy case is not a loop
				for id := range first {
					if strings.HasPrefix(id, "spin") {
						delete(first, id)
					}
				}
			}
			if len(first) == 0 {
				continue
			}
			time.Sleep(1500 * time.Millisecond)
			if progressAt.Load() != last {
				continue
			}
			second := libraryMutexWaiters()
			var stuck []string
			for id, st := range first {
				if _, still := second[id]; still {
					stuck = append(stuck, clipStr(st, 2500))
				}
			}
			if len(stuck) == 0 {
				continue
			}
			progressMu.Lock()
			what := progressWhat
			progressMu.Unlock()
			if gateParkedNow() {
				fmt.Printf("HARNESS-BROKEN wedge while a harness gate holds a goroutine (inconclusive): case %s\n%s\n", clipStr(what, 1500), strings.Join(stuck, "\n\n"))
				os.Exit(4)
			}
			fmt.Printf("VERIF-WEDGE no case has started for %v; goroutine(s) of the library wait for a mutex, or are busy inside the library, in two stack dumps 1.5s apart: the case never becomes quiescent.\ncase: %s\n%s\n", wedgeAfter, clipStr(what, 3000), strings.Join(stuck, "\n\n"))
			os.Exit(3)
		}
	}()
}

package harness

// C16, overlapping responses: the compressed response of session A is held
// inside an application "headers" listener (it runs in the transport's writer
// goroutine after the payload was compressed and before the body goes out)
// while the compressed responses of other sessions are produced completely;
// then A's goes out. Whatever the transport keeps between "compressed" and
// "written" must still be A's.

import (
	"fmt"
	"net/http"
	"runtime"
	"sort"
	"strings"
	"testing"
	"time"

	"github.com/zishang520/engine.io/v2/config"
	"github.com/zishang520/engine.io/v2/types"
	"pgregory.net/rapid"
)

type c16ovSess struct {
	Rev   int
	JSONP bool
	AE    string
	Size  int
	Fill  string
}

type c16ovCase struct {
	Sess  []c16ovSess // Sess[0] is held
	Procs int
}

func (c c16ovCase) String() string { return fmt.Sprintf("{sessions=%+v procs=%d}", c.Sess, c.Procs) }

func genC16ov(rt *rapid.T) c16ovCase {
	c := c16ovCase{Procs: rapid.SampledFrom([]int{0, 1, 1}).Draw(rt, "procs")}
	n := rapid.IntRange(2, 4).Draw(rt, "n")
	for i := 0; i < n; i++ {
		l := fmt.Sprintf("s%d", i)
		s := c16ovSess{Rev: 4, AE: rapid.SampledFrom([]string{"gzip", "gzip", "deflate", "br", "zstd"}).Draw(rt, l+".ae")}
		if rapid.IntRange(0, 3).Draw(rt, l+".rev3") == 0 {
			s.Rev = 3
		}
		s.JSONP = rapid.IntRange(0, 4).Draw(rt, l+".jsonp") == 0
		s.Size = rapid.SampledFrom([]int{1024, 1500, 3000, 9000, 40000}).Draw(rt, l+".size")
		s.Fill = rapid.SampledFrom([]string{"a", "xyz", "0123456789", "é<"}).Draw(rt, l+".fill")
		c.Sess = append(c.Sess, s)
	}
	return c
}

func runC16ov(c c16ovCase) (fail string, stats map[string]bool) {
	stats = map[string]bool{}
	if c.Procs > 0 {
		defer runtime.GOMAXPROCS(runtime.GOMAXPROCS(c.Procs))
	}
	o := config.DefaultServerOptions()
	o.SetAllowEIO3(true)
	o.SetPingInterval(10 * time.Minute)
	w := NewWorld(o)
	defer w.Teardown()
	var pcs []*PollClient
	var srs []*SessRec
	var cases []c16Case
	var msgs []Pkt
	for i, s := range c.Sess {
		hdr := http.Header{"Accept-Encoding": {s.AE}}
		eio := "4"
		if s.Rev == 3 {
			eio = "3"
		}
		pc := &PollClient{W: w, O: ClientOpts{Rev: s.Rev, EIO: eio, B64: s.JSONP, JSONP: s.JSONP, J: "2", Extra: hdr}}
		pc.StartHandshake()
		Settle()
		if err := pc.FinishHandshake(); err != nil {
			return "harness: handshake: " + err.Error(), stats
		}
		pcs = append(pcs, pc)
		srs = append(srs, w.Get(pc.Sid))
		cases = append(cases, c16Case{Rev: s.Rev, B64: s.JSONP, JSONP: s.JSONP, J: "2", Threshold: -1, AE: s.AE, AESet: true})
		txt := fmt.Sprintf("session-%d:", i) + strings.Repeat(s.Fill, s.Size/len(s.Fill)+1)
		msgs = append(msgs, msgT(txt[:s.Size]))
	}
	// A's response is held inside the headers listener of its poll response
	hold := make(chan struct{})
	parked := false
	w.hdrHook = func(name string, _ map[string][]string, req *types.HttpContext) {
		if name == "headers" && !parked && req.Query().Peek("sid") == pcs[0].Sid && req.Method() == "GET" {
			parked = true
			<-hold
		}
	}
	exA := pcs[0].StartPoll()
	Settle()
	w.AppSend(srs[0], msgs[0], nil, false, 0)
	Settle()
	if parked {
		stats["response-held-between-compression-and-write"] = true
	}
	var exs []*Exchange
	for i := 1; i < len(pcs); i++ {
		ex := pcs[i].StartPoll()
		Settle()
		w.AppSend(srs[i], msgs[i], nil, false, 0)
		Settle()
		exs = append(exs, ex)
		if !ex.Snap().Responded {
			close(hold)
			return fmt.Sprintf("session %d: poll not answered while another session's response is being written", i), stats
		}
	}
	close(hold)
	Settle()
	all := append([]*Exchange{exA}, exs...)
	for i, ex := range all {
		snap := ex.Snap()
		if !snap.Responded {
			return fmt.Sprintf("session %d: poll not answered", i), stats
		}
		if f := checkPollResponse(cases[i], pcs[i], snap, []Pkt{msgs[i]}, true, stats); f != "" {
			who := fmt.Sprintf("session %d", i)
			if i == 0 {
				who = fmt.Sprintf("session 0 (its response was held between compression and write while %d other responses were produced)", len(all)-1)
			}
			return who + ": " + f, stats
		}
	}
	return "", stats
}

func TestC16Overlap(t *testing.T) {
	col := NewCollector("TestC16Overlap",
		"rapid: 2-4 polling/JSONP sessions (revision 3/4, Accept-Encoding gzip/deflate/br/zstd) each sent one compressible message of 1024..40000 bytes; the response of the first is held inside an application 'headers' listener (after compression, before the body is written) while the others' compressed responses are produced completely; GOMAXPROCS 1 or unchanged; oracle of TestC16PollResponses for every response (Content-Length, coding decodes with the independent decoder to exactly that session's packets). non-trivial: a response actually held").Use(t)
	rapid.Check(t, func(rt *rapid.T) {
		c := genC16ov(rt)
		journal("C16 overlap %v", c)
		var fail string
		var stats map[string]bool
		res := bubble(t, func() { fail, stats = runC16ov(c) })
		var cl []string
		for k := range stats {
			cl = append(cl, k)
		}
		sort.Strings(cl)
		cl = append(cl, fmt.Sprintf("procs=%d", c.Procs))
		col.Case(c.String(), stats["response-held-between-compression-and-write"], map[string]any{"case": c.String()}, cl...)
		res.rethrow()
		if fail != "" {
			rt.Fatalf("%v\n%s", c, clipStr(fail, 1500))
		}
		if res.Leak != "" {
			rt.Fatalf("%v: %s", c, clipStr(res.Leak, 1500))
		}
	})
	col.RequireClasses(t, "response-held-between-compression-and-write", "compressed", "procs=1", "procs=0")
}

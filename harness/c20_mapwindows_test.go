package harness

// C20, Map windows: types.Map answers Load / LoadAndDelete (Delete) /
// CompareAndDelete from a lock-free read-only view and falls back to the
// mutex-protected dirty map after a miss. The window between the miss and
// the lock is where another goroutine may restructure the map (promotion of
// the dirty map by misses, Range, Len, Keys; Store, Delete, Clear). The yield
// points in that window let a generated schedule place a whole sequence of
// operations inside it; the resulting history must be linearizable.

import (
	"fmt"
	"runtime"
	"testing"
	"time"

	"github.com/anishathalye/porcupine"
	"github.com/zishang520/engine.io/v2/types"
	"pgregory.net/rapid"
)

type mwCase struct {
	Setup  []linOp // sequential, before the window (kinds also: range, len, keys)
	Held   linOp   // the operation held in its window
	Inside []linOp // run by another goroutine while Held sits in the window
	After  []linOp
}

func (c mwCase) String() string {
	return fmt.Sprintf("{setup=%v held=%v inside=%v after=%v}", c.Setup, c.Held, c.Inside, c.After)
}

var mwKinds = []string{"load", "store", "store", "loadOrStore", "loadAndDelete", "delete", "swap", "cas", "cad", "clear", "range", "range", "len"}

func genMWOps(rt *rapid.T, l string, n int) []linOp {
	var ops []linOp
	for i := 0; i < n; i++ {
		o := linOp{Kind: rapid.SampledFrom(mwKinds).Draw(rt, fmt.Sprintf("%s%d.kind", l, i))}
		o.K = rapid.IntRange(0, 2).Draw(rt, fmt.Sprintf("%s%d.k", l, i))
		o.V = rapid.IntRange(0, 2).Draw(rt, fmt.Sprintf("%s%d.v", l, i))
		o.W = rapid.IntRange(0, 2).Draw(rt, fmt.Sprintf("%s%d.w", l, i))
		ops = append(ops, o)
	}
	return ops
}

func mwApply(m *types.Map[int, int], o linOp) (r linOut) {
	switch o.Kind {
	case "load":
		r.V, r.Ok = m.Load(o.K)
	case "store":
		m.Store(o.K, o.V)
	case "loadOrStore":
		r.V, r.Ok = m.LoadOrStore(o.K, o.V)
	case "loadAndDelete":
		r.V, r.Ok = m.LoadAndDelete(o.K)
	case "delete":
		m.Delete(o.K)
	case "swap":
		r.V, r.Ok = m.Swap(o.K, o.V)
	case "cas":
		r.Ok = m.CompareAndSwap(o.K, o.V, o.W)
	case "cad":
		r.Ok = m.CompareAndDelete(o.K, o.V)
	case "clear":
		m.Clear()
	case "range":
		m.Range(func(int, int) bool { return true })
	case "len":
		m.Len()
	}
	return
}

// range / len have no result that the model constrains here; they matter for what they do to the map's internals.
var mwModel = porcupine.Model{
	Init: mapLinModel.Init,
	Step: func(state, in, out any) (bool, any) {
		if k := in.(linOp).Kind; k == "range" || k == "len" {
			return true, state
		}
		return mapLinModel.Step(state, in, out)
	},
	Equal: mapLinModel.Equal,
}

func runMW(c mwCase) (fail string, parkedAt string) {
	var m types.Map[int, int]
	clock := int64(0)
	tick := func() int64 { clock++; return clock }
	var hist []porcupine.Operation
	seq := func(ops []linOp, client int) {
		for _, o := range ops {
			call := tick()
			out := mwApply(&m, o)
			hist = append(hist, porcupine.Operation{ClientId: client, Input: o, Call: call, Output: out, Return: tick()})
		}
	}
	seq(c.Setup, 0)
	g := InstallGates(nil)
	defer g.Uninstall()
	site := map[string]string{"load": "map.Load.missed", "loadAndDelete": "map.LoadAndDelete.missed", "delete": "map.LoadAndDelete.missed", "cad": "map.CompareAndDelete.missed"}[c.Held.Kind]
	gp := GatePoint{site, g.Count(site)}
	g.mu.Lock()
	g.plan[gp] = true
	g.mu.Unlock()
	call := tick()
	done := make(chan linOut, 1)
	go func() { done <- mwApply(&m, c.Held) }()
	parked := false
	var heldOut linOut
	finished := false
	for k := 0; k < 200000; k++ {
		for _, p := range g.Parked() {
			if p == gp {
				parked = true
			}
		}
		if parked {
			break
		}
		select {
		case heldOut = <-done:
			finished = true
		default:
		}
		if finished {
			break
		}
		runtime.Gosched()
	}
	// from here on nobody else may be held (the operations below pass the same yield points)
	g.mu.Lock()
	delete(g.plan, gp)
	g.mu.Unlock()
	if parked {
		parkedAt = site
		seq(c.Inside, 1)
		g.Release(gp)
	}
	if !finished {
		select {
		case heldOut = <-done:
		case <-time.After(20 * time.Second):
			return "harness: the held operation never returned", parkedAt
		}
	}
	hist = append(hist, porcupine.Operation{ClientId: 2, Input: c.Held, Call: call, Output: heldOut, Return: tick()})
	if !parked {
		// the operation hit the read-only view: run the rest sequentially all the same
		seq(c.Inside, 1)
	}
	seq(c.After, 0)
	if porcupine.CheckOperationsTimeout(mwModel, hist, 10*time.Second) == porcupine.Illegal {
		return "history is not linearizable:" + histString(hist), parkedAt
	}
	return "", parkedAt
}

func TestC20MapWindows(t *testing.T) {
	col := NewCollector("TestC20MapWindows",
		"rapid: one types.Map over 3 keys; 0-6 sequential set-up operations (all per-key operations, Clear, and Range/Len which consolidate the map's internals), then one Load / LoadAndDelete / Delete / CompareAndDelete is started in its own goroutine and, when it misses the lock-free view, held at the yield point between the miss and the mutex while another client runs 1-4 operations inside that window, then 0-3 operations afterwards; oracle: porcupine finds a linearization of the whole history w.r.t. the sequential map model (the held operation's interval spans the inside operations). non-trivial: the operation was actually held in a window").Use(t)
	rapid.Check(t, func(rt *rapid.T) {
		c := mwCase{}
		c.Setup = genMWOps(rt, "s", rapid.IntRange(0, 6).Draw(rt, "nsetup"))
		c.Held = linOp{Kind: rapid.SampledFrom([]string{"load", "loadAndDelete", "delete", "cad"}).Draw(rt, "held"), K: rapid.IntRange(0, 2).Draw(rt, "heldK"), V: rapid.IntRange(0, 2).Draw(rt, "heldV")}
		c.Inside = genMWOps(rt, "i", rapid.IntRange(1, 4).Draw(rt, "ninside"))
		c.After = genMWOps(rt, "a", rapid.IntRange(0, 3).Draw(rt, "nafter"))
		journal("C20mw %v", c)
		fail, at := runMW(c)
		cls := []string{"held." + c.Held.Kind}
		if at != "" {
			cls = append(cls, "held-in-window", "window."+at)
		} else {
			cls = append(cls, "answered-from-the-read-only-view")
		}
		col.Case(c.String(), at != "", map[string]any{"case": c.String(), "window": at}, cls...)
		if fail != "" {
			rt.Fatalf("%v\n%s", c, fail)
		}
	})
	col.RequireClasses(t, "window.map.Load.missed", "window.map.LoadAndDelete.missed", "window.map.CompareAndDelete.missed")
}

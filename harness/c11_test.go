package harness

// C11 — polling discipline: one poll and one data request at a time, exactly
// one response per accepted request, 'ok' only after the payload was processed.

import (
	"fmt"
	"runtime"
	"sort"
	"strings"
	"testing"
	"time"

	"github.com/zishang520/engine.io/v2/config"
	"pgregory.net/rapid"
)

type pdStep struct {
	Kind  string // poll | post | postBlocked | release | abortPoll | abortPost | abortedBefore | appSend | appClose | wait | heartbeat
	Sess  int
	N     int // messages in the payload
	Block int // byte offset at which the body stalls
	D     time.Duration
}

func (s pdStep) String() string {
	switch s.Kind {
	case "post":
		return fmt.Sprintf("post#%d(%d msgs)", s.Sess, s.N)
	case "postBlocked":
		return fmt.Sprintf("postBlocked#%d(%d msgs, stalls at byte %d)", s.Sess, s.N, s.Block)
	case "wait":
		return fmt.Sprintf("wait(%v)", s.D)
	}
	return fmt.Sprintf("%s#%d", s.Kind, s.Sess)
}

type pdCase struct {
	Rev   int
	JSONP bool
	NSess int
	// Chunk > 0: the clients' data requests do not declare their length (chunked transfer coding, what a streaming
	// client sends); the body arrives in pieces of this size
	Chunk int
	Steps []pdStep
}

func genC11(rt *rapid.T) pdCase {
	c := pdCase{Rev: 4}
	if rapid.IntRange(0, 3).Draw(rt, "rev3") == 0 {
		c.Rev = 3
	}
	c.JSONP = rapid.IntRange(0, 4).Draw(rt, "jsonp") == 0
	c.NSess = rapid.IntRange(1, 3).Draw(rt, "nsess")
	if rapid.IntRange(0, 3).Draw(rt, "undeclaredLength") == 0 {
		c.Chunk = rapid.SampledFrom([]int{1, 5, 4096}).Draw(rt, "chunk")
	}
	n := rapid.IntRange(2, 14).Draw(rt, "nsteps")
	for i := 0; i < n; i++ {
		l := fmt.Sprintf("s%d", i)
		st := pdStep{
			Kind: rapid.SampledFrom([]string{"poll", "poll", "poll", "post", "post", "postBlocked", "postBlocked", "release", "release", "abortPoll", "abortPost", "postWhileHandlerBusy", "appSend", "appSend", "appClose", "wait", "heartbeat", "postClose", "postWrongHeartbeat", "closeWhileBusySlowConn", "slowPoll", "pollInsideWrite", "pollInsideWrite", "postWrongType", "racingPolls", "racingPosts"}).Draw(rt, l+".kind"),
			Sess: rapid.IntRange(0, c.NSess-1).Draw(rt, l+".sess"),
			N:    rapid.IntRange(1, 5).Draw(rt, l+".n"),
		}
		st.Block = rapid.IntRange(0, 12).Draw(rt, l+".block")
		st.D = time.Duration(rapid.SampledFrom([]int{1, 100, 1000, 30000}).Draw(rt, l+".d")) * time.Millisecond
		c.Steps = append(c.Steps, st)
	}
	return c
}

type pdSess struct {
	pc       *PollClient
	sr       *SessRec
	poll     *Exchange // pending poll (model)
	post     *Exchange // data request in flight (model: its body is stalled)
	postPkts []Pkt
	closed   bool     // model: a close cause occurred
	reasons  []string // allowed close reasons
	upSeq    int
	wantMsgs []Pkt
	accepted []*Exchange // requests the server accepted
	refused  []*Exchange // requests that must be answered 400
	turned   []*Exchange // requests the transport turns away for another reason: one response with a 4xx status
	inPost   *Exchange   // exchange whose payload is being processed right now (for the ok-ordering hook)
}

func runC11(c pdCase) (fail string, stats map[string]bool) {
	stats = map[string]bool{}
	o := config.DefaultServerOptions()
	o.SetAllowEIO3(true)
	o.SetPingInterval(10 * time.Minute)
	o.SetPingTimeout(10 * time.Minute)
	w := NewWorld(o)
	defer w.Teardown()
	eio := "4"
	if c.Rev == 3 {
		eio = "3"
	}
	var ss []*pdSess
	var g *Gates
	bySid := map[string]*pdSess{}
	var hookFail string
	var parkMsg chan struct{}
	parkedInMsg := false
	w.MsgHook = func(sr *SessRec, p Pkt) {
		s := bySid[sr.Sid]
		if s != nil && s.inPost != nil {
			// a message of the payload is being delivered: its request must not have been acknowledged yet
			s.inPost.mu.Lock()
			acked := s.inPost.Responded && s.inPost.Status == 200
			s.inPost.mu.Unlock()
			if acked && hookFail == "" {
				hookFail = fmt.Sprintf("message %v delivered after its data request had already been acknowledged", p)
			}
		}
		if ch := parkMsg; ch != nil {
			// a slow application listener: the payload of the current data request is still being processed
			parkMsg = nil
			parkedInMsg = true
			<-ch
		}
	}
	for i := 0; i < c.NSess; i++ {
		pc := &PollClient{W: w, O: ClientOpts{Rev: c.Rev, EIO: eio, JSONP: c.JSONP, J: "1", B64: c.JSONP, Chunk: c.Chunk}}
		pc.StartHandshake()
		Settle()
		if err := pc.FinishHandshake(); err != nil {
			return "harness: " + err.Error(), stats
		}
		s := &pdSess{pc: pc, sr: w.Get(pc.Sid)}
		ss = append(ss, s)
		bySid[pc.Sid] = s
	}
	closeCause := func(s *pdSess, reasons ...string) {
		s.closed = true
		s.reasons = append(s.reasons, reasons...)
	}
	mkMsgs := func(s *pdSess, n int) []Pkt {
		var ps []Pkt
		for i := 0; i < n; i++ {
			s.upSeq++
			ps = append(ps, msgT(fmt.Sprintf("m%d", s.upSeq)))
		}
		return ps
	}

	mkMsgsNoCount := func(n int) []Pkt {
		var ps []Pkt
		for i := 0; i < n; i++ {
			ps = append(ps, msgT(fmt.Sprintf("x%d", i)))
		}
		return ps
	}

	check := func(what string) string {
		if hookFail != "" {
			return what + ": " + hookFail
		}
		for i, s := range ss {
			for _, e := range append(append(append([]*Exchange{}, s.accepted...), s.refused...), s.turned...) {
				snap := e.Snap()
				if snap.Panic != nil {
					return fmt.Sprintf("%s: handler of %s %s panicked: %v", what, e.Method, e.URL, snap.Panic)
				}
				if snap.HeaderCalls > 1 {
					return fmt.Sprintf("%s: session #%d: %s request got %d status lines (two responses)", what, i, e.Method, snap.HeaderCalls)
				}
				if snap.WritesAfterReturn > 0 {
					return fmt.Sprintf("%s: session #%d: %s request was written to after its handler had returned", what, i, e.Method)
				}
				if snap.Returned && !snap.Responded && !snap.Aborted {
					return fmt.Sprintf("%s: session #%d: handler of %s request returned without any response", what, i, e.Method)
				}
				if snap.Responded && !snap.Returned && !snap.Aborted {
					if e.body != nil {
						// answered while its upload is still stalled (the server gave up on it): the client,
						// having its response, abandons the upload; then the handler must return
						e.Abort()
						Settle()
						snap = e.Snap()
						stats["stalled-upload-answered-early"] = true
						// an abandoned upload is itself a (client-side) close cause
						s.reasons = append(s.reasons, "transport error")
					}
					if !snap.Returned {
						return fmt.Sprintf("%s: session #%d: %s request answered (%d) but its handler never returned", what, i, e.Method, snap.Status)
					}
				}
			}
			for _, e := range s.refused {
				snap := e.Snap()
				if !snap.Responded || snap.Status != 400 {
					return fmt.Sprintf("%s: session #%d: overlapping / late %s request answered %v, want 400", what, i, e.Method, snap)
				}
			}
			for _, e := range s.turned {
				snap := e.Snap()
				if !snap.Responded || snap.Status < 400 || snap.Status > 499 || !snap.Returned {
					return fmt.Sprintf("%s: session #%d: %s request with a content type the revision does not allow answered %v (handler returned: %v), want one 4xx response", what, i, e.Method, snap, snap.Returned)
				}
			}
			if s.closed {
				if len(s.sr.Closes) != 1 {
					return fmt.Sprintf("%s: session #%d: a close cause occurred (%v) but close events are %v", what, i, s.reasons, s.sr.Closes)
				}
				ok := false
				for _, r := range s.reasons {
					if r == s.sr.Closes[0] {
						ok = true
					}
				}
				if !ok {
					return fmt.Sprintf("%s: session #%d closed with %q, want one of %v", what, i, s.sr.Closes[0], s.reasons)
				}
				// a pending poll is answered at the latest when the session closes
				if s.poll != nil {
					ps := s.poll.Snap()
					if !ps.Responded && !ps.Aborted {
						return fmt.Sprintf("%s: session #%d closed (%s) but its pending poll was never answered", what, i, s.sr.Closes[0])
					}
					if ps.Responded && ps.RespondedAt.Sub(w.T0) > s.sr.CloseAt {
						return fmt.Sprintf("%s: session #%d: pending poll answered at %v, after the close event at %v", what, i, ps.RespondedAt.Sub(w.T0), s.sr.CloseAt)
					}
					stats["poll-released-by-close"] = true
				}
			} else if len(s.sr.Closes) != 0 {
				return fmt.Sprintf("%s: session #%d closed (%v) although every request so far was conformant", what, i, s.sr.Closes)
			}
			if !pktsEqual(s.sr.Msgs, s.wantMsgs) {
				return fmt.Sprintf("%s: session #%d delivered %s, processed payloads contain %s", what, i, pktsString(s.sr.Msgs), pktsString(s.wantMsgs))
			}
		}
		return ""
	}

	for i, st := range c.Steps {
		what := fmt.Sprintf("step %d %v", i, st)
		s := ss[st.Sess]
		pc := s.pc
		switch st.Kind {
		case "poll":
			e := pc.StartPoll()
			Settle()
			switch {
			case s.closed:
				s.refused = append(s.refused, e)
				stats["request-after-close"] = true
			case s.poll != nil:
				// overlapping poll: 400 for the newcomer, transport error for the session
				s.refused = append(s.refused, e)
				closeCause(s, "transport error")
				stats["overlapping-poll"] = true
			default:
				s.accepted = append(s.accepted, e)
				s.poll = e
				if e.Snap().Responded {
					// something was buffered: answered at once
					pc.Pump()
					s.poll = nil
				}
			}
			if s.closed {
				pc.Poll = nil
			}
		case "post", "postBlocked":
			pkts := mkMsgs(s, st.N)
			body, ct := pc.EncodePost(pkts, false)
			blocked := st.Kind == "postBlocked" && st.Block < len(body)
			e := pc.StartPostRaw(body, ct, func(r *ReqSpec) {
				if blocked {
					r.BlockBodyAt = st.Block
				}
			})
			if !s.closed && s.post == nil && !blocked {
				s.inPost = e
			}
			Settle()
			s.inPost = nil
			switch {
			case s.closed:
				s.refused = append(s.refused, e)
				stats["request-after-close"] = true
			case s.post != nil:
				s.refused = append(s.refused, e)
				closeCause(s, "transport error")
				stats["overlapping-data-request"] = true
				// the stalled first request is aborted by the server (any status, exactly one response)
			case blocked:
				s.accepted = append(s.accepted, e)
				s.post, s.postPkts = e, pkts
				stats["stalled-body"] = true
				if e.Snap().Responded {
					return fmt.Sprintf("%s: data request acknowledged (%v) while its body is still being uploaded", what, e.Snap()), stats
				}
			default:
				s.accepted = append(s.accepted, e)
				s.wantMsgs = append(s.wantMsgs, pkts...)
				snap := e.Snap()
				if snap.Status != 200 || string(snap.Body) != "ok" {
					return fmt.Sprintf("%s: data request answered %v, want 200 ok", what, snap), stats
				}
				if st.N > 1 {
					stats["multi-packet-ack"] = true
				}
				if c.Chunk > 0 {
					stats["data-request-of-undeclared-length-acknowledged"] = true
				}
			}
		case "pollInsideWrite":
			// a second poll arrives while the response to the pending one is being prepared: the writer goroutine
			// has taken the pending request and is held (yield point polling.write.taken) before it writes. The
			// newcomer overlaps: 400 and transport error; the first poll is still answered exactly once
			if s.closed || s.poll != nil || s.post != nil {
				break
			}
			if g == nil {
				g = InstallGates(nil)
				defer g.Uninstall()
			}
			// (every other time the writer is held further on, inside DoWrite right before it compresses the
			// response: the poll names a content coding and the payload is above the compression threshold)
			inCompress := st.Block%2 == 1
			var p1 *Exchange
			if inCompress {
				p1 = pc.StartPollMod(func(r *ReqSpec) { r.Header.Set("Accept-Encoding", "gzip") })
			} else {
				p1 = pc.StartPoll()
			}
			Settle()
			s.accepted = append(s.accepted, p1)
			s.poll = p1
			if p1.Snap().Responded {
				pc.Pump()
				s.poll = nil
				break
			}
			site := "polling.write.taken"
			down := msgT("down-held")
			if inCompress {
				site = "polling.DoWrite.compressing"
				down = msgT("down-held " + strings.Repeat("compressible ", 120))
			}
			gp := GatePoint{site, g.Count(site)}
			g.mu.Lock()
			g.plan[gp] = true
			g.mu.Unlock()
			w.AppSend(s.sr, down, nil, false, 0)
			Settle()
			held := false
			for _, x := range g.Parked() {
				if x == gp {
					held = true
				}
			}
			if !held {
				g.mu.Lock()
				delete(g.plan, gp)
				g.mu.Unlock()
				pc.Pump()
				s.poll = nil
				break
			}
			stats["poll-arriving-while-a-response-is-being-written"] = true
			if inCompress {
				stats["poll-arriving-while-a-response-is-being-compressed"] = true
			}
			passed0 := g.Count("polling.onPollRequest.checked")
			p2 := pc.StartPoll()
			pc.Poll = p1
			// (the newcomer's handler may need a lock the held writer owns: give it room instead of waiting for quiescence)
			for k := 0; k < 20000 && !p2.Snap().Responded && g.Count("polling.onPollRequest.checked") == passed0; k++ {
				runtime.Gosched()
			}
			inWindow := p2.Snap().Responded
			if !inWindow && g.Count("polling.onPollRequest.checked") > passed0 {
				// the newcomer is past the overlap test (it has reached the yield point behind it) while the first
				// poll is still unanswered, its response in the writer's hands
				g.Release(gp)
				Settle()
				return fmt.Sprintf("%s: a second poll was admitted as the session's pending poll while the first one was still unanswered (its response was being %s)", what, map[bool]string{false: "written", true: "compressed"}[inCompress]), stats
			}
			g.Release(gp)
			Settle()
			if !inWindow && p2.Snap().Status != 400 {
				// the newcomer did not get to run while the writer was held: it is an ordinary next poll
				delete(stats, "poll-arriving-while-a-response-is-being-written")
				delete(stats, "poll-arriving-while-a-response-is-being-compressed")
				s.accepted = append(s.accepted, p2)
				pc.Poll = nil
				pc.Pump()
				pc.Poll = p2
				s.poll = p2
				break
			}
			s.refused = append(s.refused, p2)
			closeCause(s, "transport error")
			if snap := p1.Snap(); !snap.Responded {
				return fmt.Sprintf("%s: the poll whose response was being written when a second poll arrived was never answered (%v); the second poll: %v", what, snap, p2.Snap()), stats
			}
			pc.Pump()
			pc.Poll = nil
		case "racingPolls", "racingPosts":
			// two requests of the same kind arrive at the same moment: both have passed the overlap test before
			// either is registered (yield points polling.on{Poll,Data}Request.checked). One of them is the
			// overlapping one: it is refused with 400 and the session closes with a transport error; the other one
			// gets its response (at the latest when the session closes)
			if s.closed || s.poll != nil || s.post != nil || (pc.Poll != nil && !pc.Poll.Snap().Responded) {
				break
			}
			pc.Pump()
			if g == nil {
				g = InstallGates(nil)
				defer g.Uninstall()
			}
			site := "polling.onPollRequest.checked"
			if st.Kind == "racingPosts" {
				site = "polling.onDataRequest.checked"
			}
			n0 := g.Count(site)
			gpA, gpB := GatePoint{site, n0}, GatePoint{site, n0 + 1}
			g.mu.Lock()
			g.plan[gpA], g.plan[gpB] = true, true
			g.mu.Unlock()
			var a, b *Exchange
			var pkA []Pkt
			var ch chan struct{}
			if st.Kind == "racingPolls" {
				a = pc.StartPoll()
				Settle()
				b = pc.StartPoll()
				Settle()
			} else {
				// the first one's payload is still being processed (a slow message listener) when the second goes on
				pkA = mkMsgs(s, st.N)
				ch = make(chan struct{})
				parkMsg, parkedInMsg = ch, false
				a = pc.StartPost(pkA, false)
				Settle()
				b = pc.StartPost([]Pkt{msgT("from the overlapping request")}, false)
				Settle()
			}
			both := 0
			for _, x := range g.Parked() {
				if x == gpA || x == gpB {
					both++
				}
			}
			g.mu.Lock()
			delete(g.plan, gpA)
			delete(g.plan, gpB)
			g.mu.Unlock()
			if both == 2 {
				stats["two-"+map[string]string{"racingPolls": "polls", "racingPosts": "data-requests"}[st.Kind]+"-past-the-overlap-test-together"] = true
			}
			s.inPost = a
			g.Release(gpA)
			Settle()
			if both == 2 && a.Snap().Responded {
				// the first one was answered at once (data was waiting for it): the second one follows it, it
				// does not overlap it
				both = 1
				delete(stats, "two-polls-past-the-overlap-test-together")
				delete(stats, "two-data-requests-past-the-overlap-test-together")
			}
			g.Release(gpB)
			Settle()
			if ch != nil {
				parkMsg = nil
				close(ch)
				Settle()
			}
			s.inPost = nil
			pc.Poll = nil
			if both != 2 {
				// the second request did not get past the test while the first was held: an ordinary overlap or an
				// ordinary sequence; nothing more is asserted here than one response each (below, by the invariant)
				s.accepted = append(s.accepted, a)
				if bs := b.Snap(); bs.Status == 400 {
					s.refused = append(s.refused, b)
					closeCause(s, "transport error")
				} else {
					s.accepted = append(s.accepted, b)
				}
				s.wantMsgs = append(s.wantMsgs[:0:0], s.sr.Msgs...)
				if len(s.sr.Closes) > 0 {
					closeCause(s, "transport error")
				}
				if st.Kind == "racingPolls" && !s.closed {
					// whichever of the two is still pending is the client's outstanding poll
					for _, e := range []*Exchange{a, b} {
						if !e.Snap().Responded {
							s.poll, pc.Poll = e, e
						} else {
							pc.Poll = e
							pc.Pump()
							pc.Poll = s.poll
						}
					}
				}
				break
			}
			as, bs := a.Snap(), b.Snap()
			closeCause(s, "transport error")
			switch {
			case as.Status == 400 && bs.Status != 400:
				s.refused, s.accepted = append(s.refused, a), append(s.accepted, b)
			case bs.Status == 400 && as.Status != 400:
				s.refused, s.accepted = append(s.refused, b), append(s.accepted, a)
			default:
				return fmt.Sprintf("%s: two %s requests of one session went past the overlap test together: answered %v and %v; exactly one of them is the overlapping one (400, session closed with a transport error)", what, a.Method, as, bs), stats
			}
			if !as.Responded || !bs.Responded {
				return fmt.Sprintf("%s: two %s requests at the same moment: %v / %v: one of them was never answered", what, a.Method, as, bs), stats
			}
			if st.Kind == "racingPosts" {
				// only the accepted request's payload may have been delivered (a prefix of it: the overlap closes the session)
				extra := s.sr.Msgs[min(len(s.wantMsgs), len(s.sr.Msgs)):]
				if !isPrefix(extra, pkA) && !(len(extra) <= 1 && bs.Status != 400) {
					return fmt.Sprintf("%s: delivered %s; the accepted request carried %s", what, pktsString(extra), pktsString(pkA)), stats
				}
				s.wantMsgs = append(s.wantMsgs, extra...)
			}
		case "slowPoll":
			// a poll over a slow connection: the status line of its response takes its time. The handler must not
			// return before the response is out (what is written after it returned reaches nobody), one response
			if s.closed || s.poll != nil || s.post != nil {
				break
			}
			hold := make(chan struct{})
			e := pc.StartPollMod(func(r *ReqSpec) { r.HoldHeader = hold })
			Settle()
			s.accepted = append(s.accepted, e)
			s.poll = e
			w.AppSend(s.sr, msgT("down-slow"), nil, false, 0)
			Settle()
			e.mu.Lock()
			held, returned := e.HeldHeader, e.Returned
			e.mu.Unlock()
			if held {
				stats["poll-response-on-slow-connection"] = true
				if returned {
					close(hold)
					return fmt.Sprintf("%s: the poll's handler returned while its response was still being written (status line not out yet): net/http completes the exchange as an empty 200 and the payload reaches nobody", what), stats
				}
			}
			close(hold)
			Settle()
			if snap := e.Snap(); !snap.Responded || snap.Status != 200 {
				return fmt.Sprintf("%s: poll over a slow connection answered %v after the application sent", what, snap), stats
			}
			pc.Pump()
			s.poll = nil
		case "postClose", "postWrongHeartbeat":
			// the client ends the session itself: N-1 messages, then a close packet (and one more message that
			// must not be delivered); or a heartbeat packet travelling in the wrong direction for the revision
			if s.closed || s.post != nil {
				break
			}
			pkts := mkMsgs(s, st.N-1)
			body := append([]Pkt{}, pkts...)
			if st.Kind == "postClose" {
				body = append(body, ctl(tClose))
				if st.Block%2 == 0 {
					body = append(body, msgT("after-close"))
				}
			} else if c.Rev == 4 {
				body = append(body, ctl(tPing))
			} else {
				body = append(body, ctl(tPong))
			}
			hadPoll := s.poll != nil && !s.poll.Snap().Responded
			e := pc.StartPost(body, false)
			s.inPost = e
			Settle()
			s.inPost = nil
			s.accepted = append(s.accepted, e)
			s.wantMsgs = append(s.wantMsgs, pkts...)
			if st.Kind == "postClose" {
				closeCause(s, "transport close")
				if hadPoll {
					stats["client-close-packet-with-poll-pending"] = true
				}
			} else {
				closeCause(s, "transport error")
				if hadPoll {
					stats["wrong-heartbeat-with-poll-pending"] = true
				}
			}
			pc.Poll = nil
		case "postWrongType":
			// a data request whose content type the session's revision does not allow (binary payloads are a
			// revision-3 format): the transport turns it away, the session ends with a transport error; the request
			// is still owed its one response, and a pending poll its release
			if s.closed || s.post != nil || c.Rev != 4 {
				break
			}
			hadPoll := s.poll != nil && !s.poll.Snap().Responded
			body := encPayloadV3Binary(mkMsgsNoCount(st.N))
			e := pc.StartPostRaw(body, "application/octet-stream", func(r *ReqSpec) {
				if st.Block%3 == 0 {
					r.ContentLength = -1
					r.BodyChunk = 7
				}
			})
			Settle()
			s.turned = append(s.turned, e)
			closeCause(s, "transport error")
			stats["data-request-with-disallowed-content-type"] = true
			if hadPoll {
				stats["disallowed-content-type-with-poll-pending"] = true
			}
			pc.Poll = nil
		case "closeWhileBusySlowConn":
			// the data request's payload is still being handled by a slow listener when the application closes the
			// session; the connection of that request is slow: the status line of whatever answers it first takes
			// its time, and meanwhile the listener finishes and the handler wants to acknowledge. One response.
			if s.closed || s.post != nil {
				break
			}
			pk := mkMsgs(s, st.N)
			ch := make(chan struct{})
			parkMsg, parkedInMsg = ch, false
			hold := make(chan struct{})
			body, ct := pc.EncodePost(pk, false)
			e1 := pc.StartPostRaw(body, ct, func(r *ReqSpec) { r.HoldHeader = hold })
			s.inPost = e1
			Settle()
			s.accepted = append(s.accepted, e1)
			if !parkedInMsg {
				parkMsg = nil
				close(ch)
				close(hold)
				Settle()
				s.inPost = nil
				s.wantMsgs = append(s.wantMsgs, pk...)
				break
			}
			closed := make(chan struct{})
			go func() { s.sr.Sock.Close(st.Block%2 == 0); close(closed) }()
			Settle()
			e1.mu.Lock()
			held := e1.HeldHeader
			e1.mu.Unlock()
			// the listener finishes: the handler goes on with the rest of the payload and its acknowledgement
			close(ch)
			if held {
				stats["two-responders-for-one-data-request"] = true
				// (the handler may be waiting for a lock the held writer owns: no quiescence to wait for)
				linger()
			} else {
				Settle()
			}
			close(hold)
			<-closed
			Settle()
			s.inPost = nil
			extra := s.sr.Msgs[min(len(s.wantMsgs), len(s.sr.Msgs)):]
			if !isPrefix(extra, pk) {
				return fmt.Sprintf("%s: delivered %s of the payload %s", what, pktsString(extra), pktsString(pk)), stats
			}
			s.wantMsgs = append(s.wantMsgs, extra...)
			closeCause(s, "forced close", "transport error")
			if s.poll != nil && !s.poll.Snap().Responded {
				// Close(false) with nothing buffered waits for the next poll / the pending one is answered by the close
			}
			for k := 0; k < 3 && len(s.sr.Closes) == 0; k++ {
				if s.poll != nil && !s.poll.Snap().Responded {
					break
				}
				pc.Pump()
				e := pc.StartPoll()
				Settle()
				s.accepted = append(s.accepted, e)
				s.poll = e
			}
		case "postWhileHandlerBusy":
			// the first request's body has been read completely, its message listener is still running
			if s.closed || s.post != nil {
				break
			}
			pk1 := mkMsgs(s, st.N)
			ch := make(chan struct{})
			parkMsg, parkedInMsg = ch, false
			e1 := pc.StartPost(pk1, false)
			s.inPost = e1
			Settle()
			if !parkedInMsg {
				parkMsg = nil
				close(ch)
				Settle()
				s.inPost = nil
				s.accepted = append(s.accepted, e1)
				s.wantMsgs = append(s.wantMsgs, pk1...)
				break
			}
			stats["data-request-while-handler-busy"] = true
			if e1.Snap().Responded {
				close(ch)
				return fmt.Sprintf("%s: data request acknowledged while a message of its payload is still being handled", what), stats
			}
			pk2 := mkMsgs(s, 1)
			e2 := pc.StartPost(pk2, false)
			Settle()
			close(ch)
			Settle()
			s.inPost = nil
			// e1 is still outstanding when e2 arrives: e2 is the overlapping one
			s.accepted = append(s.accepted, e1)
			s.refused = append(s.refused, e2)
			// the overlap closes the session while e1's payload is half way: what was delivered is a prefix of it
			extra := s.sr.Msgs[min(len(s.wantMsgs), len(s.sr.Msgs)):]
			if !isPrefix(extra, pk1) || len(extra) == 0 {
				return fmt.Sprintf("%s: delivered %s of the payload %s", what, pktsString(extra), pktsString(pk1)), stats
			}
			s.wantMsgs = append(s.wantMsgs, extra...)
			closeCause(s, "transport error")
		case "release":
			if s.post == nil {
				break
			}
			e, pkts := s.post, s.postPkts
			s.post, s.postPkts = nil, nil
			if !s.closed {
				s.inPost = e
			}
			e.body.Release()
			Settle()
			s.inPost = nil
			if !s.closed {
				s.wantMsgs = append(s.wantMsgs, pkts...)
				snap := e.Snap()
				if snap.Status != 200 || string(snap.Body) != "ok" {
					return fmt.Sprintf("%s: released data request answered %v, want 200 ok", what, snap), stats
				}
				stats["stalled-body-released"] = true
			}
		case "abortPoll":
			if s.poll == nil || s.closed {
				break
			}
			s.poll.Abort()
			Settle()
			pc.Poll = nil
			closeCause(s, "transport error")
			stats["aborted-poll"] = true
		case "abortPost":
			if s.post == nil || s.closed {
				break
			}
			s.post.Abort()
			Settle()
			// the upload ended early: whether the session notices (transport error) or processes what
			// had arrived is not fixed by the statement; what was delivered must be a prefix of the payload
			pk := s.postPkts
			s.post, s.postPkts = nil, nil
			stats["aborted-data-request"] = true
			if len(s.sr.Closes) > 0 {
				closeCause(s, "transport error")
			}
			extra := s.sr.Msgs[min(len(s.wantMsgs), len(s.sr.Msgs)):]
			if !isPrefix(extra, pk) {
				return fmt.Sprintf("%s: after an aborted upload of %s the application received %s", what, pktsString(pk), pktsString(extra)), stats
			}
			s.wantMsgs = append(s.wantMsgs, extra...)
		case "abortedBefore":
			// a request whose client is gone before the server looks at it, then a duplicate of it
			if s.closed {
				break
			}
			spec := NewReq("GET", w.Path, pc.query(true))
			e := Do(w.Srv, spec)
			e.Abort()
			Settle()
			stats["aborted-before-handling"] = true
			if s.poll != nil {
				s.refused = append(s.refused, e)
				closeCause(s, "transport error")
			} else {
				s.accepted = append(s.accepted, e)
				closeCause(s, "transport error")
			}
			pc.Poll = nil
		case "appSend":
			if s.closed || len(s.sr.Closes) > 0 {
				break
			}
			w.AppSend(s.sr, msgT("down"), nil, false, 0)
			Settle()
			if s.poll != nil {
				snap := s.poll.Snap()
				if !snap.Responded {
					return fmt.Sprintf("%s: a poll is pending and the application sent, but the poll was not answered", what), stats
				}
				pc.Pump()
				s.poll = nil
				stats["poll-answered-by-send"] = true
			}
		case "appClose":
			if s.closed {
				break
			}
			s.sr.Sock.Close(false)
			Settle()
			closeCause(s, "forced close")
			// the client keeps polling: a buffered close completes with the next poll, or the one after it
			// when the writer goroutine had already passed the point where it appends the close packet
			for k := 0; k < 3 && len(s.sr.Closes) == 0; k++ {
				if s.poll != nil && !s.poll.Snap().Responded {
					break
				}
				pc.Pump()
				e := pc.StartPoll()
				Settle()
				s.accepted = append(s.accepted, e)
				s.poll = e
				stats["close-completed-by-next-poll"] = true
			}
			if s.post != nil {
				// the stalled upload is aborted by the server side of the close
				s.post, s.postPkts = nil, nil
			}
		case "wait":
			time.Sleep(st.D)
			Settle()
		case "heartbeat":
			// heartbeats are far away (10 minutes) in these histories
		}
		for _, x := range ss {
			x.pc.Pump()
			if x.poll != nil && x.poll.Snap().Responded {
				x.poll = nil
			}
		}
		if f := check(what); f != "" {
			return f, stats
		}
		if s.closed {
			stats["session-closed"] = true
		}
	}
	// sessions that were never disturbed still work
	for i, s := range ss {
		if s.closed || s.post != nil {
			continue
		}
		pkts := mkMsgs(s, 2)
		e := s.pc.StartPost(pkts, false)
		s.inPost = e
		Settle()
		s.inPost = nil
		s.accepted = append(s.accepted, e)
		s.wantMsgs = append(s.wantMsgs, pkts...)
		if snap := e.Snap(); snap.Status != 200 {
			return fmt.Sprintf("end: undisturbed session #%d: data request answered %v", i, snap), stats
		}
		stats["undisturbed-session-ok"] = true
	}
	if f := check("end"); f != "" {
		return f, stats
	}
	// the clients go away: uploads still stalled end (nothing may be left behind by them)
	for _, s := range ss {
		if s.post != nil {
			s.post.Abort()
		}
		for _, e := range append(append([]*Exchange{}, s.accepted...), s.refused...) {
			if e.body != nil {
				e.body.Release()
			}
		}
	}
	Settle()
	return "", stats
}

func TestC11PollingDiscipline(t *testing.T) {
	col := NewCollector("TestC11PollingDiscipline",
		"rapid: 1-3 polling/JSONP sessions (revision 3/4) and 2-14 steps: poll (also while one is pending), data request with 1-5 packets (also while another one's body is stalled at a drawn byte offset by the instrumented request body), release of the stalled body, abort of the pending poll / of the stalled upload, a data request that carries a close packet or a wrong-direction heartbeat (with or without a poll pending), a second poll arriving while the response to the pending one is being written (writer held at a yield point between taking the request and writing), a poll over a slow connection, a session closed by the application while a data request's payload is still being handled and that request's connection is slow (its first status line is held back while the handler wants to acknowledge), application Send, Close(false), waits (1ms..30s); oracle per request record: at most one status line and no write after the handler returned, handler returns iff answered; an overlapping request is answered 400 and the session closes with 'transport error'; other sessions are unaffected; a pending poll is answered no later than the session's close event; a data request is acknowledged 200 'ok' only after every message of its payload was delivered (checked from inside the message event) and never while its body is still being uploaded; delivered messages == payloads processed. non-trivial: a history with an overlap or an abort").Use(t)
	rapid.Check(t, func(rt *rapid.T) {
		c := genC11(rt)
		journal("C11 %v", c)
		var fail string
		var stats map[string]bool
		res := bubble(t, func() { fail, stats = runC11(c) })
		var cl []string
		for k := range stats {
			cl = append(cl, k)
		}
		sort.Strings(cl)
		nt := stats["overlapping-poll"] || stats["overlapping-data-request"] || stats["aborted-poll"] || stats["aborted-data-request"]
		col.Case(fmt.Sprint(c), nt, map[string]any{"case": clipStr(fmt.Sprint(c), 700), "classes": strings.Join(cl, " ")}, cl...)
		res.rethrow()
		if fail != "" {
			rt.Fatalf("%v\n%s", c, clipStr(fail, 1500))
		}
		if res.Leak != "" {
			rt.Fatalf("%v: %s", c, clipStr(res.Leak, 1500))
		}
	})
	col.RequireClasses(t, "poll-arriving-while-a-response-is-being-compressed", "data-request-of-undeclared-length-acknowledged", "overlapping-poll", "overlapping-data-request", "aborted-poll", "aborted-data-request", "stalled-body-released", "poll-released-by-close", "poll-answered-by-send", "multi-packet-ack", "undisturbed-session-ok", "request-after-close", "data-request-while-handler-busy", "client-close-packet-with-poll-pending", "wrong-heartbeat-with-poll-pending", "two-responders-for-one-data-request", "poll-response-on-slow-connection", "poll-arriving-while-a-response-is-being-written", "data-request-with-disallowed-content-type", "disallowed-content-type-with-poll-pending", "two-polls-past-the-overlap-test-together", "two-data-requests-past-the-overlap-test-together")
}

const sigTruncatedUpload = "aborted-upload-truncated-payload-processed"

// TestC11TruncatedUploadFinding: deterministic demonstration of the repaired defect.
func TestC11TruncatedUploadFinding(t *testing.T) {
	col := NewCollector("TestC11TruncatedUploadFinding", "deterministic: polling session (revision 4 and 3), a data request whose upload stalls after 1 / 3 bytes and is then aborted by the client; oracle: nothing but a prefix of the payload's packets is delivered. every case is non-trivial").Use(t)
	for _, rev := range []int{4, 3} {
		for _, at := range []int{1, 3} {
			c := pdCase{Rev: rev, NSess: 1, Steps: []pdStep{{Kind: "postBlocked", N: 2, Block: at}, {Kind: "abortPost"}}}
			var fail string
			res := bubble(t, func() { fail, _ = runC11(c) })
			res.rethrow()
			col.Case(fmt.Sprint(c), true, map[string]any{"case": fmt.Sprint(c), "result": clipStr(fail, 300)}, "aborted-upload")
			demoFinding(t, col, "C11", sigTruncatedUpload, fail != "", fmt.Sprintf("%v: %s", c, clipStr(fail, 300)))
		}
	}
}

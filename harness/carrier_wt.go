package harness

// WebTransport carrier: mocks of the quic / http3 interfaces below a *real*
// webtransport.Server and *real* webtransport.Session (zishang520/webtransport-go).
// The engine's OnWebTransportSession and the repo's webtransport.Conn run
// unmodified on top of them.

import (
	"context"
	"encoding/binary"
	"encoding/json"
	"errors"
	"fmt"
	"io"
	"net"
	"net/http"
	"net/url"
	"sync"
	"time"

	"github.com/quic-go/quic-go"
	"github.com/quic-go/quic-go/http3"
	"github.com/quic-go/quic-go/quicvarint"
	"github.com/zishang520/engine.io/v2/types"
	wt "github.com/zishang520/webtransport-go"
)

func jsonUnmarshal(b []byte, v any) error { return json.Unmarshal(b, v) }

// ---- quic.Stream mock -------------------------------------------------------

type mockStream struct {
	id  quic.StreamID
	in  *halfPipe // peer -> us (we read)
	out *halfPipe // us -> peer (we write)

	mu          sync.Mutex
	readCancel  *quic.StreamErrorCode
	writeCancel *quic.StreamErrorCode
	closedWrite bool
	ctx         context.Context
	ctxCancel   context.CancelFunc
}

func newMockStream(id quic.StreamID) *mockStream {
	s := &mockStream{id: id, in: newHalfPipe(), out: newHalfPipe()}
	s.ctx, s.ctxCancel = context.WithCancel(context.Background())
	return s
}

func (s *mockStream) StreamID() quic.StreamID { return s.id }
func (s *mockStream) Read(p []byte) (int, error) {
	return s.in.Read(p)
}
func (s *mockStream) CancelRead(code quic.StreamErrorCode) {
	s.mu.Lock()
	if s.readCancel == nil {
		c := code
		s.readCancel = &c
	}
	s.mu.Unlock()
	s.in.Fail(&quic.StreamError{StreamID: s.id, ErrorCode: code, Remote: false}, io.ErrClosedPipe)
}
func (s *mockStream) SetReadDeadline(time.Time) error { return nil }
func (s *mockStream) Write(p []byte) (int, error) {
	return s.out.Write(p)
}
func (s *mockStream) Close() error {
	s.mu.Lock()
	s.closedWrite = true
	s.mu.Unlock()
	s.out.CloseWrite()
	s.ctxCancel()
	return nil
}
func (s *mockStream) CancelWrite(code quic.StreamErrorCode) {
	s.mu.Lock()
	if s.writeCancel == nil {
		c := code
		s.writeCancel = &c
	}
	s.mu.Unlock()
	s.out.Fail(io.EOF, &quic.StreamError{StreamID: s.id, ErrorCode: code, Remote: false})
	s.out.CloseWrite()
	s.ctxCancel()
}
func (s *mockStream) Context() context.Context         { return s.ctx }
func (s *mockStream) SetWriteDeadline(t time.Time) error { s.out.setWriteDeadline(t); return nil }
func (s *mockStream) SetDeadline(t time.Time) error      { s.out.setWriteDeadline(t); return nil }

// http3.Stream additions
func (s *mockStream) SendDatagram([]byte) error { return errors.New("datagrams not supported by mock") }
func (s *mockStream) ReceiveDatagram(ctx context.Context) ([]byte, error) {
	<-ctx.Done()
	return nil, ctx.Err()
}

func (s *mockStream) ReadCancelled() (quic.StreamErrorCode, bool) {
	s.mu.Lock()
	defer s.mu.Unlock()
	if s.readCancel == nil {
		return 0, false
	}
	return *s.readCancel, true
}
func (s *mockStream) WriteCancelled() (quic.StreamErrorCode, bool) {
	s.mu.Lock()
	defer s.mu.Unlock()
	if s.writeCancel == nil {
		return 0, false
	}
	return *s.writeCancel, true
}

// ---- http3.Connection mock ---------------------------------------------------

type mockH3Conn struct {
	ctx      context.Context
	cancel   context.CancelFunc
	settings chan struct{}
	closed   bool
	mu       sync.Mutex
}

var tracingCounter uint64
var tracingMu sync.Mutex

func newMockH3Conn() *mockH3Conn {
	tracingMu.Lock()
	tracingCounter++
	id := quic.ConnectionTracingID(tracingCounter)
	tracingMu.Unlock()
	ctx, cancel := context.WithCancel(context.WithValue(context.Background(), quic.ConnectionTracingKey, id))
	ch := make(chan struct{})
	close(ch)
	return &mockH3Conn{ctx: ctx, cancel: cancel, settings: ch}
}

func (c *mockH3Conn) tracingID() quic.ConnectionTracingID {
	return c.ctx.Value(quic.ConnectionTracingKey).(quic.ConnectionTracingID)
}

var errNoStreams = errors.New("mock connection: cannot open streams")

func (c *mockH3Conn) OpenStream() (quic.Stream, error)                    { return nil, errNoStreams }
func (c *mockH3Conn) OpenStreamSync(context.Context) (quic.Stream, error) { return nil, errNoStreams }
func (c *mockH3Conn) OpenUniStream() (quic.SendStream, error)             { return nil, errNoStreams }
func (c *mockH3Conn) OpenUniStreamSync(context.Context) (quic.SendStream, error) {
	return nil, errNoStreams
}
func (c *mockH3Conn) LocalAddr() net.Addr { return &net.UDPAddr{IP: net.IPv4(10, 0, 0, 1), Port: 443} }
func (c *mockH3Conn) RemoteAddr() net.Addr {
	return &net.UDPAddr{IP: net.IPv4(10, 9, 9, 9), Port: 5555}
}
func (c *mockH3Conn) CloseWithError(quic.ApplicationErrorCode, string) error {
	c.mu.Lock()
	c.closed = true
	c.mu.Unlock()
	c.cancel()
	return nil
}
func (c *mockH3Conn) Context() context.Context              { return c.ctx }
func (c *mockH3Conn) ConnectionState() quic.ConnectionState { return quic.ConnectionState{} }
func (c *mockH3Conn) ReceivedSettings() <-chan struct{}     { return c.settings }
func (c *mockH3Conn) Settings() *http3.Settings {
	return &http3.Settings{EnableDatagrams: true, EnableExtendedConnect: true}
}

// quic.Connection mock used only to run webtransport.Server's unexported init.
type initConn struct{ *mockH3Conn }

func (initConn) AcceptStream(context.Context) (quic.Stream, error) { return nil, errNoStreams }
func (initConn) AcceptUniStream(context.Context) (quic.ReceiveStream, error) {
	return nil, errNoStreams
}
func (initConn) SendDatagram([]byte) error                       { return errNoStreams }
func (initConn) ReceiveDatagram(context.Context) ([]byte, error) { return nil, errNoStreams }

// NewWTServer returns an initialised webtransport.Server (no sockets).
func NewWTServer() *wt.Server {
	s := &wt.Server{CheckOrigin: func(*http.Request) bool { return true }}
	_ = s.ServeQUICConn(initConn{newMockH3Conn()}) // fails at OpenUniStream after running init
	return s
}

// ---- response writer for the CONNECT request --------------------------------

type wtRW struct {
	e    *Exchange
	conn *mockH3Conn
	str  *mockStream
}

func (w wtRW) Header() http.Header          { return w.e.hdr }
func (w wtRW) WriteHeader(code int)         { recorder{w.e}.WriteHeader(code) }
func (w wtRW) Write(p []byte) (int, error)  { return recorder{w.e}.Write(p) }
func (w wtRW) Flush()                       { recorder{w.e}.Flush() }
func (w wtRW) Connection() http3.Connection { return w.conn }
func (w wtRW) HTTPStream() http3.Stream     { return w.str }

// ---- client actor -------------------------------------------------------------

type WTClient struct {
	W   *World
	O   ClientOpts
	Sid string // non-empty: upgrade candidate for Sid

	Ex           *Exchange
	Conn         *mockH3Conn
	ReqStr       *mockStream // CONNECT request stream (capsules)
	Bidi         *mockStream // the client-initiated bidirectional stream
	bidiInjected bool

	inbuf         []byte
	capbuf        []byte
	RecvFrames    []Frame
	Recv          []Pkt
	RecvAt        []time.Duration
	Msgs          []Pkt
	Open          *OpenInfo
	Errs          []string
	SessionClosed bool
	CloseCode     uint32
	CloseMsg      string
	ClosedAt      time.Duration
	StreamReset   bool
	HandlerDone   bool
	Origin        string
	RawQuery      *string // overrides the query string entirely (adversarial clients)
	// ReqMod alters the CONNECT request before it is handed to the server (method, protocol, headers)
	ReqMod func(*http.Request)
}

// Start issues the extended CONNECT request; the handler goroutine blocks in
// AcceptStream until OpenBidi is called.
func (c *WTClient) Start() *Exchange {
	w := c.W
	if w.Wts == nil {
		w.Wts = NewWTServer()
	}
	c.Conn = newMockH3Conn()
	c.ReqStr = newMockStream(0)
	// a conformant client builds the CONNECT URL like every other transport URL
	q := "EIO=4&transport=webtransport"
	if c.O.NoEIO {
		q = "transport=webtransport"
	} else if c.O.EIO != "" {
		q = "EIO=" + c.O.EIO + "&transport=webtransport"
	}
	if c.O.ExtraQuery != "" {
		q += "&" + c.O.ExtraQuery
	}
	if c.RawQuery != nil {
		q = *c.RawQuery
	}
	u := &url.URL{Path: w.Path, RawQuery: q}
	ctx, cancel := context.WithCancel(context.Background())
	req := &http.Request{Method: http.MethodConnect, URL: u, Proto: "webtransport", ProtoMajor: 3,
		Header: http.Header{"Sec-Webtransport-Http3-Draft02": {"1"}}, Host: "example.test", RemoteAddr: "10.9.9.9:5555", RequestURI: u.RequestURI(), Body: http.NoBody}
	for k, v := range c.O.Extra {
		req.Header[k] = append([]string(nil), v...)
	}
	if c.ReqMod != nil {
		c.ReqMod(req)
	}
	req = req.WithContext(ctx)
	e := &Exchange{Method: req.Method, URL: u.String(), hdr: http.Header{}, cancel: cancel, StartedAt: time.Now(), Req: req}
	e.cond = sync.NewCond(&e.mu)
	c.Ex = e
	rw := wtRW{e: e, conn: c.Conn, str: c.ReqStr}
	go func() {
		defer func() {
			if p := recover(); p != nil {
				e.mu.Lock()
				e.Panic = p
				e.PanicStack = stackString()
				e.mu.Unlock()
			}
			e.mu.Lock()
			e.Returned = true
			e.ReturnedAt = time.Now()
			e.mu.Unlock()
			cancel()
		}()
		w.Srv.OnWebTransportSession(types.NewHttpContext(rw, req), w.Wts)
	}()
	return e
}

// OpenBidi injects the client's bidirectional stream into the real server.
func (c *WTClient) OpenBidi() {
	c.Bidi = newMockStream(4)
	// the stream starts with the session id varint (frame type already consumed by http3)
	c.Bidi.in.Write(quicvarint.Append(nil, uint64(c.ReqStr.StreamID())))
	c.bidiInjected = true
	c.W.Wts.H3.StreamHijacker(0x41, c.Conn.tracingID(), c.Bidi, nil)
}

// SendHandshake sends the first message: "0" for a new session or
// `0{"sid":...}` for an upgrade candidate.
func (c *WTClient) SendHandshake() {
	if c.Sid == "" {
		c.SendFrameRaw(wtEncode(false, []byte("0")))
	} else {
		b, _ := json.Marshal(map[string]string{"sid": c.Sid})
		c.SendFrameRaw(wtEncode(false, append([]byte("0"), b...)))
	}
}

func (c *WTClient) SendFrameRaw(b []byte) error {
	if c.Bidi == nil {
		return errors.New("no stream")
	}
	_, err := c.Bidi.in.Write(b)
	return err
}

// SendFrameRawCut writes the bytes in two pieces, the network delivering the first piece (cut bytes) before the
// second exists: the server's reads see the boundary. Root goroutine only (it waits for quiescence in between).
func (c *WTClient) SendFrameRawCut(b []byte, cut int) error {
	if cut <= 0 || cut >= len(b) {
		return c.SendFrameRaw(b)
	}
	if err := c.SendFrameRaw(b[:cut]); err != nil {
		return err
	}
	Settle()
	return c.SendFrameRaw(b[cut:])
}

func (c *WTClient) SendPacket(p Pkt) error {
	fr := encPacketFrame(c.O.Rev, c.O.B64, p)
	return c.SendFrameRaw(wtEncode(fr.Binary, fr.Data))
}

// StopReading: the client stops reading its stream (flow control then blocks the server's writes).
func (c *WTClient) StopReading() {
	if c.Bidi != nil {
		c.Bidi.out.Stall()
	}
}

// FailServerWrites: the client stops the receiving side of its stream (STOP_SENDING): the server's next
// write fails while its reads of the stream are not affected.
func (c *WTClient) FailServerWrites() {
	if c.Bidi != nil {
		c.Bidi.out.FailNextWrite(&quic.StreamError{StreamID: c.Bidi.id, ErrorCode: 0x10, Remote: true})
	}
}

// NetworkGivesUp: the QUIC connection of a vanished peer times out: every stream fails, the connection's
// context ends.
func (c *WTClient) NetworkGivesUp() {
	idle := &quic.IdleTimeoutError{}
	for _, st := range []*mockStream{c.ReqStr, c.Bidi} {
		if st != nil {
			st.in.Fail(idle, idle)
			st.out.Fail(idle, idle)
			st.ctxCancel()
		}
	}
	if c.Conn != nil {
		c.Conn.cancel()
	}
	c.Ex.cancel()
}

// Drop emulates the client vanishing: request stream and bidi stream end.
func (c *WTClient) Drop() {
	if c.ReqStr != nil {
		c.ReqStr.in.CloseWrite()
	}
	if c.Bidi != nil {
		c.Bidi.in.CloseWrite()
	}
	c.Ex.cancel()
}

// CloseSession sends a CLOSE_WEBTRANSPORT_SESSION capsule from the client.
func (c *WTClient) CloseSession(code uint32, msg string) {
	b := make([]byte, 4, 4+len(msg))
	binary.BigEndian.PutUint32(b, code)
	b = append(b, msg...)
	var buf []byte
	buf = quicvarint.Append(buf, 0x2843)
	buf = quicvarint.Append(buf, uint64(len(b)))
	buf = append(buf, b...)
	c.ReqStr.in.Write(buf)
	c.ReqStr.in.CloseWrite()
}

func (c *WTClient) Pump() {
	if c.Ex != nil {
		c.Ex.mu.Lock()
		c.HandlerDone = c.Ex.Returned
		c.Ex.mu.Unlock()
	}
	if c.ReqStr != nil {
		c.capbuf = append(c.capbuf, c.ReqStr.out.Drain()...)
		c.parseCapsules()
	}
	if c.Bidi != nil {
		c.inbuf = append(c.inbuf, c.Bidi.out.Drain()...)
		for {
			fr, n, ok := wtParseOne(c.inbuf)
			if !ok {
				break
			}
			c.inbuf = c.inbuf[n:]
			c.RecvFrames = append(c.RecvFrames, fr)
			p, err := decPacketFrame(c.O.Rev, fr)
			if err != nil {
				c.Errs = append(c.Errs, fmt.Sprintf("undecodable frame bin=%v %q: %v", fr.Binary, clip(fr.Data, 60), err))
				continue
			}
			c.Recv = append(c.Recv, p)
			c.RecvAt = append(c.RecvAt, c.W.now())
			if p.Type == tMessage {
				c.Msgs = append(c.Msgs, p)
			}
			if p.Type == tOpen && c.Open == nil {
				oi := &OpenInfo{}
				if json.Unmarshal(p.Data, oi) == nil {
					c.Open = oi
					if c.Sid == "" {
						c.Sid = oi.Sid
					}
				}
			}
		}
		if _, ok := c.Bidi.WriteCancelled(); ok {
			c.StreamReset = true
		}
	}
}

func wtParseOne(b []byte) (Frame, int, bool) {
	if len(b) < 1 {
		return Frame{}, 0, false
	}
	bin := b[0]&0x80 != 0
	n := uint64(b[0] & 0x7f)
	off := 1
	switch n {
	case 126:
		if len(b) < 3 {
			return Frame{}, 0, false
		}
		n = uint64(binary.BigEndian.Uint16(b[1:]))
		off = 3
	case 127:
		if len(b) < 9 {
			return Frame{}, 0, false
		}
		n = binary.BigEndian.Uint64(b[1:])
		off = 9
	}
	if uint64(len(b)-off) < n {
		return Frame{}, 0, false
	}
	return Frame{Binary: bin, Data: append([]byte(nil), b[off:off+int(n)]...)}, off + int(n), true
}

func (c *WTClient) parseCapsules() {
	for len(c.capbuf) > 0 {
		typ, n1, err := quicvarint.Parse(c.capbuf)
		if err != nil {
			return
		}
		l, n2, err := quicvarint.Parse(c.capbuf[n1:])
		if err != nil {
			return
		}
		if uint64(len(c.capbuf)-n1-n2) < l {
			return
		}
		body := c.capbuf[n1+n2 : n1+n2+int(l)]
		c.capbuf = c.capbuf[n1+n2+int(l):]
		if typ == 0x2843 && len(body) >= 4 && !c.SessionClosed {
			c.SessionClosed = true
			c.CloseCode = binary.BigEndian.Uint32(body)
			c.CloseMsg = string(body[4:])
			c.ClosedAt = c.W.now()
		}
	}
}

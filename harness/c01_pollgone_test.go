package harness

// C01, a poll whose client has gone before the transport takes it: the request has passed the server's checks and
// is held at the yield point server.HandleRequest.verified when its client goes away (a proxy cut, an aborted
// fetch); then it is handed to the polling transport. A response written to it reaches nobody: either the session
// is told (it closes, as for any poll that ends prematurely) or nothing may be handed to that request. The client
// polls on; what it receives must stay a prefix of what was sent, and be complete when the session is still open.

import (
	"fmt"
	"testing"
	"time"

	"github.com/zishang520/engine.io/v2/config"
	"pgregory.net/rapid"
)

const sigPollGone = "batch-written-to-a-poll-whose-client-had-gone-before-the-hand-over"

type pgCase struct {
	Rev    int
	JSONP  bool
	Before int  // messages sent (and fetched) before
	After  int  // messages sent after the dead request was handed over
	Gone   bool // the client goes away while the request is held (false: control, it stays)
	Late   int  // 0: the messages are sent right after the hand-over; >0: that many ms later
}

func (c pgCase) String() string {
	return fmt.Sprintf("{rev%d jsonp=%v before=%d after=%d client-gone-while-held=%v sends-after=%dms}", c.Rev, c.JSONP, c.Before, c.After, c.Gone, c.Late)
}

func runPG(c pgCase) (fail string, stats map[string]bool) {
	stats = map[string]bool{}
	o := config.DefaultServerOptions()
	o.SetAllowEIO3(true)
	o.SetPingInterval(10 * time.Minute)
	o.SetPingTimeout(10 * time.Minute)
	w := NewWorld(o)
	defer w.Teardown()
	g := InstallGates(nil)
	defer g.Uninstall()
	pc := &PollClient{W: w, O: ClientOpts{Rev: c.Rev, EIO: fmt.Sprint(c.Rev), JSONP: c.JSONP, J: "2", B64: c.JSONP}}
	pc.StartHandshake()
	Settle()
	if err := pc.FinishHandshake(); err != nil {
		return "harness: " + err.Error(), stats
	}
	sr := w.Get(pc.Sid)
	var sent []Pkt
	seq := 0
	send := func() {
		seq++
		p := msgT(fmt.Sprintf("m%d", seq))
		sent = append(sent, p)
		w.AppSend(sr, p, nil, true, 0)
	}
	got := func() []Pkt {
		var ms []Pkt
		for _, p := range pc.Recv {
			if p.Type == tMessage {
				ms = append(ms, p)
			}
		}
		return ms
	}
	fetch := func() {
		for i := 0; i < 4 && len(sr.Closes) == 0; i++ {
			if pc.Poll == nil {
				pc.StartPoll()
			}
			Settle()
			pc.Pump()
			if pc.Poll != nil {
				break
			}
		}
	}
	for i := 0; i < c.Before; i++ {
		send()
	}
	fetch()
	if pc.Poll != nil {
		// use up the pending poll so that the next one is the request under test
		send()
		Settle()
		pc.Pump()
	}
	gp := GatePoint{"server.HandleRequest.verified", g.Count("server.HandleRequest.verified")}
	g.mu.Lock()
	g.plan[gp] = true
	g.mu.Unlock()
	held := pc.StartPoll()
	Settle()
	parked := false
	for _, p := range g.Parked() {
		if p == gp {
			parked = true
		}
	}
	if !parked {
		return "harness: the poll did not reach the yield point", stats
	}
	if c.Gone {
		held.Abort()
		Settle()
		pc.Poll = nil
		stats["client-gone-before-the-hand-over"] = true
	} else {
		stats["control"] = true
	}
	g.mu.Lock()
	delete(g.plan, gp)
	g.mu.Unlock()
	g.Release(gp)
	Settle()
	if c.Late > 0 {
		time.Sleep(time.Duration(c.Late) * time.Millisecond)
		Settle()
	}
	for i := 0; i < c.After; i++ {
		send()
	}
	Settle()
	fetch()
	fetch()
	ms := got()
	if !isPrefix(ms, sent) {
		return fmt.Sprintf("the client received %s, the application sent %s: not a prefix (session close events: %v)", pktsString(ms), pktsString(sent), sr.Closes), stats
	}
	if len(sr.Closes) == 0 {
		stats["session-still-open"] = true
		if len(ms) != len(sent) {
			return fmt.Sprintf("the session is open and the client keeps polling; it received %d of %d messages: %s", len(ms), len(sent), pktsString(ms)), stats
		}
	} else {
		stats["session-closed"] = true
		if c.Gone && sr.Closes[0] != "transport error" && sr.Closes[0] != "transport close" {
			return fmt.Sprintf("the session closed with %q", sr.Closes[0]), stats
		}
		if !c.Gone {
			return fmt.Sprintf("the session closed (%v) although its client never went away", sr.Closes), stats
		}
	}
	if len(pc.Errs) > 0 {
		return fmt.Sprintf("client could not decode: %v", pc.Errs), stats
	}
	return "", stats
}

func TestC01PollGoneBeforeHandOver(t *testing.T) {
	col := NewCollector("TestC01PollGoneBeforeHandOver",
		"rapid: a polling / JSONP session (revision 3/4), 0-3 messages sent and fetched, then a poll that is held between the server's checks and its hand-over to the transport (yield point server.HandleRequest.verified) while its client goes away (or stays: control); 1-4 further Sends right after the hand-over or later; the client polls on; oracle: what the client has received is a prefix of what was sent; if the session is still open it has received everything, if it closed the reason is a transport error or close. non-trivial: the client went away while the request was held").Use(t)
	known := isKnown("C01", sigPollGone)
	rapid.Check(t, func(rt *rapid.T) {
		c := pgCase{Rev: 4, JSONP: rapid.IntRange(0, 3).Draw(rt, "jsonp") == 0, Before: rapid.IntRange(0, 3).Draw(rt, "before"), After: rapid.IntRange(1, 4).Draw(rt, "after"),
			Gone: rapid.IntRange(0, 3).Draw(rt, "gone") != 0, Late: rapid.SampledFrom([]int{0, 0, 1, 1000}).Draw(rt, "late")}
		if rapid.IntRange(0, 3).Draw(rt, "rev3") == 0 {
			c.Rev = 3
		}
		if known && c.Gone {
			col.Exclude("client gone before the hand-over (known finding " + sigPollGone + ")")
			c.Gone = false
		}
		journal("C01pg %v", c)
		var fail string
		var stats map[string]bool
		res := bubble(t, func() { fail, stats = runPG(c) })
		res.rethrow()
		var cl []string
		for k := range stats {
			cl = append(cl, k)
		}
		col.Case(c.String(), c.Gone, map[string]any{"case": c.String()}, cl...)
		if fail != "" {
			rt.Fatalf("%v: %s", c, fail)
		}
		if res.Leak != "" {
			rt.Fatalf("%v: %s", c, clipStr(res.Leak, 1500))
		}
	})
	req := []string{"control"}
	if !known {
		req = append(req, "client-gone-before-the-hand-over")
	}
	col.RequireClasses(t, req...)
}

func TestC01PollGoneFinding(t *testing.T) {
	col := NewCollector("TestC01PollGoneFinding", "deterministic: polling session (revision 4 and 3, JSONP), a poll held between the server's checks and its hand-over whose client goes away, two Sends right after; oracle of TestC01PollGoneBeforeHandOver. every case is non-trivial").Use(t)
	for _, c := range []pgCase{
		{Rev: 4, Before: 1, After: 2, Gone: true},
		{Rev: 3, Before: 0, After: 2, Gone: true},
		{Rev: 4, JSONP: true, Before: 2, After: 1, Gone: true},
	} {
		var fail string
		res := bubble(t, func() { fail, _ = runPG(c) })
		res.rethrow()
		col.Case(c.String(), true, map[string]any{"case": c.String(), "result": clipStr(fail, 300)}, "client-gone-before-the-hand-over")
		demoFinding(t, col, "C01", sigPollGone, fail != "", fmt.Sprintf("%v: %s", c, clipStr(fail, 300)))
	}
}

package harness

import (
	"bytes"
	"fmt"
	"io"
	"testing"

	webtrans "github.com/zishang520/engine.io/v2/webtransport"
	"pgregory.net/rapid"
)

func c14BoundaryLens() []int {
	var ls []int
	for i := 0; i <= 130; i++ {
		ls = append(ls, i)
	}
	for i := 65530; i <= 65540; i++ {
		ls = append(ls, i)
	}
	return ls
}

func captureWrite(server bool, W int, path int, bin bool, payload []byte, chunks []int, eofData bool, pool webtrans.BufferPool) ([]byte, error) {
	return captureWriteBuf(server, W, path, bin, payload, chunks, eofData, pool, nil)
}

// captureWriteBuf: ownBuf, when not nil, is a write buffer handed in by the caller (its size unrelated to W).
func captureWriteBuf(server bool, W int, path int, bin bool, payload []byte, chunks []int, eofData bool, pool webtrans.BufferPool, ownBuf []byte) ([]byte, error) {
	pipe := newHalfPipe()
	wc := webtrans.NewConn(nil, &memWTStream{out: pipe, in: newHalfPipe()}, server, 0, W, pool, nil, ownBuf)
	if err := wtWrite(wc, path, bin, payload, chunks, eofData); err != nil {
		return nil, err
	}
	return pipe.Drain(), nil
}

// Exhaustive sub-sweep: every boundary length x kind x write path x role.
func TestC14EncoderSweep(t *testing.T) {
	col := NewCollector("TestC14EncoderSweep",
		"exhaustive sweep: payload length in {0..130, 65530..65540} x kind {text,binary} x 5 write paths x role {server,client} x write buffer {default, 64}; oracle: bytes on the stream == reference encoding of exactly one frame. non-trivial: length >= 126 (a length class other than the 7-bit one)").Use(t)
	col.SetExhaustive(true)
	for _, n := range c14BoundaryLens() {
		pl := makePayload(n, byte(n))
		for _, bin := range []bool{false, true} {
			want := wtEncode(bin, pl)
			for path := 0; path < numWTPaths; path++ {
				for _, server := range []bool{true, false} {
					for _, W := range []int{0, 64} {
						got, err := captureWrite(server, W, path, bin, pl, nil, false, nil)
						cls := "len<126"
						if n >= 65536 {
							cls = "len>=65536"
						} else if n >= 126 {
							cls = "126<=len<65536"
						}
						col.Case(fmt.Sprintf("%d|%v|%d|%v|%d", n, bin, path, server, W), n >= 126,
							map[string]any{"len": n, "binary": bin, "path": wtPathNames[path], "server": server, "W": W, "header": fmt.Sprintf("% x", clip(got, 9))}, cls, "path."+wtPathNames[path])
						if err != nil {
							t.Fatalf("len=%d bin=%v path=%s server=%v W=%d: %v", n, bin, wtPathNames[path], server, W, err)
						}
						if !bytes.Equal(got, want) {
							t.Fatalf("len=%d bin=%v path=%s server=%v W=%d: wire bytes differ from the reference frame: got %d bytes (header % x), want %d bytes (header % x)",
								n, bin, wtPathNames[path], server, W, len(got), clip(got, 9), len(want), clip(want, 9))
						}
					}
				}
			}
		}
	}
}

func TestC14EncoderRandom(t *testing.T) {
	col := NewCollector("TestC14EncoderRandom",
		"rapid: (kind, boundary-biased length up to 300000, write path, chunking, role, write buffer size, pool or a caller-supplied write buffer of unrelated size); oracle: captured bytes == reference encoding of one frame. non-trivial: length >= 126 or chunked write").Use(t)
	rapid.Check(t, func(rt *rapid.T) {
		W := rapid.SampledFrom(wtWriteBufSizes).Draw(rt, "W")
		eW := effW(W)
		server := rapid.Bool().Draw(rt, "server")
		usePool := rapid.Bool().Draw(rt, "pool")
		// a write buffer handed in by the caller (NewConn's last parameter), its size unrelated to the configured one
		var ownBuf []byte
		bufCls := "write-buffer.own"
		if !usePool && rapid.IntRange(0, 2).Draw(rt, "callerSuppliedWriteBuf") == 0 {
			ownBuf = make([]byte, rapid.SampledFrom([]int{265, 266, 300, 521, 1033, 4096, 4105, 4106, 9000, 20000}).Draw(rt, "ownBufLen"))
			bufCls = "write-buffer.caller-supplied.larger-than-configured"
			if len(ownBuf) < eW+9 {
				bufCls = "write-buffer.caller-supplied.smaller-than-configured"
			}
			eW = len(ownBuf) - 9
		}
		m := genWTMsg(rt, eW, 0, false, col)
		var pool webtrans.BufferPool
		if usePool {
			pool = &memPool{}
		}
		pl := makePayload(m.Len, m.Seed)
		got, err := captureWriteBuf(server, W, m.Path, m.Bin, pl, m.Chunks, m.EOFData, pool, ownBuf)
		col.Case(fmt.Sprintf("%d|%v|%v|%v|%d", W, server, usePool, m, len(ownBuf)), m.Len >= 126 || len(m.Chunks) > 0,
			map[string]any{"W": W, "server": server, "msg": m.String(), "callerWriteBuf": len(ownBuf)}, m.cls, "path."+wtPathNames[m.Path], bufCls)
		if err != nil {
			rt.Fatalf("%v: %v", m, err)
		}
		if want := wtEncode(m.Bin, pl); !bytes.Equal(got, want) {
			rt.Fatalf("%v server=%v W=%d: got %d bytes (header % x), want %d bytes (header % x)", m, server, W, len(got), clip(got, 9), len(want), clip(want, 9))
		}
		if usePool && rapid.Bool().Draw(rt, "twoConnectionsOnThePool") {
			// two connections take their write buffers from one pool: first one of them streams a message that
			// outgrows its buffer, then both have a message open at the same time, written in alternating chunks;
			// each stream must carry exactly the frames of its own messages
			pa, pb := newHalfPipe(), newHalfPipe()
			ca := webtrans.NewConn(nil, &memWTStream{out: pa, in: newHalfPipe()}, server, 0, W, pool, nil, nil)
			cb := webtrans.NewConn(nil, &memWTStream{out: pb, in: newHalfPipe()}, server, 0, W, pool, nil, nil)
			big := makePayload(rapid.IntRange(eW+1, 3*eW+10).Draw(rt, "poolBig"), 0x51)
			if err := wtWrite(ca, pathWriterWrite, true, big, []int{rapid.IntRange(1, eW).Draw(rt, "poolBigChunk")}, false); err != nil {
				rt.Fatalf("streaming write on the first pooled connection: %v", err)
			}
			la, lb := rapid.IntRange(1, 2*eW).Draw(rt, "poolLenA"), rapid.IntRange(1, 2*eW).Draw(rt, "poolLenB")
			ma, mb := makePayload(la, 0xa1), makePayload(lb, 0xb2)
			chunk := rapid.IntRange(1, eW).Draw(rt, "poolChunk")
			wa, err := ca.NextWriter(webtrans.BinaryMessage)
			if err != nil {
				rt.Fatalf("NextWriter A: %v", err)
			}
			wb, err := cb.NextWriter(webtrans.TextMessage)
			if err != nil {
				rt.Fatalf("NextWriter B: %v", err)
			}
			ra, rb := ma, mb
			for len(ra) > 0 || len(rb) > 0 {
				if n := min(chunk, len(ra)); n > 0 {
					wa.Write(ra[:n])
					ra = ra[n:]
				}
				if n := min(chunk, len(rb)); n > 0 {
					wb.Write(rb[:n])
					rb = rb[n:]
				}
			}
			wa.Close()
			wb.Close()
			col.Case(fmt.Sprintf("pool2|%d|%v|%d|%d|%d|%d", W, server, len(big), la, lb, chunk), true,
				map[string]any{"W": W, "server": server, "streamed": len(big), "lenA": la, "lenB": lb, "chunk": chunk}, "two-connections-sharing-the-pool")
			if got, want := pa.Drain(), append(wtEncode(true, big), wtEncode(true, ma)...); !bytes.Equal(got, want) {
				rt.Fatalf("two connections sharing a buffer pool (W=%d, streamed %d, then %d and %d bytes in chunks of %d): first connection emitted %d bytes, want %d (first difference at %d)", W, len(big), la, lb, chunk, len(got), len(want), firstDiff(got, want))
			}
			if got, want := pb.Drain(), wtEncode(false, mb); !bytes.Equal(got, want) {
				rt.Fatalf("two connections sharing a buffer pool (W=%d, streamed %d, then %d and %d bytes in chunks of %d): second connection emitted %d bytes, want %d (first difference at %d)", W, len(big), la, lb, chunk, len(got), len(want), firstDiff(got, want))
			}
		}
	})
	col.RequireClasses(t, "two-connections-sharing-the-pool", "write-buffer.caller-supplied.smaller-than-configured", "write-buffer.caller-supplied.larger-than-configured")
}

// Decoder: well-formed streams incl. non-minimal length forms.
func TestC14Decoder(t *testing.T) {
	col := NewCollector("TestC14Decoder",
		"rapid: streams of 1-10 reference-encoded frames (kind, length class, length form minimal / 16-bit / 64-bit) read through a Conn with drawn read-buffer size, role and read fragmentation, each message consumed with drawn read sizes; oracle: messages == reference messages, then a clean end of stream. non-trivial: some frame uses a non-minimal length form or has length >= 126 or 0").Use(t)
	rapid.Check(t, func(rt *rapid.T) {
		n := rapid.IntRange(1, 10).Draw(rt, "n")
		var stream []byte
		type fr struct {
			bin  bool
			data []byte
			form int
		}
		var want []fr
		nontrivial := false
		var classes []string
		for i := 0; i < n; i++ {
			l, cls := genWTLen(rt, 4096, fmt.Sprintf("f%d", i))
			if l > 70000 {
				l = 65536 + l%5000
			}
			form := rapid.IntRange(0, 2).Draw(rt, fmt.Sprintf("f%d.form", i))
			if form == 1 && l >= 65536 {
				form = 2
			}
			bin := rapid.Bool().Draw(rt, fmt.Sprintf("f%d.bin", i))
			pl := makePayload(l, byte(i))
			stream = append(stream, wtEncodeForm(bin, pl, form)...)
			want = append(want, fr{bin, pl, form})
			minimal := 0
			if l >= 65536 {
				minimal = 2
			} else if l >= 126 {
				minimal = 1
			}
			if form > minimal {
				nontrivial = true
				classes = append(classes, fmt.Sprintf("nonminimal.form%d", form))
			}
			if l == 0 {
				nontrivial = true
				classes = append(classes, "zero-length")
			}
			if l >= 126 {
				nontrivial = true
			}
			classes = append(classes, cls)
		}
		rbs := rapid.SampledFrom([]int{0, 16, 64, 4096}).Draw(rt, "rbs")
		var frag []int
		if rapid.Bool().Draw(rt, "fragged") {
			frag = rapid.SliceOfN(rapid.IntRange(1, 12), 1, 4).Draw(rt, "frag")
		}
		readSizes := rapid.SliceOfN(rapid.IntRange(1, 9000), 1, 3).Draw(rt, "readSizes")
		server := rapid.Bool().Draw(rt, "server")
		pipe := newHalfPipe()
		pipe.frag = frag
		// a conformant peer ends its stream after the last frame; the carrier may report the end with the last bytes
		pipe.endWithData = rapid.Bool().Draw(rt, "endWithData")
		if pipe.endWithData {
			classes = append(classes, "end-reported-with-last-bytes")
		}
		pipe.Write(stream)
		pipe.CloseWrite()
		rc := webtrans.NewConn(nil, &memWTStream{in: pipe, out: newHalfPipe()}, server, rbs, 0, nil, nil, nil)
		var desc []string
		for _, w := range want {
			desc = append(desc, fmt.Sprintf("{bin=%v len=%d form=%d}", w.bin, len(w.data), w.form))
		}
		col.Case(fmt.Sprintf("%v|%d|%v|%v", desc, rbs, frag, readSizes), nontrivial,
			map[string]any{"frames": desc, "readBuf": rbs, "frag": frag, "readSizes": readSizes}, classes...)
		for i, w := range want {
			mt, r, err := rc.NextReader()
			if err != nil {
				rt.Fatalf("frame %d of %v: NextReader: %v", i, desc, err)
			}
			var data []byte
			k := 0
			for {
				buf := make([]byte, readSizes[k%len(readSizes)])
				k++
				nr, err := r.Read(buf)
				data = append(data, buf[:nr]...)
				if err != nil {
					if err != io.EOF {
						rt.Fatalf("frame %d of %v: a complete frame of a conformant stream ended with %v after %d of %d bytes (end of message expected)", i, desc, err, len(data), len(w.data))
					}
					break
				}
				if len(data) > len(w.data)+10 {
					break
				}
			}
			if (mt == webtrans.BinaryMessage) != w.bin || !bytes.Equal(data, w.data) {
				rt.Fatalf("frame %d of %v: got type=%d len=%d", i, desc, mt, len(data))
			}
		}
		if _, _, err := rc.NextReader(); err == nil {
			rt.Fatalf("extra message after %v", desc)
		}
	})
	col.RequireClasses(t, "nonminimal.form1", "nonminimal.form2", "zero-length", "end-reported-with-last-bytes")
}

func firstDiff(a, b []byte) int {
	for i := 0; i < len(a) && i < len(b); i++ {
		if a[i] != b[i] {
			return i
		}
	}
	return min(len(a), len(b))
}

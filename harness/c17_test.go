package harness

// C17 — handshake cookie, initial_headers / headers events, CORS headers.

import (
	"fmt"
	"net/http"
	"regexp"
	"sort"
	"strings"
	"sync"
	"testing"
	"time"

	"github.com/zishang520/engine.io/v2/config"
	"github.com/zishang520/engine.io/v2/types"
	"pgregory.net/rapid"
)

const (
	sigCookie = "cookie-without-sid-and-on-every-response"
)

type c17Cookie struct {
	Set      bool
	Name     string
	Path     string
	Domain   string
	Secure   bool
	SameSite http.SameSite
	MaxAge   int
}

type c17Cors struct {
	Set               bool
	OriginKind        string // star | fixed | list | regexp | true | false
	Credentials       bool
	MethodsKind       string // unset | string | list
	HeadersKind       string // unset | string | list
	Exposed           bool
	MaxAge            string
	PreflightContinue bool
	Status            int
}

type c17Step struct {
	Kind   string // handshake | poll | post | preflight
	Sess   int
	Origin string // "" absent, "ok", "bad", "re"
	JSONP  bool
	// EmptySid: the handshake request carries an empty sid parameter ("...&sid="): the server takes it for the
	// handshake it is (no session is named), so its response is that session's handshake response
	EmptySid bool
}

type c17Case struct {
	Cookie c17Cookie
	Cors   c17Cors
	Steps  []c17Step
	// Pre: response headers a host application's handler (compression, i18n, session middleware) has put on the
	// ResponseWriter, with Header().Add, before it delegates to the engine
	Pre http.Header
}

func (c c17Case) String() string {
	return fmt.Sprintf("{cookie=%+v cors=%+v steps=%+v preset=%v}", c.Cookie, c.Cors, c.Steps, c.Pre)
}

const (
	originOK  = "https://ok.test"
	originRe  = "https://sub.re.test"
	originBad = "https://evil.test"
)

var c17Re = regexp.MustCompile(`^https://[a-z]+\.re\.test$`)

func originValue(k string) string {
	switch k {
	case "ok":
		return originOK
	case "re":
		return originRe
	case "bad":
		return originBad
	}
	return ""
}

func (c c17Cors) policy() any {
	switch c.OriginKind {
	case "star":
		return "*"
	case "fixed":
		return originOK
	case "list":
		return []any{originOK, c17Re}
	case "regexp":
		return c17Re
	case "true":
		return true
	default:
		return false
	}
}

// allows: reference reading of the policy.
func (c c17Cors) allows(origin string) bool {
	switch c.OriginKind {
	case "star", "true":
		return true
	case "fixed":
		return origin == originOK
	case "list":
		return origin == originOK || c17Re.MatchString(origin)
	case "regexp":
		return c17Re.MatchString(origin)
	}
	return false
}

func genC17(rt *rapid.T, knownCookie bool, col *Collector) c17Case {
	c := c17Case{}
	switch rapid.IntRange(0, 5).Draw(rt, "preset") {
	case 0:
		c.Pre = http.Header{"Vary": {"Accept-Encoding", "Accept-Language"}, "Set-Cookie": {"app=1; Path=/", "lang=en; Path=/"}}
	case 1:
		c.Pre = http.Header{"Vary": {"Accept-Language"}, "X-Frame-Options": {"DENY"}}
	}
	if rapid.IntRange(0, 3).Draw(rt, "cookie") > 0 {
		c.Cookie = c17Cookie{
			Set:      true,
			Name:     rapid.SampledFrom([]string{"", "io", "sid", "my_cookie"}).Draw(rt, "cname"),
			Path:     rapid.SampledFrom([]string{"", "/", "/app"}).Draw(rt, "cpath"),
			Domain:   rapid.SampledFrom([]string{"", "example.test"}).Draw(rt, "cdomain"),
			Secure:   rapid.Bool().Draw(rt, "csecure"),
			SameSite: rapid.SampledFrom([]http.SameSite{http.SameSiteDefaultMode, http.SameSiteLaxMode, http.SameSiteStrictMode, http.SameSiteNoneMode}).Draw(rt, "csamesite"),
			MaxAge:   rapid.SampledFrom([]int{0, 0, 3600}).Draw(rt, "cmaxage"),
		}
		if knownCookie {
			col.Exclude("cookie configured (known finding " + sigCookie + ")")
			c.Cookie = c17Cookie{}
		}
	}
	if rapid.IntRange(0, 3).Draw(rt, "cors") > 0 {
		c.Cors = c17Cors{
			Set:               true,
			OriginKind:        rapid.SampledFrom([]string{"star", "fixed", "list", "regexp", "true", "false"}).Draw(rt, "originKind"),
			Credentials:       rapid.Bool().Draw(rt, "credentials"),
			MethodsKind:       rapid.SampledFrom([]string{"unset", "string", "list"}).Draw(rt, "methods"),
			HeadersKind:       rapid.SampledFrom([]string{"unset", "string", "list"}).Draw(rt, "headers"),
			Exposed:           rapid.Bool().Draw(rt, "exposed"),
			MaxAge:            rapid.SampledFrom([]string{"", "600"}).Draw(rt, "maxAge"),
			PreflightContinue: rapid.IntRange(0, 4).Draw(rt, "preflightContinue") == 0,
			Status:            rapid.SampledFrom([]int{0, 200, 204}).Draw(rt, "status"),
		}
	}
	nsess := rapid.IntRange(1, 3).Draw(rt, "sessions")
	for i := 0; i < nsess; i++ {
		c.Steps = append(c.Steps, c17Step{Kind: "handshake", Sess: i, Origin: rapid.SampledFrom([]string{"", "ok", "re", "bad"}).Draw(rt, "hsOrigin"), JSONP: rapid.IntRange(0, 3).Draw(rt, "jsonp") == 0, EmptySid: rapid.IntRange(0, 3).Draw(rt, "emptySid") == 0})
	}
	n := rapid.IntRange(0, 8).Draw(rt, "nsteps")
	for i := 0; i < n; i++ {
		c.Steps = append(c.Steps, c17Step{
			Kind:   rapid.SampledFrom([]string{"poll", "poll", "post", "post", "preflight", "postClose"}).Draw(rt, "kind"),
			Sess:   rapid.IntRange(0, nsess-1).Draw(rt, "sess"),
			Origin: rapid.SampledFrom([]string{"", "ok", "re", "bad"}).Draw(rt, "origin"),
		})
	}
	return c
}

type hdrEvent struct {
	name string
	req  *http.Request
}

func runC17(c c17Case) (fail string, stats map[string]bool) {
	stats = map[string]bool{}
	o := config.DefaultServerOptions()
	o.SetPingInterval(10 * time.Minute)
	if c.Cookie.Set {
		o.SetCookie(&http.Cookie{Name: c.Cookie.Name, Path: c.Cookie.Path, Domain: c.Cookie.Domain, Secure: c.Cookie.Secure, SameSite: c.Cookie.SameSite, MaxAge: c.Cookie.MaxAge})
	}
	if c.Cors.Set {
		co := &types.Cors{Origin: c.Cors.policy(), Credentials: c.Cors.Credentials, MaxAge: c.Cors.MaxAge, PreflightContinue: c.Cors.PreflightContinue, OptionsSuccessStatus: c.Cors.Status}
		switch c.Cors.MethodsKind {
		case "string":
			co.Methods = "GET,POST"
		case "list":
			co.Methods = []string{"GET", "POST", "OPTIONS"}
		}
		switch c.Cors.HeadersKind {
		case "string":
			co.AllowedHeaders = "X-Custom,Content-Type"
		case "list":
			co.AllowedHeaders = []string{"X-A", "X-B"}
		}
		if c.Cors.Exposed {
			co.ExposedHeaders = []string{"X-Exposed"}
		}
		o.SetCors(co)
	}
	w := NewWorld(o)
	defer w.Teardown()
	var events []hdrEvent
	var evMu sync.Mutex
	w.hdrHook = func(name string, _ map[string][]string, req *types.HttpContext) {
		// called from handler and writer goroutines
		evMu.Lock()
		events = append(events, hdrEvent{name, req.Request()})
		evMu.Unlock()
	}
	count := func(name string, req *http.Request) int {
		evMu.Lock()
		defer evMu.Unlock()
		n := 0
		for _, e := range events {
			if e.name == name && e.req == req {
				n++
			}
		}
		return n
	}
	sess := map[int]*PollClient{}

	checkResponse := func(what string, st c17Step, ex *Exchange, pc *PollClient, isHandshake bool, sid string) string {
		s := ex.Snap()
		if !s.Responded {
			return ""
		}
		desc := fmt.Sprintf("%s (origin %q)", what, originValue(st.Origin))
		// --- cookie ---
		resp := http.Response{Header: s.Header}
		engineName := c.Cookie.Name
		if engineName == "" {
			engineName = "io"
		}
		var cookies []*http.Cookie
		var engineLines []string
		for _, ck := range resp.Cookies() {
			// cookies of the host application (other names) are not the engine's business
			if ck.Name == engineName || c.Pre == nil {
				cookies = append(cookies, ck)
				engineLines = append(engineLines, ck.String())
			}
		}
		if c.Pre != nil {
			stats["headers-preset-by-the-host-application"] = true
		}
		if c.Cookie.Set && isHandshake {
			stats["cookie-on-handshake"] = true
			if len(cookies) != 1 {
				return fmt.Sprintf("%s: handshake response carries %d cookies (Set-Cookie %q), want exactly one", desc, len(cookies), s.Header.Values("Set-Cookie"))
			}
			ck := cookies[0]
			wantName, wantPath := c.Cookie.Name, c.Cookie.Path
			if wantName == "" {
				wantName = "io"
			}
			if wantPath == "" {
				wantPath = "/"
			}
			wantSS := c.Cookie.SameSite
			if wantSS == http.SameSiteDefaultMode {
				wantSS = http.SameSiteLaxMode
			}
			if ck.Value != sid {
				return fmt.Sprintf("%s: Set-Cookie value %q is not the session id %q (header %q)", desc, ck.Value, sid, s.Header.Get("Set-Cookie"))
			}
			if ck.Name != wantName || ck.Path != wantPath || ck.Domain != c.Cookie.Domain || ck.Secure != c.Cookie.Secure || ck.SameSite != wantSS || ck.MaxAge != c.Cookie.MaxAge || !ck.HttpOnly {
				return fmt.Sprintf("%s: Set-Cookie %q does not carry the configured attributes %+v", desc, s.Header.Get("Set-Cookie"), c.Cookie)
			}
		} else if len(engineLines) != 0 {
			return fmt.Sprintf("%s: response carries Set-Cookie %q; only the handshake response of a session with a configured cookie may", desc, engineLines)
		}
		// --- events ---
		wantInitial := 0
		if isHandshake {
			wantInitial = 1
		}
		if st.Kind != "preflight" {
			if n := count("initial_headers", ex.Req); n != wantInitial {
				return fmt.Sprintf("%s: initial_headers fired %d times for this response, want %d", desc, n, wantInitial)
			}
			if n := count("headers", ex.Req); n != 1 {
				return fmt.Sprintf("%s: headers fired %d times for this response, want 1", desc, n)
			}
		}
		// --- CORS ---
		acao := s.Header.Values("Access-Control-Allow-Origin")
		if !c.Cors.Set {
			if len(acao) != 0 {
				return fmt.Sprintf("%s: Access-Control-Allow-Origin %q without a CORS policy", desc, acao)
			}
			return ""
		}
		stats["cors-response"] = true
		if c.Cors.OriginKind != "star" && c.Cors.OriginKind != "fixed" {
			stats["non-string-origin-policy"] = true
		}
		reqOrigin := originValue(st.Origin)
		if len(acao) > 1 {
			return fmt.Sprintf("%s: %d Access-Control-Allow-Origin headers", desc, len(acao))
		}
		if len(acao) == 1 {
			v := acao[0]
			if (v == "*" || (reqOrigin != "" && v == reqOrigin)) && !c.Cors.allows(reqOrigin) && !(c.Cors.OriginKind == "fixed" && v == originOK) {
				return fmt.Sprintf("%s: Access-Control-Allow-Origin: %s although the policy (%s) does not allow this origin", desc, v, c.Cors.OriginKind)
			}
			if c.Cors.allows(reqOrigin) && reqOrigin != "" && v != "*" && v != reqOrigin {
				return fmt.Sprintf("%s: origin allowed by the policy (%s) but Access-Control-Allow-Origin is %q", desc, c.Cors.OriginKind, v)
			}
			if c.Cors.OriginKind == "star" && v != "*" {
				return fmt.Sprintf("%s: policy '*' but Access-Control-Allow-Origin is %q", desc, v)
			}
		} else if c.Cors.allows(reqOrigin) && reqOrigin != "" {
			return fmt.Sprintf("%s: origin allowed by the policy (%s) but no Access-Control-Allow-Origin header", desc, c.Cors.OriginKind)
		}
		hasVaryOrigin := false
		for _, v := range s.Header.Values("Vary") {
			for _, tok := range strings.Split(v, ",") {
				if strings.EqualFold(strings.TrimSpace(tok), "Origin") || strings.TrimSpace(tok) == "*" {
					hasVaryOrigin = true
				}
			}
		}
		if c.Cors.OriginKind != "star" && !hasVaryOrigin {
			return fmt.Sprintf("%s: the allowed origin depends on the request (policy %s) but Vary is %q", desc, c.Cors.OriginKind, s.Header.Values("Vary"))
		}
		cred := s.Header.Get("Access-Control-Allow-Credentials")
		if (cred == "true") != c.Cors.Credentials || (cred != "" && cred != "true") {
			return fmt.Sprintf("%s: Access-Control-Allow-Credentials %q, configured %v", desc, cred, c.Cors.Credentials)
		}
		return ""
	}

	closedSess := map[int]bool{}
	for i, st := range c.Steps {
		what := fmt.Sprintf("step %d %+v", i, st)
		if closedSess[st.Sess] && st.Kind != "handshake" {
			continue
		}
		hdr := http.Header{}
		if st.Origin != "" {
			hdr.Set("Origin", originValue(st.Origin))
		}
		switch st.Kind {
		case "handshake":
			pc := &PollClient{W: w, O: ClientOpts{Rev: 4, Extra: hdr, JSONP: st.JSONP, J: "5", B64: st.JSONP, PreHeader: c.Pre}}
			if st.EmptySid {
				pc.O.ExtraQuery = "sid="
				stats["handshake-with-an-empty-sid-parameter"] = true
			}
			ex := pc.StartHandshake()
			Settle()
			pc.O.ExtraQuery = ""
			if err := pc.FinishHandshake(); err != nil {
				return fmt.Sprintf("%s: %v", what, err), stats
			}
			sess[st.Sess] = pc
			if f := checkResponse(what, st, ex, pc, true, pc.Sid); f != "" {
				return f, stats
			}
		case "poll":
			pc := sess[st.Sess]
			pc.O.Extra = hdr
			if pc.Poll != nil {
				continue
			}
			// make sure there is something to answer the poll with, sometimes large enough to be compressed
			sr := w.Get(pc.Sid)
			size := 10
			if i%2 == 0 {
				size = 3000
			}
			w.AppSend(sr, msgT(strings.Repeat("p", size)), nil, false, 0)
			pc.O.Extra.Set("Accept-Encoding", "gzip")
			ex := pc.StartPoll()
			Settle()
			pc.Pump()
			stats["request-after-handshake"] = true
			if ex.Snap().Header.Get("Content-Encoding") != "" {
				stats["compressed-poll"] = true
			}
			if f := checkResponse(what, st, ex, pc, false, pc.Sid); f != "" {
				return f, stats
			}
		case "postClose":
			// the client ends the session with a close packet: the response to that request (and to a
			// poll still pending) is a response of the session like any other
			pc := sess[st.Sess]
			if pc == nil || pc.Closed {
				continue
			}
			pc.O.Extra = hdr
			var pending *Exchange
			if i%2 == 0 && pc.Poll == nil {
				pending = pc.StartPoll()
				Settle()
			}
			ex := pc.StartPost([]Pkt{msgT("bye"), ctl(tClose)}, false)
			Settle()
			pc.Closed = true
			stats["response-after-close"] = true
			if f := checkResponse(what, st, ex, pc, false, pc.Sid); f != "" {
				return f, stats
			}
			if pending != nil {
				if !pending.Snap().Responded {
					return fmt.Sprintf("%s: the poll pending when the session closed was never answered", what), stats
				}
				if f := checkResponse(what+" (pending poll released by the close)", st, pending, pc, false, pc.Sid); f != "" {
					return f, stats
				}
			}
			delete(sess, st.Sess)
			closedSess[st.Sess] = true
		case "post":
			pc := sess[st.Sess]
			pc.O.Extra = hdr
			ex := pc.StartPost([]Pkt{msgT("x")}, false)
			Settle()
			stats["request-after-handshake"] = true
			if f := checkResponse(what, st, ex, pc, false, pc.Sid); f != "" {
				return f, stats
			}
		case "preflight":
			pc := sess[st.Sess]
			reg := w.RegistryKeys()
			q := "EIO=4&transport=polling"
			if i%2 == 0 {
				q += "&sid=" + pc.Sid
			}
			spec := NewReq("OPTIONS", w.Path, q)
			spec.PreHeader = c.Pre
			hdr.Set("Access-Control-Request-Method", "POST")
			hdr.Set("Access-Control-Request-Headers", "x-requested-with")
			spec.Header = hdr
			ex := Do(w.Srv, spec)
			Settle()
			s := ex.Snap()
			if fmt.Sprint(w.RegistryKeys()) != fmt.Sprint(reg) {
				return fmt.Sprintf("%s: a preflight request changed the client table", what), stats
			}
			if !c.Cors.Set {
				continue
			}
			stats["preflight"] = true
			if !c.Cors.PreflightContinue {
				want := c.Cors.Status
				if want == 0 {
					want = 204
				}
				if !s.Responded || s.Status != want || len(s.Body) != 0 {
					return fmt.Sprintf("%s: preflight answered %v, want status %d with an empty body from the server itself", what, s, want), stats
				}
				wantMethods := map[string]string{"unset": "GET,HEAD,PUT,PATCH,POST,DELETE", "string": "GET,POST", "list": "GET,POST,OPTIONS"}[c.Cors.MethodsKind]
				if got := s.Header.Get("Access-Control-Allow-Methods"); got != wantMethods {
					return fmt.Sprintf("%s: Access-Control-Allow-Methods %q, configured %q", what, got, wantMethods), stats
				}
				wantHeaders := map[string]string{"unset": "x-requested-with", "string": "X-Custom,Content-Type", "list": "X-A,X-B"}[c.Cors.HeadersKind]
				if got := s.Header.Get("Access-Control-Allow-Headers"); got != wantHeaders {
					return fmt.Sprintf("%s: Access-Control-Allow-Headers %q, want %q", what, got, wantHeaders), stats
				}
				if got := s.Header.Get("Access-Control-Max-Age"); got != c.Cors.MaxAge {
					return fmt.Sprintf("%s: Access-Control-Max-Age %q, configured %q", what, got, c.Cors.MaxAge), stats
				}
			} else {
				stats["preflight-continue"] = true
				if !s.Responded {
					return fmt.Sprintf("%s: preflight passed on but never answered", what), stats
				}
			}
			if f := checkResponse(what, st, ex, pc, false, pc.Sid); f != "" {
				return f, stats
			}
		}
		// the session must still be alive (nothing here is a close cause)
		for k, pc := range sess {
			if sr := w.Get(pc.Sid); sr != nil && len(sr.Closes) > 0 && !(c.Cors.Set && c.Cors.PreflightContinue) && !closedSess[k] {
				return fmt.Sprintf("%s: session %d closed: %v", what, k, sr.Closes), stats
			}
		}
	}
	// every session: initial_headers exactly once overall
	for k, pc := range sess {
		n := 0
		for _, e := range events {
			if e.name == "initial_headers" && e.req.URL.Query().Get("sid") == "" && e.req == pc.HS.Req {
				n++
			}
		}
		if n != 1 {
			return fmt.Sprintf("session %d: initial_headers fired %d times on its handshake response", k, n), stats
		}
	}
	for _, e := range events {
		if e.name == "initial_headers" && e.req.URL.Query().Get("sid") != "" {
			return fmt.Sprintf("initial_headers fired for a non-initial request %s", e.req.URL), stats
		}
	}
	return "", stats
}

func TestC17Headers(t *testing.T) {
	col := NewCollector("TestC17Headers",
		"rapid: cookie configuration (unset or name/path/domain/secure/sameSite/maxAge combinations), CORS configuration (unset or origin policy '*', fixed string, list of string+regexp, regexp, true, false; credentials; methods/headers unset/string/list; exposed; maxAge; preflightContinue; status) and a history of 1-3 polling/JSONP sessions (handshake, polls answered with small and compressible payloads, posts, preflights with and without sid) with request origins absent/allowed/regexp-allowed/disallowed; oracle: Set-Cookie on exactly each session's handshake response with value == sid and the configured attributes; initial_headers exactly once per session on that request, headers exactly once per HTTP response; reference reading of the CORS policy for Access-Control-Allow-Origin, Vary: Origin whenever the policy is not '*', credentials header iff configured, preflight answered by the server with the configured status/methods/headers/max-age and no registry change. non-trivial: a request after the handshake, or a non-string origin policy").Use(t)
	known := isKnown("C17", sigCookie)
	rapid.Check(t, func(rt *rapid.T) {
		c := genC17(rt, known, col)
		journal("C17 %v", c)
		var fail string
		var stats map[string]bool
		res := bubble(t, func() { fail, stats = runC17(c) })
		var cl []string
		for k := range stats {
			cl = append(cl, k)
		}
		sort.Strings(cl)
		col.Case(c.String(), stats["request-after-handshake"] || stats["non-string-origin-policy"], map[string]any{"case": clipStr(c.String(), 800)}, cl...)
		res.rethrow()
		if fail != "" {
			rt.Fatalf("%v\n%s", c, fail)
		}
		if res.Leak != "" {
			rt.Fatalf("%v: %s", c, clipStr(res.Leak, 1500))
		}
	})
	req := []string{"headers-preset-by-the-host-application", "request-after-handshake", "response-after-close", "cors-response", "non-string-origin-policy", "preflight", "preflight-continue", "compressed-poll", "handshake-with-an-empty-sid-parameter"}
	if !known {
		req = append(req, "cookie-on-handshake")
	}
	col.RequireClasses(t, req...)
}

func TestC17CookieFinding(t *testing.T) {
	col := NewCollector("TestC17CookieFinding", "deterministic: cookie {name io}, one polling session: handshake, poll, post; oracle as TestC17Headers. every case is non-trivial").Use(t)
	c := c17Case{Cookie: c17Cookie{Set: true, Name: "io"}, Steps: []c17Step{{Kind: "handshake"}, {Kind: "poll"}, {Kind: "post"}}}
	var fail string
	res := bubble(t, func() { fail, _ = runC17(c) })
	res.rethrow()
	col.Case(c.String(), true, map[string]any{"case": c.String(), "result": fail}, "cookie")
	col.Case(c.String()+"#2", true, map[string]any{"note": "same history, second distinct rendering for the evidence counter"}, "cookie")
	demoFinding(t, col, "C17", sigCookie, fail != "", fail)
}

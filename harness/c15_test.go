package harness

import (
	"bytes"
	"encoding/binary"
	"errors"
	"fmt"
	"io"
	"testing"

	webtrans "github.com/zishang520/engine.io/v2/webtransport"
	wt "github.com/zishang520/webtransport-go"
	"pgregory.net/rapid"
)

// scanFrame is what an independent left-to-right parse of a byte stream sees.
type scanFrame struct {
	bin         bool
	declared    uint64
	hdrComplete bool
	avail       []byte // payload bytes actually present
	complete    bool
}

func wtScan(b []byte) []scanFrame {
	var fs []scanFrame
	for len(b) > 0 {
		f := scanFrame{bin: b[0]&0x80 != 0}
		n := uint64(b[0] & 0x7f)
		b = b[1:]
		switch n {
		case 126:
			if len(b) < 2 {
				fs = append(fs, f)
				return fs
			}
			n = uint64(binary.BigEndian.Uint16(b))
			b = b[2:]
		case 127:
			if len(b) < 8 {
				fs = append(fs, f)
				return fs
			}
			n = binary.BigEndian.Uint64(b)
			b = b[8:]
		}
		f.hdrComplete = true
		f.declared = n
		if n > uint64(len(b)) {
			f.avail = b
			fs = append(fs, f)
			return fs
		}
		f.avail = b[:n]
		f.complete = true
		fs = append(fs, f)
		b = b[n:]
	}
	return fs
}

type c15Case struct {
	Stream   []byte
	TailErr  bool  // stream ends with an injected error instead of EOF
	Limit    int64 // 0 = none
	ReadBuf  int
	Frag     []int
	Consume  []int // per message: -1 = read to the end, k>=0 = read at most k bytes then abandon
	ReadSize []int
	Server   bool
	Stale    bool // after every NextReader, read the previous message's reader again
	ReadMsg  bool // use ReadMessage instead of NextReader + Read
	EndData  bool // the stream reports its end (EOF or the injected error) together with its last bytes
}

func (c c15Case) String() string {
	s := c.Stream
	suffix := ""
	if len(s) > 48 {
		s = s[:48]
		suffix = fmt.Sprintf("…(%d bytes)", len(c.Stream))
	}
	return fmt.Sprintf("{stream=% x%s tailErr=%v limit=%d readBuf=%d frag=%v consume=%v readSize=%v stale=%v readMessage=%v endWithData=%v}", s, suffix, c.TailErr, c.Limit, c.ReadBuf, c.Frag, c.Consume, c.ReadSize, c.Stale, c.ReadMsg, c.EndData)
}

var errTail = errors.New("injected stream failure")

// c15NetErr: a net.Error as a stream reports it for an expired deadline or a condition it calls temporary.
type c15NetErr struct {
	msg                string
	timeout, temporary bool
}

func (e *c15NetErr) Error() string   { return e.msg }
func (e *c15NetErr) Timeout() bool   { return e.timeout }
func (e *c15NetErr) Temporary() bool { return e.temporary }

// hdrBytesOfLast: how many bytes of the last (incomplete) frame header the stream supplied.
func hdrBytesOfLast(stream []byte, frames []scanFrame) int {
	off := 0
	for _, f := range frames {
		if !f.hdrComplete {
			return len(stream) - off
		}
		// header length of this frame as encoded: look at the marker byte
		switch stream[off] & 0x7f {
		case 126:
			off += 3
		case 127:
			off += 9
		default:
			off++
		}
		off += len(f.avail)
	}
	return 0
}

func isUnexpectedEnd(err error) bool {
	return webtrans.IsCloseError(err, webtrans.CloseAbnormalClosure) || errors.Is(err, io.ErrUnexpectedEOF)
}

// runC15 executes one case against the real Conn and returns "" or a
// description of the violated clause. wts may be nil when Limit == 0.
func runC15(cs c15Case, wts *wt.Server) (viol string, stats map[string]bool) {
	stats = map[string]bool{}
	defer func() {
		if p := recover(); p != nil {
			viol = fmt.Sprintf("panic: %v\n%s", p, stackString())
		}
	}()
	pipe := newHalfPipe()
	pipe.frag = cs.Frag
	pipe.endWithData = cs.EndData
	pipe.Write(cs.Stream)
	if cs.TailErr {
		pipe.failReadAt = int64(len(cs.Stream))
		pipe.failReadE = errTail
	} else {
		pipe.CloseWrite()
	}
	var sess *realSession
	var s *wt.Session
	if cs.Limit > 0 {
		var err error
		sess, err = newRealSession(wts)
		if err != nil {
			return "harness: cannot create session: " + err.Error(), stats
		}
		s = sess.S
		defer sess.End()
	}
	rc := webtrans.NewConn(s, &memWTStream{in: pipe, out: newHalfPipe()}, cs.Server, cs.ReadBuf, 0, nil, nil, nil)
	if cs.Limit > 0 {
		rc.SetReadLimit(cs.Limit)
	}
	frames := wtScan(cs.Stream)
	var firstErr error
	var lastReader io.Reader
	i := 0
	var prevReader io.Reader
	prevIdx := -1
	abandonedTruncated := false // the message before was left half read and its frame is cut short by the end of the stream
	for ; ; i++ {
		var mt int
		var r io.Reader
		var err error
		if cs.ReadMsg {
			var data []byte
			mt, data, err = rc.ReadMessage()
			if i < len(frames) && frames[i].hdrComplete && !(frames[i].declared >= 1<<63 || (cs.Limit > 0 && frames[i].declared > uint64(cs.Limit))) {
				// a frame starts here and is within the limit: ReadMessage is NextReader + read to the end
				f := frames[i]
				stats["ReadMessage"] = true
				if uint64(len(data)) > f.declared || len(data) > len(f.avail) {
					return fmt.Sprintf("ReadMessage #%d returned %d bytes; header declared %d, stream supplied %d", i, len(data), f.declared, len(f.avail)), stats
				}
				if f.complete && cs.TailErr && cs.EndData && i == len(frames)-1 && errors.Is(err, errTail) {
					// the stream failed while handing out the last bytes of this message: the failure may be
					// reported right away (as gorilla/websocket does); nothing but the stream's own bytes is returned
					if !bytes.Equal(data, f.avail[:len(data)]) {
						return fmt.Sprintf("ReadMessage #%d: returned bytes differ from the stream's", i), stats
					}
					stats["stream-failure-reported-with-last-bytes"] = true
					firstErr = err
					break
				}
				if f.complete {
					if err != nil || !bytes.Equal(data, f.avail) || (mt == webtrans.BinaryMessage) != f.bin {
						return fmt.Sprintf("ReadMessage #%d: complete frame {bin=%v len=%d} read as kind=%d len=%d err=%v", i, f.bin, len(f.avail), mt, len(data), err), stats
					}
					stats["complete-message"] = true
					continue
				}
				stats["truncated-payload"] = true
				if err == nil {
					return fmt.Sprintf("ReadMessage #%d: stream ends after %d of %d declared bytes but a complete message of %d bytes was returned", i, len(f.avail), f.declared, len(data)), stats
				}
				if !cs.TailErr && !isUnexpectedEnd(err) {
					return fmt.Sprintf("ReadMessage #%d: truncated payload reported as %v, want an unexpected-end error", i, err), stats
				}
				firstErr = err
				break
			}
			if err == nil {
				// let the common code below judge it (it only accepts an error here)
				r = bytes.NewReader(data)
			}
		} else {
			mt, r, err = rc.NextReader()
		}
		if cs.Stale && prevReader != nil && !cs.ReadMsg {
			// the reader of an earlier message must be dead once NextReader was called again
			buf := make([]byte, 64)
			if n, _ := prevReader.Read(buf); n != 0 {
				return fmt.Sprintf("reader of message #%d returned %d more bytes after NextReader had moved on to message #%d (more than its header declared)", prevIdx, n, i), stats
			}
			stats["stale-reader-read"] = true
		}
		atEnd := i >= len(frames)
		if !atEnd {
			abandonedTruncated = abandonedTruncated && false
		}
		var f scanFrame
		if !atEnd {
			f = frames[i]
		}
		if atEnd || !f.hdrComplete {
			if err == nil {
				return fmt.Sprintf("NextReader #%d succeeded although the stream has no further complete frame header", i), stats
			}
			if r != nil {
				return fmt.Sprintf("NextReader #%d returned an error and a reader", i), stats
			}
			if !cs.TailErr && atEnd && abandonedTruncated && !isUnexpectedEnd(err) {
				// the application left a message half read, and the stream ended inside that very frame: skipping
				// the rest of it runs into the end of the stream, which is an end inside a frame
				return fmt.Sprintf("NextReader #%d: the frame before was left half read and the stream ends inside it (%d of %d declared bytes arrived); error is %v, want an unexpected-end error", i, len(frames[i-1].avail), frames[i-1].declared, err), stats
			}
			if atEnd && abandonedTruncated {
				stats["stream-ends-inside-a-frame-left-half-read"] = true
			}
			if !cs.TailErr && !atEnd && !isUnexpectedEnd(err) {
				return fmt.Sprintf("NextReader #%d: stream ends inside a frame header (%d byte(s) of it arrived), error is %v, want an unexpected-end error", i, hdrBytesOfLast(cs.Stream, frames), err), stats
			}
			if !atEnd {
				stats["truncated-header"] = true
			}
			firstErr = err
			break
		}
		tooBig := f.declared >= 1<<63 || (cs.Limit > 0 && f.declared > uint64(cs.Limit))
		if tooBig {
			stats["over-limit"] = true
			if f.declared >= 1<<63 {
				stats["len>=2^63"] = true
			}
			if err == nil {
				// may only be tolerated for the unrepresentable length when no limit is configured,
				// and then the message must not be reported complete
				if cs.Limit > 0 && f.declared > uint64(cs.Limit) {
					return fmt.Sprintf("NextReader #%d delivered a message of declared length %d above the read limit %d", i, f.declared, cs.Limit), stats
				}
				d, e := io.ReadAll(r)
				if e == nil {
					return fmt.Sprintf("message with declared length %d reported complete with %d bytes", f.declared, len(d)), stats
				}
				firstErr = e
				lastReader = r
				break
			}
			if !errors.Is(err, webtrans.ErrReadLimit) {
				return fmt.Sprintf("NextReader #%d: declared length %d (limit %d): error is %v, want the read-limit error", i, f.declared, cs.Limit, err), stats
			}
			if cs.Limit > 0 {
				if f.declared >= 1<<63 {
					stats["limit-and-a-length-beyond-2^63"] = true
				}
				if _, _, ok := sess.ClosedByServer(); !ok {
					return fmt.Sprintf("read limit %d exceeded by declared length %d but the session was not closed", cs.Limit, f.declared), stats
				}
				stats["limit-closed-session"] = true
			}
			firstErr = err
			break
		}
		if err != nil {
			return fmt.Sprintf("NextReader #%d failed (%v) although frame {bin=%v declared=%d avail=%d} starts there", i, err, f.bin, f.declared, len(f.avail)), stats
		}
		if (mt == webtrans.BinaryMessage) != f.bin {
			return fmt.Sprintf("message #%d: kind %d, frame binary=%v", i, mt, f.bin), stats
		}
		lastReader = r
		prevReader, prevIdx = r, i
		mode := -1
		if len(cs.Consume) > 0 {
			mode = cs.Consume[i%len(cs.Consume)]
		}
		var got []byte
		var rerr error
		k := 0
		for {
			sz := 512
			if len(cs.ReadSize) > 0 {
				sz = cs.ReadSize[k%len(cs.ReadSize)]
			}
			k++
			if mode >= 0 {
				if len(got) >= mode {
					break
				}
				if sz > mode-len(got) {
					sz = mode - len(got)
				}
			}
			buf := make([]byte, sz)
			n, e := r.Read(buf)
			if n < 0 || n > sz {
				return fmt.Sprintf("message #%d: Read returned n=%d for a %d-byte buffer", i, n, sz), stats
			}
			got = append(got, buf[:n]...)
			if uint64(len(got)) > f.declared {
				return fmt.Sprintf("message #%d: %d bytes returned, header declared %d", i, len(got), f.declared), stats
			}
			if len(got) > len(f.avail) {
				return fmt.Sprintf("message #%d: %d bytes returned, stream supplied %d", i, len(got), len(f.avail)), stats
			}
			if e != nil {
				rerr = e
				break
			}
			if k > 4*len(f.avail)+1000 {
				return fmt.Sprintf("message #%d: reader makes no progress", i), stats
			}
		}
		if !bytes.Equal(got, f.avail[:len(got)]) {
			return fmt.Sprintf("message #%d: returned bytes differ from the stream's payload bytes", i), stats
		}
		if mode < 0 || rerr != nil {
			if f.complete {
				if rerr == io.EOF && len(got) != len(f.avail) {
					return fmt.Sprintf("message #%d: end of message after %d of %d bytes", i, len(got), len(f.avail)), stats
				}
				if cs.TailErr && cs.EndData && i == len(frames)-1 && errors.Is(rerr, errTail) && len(got) == len(f.avail) {
					// the stream failed while handing out the last bytes of this message (see above)
					stats["stream-failure-reported-with-last-bytes"] = true
					firstErr = rerr
					break
				}
				if rerr != io.EOF {
					return fmt.Sprintf("message #%d (complete, %d bytes): read error %v after %d bytes", i, len(f.avail), rerr, len(got)), stats
				}
				stats["complete-message"] = true
			} else {
				stats["truncated-payload"] = true
				if rerr == nil || rerr == io.EOF {
					return fmt.Sprintf("message #%d: stream ends after %d of %d declared bytes but the message reader reported a complete message (err=%v)", i, len(f.avail), f.declared, rerr), stats
				}
				if !cs.TailErr && !isUnexpectedEnd(rerr) {
					return fmt.Sprintf("message #%d: truncated payload reported as %v, want an unexpected-end error", i, rerr), stats
				}
				if cs.TailErr && !errors.Is(rerr, errTail) {
					return fmt.Sprintf("message #%d: injected stream error reported as %v", i, rerr), stats
				}
				if len(got) != len(f.avail) {
					return fmt.Sprintf("message #%d: only %d of the %d supplied bytes were returned before the error", i, len(got), len(f.avail)), stats
				}
			}
		} else {
			stats["abandoned"] = true
			abandonedTruncated = !f.complete
		}
		if i > len(frames)+2 {
			return "harness: runaway loop", stats
		}
	}
	// sticky errors
	if firstErr == nil {
		return "harness: loop ended without an error", stats
	}
	for j := 0; j < 3; j++ {
		_, r, err := rc.NextReader()
		if err == nil || r != nil {
			return fmt.Sprintf("NextReader succeeded after a previous failure (%v)", firstErr), stats
		}
		if err != firstErr && !(errors.Is(err, firstErr) || err.Error() == firstErr.Error()) {
			return fmt.Sprintf("error changed after failure: first %v, later %v", firstErr, err), stats
		}
	}
	if lastReader != nil {
		buf := make([]byte, 8)
		n, err := lastReader.Read(buf)
		if n != 0 || err == nil {
			return fmt.Sprintf("stale message reader returned n=%d err=%v after the connection failed", n, err), stats
		}
		// "every later read reports the same failure": the reader of the last message either says that its message
		// is over (io.EOF) or reports what NextReader reports
		if err != io.EOF && err != firstErr && !(errors.Is(err, firstErr) || err.Error() == firstErr.Error()) {
			return fmt.Sprintf("after the connection failed the last message's reader reports %v, NextReader reports %v: two different failures", err, firstErr), stats
		}
	}
	// a stream that ends cleanly on a frame boundary is reported the same way whether its end arrives together with
	// the last bytes or on its own (on its own: an abnormal-closure close error, as for a connection that ends
	// without a closing handshake)
	if !cs.TailErr && len(frames) > 0 && i >= len(frames) && frames[len(frames)-1].complete {
		clean := true
		for _, f := range frames {
			if !f.complete || f.declared >= 1<<63 || (cs.Limit > 0 && f.declared > uint64(cs.Limit)) {
				clean = false
			}
		}
		if clean {
			stats["clean-end-on-a-frame-boundary"] = true
			if cs.EndData {
				stats["clean-end-arriving-with-the-last-bytes"] = true
			}
			if !isUnexpectedEnd(firstErr) {
				return fmt.Sprintf("the stream ended on a frame boundary (end delivered together with the last bytes: %v): NextReader reports %v; when the end arrives on its own it reports an abnormal-closure close error", cs.EndData, firstErr), stats
			}
		}
	}
	return "", stats
}

var hostileLens = []uint64{0, 1, 125, 126, 127, 65535, 65536, 1<<31 - 1, 1 << 31, 1<<32 - 1, 1 << 32, 1<<63 - 1, 1 << 63, 1<<64 - 1}

func genC15Stream(rt *rapid.T) ([]byte, string) {
	kind := rapid.IntRange(0, 5).Draw(rt, "streamKind")
	if kind == 0 {
		// raw bytes biased to interesting header values
		n := rapid.IntRange(0, 40).Draw(rt, "rawN")
		b := make([]byte, n)
		for i := range b {
			if rapid.IntRange(0, 2).Draw(rt, "rb") == 0 {
				b[i] = rapid.SampledFrom([]byte{0x7e, 0x7f, 0xfe, 0xff, 0x00, 0x80, 0x01, 0x7d}).Draw(rt, "hb")
			} else {
				b[i] = rapid.Byte().Draw(rt, "b")
			}
		}
		return b, "raw"
	}
	nf := rapid.IntRange(1, 6).Draw(rt, "nframes")
	var stream []byte
	for i := 0; i < nf; i++ {
		l, _ := genWTLen(rt, 4096, fmt.Sprintf("f%d", i))
		if l > 70000 {
			l = 65536 + l%3000
		}
		form := rapid.IntRange(0, 2).Draw(rt, "form")
		if form == 1 && l >= 65536 {
			form = 2
		}
		stream = append(stream, wtEncodeForm(rapid.Bool().Draw(rt, "bin"), makePayload(l, byte(i)), form)...)
	}
	switch kind {
	case 1:
		return stream, "valid"
	case 2:
		cut := rapid.IntRange(0, len(stream)).Draw(rt, "cut")
		return stream[:cut], "truncated"
	case 3:
		if len(stream) > 0 {
			pos := rapid.IntRange(0, min(len(stream)-1, 40)).Draw(rt, "flipPos")
			stream[pos] ^= 1 << rapid.IntRange(0, 7).Draw(rt, "flipBit")
		}
		return stream, "bitflip"
	case 4:
		// append a frame header with a hostile 64-bit (or 16-bit) length and a few bytes
		hl := rapid.SampledFrom(hostileLens).Draw(rt, "hostileLen")
		hdr := []byte{0x7f | byte(rapid.IntRange(0, 1).Draw(rt, "hb"))<<7}
		var l [8]byte
		binary.BigEndian.PutUint64(l[:], hl)
		hdr = append(hdr, l[:]...)
		stream = append(stream, hdr...)
		stream = append(stream, makePayload(rapid.IntRange(0, 300).Draw(rt, "tailN"), 9)...)
		return stream, "hostile-length"
	default:
		stream = append(stream, makePayload(rapid.IntRange(1, 30).Draw(rt, "garbN"), 3)...)
		return stream, "garbage-tail"
	}
}

func TestC15ReaderTotal(t *testing.T) {
	col := NewCollector("TestC15ReaderTotal",
		"rapid: byte streams (raw header-biased bytes / valid reference streams / truncated / bit-flipped / hostile 64-bit length incl. 2^63 and 2^64-1 / garbage tail) x read limit {none, 1, around a frame length} x read buffer x read fragmentation x per-message consumption (to the end, k bytes then abandon) x stream ending in EOF or an injected error, reported after or together with the last bytes; oracle: an independent left-to-right scan of the same bytes predicts every NextReader/Read outcome (kind, bytes, end-of-message, unexpected end, limit error + session close capsule, sticky error), no panic. non-trivial: the stream has >=1 complete frame followed by a fault, or a 64-bit length >= 2^31, or a limit violation").Use(t)
	wts := NewWTServer()
	rapid.Check(t, func(rt *rapid.T) {
		stream, kind := genC15Stream(rt)
		frames := wtScan(stream)
		cs := c15Case{Stream: stream}
		cs.TailErr = rapid.IntRange(0, 3).Draw(rt, "tailErr") == 0
		switch rapid.IntRange(0, 4).Draw(rt, "limitK") {
		case 0, 1:
		case 2:
			cs.Limit = 1
		case 3:
			if len(frames) > 0 && frames[len(frames)/2].hdrComplete {
				d := int64(frames[len(frames)/2].declared&0xfffff) + int64(rapid.IntRange(-1, 1).Draw(rt, "limD"))
				if d > 0 {
					cs.Limit = d
				}
			}
		default:
			cs.Limit = int64(rapid.IntRange(1, 70000).Draw(rt, "lim"))
		}
		cs.ReadBuf = rapid.SampledFrom([]int{0, 16, 64, 4096}).Draw(rt, "rbs")
		if rapid.Bool().Draw(rt, "fragged") {
			cs.Frag = rapid.SliceOfN(rapid.IntRange(1, 12), 1, 3).Draw(rt, "frag")
		}
		if rapid.Bool().Draw(rt, "partial") {
			cs.Consume = rapid.SliceOfN(rapid.IntRange(-1, 20), 1, 3).Draw(rt, "consume")
		}
		cs.ReadSize = rapid.SliceOfN(rapid.IntRange(1, 5000), 1, 3).Draw(rt, "readSize")
		cs.Server = rapid.Bool().Draw(rt, "server")
		cs.Stale = rapid.Bool().Draw(rt, "staleReads")
		cs.ReadMsg = rapid.IntRange(0, 3).Draw(rt, "readMessage") == 0
		cs.EndData = rapid.IntRange(0, 2).Draw(rt, "endWithData") == 0
		journal("C15 %v", cs)
		viol, stats := runC15(cs, wts)
		completeBeforeFault := false
		for i, f := range frames {
			if f.complete && i+1 < len(frames) && !frames[len(frames)-1].complete {
				completeBeforeFault = true
			}
		}
		big := false
		for _, f := range frames {
			if f.hdrComplete && f.declared >= 1<<31 {
				big = true
			}
		}
		classes := []string{"stream." + kind}
		for k := range stats {
			classes = append(classes, k)
		}
		if cs.TailErr {
			classes = append(classes, "tail-error")
		}
		if cs.EndData {
			classes = append(classes, "end-reported-with-last-bytes")
			if stats["truncated-payload"] {
				classes = append(classes, "truncated-payload+end-with-last-bytes")
			}
		}
		col.Case(cs.String(), completeBeforeFault || big || stats["over-limit"], map[string]any{"case": cs.String(), "kind": kind, "frames": len(frames)}, classes...)
		if viol != "" {
			rt.Fatalf("%s\ncase: %v", viol, cs)
		}
	})
	col.RequireClasses(t, "over-limit", "limit-closed-session", "truncated-payload", "truncated-header", "abandoned", "len>=2^63", "complete-message", "stale-reader-read", "ReadMessage", "truncated-payload+end-with-last-bytes", "stream-ends-inside-a-frame-left-half-read")
}

// Truncation at *every* offset of a generated valid stream.
func TestC15TruncateEverywhere(t *testing.T) {
	col := NewCollector("TestC15TruncateEverywhere",
		"rapid draws a valid stream of 1-5 frames (lengths 0..300, all length forms) and the check runs the reader on every prefix of it (exhaustive over offsets for that stream), with EOF and with an injected error as the stream end, each reported after or together with the last bytes; oracle as TestC15ReaderTotal. one evaluation = one (stream, offset, ending); non-trivial: offset falls strictly inside a frame").Use(t)
	rapid.Check(t, func(rt *rapid.T) {
		nf := rapid.IntRange(1, 5).Draw(rt, "nframes")
		var stream []byte
		var bounds []int
		for i := 0; i < nf; i++ {
			l := rapid.IntRange(0, 300).Draw(rt, "len")
			form := rapid.IntRange(0, 2).Draw(rt, "form")
			stream = append(stream, wtEncodeForm(rapid.Bool().Draw(rt, "bin"), makePayload(l, byte(i)), form)...)
			bounds = append(bounds, len(stream))
		}
		frag := rapid.SliceOfN(rapid.IntRange(1, 12), 0, 2).Draw(rt, "frag")
		rbs := rapid.SampledFrom([]int{0, 16, 64}).Draw(rt, "rbs")
		for cut := 0; cut <= len(stream); cut++ {
			for _, ending := range []int{0, 1, 2, 3} {
				tailErr := ending&1 == 1
				cs := c15Case{Stream: stream[:cut], TailErr: tailErr, ReadBuf: rbs, Frag: frag, ReadSize: []int{64}, EndData: ending&2 != 0}
				viol, _ := runC15(cs, nil)
				inside := true
				for _, b := range bounds {
					if cut == b {
						inside = false
					}
				}
				col.Case(fmt.Sprintf("%x|%d|%v|%v|%d", stream, cut, ending, frag, rbs), inside && cut > 0, map[string]any{"stream_len": len(stream), "cut": cut, "tailErr": tailErr, "endWithData": cs.EndData}, fmt.Sprintf("inside-frame=%v", inside))
				if viol != "" {
					rt.Fatalf("%s\ncase: %v", viol, cs)
				}
			}
		}
	})
}

// The documented guard: repeated reads on a failed connection panic, but only
// from the 1000th failed call on.
func TestC15RepeatedReadGuard(t *testing.T) {
	col := NewCollector("TestC15RepeatedReadGuard",
		"deterministic: after a failure NextReader is called until it panics; oracle: no panic before the 1000th failed call, every call returns the same error. cases: 3 different failure causes; all non-trivial").Use(t)
	for ci, stream := range [][]byte{{}, {0x05, 1, 2}, {0xff, 0xff, 0xff, 0xff, 0xff, 0xff, 0xff, 0xff, 0xff}} {
		pipe := newHalfPipe()
		pipe.Write(stream)
		pipe.CloseWrite()
		rc := webtrans.NewConn(nil, &memWTStream{in: pipe, out: newHalfPipe()}, true, 0, 0, nil, nil, nil)
		calls, failed := 0, 0
		var first error
		var panicked any
		func() {
			defer func() { panicked = recover() }()
			for calls < 1200 {
				calls++
				_, r, err := rc.NextReader()
				if err == nil {
					io.Copy(io.Discard, r)
					continue
				}
				failed++
				if first == nil {
					first = err
				} else if err != first {
					t.Errorf("stream %d: error changed from %v to %v at failed call %d", ci, first, err, failed)
					return
				}
			}
		}()
		col.Case(fmt.Sprintf("guard-%d", ci), true, map[string]any{"stream": fmt.Sprintf("% x", stream), "failed_calls_before_panic": failed, "panic": fmt.Sprint(panicked)}, "guard")
		if panicked != nil && failed < 999 {
			t.Errorf("stream %d: panic %v after only %d failed NextReader calls", ci, panicked, failed)
		}
	}
}

// TestC15TransientFault: the stream fails once (an expired read deadline, a transient error) at a drawn byte
// offset of a well-formed stream and then goes on handing out the remaining bytes. "Once a read has failed every
// later read reports the same failure": neither the message reader in use nor NextReader may come back to life.
func TestC15TransientFault(t *testing.T) {
	col := NewCollector("TestC15TransientFault",
		"rapid: a well-formed stream of 2-6 frames (kinds, lengths 0..70000 boundary-biased, all length forms), read fragmentation, read-buffer size; one Read of the underlying stream, at a drawn byte offset, fails once with a transient error and the stream then continues; the application reads message by message (drawn read sizes) and after the first failure keeps calling Read on the reader at hand and NextReader (3-6 times each, alternating); oracle: every message completed before the failure is intact; after the first failure every Read returns 0 bytes and the same error, every NextReader the same error, no further message. non-trivial: the fault fell inside a frame (header or payload) with at least one complete frame before or after it").Use(t)
	rapid.Check(t, func(rt *rapid.T) {
		n := rapid.IntRange(2, 6).Draw(rt, "nframes")
		readSize := rapid.SampledFrom([]int{1, 3, 7, 64, 512, 100000}).Draw(rt, "readSize")
		fragk := rapid.IntRange(0, 3).Draw(rt, "fragk")
		fine := fragk == 1 || fragk == 2
		type fr struct {
			bin  bool
			data []byte
		}
		var frames []fr
		var stream []byte
		var starts []int
		for i := 0; i < n; i++ {
			l, _ := genWTLen(rt, 4096, fmt.Sprintf("f%d.len", i))
			if l > 70000 {
				l = 70000
			}
			if (readSize < 64 || fine) && l > 1500 {
				// byte-wise reading of long messages only costs time
				l = 126 + l%1300
			}
			f := fr{bin: rapid.Bool().Draw(rt, fmt.Sprintf("f%d.bin", i)), data: makePayload(l, byte(i+1))}
			frames = append(frames, f)
			starts = append(starts, len(stream))
			stream = append(stream, wtEncodeForm(f.bin, f.data, rapid.IntRange(0, 2).Draw(rt, fmt.Sprintf("f%d.form", i)))...)
		}
		at := rapid.IntRange(0, len(stream)).Draw(rt, "faultAt")
		var frag []int
		switch fragk {
		case 1:
			frag = []int{1}
		case 2:
			frag = rapid.SliceOfN(rapid.IntRange(1, 9), 1, 3).Draw(rt, "frag")
		case 3:
			frag = rapid.SliceOfN(rapid.IntRange(1, 5000), 1, 3).Draw(rt, "fragL")
		}
		rbs := rapid.SampledFrom([]int{0, 16, 64, 4096, 70000}).Draw(rt, "rbs")
		server := rapid.Bool().Draw(rt, "server")
		journal("C15 transient frames=%d faultAt=%d/%d frag=%v rbs=%d readSize=%d", n, at, len(stream), frag, rbs, readSize)
		pipe := newHalfPipe()
		pipe.frag = frag
		pipe.Write(stream)
		pipe.CloseWrite()
		// the failure is a plain error, an expired read deadline (a net.Error that says Timeout) or one that calls
		// itself temporary: none of them makes a half-parsed stream readable again
		var ferr error = errTail
		faultCls := "fault.plain"
		switch rapid.IntRange(0, 2).Draw(rt, "faultKind") {
		case 1:
			ferr = &c15NetErr{msg: "i/o timeout (read deadline)", timeout: true}
			faultCls = "fault.timeout"
		case 2:
			ferr = &c15NetErr{msg: "temporary failure", temporary: true}
			faultCls = "fault.temporary"
		}
		pipe.failReadAt, pipe.failReadE, pipe.failReadTransient = int64(at), ferr, true
		rc := webtrans.NewConn(nil, &memWTStream{in: pipe, out: newHalfPipe()}, server, rbs, 0, nil, nil, nil)
		var firstErr error
		var cur io.Reader
		complete := 0
		fail := ""
	loop:
		for i := 0; i <= n; i++ {
			mt, r, err := rc.NextReader()
			if err != nil {
				firstErr = err
				break
			}
			cur = r
			var got []byte
			for {
				buf := make([]byte, readSize)
				k, e := r.Read(buf)
				got = append(got, buf[:k]...)
				if e == io.EOF {
					break
				}
				if e != nil {
					firstErr = e
					break loop
				}
			}
			if i >= n {
				fail = "a message beyond the last frame was delivered"
				break
			}
			if (mt == webtrans.BinaryMessage) != frames[i].bin || !bytes.Equal(got, frames[i].data) {
				fail = fmt.Sprintf("message #%d delivered as kind=%d len=%d (equal=%v), frame is bin=%v len=%d", i, mt, len(got), bytes.Equal(got, frames[i].data), frames[i].bin, len(frames[i].data))
				break
			}
			complete++
		}
		// which frame did the fault fall into?
		inside := false
		for i, st := range starts {
			end := len(stream)
			if i+1 < len(starts) {
				end = starts[i+1]
			}
			if at > st && at < end {
				inside = true
			}
		}
		classes := []string{fmt.Sprintf("frames-before-the-failure=%d", min(complete, 3)), faultCls}
		if inside {
			classes = append(classes, "fault-inside-a-frame")
		}
		if firstErr != nil && fail == "" {
			if firstErr == io.EOF && at >= len(stream) {
				classes = append(classes, "fault-beyond-the-stream")
			} else {
				classes = append(classes, "read-failed")
				if !errors.Is(firstErr, errTail) && firstErr != io.EOF {
					// (the reader may wrap or translate the failure; what matters is that it stays the same)
				}
				rounds := rapid.IntRange(3, 6).Draw(rt, "rounds")
				for k := 0; k < rounds && fail == ""; k++ {
					if cur != nil {
						buf := make([]byte, readSize)
						m, e := cur.Read(buf)
						if m != 0 || e == nil {
							fail = fmt.Sprintf("after the read failure (%v) a later Read on the same message reader returned %d bytes, err=%v: the failed connection came back to life", firstErr, m, e)
							break
						}
						// a reader whose message ended cleanly before the failure reports io.EOF for ever; any
						// other reader reports the failure
						if e != io.EOF && e.Error() != firstErr.Error() {
							fail = fmt.Sprintf("after the read failure (%v) a later Read reports a different error: %v", firstErr, e)
							break
						}
					}
					_, r2, e2 := rc.NextReader()
					if e2 == nil || r2 != nil {
						fail = fmt.Sprintf("after the read failure (%v) NextReader #%d succeeded: the failed connection came back to life", firstErr, k+1)
						break
					}
					if e2.Error() != firstErr.Error() {
						fail = fmt.Sprintf("after the read failure (%v) NextReader reports a different error: %v", firstErr, e2)
					}
				}
			}
		}
		col.Case(fmt.Sprintf("%d|%d|%v|%d|%d|%v|%x", n, at, frag, rbs, readSize, server, len(stream)), inside && n >= 2,
			map[string]any{"frames": n, "streamBytes": len(stream), "faultAt": at, "readFrag": frag, "readBuf": rbs, "readSize": readSize, "completeBeforeFailure": complete, "firstError": fmt.Sprint(firstErr)}, classes...)
		if fail != "" {
			rt.Fatalf("stream of %d frames (%d bytes), transient read failure at byte %d, read size %d, fragmentation %v: %s", n, len(stream), at, readSize, frag, fail)
		}
	})
	col.RequireClasses(t, "read-failed", "fault-inside-a-frame", "fault.timeout", "fault.temporary")
}

// TestC15TransportReadLimit: the read limit where the engine configures it. A session on the engine's WebTransport
// transport (opened directly or reached through an upgrade of a polling session) with maxHttpBufferSize L: a message
// longer than L is never delivered, the connection is ended and the session closes. (Runs C10's WebTransport path:
// there the clause belongs to the payload limit as a whole, here to the reader's limit clause.)
func TestC15TransportReadLimit(t *testing.T) {
	col := NewCollector("TestC15TransportReadLimit",
		"rapid: limit L (boundary table and random, >= 64 so that the handshake fits) on a server; a WebTransport session opened directly or upgraded from polling; one message of L-1, L, L+1, 2L or >>L bytes in minimal / 16-bit / 64-bit length form (or a bare header announcing 2^40 bytes), the frame arriving in one or two pieces; oracle: no message longer than L delivered, at most L+8192 bytes consumed, an oversized frame ends that connection and closes the session once, a frame within the limit does not. non-trivial: size within 1 of the limit, or an upgraded session").Use(t)
	rapid.Check(t, func(rt *rapid.T) {
		c := genC10(rt, false, col)
		c.Path, c.Rev, c.Decl, c.Multi, c.B64, c.Other = "wt", 4, "exact", 1, false, 0
		if c.L < 64 {
			c.L = 64 + c.L
		}
		c.Upgraded = rapid.Bool().Draw(rt, "viaUpgrade")
		c.Layout = rapid.SampledFrom([]string{"min", "min", "form16", "form64", "header-only-64bit"}).Draw(rt, "wtLayout")
		c.Cut = rapid.SampledFrom([]int{0, 0, 1, 2, 5, 9}).Draw(rt, "wtCut")
		switch c.SizeCls {
		case "L-1":
			c.Size = c.L - 1
		case "L":
			c.Size = c.L
		case "L+1":
			c.Size = c.L + 1
		case "2L":
			c.Size = 2 * c.L
		default:
			c.Size = c.L + 100000
		}
		journal("C15 transport limit %v", c)
		var fail string
		var stats map[string]bool
		res := bubble(t, func() { fail, stats = runC10(c) })
		var cl []string
		for k := range stats {
			cl = append(cl, k)
		}
		cl = append(cl, fmt.Sprintf("upgraded=%v", c.Upgraded))
		col.Case(c.String(), stats["within-1-of-limit"] || c.Upgraded, map[string]any{"case": c.String()}, cl...)
		res.rethrow()
		if fail != "" {
			rt.Fatalf("%v\n%s", c, fail)
		}
		if res.Leak != "" {
			rt.Fatalf("%v: %s", c, clipStr(res.Leak, 1500))
		}
	})
	col.RequireClasses(t, "connection-terminated", "delivered", "after-upgrade", "upgraded=false")
}

package harness

// In-memory byte pipes usable inside a testing/synctest bubble: a reader
// blocked here is blocked on a sync.Cond, which the bubble treats as durably
// blocked, so synctest.Wait can detect quiescence.

import (
	"errors"
	"io"
	"net"
	"os"
	"sync"
	"time"
)

// halfPipe is one direction of a connection.
type halfPipe struct {
	mu      sync.Mutex
	cond    *sync.Cond
	buf     []byte
	eof     bool  // writer closed: reader sees EOF after draining
	rerr    error // reader-side error (returned immediately, buffered data is dropped)
	werr    error // writer-side error
	frag    []int // successive maximum read sizes (cycled); empty = unlimited
	fragI   int
	written int64 // total bytes accepted from the writer
	read    int64 // total bytes handed to the reader
	// failWriteAt: if >=0 the write that would make written exceed it fails
	failWriteAt int64
	failWriteE  error
	// failWriteTransient: the injected write failure happens once (a write deadline, flow control): the bytes up
	// to failWriteAt are accepted, the write reports the error, later writes are accepted again
	failWriteTransient bool
	// failReadAt: if >=0 reads fail once read reaches it
	failReadAt int64
	failReadE  error
	// failReadTransient: the injected read failure is reported once (an expired read deadline, a transient
	// error); afterwards the remaining bytes are handed out as if nothing had happened
	failReadTransient bool
	onWrite    func(p []byte)
	// endWithData: the read that hands out the last bytes also reports the end (n > 0 together with io.EOF or
	// the injected error), as io.Reader allows and QUIC streams do on FIN
	endWithData bool
	// stalled: the reading peer has stopped reading and its receive window is full: writes block until the
	// peer reads again (Unstall), the pipe fails or is closed, or the write deadline passes
	stalled    bool
	stallWaits int // number of times a writer had to wait
	wdl        time.Time
	wdlTimer   *time.Timer
}

func newHalfPipe() *halfPipe {
	h := &halfPipe{failWriteAt: -1, failReadAt: -1}
	h.cond = sync.NewCond(&h.mu)
	return h
}

func (h *halfPipe) Write(p []byte) (int, error) {
	h.mu.Lock()
	defer h.mu.Unlock()
	for h.stalled && h.werr == nil && !h.eof && len(p) > 0 {
		if !h.wdl.IsZero() && !time.Now().Before(h.wdl) {
			return 0, os.ErrDeadlineExceeded
		}
		h.stallWaits++
		h.cond.Wait()
	}
	if h.werr != nil {
		return 0, h.werr
	}
	if h.eof {
		return 0, io.ErrClosedPipe
	}
	if h.failWriteAt >= 0 && h.written+int64(len(p)) > h.failWriteAt {
		n := int(h.failWriteAt - h.written)
		if n < 0 {
			n = 0
		}
		h.buf = append(h.buf, p[:n]...)
		h.written += int64(n)
		if h.failWriteTransient {
			h.failWriteAt = -1
		} else {
			h.werr = h.failWriteE
		}
		h.cond.Broadcast()
		return n, h.failWriteE
	}
	h.buf = append(h.buf, p...)
	h.written += int64(len(p))
	if h.onWrite != nil {
		h.onWrite(p)
	}
	h.cond.Broadcast()
	return len(p), nil
}

func (h *halfPipe) Read(p []byte) (int, error) {
	h.mu.Lock()
	defer h.mu.Unlock()
	for {
		if h.rerr != nil {
			return 0, h.rerr
		}
		if h.failReadAt >= 0 && h.read >= h.failReadAt {
			if h.failReadTransient {
				h.failReadAt = -1
				return 0, h.failReadE
			}
			h.rerr = h.failReadE
			return 0, h.rerr
		}
		if len(h.buf) > 0 {
			break
		}
		if h.eof {
			return 0, io.EOF
		}
		if len(p) == 0 {
			return 0, nil
		}
		h.cond.Wait()
	}
	n := len(p)
	if n > len(h.buf) {
		n = len(h.buf)
	}
	if len(h.frag) > 0 {
		f := h.frag[h.fragI%len(h.frag)]
		h.fragI++
		if f > 0 && n > f {
			n = f
		}
	}
	if h.failReadAt >= 0 && h.read+int64(n) > h.failReadAt {
		n = int(h.failReadAt - h.read)
	}
	copy(p, h.buf[:n])
	h.buf = h.buf[n:]
	h.read += int64(n)
	if h.endWithData && n > 0 {
		if h.failReadAt >= 0 && h.read >= h.failReadAt {
			h.rerr = h.failReadE
			return n, h.rerr
		}
		if len(h.buf) == 0 && h.eof {
			return n, io.EOF
		}
	}
	return n, nil
}

// Stall / Unstall: the reading peer stops / resumes reading (see stalled).
func (h *halfPipe) Stall() {
	h.mu.Lock()
	h.stalled = true
	h.mu.Unlock()
}

func (h *halfPipe) Unstall() {
	h.mu.Lock()
	h.stalled = false
	h.cond.Broadcast()
	h.mu.Unlock()
}

// StalledWriters reports whether a writer has had to wait because the peer does not read.
func (h *halfPipe) StalledWriters() int {
	h.mu.Lock()
	defer h.mu.Unlock()
	return h.stallWaits
}

// setWriteDeadline: a write blocked by a stalled peer fails with os.ErrDeadlineExceeded once t has passed
// (zero = no deadline), as net.Conn and quic.SendStream specify.
func (h *halfPipe) setWriteDeadline(t time.Time) {
	h.mu.Lock()
	defer h.mu.Unlock()
	h.wdl = t
	if h.wdlTimer != nil {
		h.wdlTimer.Stop()
		h.wdlTimer = nil
	}
	if t.IsZero() {
		return
	}
	if d := time.Until(t); d <= 0 {
		h.cond.Broadcast()
	} else {
		h.wdlTimer = time.AfterFunc(d, func() {
			h.mu.Lock()
			h.cond.Broadcast()
			h.mu.Unlock()
		})
	}
}

// FailNextWrite: the next write fails with err (nothing of it is accepted); reads of the other direction are
// not affected (a peer that reset only the receiving side, a broken pipe noticed by the writer first).
func (h *halfPipe) FailNextWrite(err error) {
	h.mu.Lock()
	h.failWriteAt = h.written
	h.failWriteE = err
	h.mu.Unlock()
}

// CloseWrite signals EOF to the reader after buffered data.
func (h *halfPipe) CloseWrite() {
	h.mu.Lock()
	h.eof = true
	h.cond.Broadcast()
	h.mu.Unlock()
}

// Fail makes both ends fail immediately with the given errors.
func (h *halfPipe) Fail(rerr, werr error) {
	h.mu.Lock()
	if h.rerr == nil {
		h.rerr = rerr
	}
	if h.werr == nil {
		h.werr = werr
	}
	h.cond.Broadcast()
	h.mu.Unlock()
}

func (h *halfPipe) Buffered() int {
	h.mu.Lock()
	defer h.mu.Unlock()
	return len(h.buf)
}

func (h *halfPipe) Written() int64 {
	h.mu.Lock()
	defer h.mu.Unlock()
	return h.written
}

func (h *halfPipe) ReadCount() int64 {
	h.mu.Lock()
	defer h.mu.Unlock()
	return h.read
}

// Drain returns and removes all buffered bytes without blocking.
func (h *halfPipe) Drain() []byte {
	h.mu.Lock()
	defer h.mu.Unlock()
	b := h.buf
	h.buf = nil
	h.read += int64(len(b))
	return b
}

type memAddr string

func (a memAddr) Network() string { return "mem" }
func (a memAddr) String() string  { return string(a) }

// memConn is a net.Conn built from two half pipes.
type memConn struct {
	r, w          *halfPipe
	local, remote memAddr
	closeOnce     sync.Once
	closed        bool
	mu            sync.Mutex
}

func newMemConnPair() (server, client *memConn) {
	a, b := newHalfPipe(), newHalfPipe()
	server = &memConn{r: a, w: b, local: "10.0.0.1:80", remote: "10.9.9.9:5555"}
	client = &memConn{r: b, w: a, local: "10.9.9.9:5555", remote: "10.0.0.1:80"}
	return
}

func (c *memConn) Read(p []byte) (int, error)  { return c.r.Read(p) }
func (c *memConn) Write(p []byte) (int, error) { return c.w.Write(p) }
func (c *memConn) Close() error {
	c.closeOnce.Do(func() {
		c.mu.Lock()
		c.closed = true
		c.mu.Unlock()
		// local reads/writes fail with net.ErrClosed; the peer sees EOF.
		c.r.Fail(net.ErrClosed, io.ErrClosedPipe)
		c.w.mu.Lock()
		c.w.eof = true
		if c.w.werr == nil {
			c.w.werr = net.ErrClosed
		}
		c.w.cond.Broadcast()
		c.w.mu.Unlock()
	})
	return nil
}
func (c *memConn) IsClosed() bool {
	c.mu.Lock()
	defer c.mu.Unlock()
	return c.closed
}
func (c *memConn) LocalAddr() net.Addr                { return c.local }
func (c *memConn) RemoteAddr() net.Addr               { return c.remote }
func (c *memConn) SetDeadline(t time.Time) error      { c.w.setWriteDeadline(t); return nil }
func (c *memConn) SetReadDeadline(t time.Time) error  { return nil }
func (c *memConn) SetWriteDeadline(t time.Time) error { c.w.setWriteDeadline(t); return nil }

var errInjected = errors.New("injected carrier fault")

package harness

// C05, upgrade requests that pass every admission check and then cannot be
// completed: the WebSocket opening handshake fails inside the upgrader, before
// the connection is taken over (a malformed handshake) or after it (the
// client's first frame arrived with the request; the connection is gone when
// the 101 is written). "A rejected request ... produces exactly one
// connection_error event, and neither creates a session nor disturbs an
// existing one."

import (
	"fmt"
	"sort"
	"strings"
	"testing"

	"github.com/zishang520/engine.io/v2/config"
	"github.com/zishang520/engine.io/v2/types"
	"pgregory.net/rapid"
)

type ufCase struct {
	Fault  string // badVersion | noKey | earlyData | writeFails
	ForSid bool   // the request names an existing polling session (an upgrade candidate) instead of being a handshake
	Rev    int
	Early  []byte
	N      int // how many such requests in a row
}

func (c ufCase) String() string {
	return fmt.Sprintf("{fault=%s candidateForExistingSession=%v rev%d early=%q n=%d}", c.Fault, c.ForSid, c.Rev, c.Early, c.N)
}

func runUF(c ufCase) (fail string, stats map[string]bool) {
	stats = map[string]bool{}
	o := config.DefaultServerOptions()
	o.SetAllowEIO3(true)
	o.SetTransports(types.NewSet("polling", "websocket"))
	w := NewWorld(o)
	defer w.Teardown()
	eio := "4"
	if c.Rev == 3 {
		eio = "3"
	}
	pc := &PollClient{W: w, O: ClientOpts{Rev: c.Rev, EIO: eio}}
	pc.StartHandshake()
	Settle()
	if err := pc.FinishHandshake(); err != nil {
		return "harness: " + err.Error(), stats
	}
	sr := w.Get(pc.Sid)
	pc.StartPoll()
	Settle()
	for k := 0; k < c.N; k++ {
		nErr, nConn, reg := len(w.ConnErrs), len(w.Order), fmt.Sprint(w.RegistryKeys())
		wc := &WSClient{W: w, O: ClientOpts{Rev: c.Rev, EIO: eio}}
		if c.ForSid {
			wc.Sid = pc.Sid
		}
		wc.Mod = func(r *ReqSpec) {
			switch c.Fault {
			case "badVersion":
				r.Header.Set("Sec-WebSocket-Version", "12")
			case "noKey":
				r.Header.Del("Sec-WebSocket-Key")
			case "earlyData":
				r.EarlyData = c.Early
			case "writeFails":
				r.FailHijackedWrites = true
			}
		}
		ex := wc.Start()
		Settle()
		wc.Pump()
		what := fmt.Sprintf("request %d %v", k, c)
		snap := ex.Snap()
		if snap.Panic != nil {
			return fmt.Sprintf("%s: handler panicked: %v", what, snap.Panic), stats
		}
		if !snap.Returned {
			return fmt.Sprintf("%s: handler never returned", what), stats
		}
		if got := len(w.ConnErrs) - nErr; got != 1 {
			return fmt.Sprintf("%s: the opening handshake could not be completed, %d connection_error events were emitted, want exactly one (code 3)", what, got), stats
		}
		if em := w.ConnErrs[len(w.ConnErrs)-1]; em == nil || em.Code != 3 {
			return fmt.Sprintf("%s: connection_error %+v, want code 3 (bad request)", what, em), stats
		}
		if len(w.Order) != nConn || fmt.Sprint(w.RegistryKeys()) != reg {
			return fmt.Sprintf("%s: a refused upgrade request created a session (connection events %d -> %d, registry %s -> %v)", what, nConn, len(w.Order), reg, w.RegistryKeys()), stats
		}
		if snap.Hijacked {
			stats["failure-after-the-connection-was-taken-over"] = true
			if wc.Open != nil {
				return fmt.Sprintf("%s: the client received an open packet", what), stats
			}
		} else {
			stats["failure-before-the-connection-was-taken-over"] = true
			if snap.Status != 400 || !strings.Contains(string(snap.Body), `"code":3`) {
				return fmt.Sprintf("%s: answered %v, want 400 {code:3}", what, snap), stats
			}
		}
		if len(sr.Closes) != 0 || sr.Sock.Upgrading() || sr.Sock.Upgraded() {
			return fmt.Sprintf("%s: the existing session was disturbed: closes=%v upgrading=%v upgraded=%v", what, sr.Closes, sr.Sock.Upgrading(), sr.Sock.Upgraded()), stats
		}
	}
	// the existing session still works, and can still be upgraded
	n := len(sr.Msgs)
	pc.StartPost([]Pkt{msgT("still here")}, false)
	Settle()
	if len(sr.Msgs) != n+1 {
		return "after the refused upgrade requests the existing session no longer delivers messages", stats
	}
	if _, _, err := Upgrade(w, pc, "websocket"); err != nil {
		return "after the refused upgrade requests a conformant upgrade of the existing session fails: " + err.Error(), stats
	}
	stats["later-upgrade-succeeds"] = true
	return "", stats
}

func TestC05UpgradeFailure(t *testing.T) {
	col := NewCollector("TestC05UpgradeFailure",
		"rapid: 1-3 WebSocket upgrade requests (a fresh handshake or a candidate naming an existing polling session, revision 3/4) that pass every admission check but whose opening handshake cannot be completed: wrong Sec-WebSocket-Version / missing key (refused before the connection is taken over), the client's first frame arriving together with the request (bytes already in the read buffer at the hijack), the connection gone when the 101 is written; oracle: the handler returns, exactly one connection_error with code 3 per request, no session created, registry unchanged, before the hijack also 400 {code:3}; the existing session is undisturbed, still delivers messages and can still be upgraded. non-trivial: a failure after the connection was taken over").Use(t)
	rapid.Check(t, func(rt *rapid.T) {
		c := ufCase{
			Fault:  rapid.SampledFrom([]string{"badVersion", "noKey", "earlyData", "earlyData", "writeFails", "writeFails"}).Draw(rt, "fault"),
			ForSid: rapid.Bool().Draw(rt, "forSid"),
			Rev:    rapid.SampledFrom([]int{4, 4, 3}).Draw(rt, "rev"),
			N:      rapid.IntRange(1, 3).Draw(rt, "n"),
		}
		if c.Fault == "earlyData" {
			probe := buildWSFrame(opText, true, false, []byte("2probe"), true, [4]byte{1, 2, 3, 4}, 0)
			c.Early = rapid.SampledFrom([][]byte{probe, probe[:1], []byte{0x81}, append(append([]byte{}, probe...), probe...), []byte("\r\n")}).Draw(rt, "early")
		}
		journal("C05 upgrade failure %v", c)
		var fail string
		var stats map[string]bool
		res := bubble(t, func() { fail, stats = runUF(c) })
		var cl []string
		for k := range stats {
			cl = append(cl, k)
		}
		sort.Strings(cl)
		cl = append(cl, "fault."+c.Fault, fmt.Sprintf("candidate=%v", c.ForSid))
		col.Case(c.String(), stats["failure-after-the-connection-was-taken-over"], map[string]any{"case": c.String()}, cl...)
		res.rethrow()
		if fail != "" {
			rt.Fatalf("%s", fail)
		}
		if res.Leak != "" {
			rt.Fatalf("%v: %s", c, clipStr(res.Leak, 1500))
		}
	})
	col.RequireClasses(t, "failure-after-the-connection-was-taken-over", "failure-before-the-connection-was-taken-over", "fault.earlyData", "fault.writeFails", "candidate=true", "candidate=false", "later-upgrade-succeeds")
}

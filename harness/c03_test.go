package harness

// C03 (session lifecycle) and C04 (client registry) share one generator of
// histories: handshakes on every carrier, traffic, independent close causes
// (also two at the same instant, and one placed inside another's
// check-then-act window or inside the handshake through yield-point gates),
// server shutdown, time advances with a responsive client.  The runner
// evaluates both oracles; each test reports only its own.

import (
	"fmt"
	"regexp"
	"runtime"
	"sort"
	"strings"
	"sync"
	"testing"
	"time"

	"github.com/zishang520/engine.io/v2/config"
	"github.com/zishang520/engine.io/v2/engine"
	"github.com/zishang520/engine.io/v2/types"
	"github.com/zishang520/engine.io/v2/utils"
	"pgregory.net/rapid"
)

const (
	sigDoubleClose   = "two-close-causes-in-onclose-window-emit-two-close-events"
	sigCloseBackward = "close-racing-with-onclose-moves-state-back-to-closing"
	sigDiedInHS      = "session-closed-during-handshake-stays-registered"
)

const (
	lcPingInterval = 5 * time.Second
	lcPingTimeout  = 3 * time.Second
)

type lcStep struct {
	Kind   string // hs | cause | two | traffic | advance | serverClose | gateOnClose | gateClose | gateHandshake | sendAfterClose
	Sess   int
	Car    string // hs: carrier
	Rev    int
	Cause  string
	Cause2 string
	D      time.Duration
}

func (s lcStep) String() string {
	switch s.Kind {
	case "hs":
		return fmt.Sprintf("hs#%d(%s,rev%d%s)", s.Sess, s.Car, s.Rev, map[string]string{"connCloseNow": ",Close(true) in the connection listener", "connClose": ",Close(false) in the connection listener", "flushCloseNow": ",Close(true) in the server's flush listener while the open packet is handed over"}[s.Cause])
	case "gateHandshake":
		return fmt.Sprintf("gateHandshake#%d(%s,%s)", s.Sess, s.Car, s.Cause)
	case "cause":
		return fmt.Sprintf("cause#%d(%s)", s.Sess, s.Cause)
	case "two", "gateOnClose":
		return fmt.Sprintf("%s#%d(%s,%s)", s.Kind, s.Sess, s.Cause, s.Cause2)
	case "gateTableDelete":
		return fmt.Sprintf("gateTableDelete#%d(%s,rev%d,%s)", s.Sess, s.Car, s.Rev, s.Cause)
	case "gateTableLoad":
		return fmt.Sprintf("gateTableLoad#%d(rev%d)", s.Sess, s.Rev)
	case "gateClose", "sendWindow", "closeWindow":
		return fmt.Sprintf("%s#%d(%s)", s.Kind, s.Sess, s.Cause)
	case "advance":
		return fmt.Sprintf("advance(%v)", s.D)
	case "traffic", "sendAfterClose":
		return fmt.Sprintf("%s#%d", s.Kind, s.Sess)
	case "upgrade":
		return fmt.Sprintf("upgrade#%d(to %s)", s.Sess, s.Car)
	}
	return s.Kind
}

// close causes and the reasons each may be reported with
var lcReasons = map[string][]string{
	"closePacket":    {"transport close"},
	"drop":           {"transport close", "transport error"},
	"overlap":        {"transport error"},
	"wrongHeartbeat": {"transport error"},
	"garbage":        {"parse error"},
	"silence":        {"ping timeout"},
	"appClose":       {"forced close"},
	"appCloseNow":    {"forced close"},
	"serverClose":    {"forced close"},
	// Close(false) with packets still buffered and a client that never polls again: the buffered close
	// fires after the close timeout, or the heartbeat gives up first
	"appCloseNoPoll": {"forced close", "ping timeout"},
	// the same with nothing buffered and a heartbeat that is further away than the transport's close timeout: the
	// close the application asked for completes by that timeout and is reported as such
	"appCloseNoPollEmpty": {"forced close"},
	// Close(false) with packets still buffered (no poll pending / the writer still busy) and a client that goes on
	// polling and reading: the buffer drains to it and the close the application asked for completes
	"appCloseBuffered": {"forced close"},
	// the application closes the session (Close(true)) from inside its listener of the 'packet' or 'data' event
	// of a client message: whatever the library still had to emit for that packet comes after the close
	// (on polling the data request that carries the message is still in flight: the server aborts it, and its
	// connection ending may be reported like a dropped request, as for a close from outside: section 10)
	"appCloseInListener": {"forced close", "transport error"},
	// ... or from inside its listener of the 'flush' event of one of its own Sends
	"appCloseInFlushListener": {"forced close"},
	// a write of the server fails (broken pipe / the peer stopped the receiving side of its stream) before its
	// reader has noticed anything
	"writeFail": {"transport error", "transport close"},
	// the peer vanishes without a trace (a half-open connection: no FIN, no RST): it neither reads nor sends
	// any more, the server's writer blocks once the window is full; the heartbeat gives up
	"stall": {"ping timeout"},
}

var lcCauses = []string{"closePacket", "drop", "overlap", "wrongHeartbeat", "garbage", "silence", "appClose", "appCloseNow", "appCloseNoPoll", "appCloseNoPoll", "appCloseBuffered", "appCloseInListener", "writeFail", "stall"}

type lcSess struct {
	idx               int
	car               string
	rev               int
	pc                *PollClient
	wc                *WSClient
	tc                *WTClient
	sr                *SessRec
	sid               string
	causes            []string // injected so far
	silent            bool     // stopped answering pings
	vanished          bool     // the peer is gone without a trace (no FIN/RST): it neither reads nor sends any more
	noPoll            bool     // polling client that never polls again
	answered          int
	closeEvIdx        int // index in sr.Events of the close event, -1
	// strictAfterClose: the close was issued on the goroutine that emits the session's events (from inside a
	// listener): what that goroutine emits afterwards is after the close event, no "same instant" tolerance
	strictAfterClose bool
	eventsAtCloseStep int // number of events recorded by the end of the step in which the close was observed
	cbAfterClose      int
	wireAtClose       int
}

type lcWorld struct {
	longHB      bool // heartbeat (40s + 25s) further away than the polling transport's close timeout (30s)
	w           *World
	sess        map[int]*lcSess
	created     map[string]bool
	fail03      string
	fail04      string
	stats       map[string]bool
	g           *Gates
	allSids     []string
	flushPark   chan struct{}
	flushParked bool
	flushClose  bool // the next hand-off (an open packet) makes the application's flush listener call Close(true)
}

func (lw *lcWorld) f03(format string, a ...any) {
	if lw.fail03 == "" {
		lw.fail03 = fmt.Sprintf("@%v ", lw.w.now()) + fmt.Sprintf(format, a...)
	}
}
func (lw *lcWorld) f04(format string, a ...any) {
	if lw.fail04 == "" {
		lw.fail04 = fmt.Sprintf("@%v ", lw.w.now()) + fmt.Sprintf(format, a...)
	}
}

var stateRank = map[string]int{"opening": 0, "open": 1, "closing": 2, "closed": 3}

func genLC(rt *rapid.T, gates bool, known map[string]bool, col *Collector) []lcStep {
	var steps []lcStep
	if rapid.IntRange(0, 4).Draw(rt, "longHeartbeat") == 0 {
		steps = append(steps, lcStep{Kind: "longHeartbeat"})
	}
	nsess := 0
	alive := map[int]bool{}
	n := rapid.IntRange(2, 14).Draw(rt, "nsteps")
	carriers := []string{"polling", "polling", "websocket", "webtransport"}
	for i := 0; i < n; i++ {
		l := fmt.Sprintf("s%d", i)
		kinds := []string{"hs"}
		if nsess >= 3 {
			kinds = nil
		}
		if nsess > 0 {
			kinds = append(kinds, "cause", "two", "traffic", "traffic", "advance", "advance", "sendAfterClose", "sendWindow", "closeWindow", "upgrade")
			if rapid.IntRange(0, 3).Draw(rt, l+".sc") == 0 {
				kinds = append(kinds, "serverClose", "serverClose")
			}
			if gates {
				if !known[sigDoubleClose] {
					kinds = append(kinds, "gateOnClose", "gateOnClose")
				} else {
					col.Exclude("second cause inside the OnClose window (known finding " + sigDoubleClose + ")")
				}
				if !known[sigCloseBackward] {
					kinds = append(kinds, "gateClose")
				} else {
					col.Exclude("cause inside the Close window (known finding " + sigCloseBackward + ")")
				}
			}
		}
		if gates && nsess < 3 {
			kinds = append(kinds, "gateTableDelete", "gateTableDelete", "gateTableLoad", "gateTableLoad")
			if !known[sigDiedInHS] {
				kinds = append(kinds, "gateHandshake")
			} else {
				col.Exclude("peer dropping inside the handshake (known finding " + sigDiedInHS + ")")
			}
		}
		if len(kinds) == 0 {
			kinds = []string{"advance"}
		}
		k := rapid.SampledFrom(kinds).Draw(rt, l+".kind")
		st := lcStep{Kind: k}
		switch k {
		case "hs", "gateHandshake", "gateTableDelete", "gateTableLoad":
			st.Sess = nsess
			st.Car = rapid.SampledFrom(carriers).Draw(rt, l+".car")
			if k == "gateTableDelete" {
				st.Cause = rapid.SampledFrom([]string{"appCloseNow", "closePacket", "drop", "wrongHeartbeat"}).Draw(rt, l+".td")
			}
			if k == "hs" {
				// the application may turn the client away inside its connection listener
				st.Cause = rapid.SampledFrom([]string{"", "", "", "", "connCloseNow", "connClose", "flushCloseNow"}).Draw(rt, l+".conn")
			}
			if k == "gateHandshake" {
				st.Car = rapid.SampledFrom([]string{"websocket", "webtransport"}).Draw(rt, l+".gcar")
				st.Cause = rapid.SampledFrom([]string{"drop", "dropInOpenFlush", "dropInOpenFlush", "none", "dropHeldInOnClose", "dropHeldInOnClose", "dropBeforeOpen", "dropBeforeOpen", "dropRegistered", "dropRegistered", "dropWhileAttaching", "closeFrameWhileAttaching", "closeFrameWhileAttaching"}).Draw(rt, l+".gcause")
			}
			st.Rev = 4
			if st.Car != "webtransport" && rapid.IntRange(0, 3).Draw(rt, l+".rev3") == 0 {
				st.Rev = 3
			}
			alive[nsess] = true
			nsess++
		case "cause", "two", "gateOnClose", "gateClose", "traffic", "sendAfterClose", "sendWindow", "closeWindow", "upgrade":
			st.Sess = rapid.IntRange(0, nsess-1).Draw(rt, l+".sess")
			if k == "upgrade" {
				st.Car = rapid.SampledFrom([]string{"websocket", "webtransport"}).Draw(rt, l+".upTo")
			}
			st.Cause = rapid.SampledFrom(lcCauses).Draw(rt, l+".cause")
			st.Cause2 = rapid.SampledFrom(lcCauses).Draw(rt, l+".cause2")
			if k == "gateClose" {
				st.Cause = rapid.SampledFrom([]string{"drop", "closePacket", "wrongHeartbeat", "appCloseNow"}).Draw(rt, l+".gc")
			}
			if k == "closeWindow" {
				st.Cause = rapid.SampledFrom([]string{"appCloseNow", "appCloseNow", "closePacket", "wrongHeartbeat", "drop"}).Draw(rt, l+".cw")
			}
			if k == "sendWindow" {
				st.Cause = rapid.SampledFrom([]string{"appCloseNow", "appCloseNow", "drop", "closePacket", "wrongHeartbeat", "garbage", "appClose"}).Draw(rt, l+".sw")
			}
			if k == "gateOnClose" {
				// first cause must reach OnClose synchronously from a goroutine that can be parked
				st.Cause = rapid.SampledFrom([]string{"wrongHeartbeat", "closePacket", "drop", "garbage", "silence"}).Draw(rt, l+".g1")
				st.Cause2 = rapid.SampledFrom([]string{"appCloseNow", "drop", "wrongHeartbeat", "appClose"}).Draw(rt, l+".g2")
			}
		case "advance":
			st.D = time.Duration(rapid.SampledFrom([]int{1, 100, 2999, 3000, 3001, 5000, 8000, 8001, 20000, 31000}).Draw(rt, l+".d")) * time.Millisecond
		}
		steps = append(steps, st)
	}
	return steps
}

// ---- client-side actions -------------------------------------------------------

func (s *lcSess) sendPkt(p Pkt) {
	if s.vanished {
		return
	}
	switch {
	case s.pc != nil:
		s.pc.StartPost([]Pkt{p}, false)
	case s.wc != nil:
		s.wc.SendPacket(p, nil)
	default:
		s.tc.SendPacket(p)
	}
}

func (s *lcSess) pump() {
	switch {
	case s.pc != nil:
		s.pc.Pump()
	case s.wc != nil:
		s.wc.Pump()
	default:
		s.tc.Pump()
	}
}

func (s *lcSess) recvd() []Pkt {
	switch {
	case s.pc != nil:
		return s.pc.Recv
	case s.wc != nil:
		return s.wc.Recv
	default:
		return s.tc.Recv
	}
}

// service: what a responsive conformant client does at a quiescent point:
// read, answer pings (revision 4) / send pings (revision 3), keep a poll open.
func (lw *lcWorld) service(s *lcSess) {
	if s.sr == nil || len(s.sr.Closes) > 0 {
		s.pump()
		return
	}
	for round := 0; round < 3; round++ {
		s.pump()
		r := s.recvd()
		pings := 0
		for _, p := range r {
			if p.Type == tPing {
				pings++
			}
		}
		progressed := false
		if !s.silent && s.rev == 4 && pings > s.answered {
			s.answered = pings
			s.sendPkt(ctl(tPong))
			Settle()
			progressed = true
		}
		if s.pc != nil && s.pc.Poll == nil && !s.pc.Closed && !s.noPoll && len(s.sr.Closes) == 0 {
			s.pc.StartPoll()
			Settle()
			progressed = true
		}
		if !progressed {
			break
		}
	}
}

func (lw *lcWorld) serviceAll() {
	for i := 0; i < len(lw.sess); i++ {
		if s := lw.sess[i]; s != nil {
			lw.service(s)
		}
	}
}

// advance moves virtual time in heartbeat-sized slices so that responsive
// clients can answer every ping in time; revision-3 clients ping themselves.
func (lw *lcWorld) advance(d time.Duration) {
	for d > 0 {
		step := time.Second
		if d < step {
			step = d
		}
		time.Sleep(step)
		d -= step
		Settle()
		for i := 0; i < len(lw.sess); i++ {
			s := lw.sess[i]
			if s == nil || s.sr == nil || len(s.sr.Closes) > 0 {
				continue
			}
			if s.rev == 3 && !s.silent {
				// revision 3: the client pings; once a second is well within interval+timeout
				s.sendPkt(ctl(tPing))
				Settle()
			}
		}
		lw.serviceAll()
		lw.checkAll("advance")
	}
}

// causeFn returns the action that injects a close cause (run by the caller,
// possibly in its own goroutine) or nil when it does not apply.
func (lw *lcWorld) causeFn(s *lcSess, cause string) func() {
	if s.sr == nil {
		return nil
	}
	if s.vanished {
		switch cause {
		case "closePacket", "drop", "overlap", "wrongHeartbeat", "garbage", "writeFail", "stall":
			// a peer that vanished does nothing any more
			return nil
		}
	}
	switch cause {
	case "closePacket":
		switch {
		case s.pc != nil:
			return func() { s.pc.StartPost([]Pkt{ctl(tClose)}, false); s.pc.Closed = true }
		case s.wc != nil:
			return func() { s.wc.SendClose(1000, "bye") }
		default:
			return func() { s.tc.CloseSession(0, "bye") }
		}
	case "drop":
		switch {
		case s.pc != nil:
			// (prepared by the caller: a poll is pending; closures never call Settle, they may run in their own goroutine)
			if s.pc.Poll == nil {
				s.pc.StartPoll()
				Settle()
				s.pc.Pump()
				if s.pc.Poll == nil {
					return nil
				}
			}
			return func() {
				if p := s.pc.Poll; p != nil {
					p.Abort()
					s.pc.Poll = nil
				}
			}
		case s.wc != nil:
			return func() { s.wc.Drop() }
		default:
			return func() { s.tc.Drop() }
		}
	case "overlap":
		if s.pc == nil {
			return nil
		}
		return func() {
			if s.pc.Poll == nil {
				s.pc.StartPoll()
			}
			first := s.pc.Poll
			s.pc.StartPoll() // second, overlapping poll
			s.pc.Poll = first
		}
	case "wrongHeartbeat":
		return func() {
			if s.rev == 4 {
				s.sendPkt(ctl(tPing))
			} else {
				s.sendPkt(ctl(tPong))
			}
		}
	case "garbage":
		switch {
		case s.pc != nil:
			return func() { s.pc.StartPostRaw([]byte(map[int]string{4: "9zz", 3: "3:9zz2:4x"}[s.rev]), "text/plain;charset=UTF-8", nil) }
		case s.wc != nil:
			return func() { s.wc.SendMessage(Frame{Data: []byte("9zz")}, nil) }
		default:
			return func() { s.tc.SendFrameRaw(wtEncode(false, []byte("9zz"))) }
		}
	case "silence":
		return func() { s.silent = true }
	case "writeFail":
		if s.pc != nil {
			return nil
		}
		return func() {
			lw.stats["server-write-fails-before-its-reader-notices"] = true
			if s.wc != nil {
				s.wc.FailServerWrites()
			} else {
				s.tc.FailServerWrites()
			}
			lw.w.AppSend(s.sr, msgT("a write that fails"), nil, true, 0)
		}
	case "stall":
		if s.pc != nil {
			return nil
		}
		return func() {
			lw.stats["peer-stops-reading"] = true
			s.silent, s.vanished = true, true
			if s.wc != nil {
				s.wc.StopReading()
			} else {
				s.tc.StopReading()
			}
			// the writer goroutine of the transport now blocks in its write
			lw.w.AppSend(s.sr, msgT("a write that blocks"), nil, true, 0)
		}
	case "appCloseNoPoll":
		if s.pc == nil {
			return nil
		}
		s.noPoll, s.silent = true, true
		if s.pc.Poll != nil {
			// use up the pending poll (done here, by the caller's goroutine)
			lw.w.AppSend(s.sr, msgT("answer the pending poll"), nil, false, 0)
			Settle()
			s.pc.Pump()
		}
		return func() {
			lw.stats["close-with-buffered-data-and-no-further-poll"] = true
			if len(s.sr.Events)%2 == 0 {
				lw.w.AppSend(s.sr, msgT("buffered 1"), nil, true, 0)
				lw.w.AppSend(s.sr, msgT("buffered 2"), nil, false, 0)
			} else {
				lw.stats["close-with-empty-buffer-and-no-further-poll"] = true
				// the heartbeat deadline is 65 s after the session's last heartbeat (or its opening): the close
				// timeout (30 s from now) comes first only if that was less than 35 s ago
				lastHB := s.sr.ConnAt
				for _, e := range s.sr.Events {
					if e.Name == "heartbeat" && e.At > lastHB {
						lastHB = e.At
					}
				}
				if lw.longHB && lw.w.now()-lastHB < 34*time.Second {
					lw.stats["close-timeout-before-the-heartbeat"] = true
					for k := len(s.causes) - 1; k >= 0; k-- {
						if s.causes[k] == "appCloseNoPoll" {
							s.causes[k] = "appCloseNoPollEmpty"
							break
						}
					}
				}
			}
			s.sr.Sock.Close(false)
		}
	case "appCloseInListener", "appCloseInFlushListener":
		ev := []string{"packet", "data", "flush"}[len(s.sr.Events)%3]
		if cause == "appCloseInFlushListener" {
			ev = "flush"
		}
		if ev == "flush" && s.pc != nil && s.pc.Poll == nil {
			ev = "packet"
		}
		return func() {
			lw.stats["close-inside-a-"+ev+"-listener"] = true
			s.sr.Sock.Once(types.EventName(ev), func(...any) {
				s.strictAfterClose = true
				s.sr.Sock.Close(true)
			})
			if ev == "flush" {
				// the hand-off of an application Send: its flush listener closes the session; what the library
				// still had to do for that hand-off (the drain events, the callback) comes after the close
				lw.w.AppSend(s.sr, msgT("its flush listener closes the session"), nil, true, 0)
				return
			}
			s.sendPkt(msgT("makes the listener close the session"))
		}
	case "appCloseBuffered":
		if s.pc != nil && s.pc.Poll != nil {
			// use up the pending poll (done here, by the caller's goroutine)
			lw.w.AppSend(s.sr, msgT("answer the pending poll"), nil, false, 0)
			Settle()
			s.pc.Pump()
		}
		return func() {
			lw.stats["close-with-buffered-data-and-a-client-that-keeps-reading"] = true
			lw.w.AppSend(s.sr, msgT("buffered 1"), nil, true, 0)
			lw.w.AppSend(s.sr, msgT("buffered 2"), nil, false, 0)
			s.sr.Sock.Close(false)
		}
	case "appClose":
		return func() { s.sr.Sock.Close(false) }
	case "appCloseNow":
		return func() { s.sr.Sock.Close(true) }
	}
	return nil
}

func (s *lcSess) addCause(c string) {
	if c == "closePacket" && s.pc == nil {
		// on WebSocket/WebTransport the peer closes the connection itself: reported as transport close or error
		c = "drop"
	}
	s.causes = append(s.causes, c)
}

func (s *lcSess) reasonAllowed(reason string) bool {
	for _, c := range s.causes {
		for _, r := range lcReasons[c] {
			if r == reason {
				return true
			}
		}
	}
	return false
}

// ---- invariants ----------------------------------------------------------------

func (lw *lcWorld) checkAll(where string) {
	w := lw.w
	if lw.g != nil && len(lw.g.Parked()) > 0 {
		// a goroutine of the server is held inside a window by the harness: not a state the server can rest in
		return
	}
	// C04: registry == created and not yet closed
	var live []string
	for _, sid := range lw.allSids {
		sr := w.Get(sid)
		if closedBeforeAnnounce[sid] {
			continue
		}
		if sr == nil || (len(sr.Closes) == 0 && sr.Sock.ReadyState() != "closed") {
			live = append(live, sid)
		}
	}
	sort.Strings(live)
	reg := w.RegistryKeys()
	if fmt.Sprint(reg) != fmt.Sprint(live) {
		lw.f04("%s: client table %v, sessions created and not closed %v", where, shortAll(reg), shortAll(live))
	}
	if n := w.Srv.ClientsCount(); n != uint64(len(live)) {
		lw.f04("%s: ClientsCount()=%d (as signed %d), live sessions %d", where, n, int64(n), len(live))
	}
	for _, sid := range live {
		if so, ok := w.Srv.Clients().Load(sid); !ok || so.Id() != sid {
			lw.f04("%s: live session %s not reachable under its own id", where, short(sid))
		}
	}
	// C03: per session
	for i := 0; i < len(lw.sess); i++ {
		s := lw.sess[i]
		if s == nil || s.sr == nil {
			continue
		}
		sr := s.sr
		if sr.ConnState != "open" {
			lw.f03("%s: session #%d was handed to the application in state %q", where, i, sr.ConnState)
		}
		rank := 1
		closeIdx := -1
		for k, e := range sr.Events {
			if r, ok := stateRank[e.State]; ok {
				if r < rank {
					lw.f03("%s: session #%d ready state moved backwards to %q at event %v", where, i, e.State, e)
				}
				rank = r
			}
			if e.Name == "close" && closeIdx < 0 {
				closeIdx = k
			}
		}
		if cur, ok := stateRank[sr.Sock.ReadyState()]; ok && cur < rank {
			lw.f03("%s: session #%d ready state is %q after having been further", where, i, sr.Sock.ReadyState())
		}
		if len(sr.Closes) > 1 {
			lw.f03("%s: session #%d emitted %d close events %v (causes %v)", where, i, len(sr.Closes), sr.Closes, s.causes)
		}
		if len(sr.Closes) >= 1 {
			if len(s.causes) == 0 {
				lw.f03("%s: session #%d closed with %q although no close cause occurred", where, i, sr.Closes[0])
			} else if !s.reasonAllowed(sr.Closes[0]) {
				lw.f03("%s: session #%d closed with reason %q; causes that occurred %v map to %v", where, i, sr.Closes[0], s.causes, reasonsOf(s.causes))
			}
			if sr.Sock.ReadyState() != "closed" {
				lw.f03("%s: session #%d emitted close but its ready state is %q", where, i, sr.Sock.ReadyState())
			}
			if s.strictAfterClose && len(sr.Closes) == 1 && sr.Closes[0] == "forced close" && closeIdx >= 0 && len(sr.Events) > closeIdx+1 {
				lw.f03("%s: session #%d closed from inside its own listener: event %v after the close event", where, i, sr.Events[closeIdx+1])
			}
			if s.eventsAtCloseStep == 0 {
				// events of actions that ran concurrently with the close (same step, same instant) are not "afterwards"
				s.eventsAtCloseStep = len(sr.Events)
			}
			if len(sr.Events) > s.eventsAtCloseStep {
				lw.f03("%s: session #%d: event %v after the close event", where, i, sr.Events[s.eventsAtCloseStep])
			}
			for _, e := range sr.Events[closeIdx+1 : s.eventsAtCloseStep] {
				if e.At != sr.CloseAt {
					lw.f03("%s: session #%d: event %v after the close event (at a later instant)", where, i, e)
					break
				}
				lw.stats["event-concurrent-with-close"] = true
			}
		}
	}
}

func reasonsOf(causes []string) []string {
	seen := map[string]bool{}
	var out []string
	for _, c := range causes {
		for _, r := range lcReasons[c] {
			if !seen[r] {
				seen[r] = true
				out = append(out, r)
			}
		}
	}
	return out
}

func shortAll(s []string) []string {
	out := make([]string, len(s))
	for i, x := range s {
		out[i] = short(x)
	}
	return out
}

// spinRun runs fn in its own goroutine and gives it ample opportunity to run
// without using synctest.Wait (fn may block on a mutex held by a parked goroutine).
func spinRun(fn func()) chan struct{} {
	done := make(chan struct{})
	go func() { fn(); close(done) }()
	for k := 0; k < 4000; k++ {
		runtime.Gosched()
		select {
		case <-done:
			return done
		default:
		}
	}
	return done
}

func (lw *lcWorld) arm(site string) GatePoint {
	gp := GatePoint{site, lw.g.Count(site)}
	lw.g.mu.Lock()
	lw.g.plan[gp] = true
	lw.g.mu.Unlock()
	return gp
}

func (lw *lcWorld) parked(gp GatePoint) bool {
	for _, p := range lw.g.Parked() {
		if p == gp {
			return true
		}
	}
	return false
}

func (lw *lcWorld) disarm(gp GatePoint) {
	lw.g.mu.Lock()
	delete(lw.g.plan, gp)
	lw.g.mu.Unlock()
	lw.g.Release(gp)
}

func (lw *lcWorld) handshake(st lcStep) {
	w := lw.w
	s := &lcSess{idx: st.Sess, car: st.Car, rev: st.Rev, closeEvIdx: -1}
	lw.sess[st.Sess] = s
	eio := "4"
	if st.Rev == 3 {
		eio = "3"
	}
	before := len(w.Order)
	var gp GatePoint
	gated := st.Kind == "gateHandshake"
	inFlush := gated && st.Cause == "dropInOpenFlush"
	var flushCh chan struct{}
	if inFlush {
		flushCh = make(chan struct{})
		lw.flushPark, lw.flushParked = flushCh, false
	} else if gated && st.Cause == "dropBeforeOpen" {
		// the session is attached to its transport (whose reader runs) and not yet declared open
		gp = lw.arm("socket.Construct.listening")
	} else if gated && (st.Cause == "dropWhileAttaching" || st.Cause == "closeFrameWhileAttaching") {
		// the session has attached its packet listener to the transport (whose reader runs from then on), the
		// listeners for the transport's drain and close events come next
		gp = lw.arm("socket.setTransport.reading")
	} else if gated && st.Cause == "dropRegistered" {
		// the session is in the client table and counted, the server's close listener is not attached yet
		gp = lw.arm("server.Handshake.registered")
	} else if gated {
		gp = lw.arm("server.Handshake.constructed")
	}
	connAct := ""
	if st.Kind == "hs" && st.Cause == "flushCloseNow" {
		lw.flushClose = true
	}
	if st.Kind == "hs" && strings.HasPrefix(st.Cause, "conn") {
		connAct = st.Cause
		prev := w.OnConn
		w.OnConn = func(sr *SessRec) {
			w.OnConn = prev
			lw.stats["closed-inside-the-connection-listener"] = true
			sr.Sock.Close(connAct == "connCloseNow")
		}
		defer func() { w.OnConn = prev }()
	}
	switch st.Car {
	case "polling":
		pc := &PollClient{W: w, O: ClientOpts{Rev: st.Rev, EIO: eio}}
		pc.StartHandshake()
		Settle()
		s.pc = pc
		if err := pc.FinishHandshake(); err == nil {
			s.sid = pc.Sid
		}
	case "websocket":
		wc := &WSClient{W: w, O: ClientOpts{Rev: st.Rev, EIO: eio}}
		wc.Start()
		Settle()
		wc.Pump()
		s.wc = wc
		if wc.Open != nil {
			s.sid = wc.Sid
		}
	default:
		tc := &WTClient{W: w, O: ClientOpts{Rev: 4}}
		tc.Start()
		Settle()
		tc.OpenBidi()
		tc.SendHandshake()
		Settle()
		tc.Pump()
		s.tc = tc
		if tc.Open != nil {
			s.sid = tc.Sid
		}
	}
	if inFlush {
		if lw.flushParked {
			// the session is being opened: its open packet is being handed to the transport
			lw.stats["cause-during-handshake"] = true
			lw.stats["drop-while-open-packet-is-flushed"] = true
			if s.wc != nil {
				s.wc.Drop()
			} else {
				s.tc.Drop()
			}
			s.addCause("drop")
			Settle()
		}
		lw.flushPark = nil
		close(flushCh)
		Settle()
		s.pump()
	} else if gated {
		if lw.parked(gp) {
			lw.stats["cause-during-handshake"] = true
			// the session object exists and is open, the server has not registered it yet
			switch st.Cause {
			case "drop":
				if s.wc != nil {
					s.wc.Drop()
				} else {
					s.tc.Drop()
				}
				s.addCause("drop")
				Settle()
			case "dropWhileAttaching":
				lw.stats["peer-gone-while-the-session-attaches-to-its-transport"] = true
				if s.wc != nil {
					s.wc.Drop()
				} else {
					s.tc.Drop()
				}
				s.addCause("drop")
				Settle()
			case "closeFrameWhileAttaching":
				// the peer says goodbye by the book (a close frame / closing its WebTransport session) and leaves
				// its connection to the server to finish: writes to it still succeed for a while
				lw.stats["peer-says-goodbye-while-the-session-attaches-to-its-transport"] = true
				if s.wc != nil {
					s.wc.SendClose(1000, "bye")
				} else {
					s.tc.CloseSession(0, "bye")
				}
				s.addCause("drop")
				Settle()
			case "dropRegistered":
				lw.stats["peer-gone-between-registration-and-the-server's-close-listener"] = true
				if s.wc != nil {
					s.wc.Drop()
				} else {
					s.tc.Drop()
				}
				s.addCause("drop")
				Settle()
			case "dropBeforeOpen":
				// the peer is gone before the session was ever open: the reader goroutine reports it at once
				lw.stats["peer-gone-before-the-session-is-declared-open"] = true
				if s.wc != nil {
					s.wc.Drop()
				} else {
					s.tc.Drop()
				}
				s.addCause("drop")
				Settle()
			case "dropHeldInOnClose":
				// the peer goes away and the session's close is half done (state closed, close event not yet
				// emitted) while the handshake registers the session and looks at its state again
				gpc := lw.arm("socket.OnClose.checked")
				if s.wc != nil {
					s.wc.Drop()
				} else {
					s.tc.Drop()
				}
				s.addCause("drop")
				Settle()
				if lw.parked(gpc) {
					lw.stats["close-half-done-while-the-handshake-registers-the-session"] = true
					lw.g.Release(gp)
					Settle()
					lw.g.Release(gpc)
					Settle()
				} else {
					lw.disarm(gpc)
				}
			case "appCloseNow":
				// nothing the application could do: it has not been handed the session yet
			}
			lw.g.Release(gp)
			Settle()
			s.pump()
		} else {
			lw.disarm(gp)
		}
	}
	if s.sid == "" && st.Car != "polling" {
		// the client identifies its session from the open packet (it may have arrived before the drop)
		if s.wc != nil && s.wc.Open != nil {
			s.sid = s.wc.Sid
		}
		if s.tc != nil && s.tc.Open != nil {
			s.sid = s.tc.Sid
		}
	}
	if s.sid == "" && gated && len(w.Order) == before+1 {
		// the client went away before it read its open packet, and the session was announced all the same: it is
		// followed like any other session whose peer has gone
		s.sid = w.Order[len(w.Order)-1]
	}
	if connAct != "" {
		s.addCause(map[string]string{"connCloseNow": "appCloseNow", "connClose": "appClose"}[connAct])
	}
	if st.Kind == "hs" && st.Cause == "flushCloseNow" {
		lw.flushClose = false
		s.addCause("appCloseNow")
	}
	if s.sid != "" {
		lw.allSids = append(lw.allSids, s.sid)
		s.sr = w.Get(s.sid)
		if s.sr == nil {
			// created (the client holds its id) but never announced: must not be registered
			endedEarly := gated || (st.Kind == "hs" && st.Cause == "flushCloseNow")
			if _, ok := w.Srv.Clients().Load(s.sid); ok && !endedEarly {
				lw.f04("session %s is in the client table but no connection event announced it", short(s.sid))
			}
			if endedEarly {
				// a session that died before it was announced counts as created-and-closed
				lw.sess[st.Sess] = nil
				closedBeforeAnnounce[s.sid] = true
			}
		}
	} else if len(w.Order) != before {
		lw.f03("handshake %v: a connection event fired but the client got no open packet", st)
	}
	lw.stats["carrier."+st.Car] = true
}

// closedBeforeAnnounce is per case (reset by the runner).
var closedBeforeAnnounce map[string]bool

func runLC(steps []lcStep) (*lcWorld, bubbleResult) {
	lw := &lcWorld{sess: map[int]*lcSess{}, stats: map[string]bool{}}
	closedBeforeAnnounce = map[string]bool{}
	res := bubble(curT, func() {
		o := config.DefaultServerOptions()
		o.SetAllowEIO3(true)
		o.SetTransports(types.NewSet("polling", "websocket", "webtransport"))
		o.SetPingInterval(lcPingInterval)
		o.SetPingTimeout(lcPingTimeout)
		if len(steps) > 0 && steps[0].Kind == "longHeartbeat" {
			lw.longHB = true
			o.SetPingInterval(40 * time.Second)
			o.SetPingTimeout(25 * time.Second)
		}
		w := NewWorld(o)
		lw.w = w
		// sessions that die before they are announced still count as created for the registry
		defer w.Teardown()
		for _, st := range steps {
			if strings.HasPrefix(st.Kind, "gate") {
				lw.g = InstallGates(nil)
				defer lw.g.Uninstall()
				break
			}
		}
		w.OnConn = func(sr *SessRec) {}
		// an application listener of the server's flush event that can be made to block: holds the
		// handshake inside the hand-off of the open packet (no source hook needed for this window)
		w.Srv.On("flush", func(args ...any) {
			if lw.flushClose {
				// the application turns the client away while its open packet is being handed over
				lw.flushClose = false
				if sock, ok := args[0].(engine.Socket); ok {
					lw.stats["closed-inside-a-flush-listener-during-the-handshake"] = true
					sock.Close(true)
				}
				return
			}
			if ch := lw.flushPark; ch != nil {
				lw.flushPark = nil
				lw.flushParked = true
				<-ch
			}
		})
		for i, st := range steps {
			what := fmt.Sprintf("step %d %v", i, st)
			s := lw.sess[st.Sess]
			if s != nil && s.sr == nil {
				s = nil // never announced (died during its handshake)
			}
			switch st.Kind {
			case "hs", "gateHandshake":
				lw.handshake(st)
			case "cause":
				if s == nil {
					break
				}
				if fn := lw.causeFn(s, st.Cause); fn != nil && len(s.sr.Closes) == 0 {
					s.addCause(st.Cause)
					fn()
					Settle()
				}
			case "two":
				if s == nil || len(s.sr.Closes) > 0 {
					break
				}
				if st.Cause == "overlap" || st.Cause == "appCloseNoPoll" || st.Cause2 == "appCloseNoPoll" {
					break
				}
				if st.Cause == "appCloseInListener" || st.Cause2 == "appCloseInListener" || st.Cause == "appCloseInFlushListener" || st.Cause2 == "appCloseInFlushListener" {
					// (needs a client message of its own: two client actions of one client at one instant are a
					// matter of the client, not of the server)
					break
				}
				f1 := lw.causeFn(s, st.Cause)
				if f1 == nil {
					break
				}
				var f2 func()
				if st.Cause2 != "overlap" {
					f2 = lw.causeFn(s, st.Cause2)
				}
				if f2 == nil || st.Cause2 == "overlap" {
					// instead of a second cause: lookups of unknown session ids racing with the close's bookkeeping
					lw.stats["close-racing-with-unknown-sid-requests"] = true
					f2 = func() {
						for k := 0; k < 6; k++ {
							Do(w.Srv, NewReq("GET", w.Path, fmt.Sprintf("EIO=4&transport=polling&sid=nosuch%d", k)))
						}
					}
				} else {
					s.addCause(st.Cause2)
				}
				lw.stats["two-causes-same-instant"] = true
				posts := map[string]bool{"closePacket": true, "wrongHeartbeat": true, "garbage": true}
				if s.pc != nil && posts[st.Cause] && posts[st.Cause2] {
					// two simultaneous data requests of one polling client are themselves an overlap
					s.addCause("overlap")
				}
				appc := map[string]bool{"appClose": true, "appCloseNow": true}
				if s.pc != nil && ((posts[st.Cause] && appc[st.Cause2]) || (posts[st.Cause2] && appc[st.Cause])) {
					// a data request in flight while the application closes the session is aborted by the
					// server; its connection ending is then reported like a dropped request
					s.addCause("drop")
				}
				s.addCause(st.Cause)
				var wg sync.WaitGroup
				wg.Add(2)
				go func() { defer wg.Done(); f1() }()
				go func() { defer wg.Done(); f2() }()
				wg.Wait()
				Settle()
			case "gateOnClose":
				if s == nil || len(s.sr.Closes) > 0 || s.sr.Sock.ReadyState() != "open" {
					break
				}
				f1, f2 := lw.causeFn(s, st.Cause), lw.causeFn(s, st.Cause2)
				if f1 == nil || f2 == nil {
					break
				}
				gp := lw.arm("socket.OnClose.checked")
				s.addCause(st.Cause)
				f1()
				if st.Cause == "silence" {
					// the heartbeat expires on its own: advance to the deadline without servicing this session
					if lw.longHB {
						lw.advance(66 * time.Second)
					} else {
						lw.advance(lcPingInterval + lcPingTimeout + time.Second)
					}
				}
				Settle()
				if lw.parked(gp) {
					lw.stats["second-cause-inside-OnClose-window"] = true
					s.addCause(st.Cause2)
					done := spinRun(f2)
					lw.g.Release(gp)
					<-done
					Settle()
				} else {
					lw.disarm(gp)
				}
			case "gateClose":
				if s == nil || len(s.sr.Closes) > 0 || s.sr.Sock.ReadyState() != "open" {
					break
				}
				f2 := lw.causeFn(s, st.Cause)
				if f2 == nil {
					break
				}
				gp := lw.arm("socket.Close.checked")
				s.addCause("appClose")
				closer := make(chan struct{})
				go func() { s.sr.Sock.Close(false); close(closer) }()
				Settle()
				if lw.parked(gp) {
					lw.stats["cause-inside-Close-window"] = true
					s.addCause(st.Cause)
					done := spinRun(f2)
					Settle()
					lw.g.Release(gp)
					<-done
					<-closer
					Settle()
				} else {
					lw.disarm(gp)
					<-closer
				}
			case "traffic":
				if s == nil || s.sr == nil {
					break
				}
				if len(s.sr.Closes) == 0 && s.sr.Sock.ReadyState() == "open" {
					n := len(s.sr.Msgs)
					s.sendPkt(msgT("up"))
					w.AppSend(s.sr, msgT("down"), nil, true, 0)
					Settle()
					if len(s.causes) == 0 && len(s.sr.Msgs) != n+1 {
						lw.f03("%s: message from a healthy session's client was not delivered", what)
					}
				}
			case "upgrade":
				// a healthy polling session's client switches to websocket / webtransport by the book; the session
				// lives on over the new transport (and none of the attempt's timers may touch it later)
				if s == nil || s.sr == nil || s.pc == nil || len(s.causes) > 0 || len(s.sr.Closes) > 0 || s.silent || s.noPoll || s.vanished || s.sr.Sock.ReadyState() != "open" {
					break
				}
				lw.service(s)
				wc, tc, err := Upgrade(w, s.pc, st.Car)
				if err != nil || s.sr.Sock.Transport().Name() != st.Car {
					lw.f03("%s: conformant upgrade of a healthy session to %s: %v (transport now %s, closes %v)", what, st.Car, err, s.sr.Sock.Transport().Name(), s.sr.Closes)
					break
				}
				s.pc, s.wc, s.tc, s.car = nil, wc, tc, st.Car
				s.answered = 0
				if s.rev == 3 {
					// revision 3: the switch leaves the session without a heartbeat deadline until the client's next
					// ping (the statement of C07 excludes that stretch); a conformant client pings right away
					s.sendPkt(ctl(tPing))
					Settle()
					lw.service(s)
				}
				lw.stats["upgraded-session"] = true
			case "gateTableDelete":
				// the closing session's removal from the client table is held between its lock-free miss and
				// taking the table's lock (the session is new since the table was last consolidated), while other
				// requests look up unknown ids and iterate the table, which consolidates it
				hs := st
				hs.Kind = "hs"
				lw.handshake(hs)
				s = lw.sess[st.Sess]
				if s == nil || s.sr == nil || len(s.sr.Closes) > 0 || s.sr.Sock.ReadyState() != "open" {
					break
				}
				fn := lw.causeFn(s, st.Cause)
				if fn == nil {
					break
				}
				gp := lw.arm("map.LoadAndDelete.missed")
				s.addCause(st.Cause)
				done := spinRun(fn)
				for k := 0; k < 2000 && !lw.parked(gp); k++ {
					runtime.Gosched()
				}
				if lw.parked(gp) {
					lw.stats["table-consolidated-inside-delete-window"] = true
					for k := 0; k < 3; k++ {
						Do(w.Srv, NewReq("GET", w.Path, fmt.Sprintf("EIO=4&transport=polling&sid=nosuch%d", k)))
					}
					w.Srv.Clients().Keys()
					w.Srv.Clients().Len()
					lw.g.Release(gp)
				} else {
					lw.disarm(gp)
				}
				<-done
				Settle()
			case "gateTableLoad":
				// a fresh polling session's first request is held inside the table lookup, between its lock-free miss
				// (the entry is new since the table was last consolidated) and taking the table's lock, while
				// requests naming unknown ids and iterations consolidate the table: the session must be found
				hs := st
				hs.Kind, hs.Car = "hs", "polling"
				lw.handshake(hs)
				s = lw.sess[st.Sess]
				if s == nil || s.sr == nil || s.pc == nil || len(s.sr.Closes) > 0 {
					break
				}
				lw.g.mu.Lock()
				lw.g.stackPlan["map.Load.missed"] = "baseServer).Verify"
				lw.g.mu.Unlock()
				gp := GatePoint{"map.Load.missed", -1}
				ex := s.pc.StartPoll()
				Settle()
				if lw.parked(gp) {
					lw.stats["table-consolidated-inside-lookup-window"] = true
					for k := 0; k < 4; k++ {
						Do(w.Srv, NewReq("GET", w.Path, fmt.Sprintf("EIO=4&transport=polling&sid=nosuch%d", k)))
					}
					Settle()
					w.Srv.Clients().Keys()
					w.Srv.Clients().Len()
					lw.g.Release(gp)
					Settle()
					if snap := ex.Snap(); snap.Responded && snap.Status != 200 {
						lw.f04("%s: the request of live session #%d was answered %v: its lookup ran while other requests named unknown session ids", what, st.Sess, snap)
					}
				} else {
					lw.g.mu.Lock()
					delete(lw.g.stackPlan, "map.Load.missed")
					lw.g.mu.Unlock()
				}
			case "closeWindow":
				// the session closes while an upgrade candidate has been probed; an application close listener
				// (registered before the candidate appeared, so it runs before the library's own bookkeeping for
				// the attempt) stays busy while the candidate's upgrade packet, a client message and an
				// application Send arrive: the close event is final, none of them may produce an event
				if s == nil || s.sr == nil || s.pc == nil || len(s.sr.Closes) > 0 || s.sr.Sock.ReadyState() != "open" || s.sr.Sock.Upgrading() || s.sr.Sock.Upgraded() {
					break
				}
				var cand *WSClient
				closeIdx := -1
				var sm *SentMsg
				s.sr.Sock.Once("close", func(...any) {
					w.mu.Lock()
					closeIdx = len(s.sr.Events)
					w.mu.Unlock()
					if cand != nil {
						cand.SendPacket(ctl(tUpgrade), nil)
					}
					sm = w.AppSend(s.sr, msgT("sent from the close listener"), nil, true, 0)
					linger()
				})
				cand = &WSClient{W: w, O: ClientOpts{Rev: s.rev}, Sid: s.sid}
				if s.rev == 3 {
					cand.O.EIO = "3"
				}
				cand.Start()
				Settle()
				cand.Pump()
				if cand.HTTPStatus != 101 {
					lw.f03("%s: candidate for an open polling session refused (%d)", what, cand.HTTPStatus)
					break
				}
				cand.SendPacket(ctlD(tPing, "probe"), nil)
				Settle()
				fn := lw.causeFn(s, st.Cause)
				if fn == nil {
					cand.Drop()
					Settle()
					break
				}
				s.addCause(st.Cause)
				fn()
				Settle()
				if closeIdx >= 0 {
					lw.stats["upgrade-packet-inside-the-close-listener"] = true
					lw.stats["activity-after-close"] = true
					w.mu.Lock()
					evs := append([]Ev(nil), s.sr.Events[closeIdx:]...)
					w.mu.Unlock()
					for _, e := range evs {
						lw.f03("%s: while an application close listener was still running the candidate sent its upgrade packet and the application sent; afterwards event %v", what, e)
						break
					}
					if s.sr.Sock.Upgraded() || s.sr.Sock.Transport().Name() != "polling" {
						lw.f03("%s: a closed session switched to %q", what, s.sr.Sock.Transport().Name())
					}
					if sm != nil && len(sm.CbAt) > 0 {
						lw.f03("%s: callback of a Send issued inside the close listener ran", what)
					}
				}
				cand.Drop()
				Settle()
			case "sendWindow":
				// a close cause takes effect while the application is inside Send, after Send's own ready-state
				// test: a packetCreate listener (it runs on the sending goroutine) lets the cause happen and
				// waits until the server has dealt with it; everything Send does afterwards is "after the close"
				if s == nil || s.sr == nil || len(s.sr.Closes) > 0 || s.sr.Sock.ReadyState() != "open" {
					break
				}
				fn := lw.causeFn(s, st.Cause)
				if fn == nil {
					break
				}
				s.addCause(st.Cause)
				closeIdx := -1
				s.sr.Sock.Once("packetCreate", func(...any) {
					fn()
					Settle()
					if len(s.sr.Closes) > 0 {
						closeIdx = len(s.sr.Events)
					}
				})
				sm := w.AppSend(s.sr, msgT("sent while the session closes"), nil, true, 0)
				Settle()
				if closeIdx >= 0 {
					lw.stats["session-closed-inside-Send"] = true
					lw.stats["activity-after-close"] = true
					for _, e := range s.sr.Events[closeIdx:] {
						lw.f03("%s: the session closed (%v) while Send was between its ready-state test and its flush; afterwards event %v", what, s.sr.Closes, e)
						break
					}
					if len(sm.CbAt) > 0 {
						lw.f03("%s: callback of a Send overtaken by the close ran", what)
					}
				}
			case "sendAfterClose":
				if s == nil || s.sr == nil || len(s.sr.Closes) == 0 {
					break
				}
				lw.stats["activity-after-close"] = true
				nEv := len(s.sr.Events)
				sm := w.AppSend(s.sr, msgT("too late"), nil, true, 0)
				s.sendPkt(msgT("late"))
				s.sr.Sock.Close(false)
				s.sr.Sock.Close(true)
				Settle()
				time.Sleep(time.Second)
				Settle()
				if len(sm.CbAt) > 0 {
					lw.f03("%s: callback of a Send issued after the close event ran", what)
				}
				if len(s.sr.Events) != nEv {
					lw.f03("%s: %d events after the close event, first %v", what, len(s.sr.Events)-nEv, s.sr.Events[nEv])
				}
				// C04: a request naming the closed session is refused with 'Session ID unknown'
				// (whatever enabled transport, method and body the request names it with: the session id is looked
				// up before anything that depends on the kind of request)
				probeT := []string{"polling", "websocket", "websocket", "polling"}[(len(s.sr.Events)+i)%4]
				if !w.Srv.Opts().Transports().Has(probeT) {
					// a transport the server does not serve is refused as such, before any session is looked up
					probeT = "polling"
				}
				probeM := []string{"GET", "POST"}[(len(s.sr.Events)/4+i)%2]
				spec := NewReq(probeM, w.Path, "EIO=4&transport="+probeT+"&sid="+s.sid)
				if probeM == "POST" {
					spec.Header.Set("Content-Type", "text/plain;charset=UTF-8")
					spec.Body, spec.HasBody = []byte("4late"), true
				}
				ex := Do(w.Srv, spec)
				Settle()
				lw.stats["closed-session-named-with-transport-"+probeT] = true
				if snap := ex.Snap(); snap.Status != 400 || !strings.Contains(string(snap.Body), `"code":1`) {
					lw.f04("%s: %s request naming closed session %s with transport=%s answered %v, want 400 {code:1 Session ID unknown}", what, probeM, short(s.sid), probeT, snap)
				}
			case "advance":
				lw.advance(st.D)
			case "serverClose":
				lw.stats["server-close"] = true
				nlive := 0
				for k := 0; k < len(lw.sess); k++ {
					if x := lw.sess[k]; x != nil && x.sr != nil && len(x.sr.Closes) == 0 {
						x.addCause("serverClose")
						nlive++
					}
				}
				if nlive >= 2 {
					lw.stats["shutdown>=2-sessions"] = true
				}
				w.Srv.Close()
				Settle()
				if len(w.RegistryKeys()) != 0 || w.Srv.ClientsCount() != 0 {
					// (a session that was already closing gracefully, its close packet waiting for a poll, outlives the
					// shutdown by up to the close timeout: until it has closed it is live, registered and counted)
					lw.stats["session-outlives-the-shutdown"] = true
					lw.checkAll(what + " (right after the shutdown)")
					// sessions in 'closing' with a buffered close may legitimately still be finishing: let them
					time.Sleep(31 * time.Second)
					Settle()
				}
			}
			lw.serviceAll()
			lw.checkAll(what)
			if lw.fail03 != "" && lw.fail04 != "" {
				break
			}
		}
		// run every started close to completion, keep healthy sessions serviced
		if lw.longHB {
			lw.advance(70 * time.Second)
		} else {
			lw.advance(45 * time.Second)
		}
		for i := 0; i < len(lw.sess); i++ {
			s := lw.sess[i]
			if s == nil || s.sr == nil {
				continue
			}
			if len(s.causes) == 0 {
				if len(s.sr.Closes) != 0 || s.sr.Sock.ReadyState() != "open" {
					lw.f03("end: session #%d had no close cause but is %q (close events %v)", i, s.sr.Sock.ReadyState(), s.sr.Closes)
				}
				lw.stats["stayed-open"] = true
			} else {
				if len(s.sr.Closes) != 1 {
					lw.f03("end: session #%d had causes %v and left 'open' but emitted %d close events (state %q)", i, s.causes, len(s.sr.Closes), s.sr.Sock.ReadyState())
				}
				distinct := map[string]bool{}
				for _, c := range s.causes {
					distinct[c] = true
				}
				if len(distinct) >= 2 {
					lw.stats[">=2-causes-on-one-session"] = true
				}
			}
		}
		lw.checkAll("end")
		// in the end the network stack gives up on the connections of peers that vanished (retransmission /
		// idle timeout): once a connection is reported gone nothing of its session may be left behind
		for i := 0; i < len(lw.sess); i++ {
			if s := lw.sess[i]; s != nil && s.vanished {
				if s.wc != nil {
					s.wc.NetworkGivesUp()
				} else if s.tc != nil {
					s.tc.NetworkGivesUp()
				}
			}
		}
		Settle()
	})
	return lw, res
}

// curT is the *testing.T of the running test (bubble needs it).
var curT *testing.T

func lcClasses(lw *lcWorld) []string {
	var cl []string
	for k := range lw.stats {
		cl = append(cl, k)
	}
	sort.Strings(cl)
	return cl
}

func lcKnown() map[string]bool {
	return map[string]bool{
		sigDoubleClose:   isKnown("C03", sigDoubleClose),
		sigCloseBackward: isKnown("C03", sigCloseBackward),
		sigDiedInHS:      isKnown("C03", sigDiedInHS) || isKnown("C04", sigDiedInHS),
	}
}

func TestC03Lifecycle(t *testing.T) {
	curT = t
	col := NewCollector("TestC03Lifecycle",
		"rapid: histories of 2-14 steps over <=3 sessions (polling/websocket/webtransport, revision 3/4; heartbeat 5s/3s with clients that answer every ping): handshake, traffic, a close cause (peer close packet/frame, connection drop, overlapping poll, heartbeat in the wrong direction, undecodable packet, client falling silent, Close(false), Close(true)), two causes from two goroutines at the same instant, server shutdown, time advances (1ms..31s), activity after the close event (Send with callback, client packets, Close again, timers), an upgrade candidate's upgrade packet and an application Send arriving while an application close listener is still running, a session closed inside the application's connection listener, a close cause taking effect inside Send (between its ready-state test and its flush, placed there by a packetCreate listener); gated variants place a second cause inside OnClose's test-then-set window, a cause inside Close's window, and a connection drop between session construction and its registration; oracle: ready state never moves backwards (sampled at every event and quiescent point), the application is handed the session in state open, exactly one close event iff a cause occurred, its reason is one the injected causes map to, no event/callback after it, no close without a cause and such sessions are open at the end. non-trivial: >=2 causes on one session or at one instant or inside a window, a cause during the handshake, or activity after the close").Use(t)
	known := lcKnown()
	for _, gated := range []bool{false, true} {
		rapid.Check(t, func(rt *rapid.T) {
			steps := genLC(rt, gated, known, col)
			journal("C03 %v", steps)
			lw, res := runLC(steps)
			cl := lcClasses(lw)
			nt := lw.stats[">=2-causes-on-one-session"] || lw.stats["two-causes-same-instant"] || lw.stats["second-cause-inside-OnClose-window"] || lw.stats["cause-inside-Close-window"] || lw.stats["cause-during-handshake"] || lw.stats["activity-after-close"]
			col.Case(fmt.Sprint(steps), nt, map[string]any{"steps": fmt.Sprint(steps), "gated": gated}, cl...)
			res.rethrow()
			if lw.fail03 != "" {
				rt.Fatalf("%v\n%s", steps, clipStr(lw.fail03, 1500))
			}
			if res.Leak != "" {
				rt.Fatalf("%v: %s", steps, clipStr(res.Leak, 1500))
			}
		})
	}
	req := []string{"closed-inside-a-flush-listener-during-the-handshake", "upgraded-session", "close-timeout-before-the-heartbeat", "server-write-fails-before-its-reader-notices", "peer-stops-reading", "upgrade-packet-inside-the-close-listener", "closed-inside-the-connection-listener", "session-closed-inside-Send", "carrier.polling", "carrier.websocket", "carrier.webtransport", "two-causes-same-instant", ">=2-causes-on-one-session", "activity-after-close", "stayed-open", "server-close", "close-with-buffered-data-and-a-client-that-keeps-reading", "close-inside-a-packet-listener", "close-inside-a-data-listener"}
	if !known[sigDoubleClose] {
		req = append(req, "second-cause-inside-OnClose-window")
	}
	if !known[sigCloseBackward] {
		req = append(req, "cause-inside-Close-window")
	}
	if !known[sigDiedInHS] {
		req = append(req, "cause-during-handshake", "close-half-done-while-the-handshake-registers-the-session", "peer-gone-before-the-session-is-declared-open", "peer-gone-between-registration-and-the-server's-close-listener", "peer-gone-while-the-session-attaches-to-its-transport", "peer-says-goodbye-while-the-session-attaches-to-its-transport")
	}
	col.RequireClasses(t, req...)
}

func TestC04Registry(t *testing.T) {
	curT = t
	col := NewCollector("TestC04Registry",
		"rapid: the histories of TestC03Lifecycle (handshakes, every close cause, concurrent causes, shutdown, gated windows incl. a peer that disconnects between session construction and registry bookkeeping, and a closing session's removal from the table held between its lock-free miss and the table lock while lookups and iterations consolidate the table); oracle at every quiescent point: set(Clients().Keys()) == {sid created and not closed}, ClientsCount() == its size (never negative), every live session is loaded under its own Id(), a request naming a closed sid is answered 400 {code:1}. non-trivial: >=2 different causes closed sessions, a close during the handshake, or a shutdown with >=2 sessions").Use(t)
	known := lcKnown()
	for _, gated := range []bool{false, true} {
		rapid.Check(t, func(rt *rapid.T) {
			steps := genLC(rt, gated, known, col)
			journal("C04 %v", steps)
			lw, res := runLC(steps)
			cl := lcClasses(lw)
			kinds := map[string]bool{}
			for i := 0; i < len(lw.sess); i++ {
				if s := lw.sess[i]; s != nil && s.sr != nil && len(s.sr.Closes) > 0 {
					kinds[s.sr.Closes[0]] = true
				}
			}
			nt := len(kinds) >= 2 || lw.stats["cause-during-handshake"] || lw.stats["shutdown>=2-sessions"]
			col.Case(fmt.Sprint(steps), nt, map[string]any{"steps": fmt.Sprint(steps), "gated": gated}, cl...)
			res.rethrow()
			if lw.fail04 != "" {
				rt.Fatalf("%v\n%s", steps, clipStr(lw.fail04, 1500))
			}
			if res.Leak != "" {
				rt.Fatalf("%v: %s", steps, clipStr(res.Leak, 1500))
			}
		})
	}
	req := []string{"closed-session-named-with-transport-polling", "closed-session-named-with-transport-websocket", "server-close", "shutdown>=2-sessions", "activity-after-close", "table-consolidated-inside-delete-window", "table-consolidated-inside-lookup-window", "closed-inside-the-connection-listener", "server-write-fails-before-its-reader-notices", "peer-stops-reading"}
	if !known[sigDiedInHS] {
		req = append(req, "cause-during-handshake", "close-half-done-while-the-handshake-registers-the-session", "peer-gone-before-the-session-is-declared-open", "peer-gone-between-registration-and-the-server's-close-listener", "peer-gone-while-the-session-attaches-to-its-transport", "peer-says-goodbye-while-the-session-attaches-to-its-transport")
	}
	col.RequireClasses(t, req...)
}

// TestC04Ids: ids are unique within the process, never reused, URL-safe.
func TestC04Ids(t *testing.T) {
	col := NewCollector("TestC04Ids", "rapid: 1-16 goroutines x 1-2000 GenerateId calls; oracle: all ids of the whole test run distinct and matching ^[A-Za-z0-9_-]+$. non-trivial: >=2 goroutines").Use(t)
	var seen sync.Map
	re := regexp.MustCompile(`^[A-Za-z0-9_-]+$`)
	rapid.Check(t, func(rt *rapid.T) {
		g := rapid.IntRange(1, 16).Draw(rt, "goroutines")
		n := rapid.IntRange(1, 2000).Draw(rt, "calls")
		var bad sync.Map
		var wg sync.WaitGroup
		for i := 0; i < g; i++ {
			wg.Add(1)
			go func() {
				defer wg.Done()
				for j := 0; j < n; j++ {
					id, err := utils.Base64Id().GenerateId()
					if err != nil || !re.MatchString(id) {
						bad.Store("malformed:"+id, true)
					}
					if _, dup := seen.LoadOrStore(id, true); dup {
						bad.Store("duplicate:"+id, true)
					}
				}
			}()
		}
		wg.Wait()
		col.Case(fmt.Sprintf("%d/%d", g, n), g >= 2, map[string]any{"goroutines": g, "calls": n}, fmt.Sprintf("concurrent=%v", g >= 2))
		bad.Range(func(k, _ any) bool {
			rt.Fatalf("GenerateId: %v", k)
			return false
		})
	})
}

// TestC03Findings: deterministic demonstrations of the three repaired lifecycle defects.
const sigDrainAfterClose = "drain-events-after-a-flush-listener-closed-the-session"

func TestC03Findings(t *testing.T) {
	curT = t
	col := NewCollector("TestC03Findings", "deterministic gated histories: (a) heartbeat in the wrong direction parked inside OnClose's window + Close(true); (b) Close(false) parked inside its window + connection drop; (c) connection drop between session construction and registration (websocket and webtransport); (d) Close(true) from inside a listener of the flush event of an application Send; oracles of TestC03Lifecycle / TestC04Registry. every case is non-trivial").Use(t)
	type demo struct {
		sig   string
		prop  string
		steps []lcStep
	}
	for _, d := range []demo{
		{sigDoubleClose, "C03", []lcStep{{Kind: "hs", Sess: 0, Car: "websocket", Rev: 4}, {Kind: "gateOnClose", Sess: 0, Cause: "wrongHeartbeat", Cause2: "appCloseNow"}}},
		{sigDoubleClose, "C03", []lcStep{{Kind: "hs", Sess: 0, Car: "polling", Rev: 4}, {Kind: "gateOnClose", Sess: 0, Cause: "silence", Cause2: "appCloseNow"}}},
		{sigCloseBackward, "C03", []lcStep{{Kind: "hs", Sess: 0, Car: "websocket", Rev: 4}, {Kind: "gateClose", Sess: 0, Cause: "drop"}}},
		{sigCloseBackward, "C03", []lcStep{{Kind: "hs", Sess: 0, Car: "webtransport", Rev: 4}, {Kind: "gateClose", Sess: 0, Cause: "wrongHeartbeat"}}},
		{sigDiedInHS, "C03", []lcStep{{Kind: "gateHandshake", Sess: 0, Car: "websocket", Rev: 4, Cause: "drop"}}},
		{sigDiedInHS, "C04", []lcStep{{Kind: "gateHandshake", Sess: 0, Car: "webtransport", Rev: 4, Cause: "drop"}, {Kind: "advance", D: time.Second}}},
		{sigDrainAfterClose, "C03", []lcStep{{Kind: "hs", Sess: 0, Car: "websocket", Rev: 4}, {Kind: "cause", Sess: 0, Cause: "appCloseInFlushListener"}}},
		{sigDrainAfterClose, "C03", []lcStep{{Kind: "hs", Sess: 0, Car: "polling", Rev: 3}, {Kind: "traffic", Sess: 0}, {Kind: "cause", Sess: 0, Cause: "appCloseInFlushListener"}}},
		{sigDrainAfterClose, "C03", []lcStep{{Kind: "hs", Sess: 0, Car: "webtransport", Rev: 4}, {Kind: "cause", Sess: 0, Cause: "appCloseInFlushListener"}}},
	} {
		lw, res := runLC(d.steps)
		res.rethrow()
		fail := lw.fail03
		if d.prop == "C04" {
			fail = lw.fail04
		}
		if res.Leak != "" && fail == "" {
			fail = "bubble: " + clipStr(res.Leak, 300)
		}
		col.Case(fmt.Sprint(d.steps), true, map[string]any{"steps": fmt.Sprint(d.steps), "result": clipStr(fail, 300)}, d.sig)
		demoFinding(t, col, d.prop, d.sig, fail != "", fmt.Sprintf("%v: %s", d.steps, clipStr(fail, 400)))
	}
}

package harness

// C09 — no client input can crash, hang or starve the server; faults stay in-session.
//
//  (a) TestC09Adversarial: grammar-based client scripts with mutated fields,
//      a canary session that must keep round-tripping after every step.
//  (b) fuzz_test.go: native fuzz targets with the same oracle inside
//      (thorough tier; the quick tier replays the committed corpus).
//  (c) TestC09WorkProportional: metamorphic test of the length-prefixed
//      formats: inflating only the declared length must not inflate the work.

import (
	"os"
	"bytes"
	"encoding/binary"
	"fmt"
	"sort"
	"strings"
	"testing"
	"time"

	"github.com/zishang520/engine.io/v2/config"
	"github.com/zishang520/engine.io/v2/types"
	"pgregory.net/rapid"
)

const (
	sigNilPingTimer = "heartbeat-on-mismatched-revision-dereferences-nil-timer"
	sigWTNullHS     = "webtransport-handshake-0null-nil-dereference"
	sigV3LengthSpin = "v3-payload-inflated-length-prefix-spins"
)

type advStep struct {
	Kind string
	Arg  string
	Raw  []byte
	N    int
}

func (s advStep) String() string {
	if len(s.Raw) > 0 {
		return fmt.Sprintf("%s(%s,%q)", s.Kind, s.Arg, clip(s.Raw, 40))
	}
	return fmt.Sprintf("%s(%s,%d)", s.Kind, s.Arg, s.N)
}

type advCase struct {
	Carrier string // offender's transport: polling | jsonp | websocket | webtransport
	Rev     int
	Steps   []advStep
}

var hostileBodies = [][]byte{
	[]byte(""), []byte("0"), []byte("1"), []byte("2"), []byte("3"), []byte("4"), []byte("5"), []byte("6"), []byte("7"), []byte("b"), []byte("b4"), []byte("bnot base64!"),
	[]byte("0null"), []byte("0{}"), []byte(`0{"sid":null}`), []byte(`0{"sid":123}`), []byte(`0[]`), []byte(`0"x"`), []byte("0{\"sid\":\""), []byte("2probe"), []byte("3probe"), []byte("5"),
	[]byte("99999999999:4a"), []byte("18446744073709551616:4"), []byte("-1:4"), []byte("1:"), []byte(":"), []byte("4:4a"), []byte("1e3:4"), []byte("0:"), []byte("3:4é"), []byte("2:4\xff"),
	[]byte("\x1e"), []byte("\x1e\x1e\x1e"), []byte("4a\x1e"), []byte("\x1e4a"), []byte("4\xc3"), []byte("\xff\xfe\xfd"), []byte("\x00\x01\xff"), []byte("\x00\x09\x09\x09\x09\x09\x09\x09\x09\x09\xff4"), []byte("\x01\xff"), []byte("\x00\xff"), []byte("\x02\x01\xff4"),
	[]byte("0\xfd\t\xff"), []byte("\x00\xfd\x09\xff4"), []byte("\x01-\xff"), []byte("\x00\x2d\x31\xff"), []byte("\x00\x01"), []byte("\x01\x09\x09\xff\x04"), bytes.Repeat([]byte{0xff}, 40), bytes.Repeat([]byte("9"), 400),
	[]byte("d="), []byte("d=4a"), []byte("d=%"), []byte("d=%zz"), []byte("x=1&d=4a&d=4b"), []byte("d=" + strings.Repeat("\\n", 50)), []byte("d=1:4\\\\n"),
}

func genAdvRaw(rt *rapid.T, l string) []byte {
	switch rapid.IntRange(0, 3).Draw(rt, l+".rk") {
	case 0:
		return rapid.SliceOfN(rapid.Byte(), 0, 40).Draw(rt, l+".bytes")
	case 1:
		// mutate a hostile constant
		b := append([]byte(nil), rapid.SampledFrom(hostileBodies).Draw(rt, l+".h")...)
		if len(b) > 0 && rapid.Bool().Draw(rt, l+".flip") {
			i := rapid.IntRange(0, len(b)-1).Draw(rt, l+".i")
			b[i] ^= byte(1 << rapid.IntRange(0, 7).Draw(rt, l+".bit"))
		}
		return b
	default:
		return rapid.SampledFrom(hostileBodies).Draw(rt, l+".h2")
	}
}

var hostileHeaderNames = []string{"Accept-Encoding", "Accept-Encoding", "User-Agent", "Origin", "Content-Type", "Cookie", "Host", "Connection", "Upgrade", "Sec-Websocket-Key", "X-Forwarded-For"}

var hostileHeaderValues = map[string][]string{
	"Accept-Encoding":   {"gzip;q", "gzip;", "gzip;q=", "gzip;=", "gzip;q=abc", ";q", ";", ",", "gzip;q;q;q", "br;q=1;q", "deflate;q=0.0.0", "gzip;q=-1", "gzip;q=1e400", "zstd ; q", strings.Repeat("gzip;q,", 500), "gzip\tq", "\xff\xfe", "*;q", "identity;q=0, *;q=0"},
	"User-Agent":        {"", "Mozilla/5.0 (compatible;MSIE 9.0; Windows NT 6.1; Trident/5.0)", "Trident/", ";MSIE", strings.Repeat("A", 20000), "\xff"},
	"Origin":            {"", "null", "http://a\x7fb", "http://\x00", strings.Repeat("http://x", 3000), "http://ü.example", "://", "*"},
	"Content-Type":      {"", ";", "application/octet-stream;", "APPLICATION/OCTET-STREAM", "text/plain;charset", "application/x-www-form-urlencoded;;;", strings.Repeat("a/b;", 2000)},
	"Cookie":            {"io=", "io=;;;", "=", strings.Repeat("io=x; ", 2000), "io=\xff"},
	"Host":              {"", ":", "[::1", "a:b:c", strings.Repeat("h", 5000)},
	"Connection":        {"upgrade", "Upgrade, keep-alive", "close", ""},
	"Upgrade":           {"websocket", "WebSocket", "h2c", ""},
	"Sec-Websocket-Key": {"", "x", strings.Repeat("A", 1000)},
	"X-Forwarded-For":   {"", "1.2.3.4, 5.6.7.8", "\xff", strings.Repeat("1.1.1.1,", 2000)},
}

// (control bytes only in Origin, whose well-formedness the engine checks itself; net/http refuses them elsewhere)
func unescapeHostile(s string) string { return s }

func genC09(rt *rapid.T, known map[string]bool, col *Collector) advCase {
	c := advCase{}
	c.Carrier = rapid.SampledFrom([]string{"polling", "polling", "jsonp", "websocket", "webtransport"}).Draw(rt, "carrier")
	c.Rev = 4
	if c.Carrier != "webtransport" && rapid.IntRange(0, 2).Draw(rt, "rev3") == 0 {
		c.Rev = 3
	}
	n := rapid.IntRange(1, 10).Draw(rt, "nsteps")
	for i := 0; i < n; i++ {
		l := fmt.Sprintf("s%d", i)
		kinds := []string{"rawBody", "rawBody", "rawFrame", "rawFrame", "heartbeat", "badQuery", "badMethod", "oversize", "candidate", "candidate", "wtHandshake", "repeatProbe", "abort", "wait", "validTraffic", "hostileHeaders", "hostileHeaders"}
		st := advStep{Kind: rapid.SampledFrom(kinds).Draw(rt, l+".kind")}
		switch st.Kind {
		case "rawBody":
			st.Raw = genAdvRaw(rt, l)
			st.Arg = rapid.SampledFrom([]string{"text/plain;charset=UTF-8", "application/octet-stream", "application/x-www-form-urlencoded", "", "text/html", "application/json"}).Draw(rt, l+".ct")
			if known[sigV3LengthSpin] && c.Rev == 3 && looksLikeHugeV3Length(st.Raw) {
				col.Exclude("revision-3 payload with an inflated length prefix (known finding " + sigV3LengthSpin + ")")
				st.Raw = []byte("4ok")
			}
		case "rawFrame":
			st.Raw = genAdvRaw(rt, l)
			st.Arg = rapid.SampledFrom([]string{"text", "binary", "cont", "ping", "pong", "reserved", "fragments", "huge-length", "bad-utf8", "unmasked"}).Draw(rt, l+".ft")
		case "heartbeat":
			st.Arg = rapid.SampledFrom([]string{"ping", "pong", "pingprobe", "pongprobe"}).Draw(rt, l+".hb")
		case "badQuery":
			st.Arg = rapid.SampledFrom([]string{"EIO=&transport=polling", "transport=polling&EIO=4&sid=", "EIO=4&transport=polling&sid=%00", "EIO=4&transport=polling&j=" + strings.Repeat("9", 300), "EIO=4&transport=polling&b64=&b64=1", "EIO=9999999999999999999&transport=polling", "%zz", "EIO=4&transport=polling&sid=" + strings.Repeat("A", 5000), "transport=websocket&EIO=4", ";;;&&&===", "EIO=4&transport=polling&sid=__proto__"}).Draw(rt, l+".q")
		case "badMethod":
			st.Arg = rapid.SampledFrom([]string{"PUT", "DELETE", "OPTIONS", "HEAD", "PATCH", "get", "CONNECT", "TRACE"}).Draw(rt, l+".m")
		case "oversize":
			st.N = rapid.SampledFrom([]int{1_000_001, 2_000_000}).Draw(rt, l+".n")
			st.Arg = rapid.SampledFrom([]string{"declared", "chunked"}).Draw(rt, l+".decl")
		case "candidate":
			// upgrade attempts with mismatched revision / transport and then heartbeats
			st.Arg = rapid.SampledFrom([]string{"ws-eio3", "ws-eio4", "ws-noeio", "wt", "wt-noeio", "wt-eio3"}).Draw(rt, l+".cand")
			st.N = rapid.IntRange(0, 3).Draw(rt, l+".then")
			if known[sigNilPingTimer] && (st.Arg == "ws-eio3" || st.Arg == "ws-noeio" || st.Arg == "wt-noeio" || st.Arg == "wt-eio3") {
				col.Exclude("candidate with a revision other than the session's (known finding " + sigNilPingTimer + ")")
				st.Arg = "ws-eio4"
			}
		case "wtHandshake":
			st.Raw = rapid.SampledFrom([][]byte{[]byte("0null"), []byte("0{}"), []byte(`0{"sid":null}`), []byte(`0{"sid":""}`), []byte(`0[]`), []byte(`0 `), []byte(`0{"sid":1}`), []byte("1"), []byte(""), []byte("0{"), []byte("4hello"), {0xff}, []byte(`0"str"`), []byte("0true")}).Draw(rt, l+".hs")
			st.Arg = rapid.SampledFrom([]string{"text", "binary", "truncated", "drop"}).Draw(rt, l+".how")
			if known[sigWTNullHS] && bytes.HasPrefix(st.Raw, []byte("0null")) {
				col.Exclude("WebTransport handshake packet 0null (known finding " + sigWTNullHS + ")")
				st.Raw = []byte("0{}")
			}
		case "repeatProbe":
			st.N = rapid.IntRange(2, 6).Draw(rt, l+".n")
			st.Arg = rapid.SampledFrom([]string{"abandon", "complete"}).Draw(rt, l+".end")
		case "wait":
			st.N = rapid.SampledFrom([]int{1, 100, 1000, 11000}).Draw(rt, l+".ms")
		case "hostileHeaders":
			// header name + value of the next requests; N: size of the message the application has queued for
			// the offender (a response above the compression threshold takes the content-coding path)
			st.Arg = rapid.SampledFrom(hostileHeaderNames).Draw(rt, l+".hn")
			st.Raw = []byte(rapid.SampledFrom(hostileHeaderValues[st.Arg]).Draw(rt, l+".hv"))
			st.N = rapid.SampledFrom([]int{0, 10, 1023, 1024, 5000}).Draw(rt, l+".queued")
		}
		c.Steps = append(c.Steps, st)
	}
	return c
}

func looksLikeHugeV3Length(b []byte) bool {
	// binary payload form: string-packet flag, then 7+ digit bytes (a declared length >= 10^6) before 0xff
	if len(b) > 1 && b[0] == 0 {
		k := 0
		for _, c := range b[1:] {
			if c <= 9 {
				k++
				continue
			}
			break
		}
		return k >= 7
	}
	return false
}

type advWorld struct {
	w           *World
	canary      *PollClient
	canarySR    *SessRec
	seq         int
	exch        []*Exchange // every HTTP exchange of the offender
	stats       map[string]bool
	canaryPongs int
}

func (aw *advWorld) canaryOK(what string) string {
	aw.seq++
	w := aw.w
	n := len(aw.canarySR.Msgs)
	up := fmt.Sprintf("canary-up-%d", aw.seq)
	ex := aw.canary.StartPost([]Pkt{msgT(up)}, false)
	Settle()
	if s := ex.Snap(); s.Status != 200 || len(aw.canarySR.Msgs) != n+1 || string(aw.canarySR.Msgs[n].Data) != up {
		return fmt.Sprintf("%s: another session was disturbed: its data request -> %v, messages %d -> %d, closes %v", what, s, n, len(aw.canarySR.Msgs), aw.canarySR.Closes)
	}
	down := fmt.Sprintf("canary-down-%d", aw.seq)
	w.AppSend(aw.canarySR, msgT(down), nil, false, 0)
	if aw.canary.Poll == nil {
		aw.canary.StartPoll()
	}
	Settle()
	got := aw.canary.Pump()
	ok := false
	for _, p := range got {
		if p.Type == tMessage && string(p.Data) == down {
			ok = true
		}
	}
	if !ok || len(aw.canarySR.Closes) != 0 {
		return fmt.Sprintf("%s: another session was disturbed: it did not receive its message (got %v, closes %v, client errors %v)", what, got, aw.canarySR.Closes, aw.canary.Errs)
	}
	return ""
}

func (aw *advWorld) do(spec ReqSpec) *Exchange {
	e := Do(aw.w.Srv, spec)
	aw.exch = append(aw.exch, e)
	return e
}

func runC09(c advCase) (fail string, stats map[string]bool) {
	stats = map[string]bool{}
	o := config.DefaultServerOptions()
	o.SetAllowEIO3(true)
	o.SetTransports(types.NewSet("polling", "websocket", "webtransport"))
	o.SetPingInterval(5 * time.Second)
	o.SetPingTimeout(60 * time.Second)
	o.SetUpgradeTimeout(3 * time.Second)
	w := NewWorld(o)
	aw := &advWorld{w: w, stats: stats}
	var wtClients []*WTClient
	var wsClients []*WSClient
	defer func() {
		// the clients go away; then nothing of theirs may be left behind
		for _, e := range aw.exch {
			e.Abort()
		}
		for _, c := range wsClients {
			c.Drop()
		}
		for _, c := range wtClients {
			c.Drop()
		}
		Settle()
		w.Teardown()
	}()
	cs, why := doHandshake(w, c06HS{Carrier: "polling", EIO: "4"})
	if cs == nil {
		return "harness: canary: " + why, stats
	}
	aw.canary, aw.canarySR = cs.pc, w.Get(cs.pc.Sid)
	eio := "4"
	if c.Rev == 3 {
		eio = "3"
	}
	off, why := doHandshake(w, c06HS{Carrier: c.Carrier, EIO: eio, B64: c.Carrier == "jsonp", J: "2"})
	if off == nil {
		return "harness: offender handshake: " + why, stats
	}
	if off.wc != nil {
		wsClients = append(wsClients, off.wc)
	}
	if off.tc != nil {
		wtClients = append(wtClients, off.tc)
	}
	offSR := w.Get(off.open.Sid)
	regOthers := func() string { return aw.canary.Sid }
	_ = regOthers
	sid := off.open.Sid
	for i, st := range c.Steps {
		what := fmt.Sprintf("step %d %v", i, st)
		switch st.Kind {
		case "rawBody":
			q := "EIO=" + eio + "&transport=polling&sid=" + sid
			if off.pc != nil {
				q = off.pc.query(true)
			}
			spec := NewReq("POST", w.Path, q)
			if st.Arg != "" {
				spec.Header.Set("Content-Type", st.Arg)
			}
			spec.Body, spec.HasBody = st.Raw, true
			aw.do(spec)
			stats["mutated-body"] = true
		case "rawFrame":
			switch {
			case off.wc != nil:
				key := [4]byte{1, 2, 3, 4}
				switch st.Arg {
				case "text":
					off.wc.SendRaw(buildWSFrame(opText, true, false, st.Raw, true, key, 0))
				case "binary":
					off.wc.SendRaw(buildWSFrame(opBinary, true, false, st.Raw, true, key, 0))
				case "cont":
					off.wc.SendRaw(buildWSFrame(opCont, true, false, st.Raw, true, key, 0))
				case "ping":
					off.wc.SendRaw(buildWSFrame(opPing, true, false, clip(st.Raw, 125), true, key, 0))
				case "pong":
					off.wc.SendRaw(buildWSFrame(opPong, true, false, clip(st.Raw, 125), true, key, 0))
				case "reserved":
					off.wc.SendRaw(buildWSFrame(3, true, true, st.Raw, true, key, 0))
				case "fragments":
					off.wc.SendRaw(buildWSFrame(opText, false, false, st.Raw, true, key, 0))
					off.wc.SendRaw(buildWSFrame(opText, false, false, st.Raw, true, key, 0))
				case "huge-length":
					hdr := []byte{0x82, 0x80 | 127}
					var l8 [8]byte
					binary.BigEndian.PutUint64(l8[:], 1<<62)
					off.wc.SendRaw(append(append(hdr, l8[:]...), key[:]...))
				case "bad-utf8":
					off.wc.SendRaw(buildWSFrame(opText, true, false, append([]byte("4"), 0xff, 0xfe, 0xc3), true, key, 0))
				case "unmasked":
					off.wc.SendRaw(buildWSFrame(opText, true, false, st.Raw, false, key, 0))
				}
			case off.tc != nil:
				switch st.Arg {
				case "huge-length":
					off.tc.SendFrameRaw([]byte{0xff, 0xff, 0xff, 0xff, 0xff, 0xff, 0xff, 0xff, 0xff})
				case "fragments", "cont":
					off.tc.SendFrameRaw(st.Raw) // raw bytes straight into the stream
				default:
					off.tc.SendFrameRaw(wtEncodeForm(st.Arg == "binary", st.Raw, len(st.Raw)%3))
				}
			default:
				continue
			}
			stats["mutated-frame"] = true
		case "heartbeat":
			var p Pkt
			switch st.Arg {
			case "ping":
				p = ctl(tPing)
			case "pong":
				p = ctl(tPong)
			case "pingprobe":
				p = ctlD(tPing, "probe")
			default:
				p = ctlD(tPong, "probe")
			}
			switch {
			case off.pc != nil:
				e := off.pc.StartPost([]Pkt{p}, false)
				aw.exch = append(aw.exch, e)
			case off.wc != nil:
				off.wc.SendPacket(p, nil)
			default:
				off.tc.SendPacket(p)
			}
			stats["heartbeat-any-phase"] = true
		case "badQuery":
			aw.do(NewReq("GET", w.Path, st.Arg))
			spec := NewReq("POST", w.Path, st.Arg)
			spec.Body, spec.HasBody = []byte("4x"), true
			aw.do(spec)
			stats["mutated-query"] = true
		case "badMethod":
			aw.do(NewReq(st.Arg, w.Path, "EIO="+eio+"&transport=polling&sid="+sid))
			aw.do(NewReq(st.Arg, w.Path, "EIO=4&transport=polling"))
		case "oversize":
			spec := NewReq("POST", w.Path, "EIO="+eio+"&transport=polling&sid="+sid)
			spec.Header.Set("Content-Type", "text/plain;charset=UTF-8")
			spec.Body, spec.HasBody = bytes.Repeat([]byte("4"), st.N), true
			if st.Arg == "chunked" {
				spec.ContentLength = -1
			}
			aw.do(spec)
		case "candidate":
			// a candidate transport for the offender's session whose revision may not match the session's
			if c.Carrier != "polling" && c.Carrier != "jsonp" {
				continue
			}
			var send func(Pkt)
			switch st.Arg {
			case "ws-eio3", "ws-eio4", "ws-noeio":
				wc := &WSClient{W: w, O: ClientOpts{Rev: 4, EIO: map[string]string{"ws-eio3": "3", "ws-eio4": "4", "ws-noeio": ""}[st.Arg], NoEIO: st.Arg == "ws-noeio"}, Sid: sid}
				wc.Start()
				wsClients = append(wsClients, wc)
				Settle()
				send = func(p Pkt) { wc.SendPacket(p, nil) }
			default:
				tc := &WTClient{W: w, O: ClientOpts{Rev: 4, EIO: map[string]string{"wt": "4", "wt-noeio": "", "wt-eio3": "3"}[st.Arg], NoEIO: st.Arg == "wt-noeio"}, Sid: sid}
				tc.Start()
				wtClients = append(wtClients, tc)
				Settle()
				tc.OpenBidi()
				tc.SendHandshake()
				Settle()
				send = func(p Pkt) { tc.SendPacket(p) }
			}
			stats["mismatched-candidate"] = true
			send(ctlD(tPing, "probe"))
			Settle()
			if st.N >= 1 {
				time.Sleep(200 * time.Millisecond)
				Settle()
				if off.pc != nil {
					off.pc.Pump()
				}
				send(ctl(tUpgrade))
				Settle()
			}
			if st.N >= 2 {
				// heartbeats of either direction on the (possibly upgraded) transport, before any timer of that kind exists
				send(ctl(tPing))
				Settle()
				send(ctl(tPong))
				Settle()
			}
			if st.N >= 3 {
				time.Sleep(6 * time.Second)
				Settle()
				send(ctl(tPong))
				send(ctl(tPing))
				Settle()
			}
		case "wtHandshake":
			tc := &WTClient{W: w, O: ClientOpts{Rev: 4}}
			tc.Start()
			wtClients = append(wtClients, tc)
			Settle()
			if st.Arg == "drop" {
				tc.Drop()
				Settle()
				break
			}
			tc.OpenBidi()
			fr := wtEncode(st.Arg == "binary", st.Raw)
			if st.Arg == "truncated" && len(fr) > 1 {
				fr = fr[:len(fr)-1]
			}
			tc.SendFrameRaw(fr)
			Settle()
			stats["mutated-wt-handshake"] = true
		case "repeatProbe":
			if off.pc == nil {
				continue
			}
			wc := &WSClient{W: w, O: ClientOpts{Rev: c.Rev, EIO: eio}, Sid: sid}
			wc.Start()
			wsClients = append(wsClients, wc)
			Settle()
			for k := 0; k < st.N; k++ {
				wc.SendPacket(ctlD(tPing, "probe"), nil)
				Settle()
			}
			stats["repeated-probe"] = true
			if st.Arg == "complete" {
				time.Sleep(150 * time.Millisecond)
				Settle()
				off.pc.Pump()
				wc.SendPacket(ctl(tUpgrade), nil)
				Settle()
			} else {
				wc.Drop()
				Settle()
			}
		case "abort":
			for _, e := range aw.exch {
				e.Abort()
			}
			Settle()
		case "wait":
			// the canary answers its pings while time passes
			d := time.Duration(st.N) * time.Millisecond
			for d > 0 {
				stp := time.Second
				if d < stp {
					stp = d
				}
				time.Sleep(stp)
				d -= stp
				Settle()
				aw.canary.Pump()
				pings := 0
				for _, p := range aw.canary.Recv {
					if p.Type == tPing {
						pings++
					}
				}
				if pings > aw.canaryPongs {
					aw.canaryPongs = pings
					aw.canary.StartPost([]Pkt{ctl(tPong)}, false)
					Settle()
				}
				if aw.canary.Poll == nil {
					aw.canary.StartPoll()
					Settle()
				}
			}
		case "hostileHeaders":
			// the offender's next requests carry a header of an odd shape: a poll of its own session (with a
			// message of N bytes queued for it, so that the response may take the compression path), a data
			// request, and a fresh handshake
			hv := unescapeHostile(string(st.Raw))
			q := "EIO=" + eio + "&transport=polling&sid=" + sid
			if off.pc != nil {
				q = off.pc.query(true)
				if st.N > 0 && len(offSR.Closes) == 0 {
					if off.pc.Poll != nil {
						// a poll is pending: let it carry something away first, so that the message below waits
						// for the request with the odd header
						offSR.Sock.Send(strings.NewReader("go"), nil, nil)
						Settle()
						off.pc.Pump()
					}
					offSR.Sock.Send(strings.NewReader(strings.Repeat("z", st.N)), nil, nil)
					Settle()
					stats["hostile-header-on-a-poll-with-data-waiting"] = true
				}
			}
			for k, m := range []string{"GET", "POST", "GET"} {
				spec := NewReq(m, w.Path, q)
				if k == 2 {
					spec = NewReq("GET", w.Path, "EIO=4&transport=polling")
				}
				if m == "POST" {
					spec.Header.Set("Content-Type", "text/plain;charset=UTF-8")
					spec.Body, spec.HasBody = []byte("4h"), true
				}
				spec.Header[st.Arg] = []string{hv}
				if st.Arg == "Accept-Encoding" && k == 0 && i%2 == 1 {
					// a second header line as well: net/http keeps both
					spec.Header[st.Arg] = []string{hv, "gzip"}
				}
				e := aw.do(spec)
				Settle()
				if os.Getenv("VERIF_DEBUG") != "" {
					fmt.Println("hostile", m, spec.Query, spec.Header, e.Snap())
				}
			}
			stats["hostile-header"] = true
			stats["hostile-header."+st.Arg] = true
			if off.pc != nil {
				// whatever the poll above fetched is not the client actor's business any more
				off.pc.Poll = nil
			}
		case "validTraffic":
			if len(offSR.Closes) == 0 {
				switch {
				case off.pc != nil:
					e := off.pc.StartPost([]Pkt{msgT("fine")}, false)
					aw.exch = append(aw.exch, e)
				case off.wc != nil:
					off.wc.SendPacket(msgT("fine"), nil)
				default:
					off.tc.SendPacket(msgT("fine"))
				}
			}
		}
		Settle()
		var all []*Exchange
		all = append(all, aw.exch...)
		for _, c := range wsClients {
			all = append(all, c.Ex)
		}
		for _, c := range wtClients {
			all = append(all, c.Ex)
		}
		for _, e := range all {
			if e == nil {
				continue
			}
			if s := e.Snap(); s.Panic != nil {
				return fmt.Sprintf("%s: a request handler panicked: %v\n%s", what, s.Panic, clipStr(s.PanicStack, 1200)), stats
			}
		}
		if f := aw.canaryOK(what); f != "" {
			return f, stats
		}
		if len(offSR.Closes) > 1 {
			return fmt.Sprintf("%s: the offending session emitted %d close events", what, len(offSR.Closes)), stats
		}
		if len(offSR.Closes) == 1 {
			stats["offender-closed"] = true
		} else {
			stats["offender-survived"] = true
		}
	}
	// every handler whose client has gone must return (checked after the deferred client teardown by the bubble's leak detection)
	for _, e := range aw.exch {
		e.Abort()
	}
	Settle()
	for _, e := range aw.exch {
		if s := e.Snap(); !s.Returned {
			return fmt.Sprintf("handler of %s %s is still running after its client went away", e.Method, clipStr(e.URL, 120)), stats
		}
	}
	return "", stats
}

func TestC09Adversarial(t *testing.T) {
	col := NewCollector("TestC09Adversarial",
		"rapid: an offending client (polling/JSONP/WebSocket/WebTransport, revision 3/4) runs 1-10 steps drawn from: request bodies of arbitrary bytes / hostile constants (inflated or negative length prefixes, truncated binary framing, invalid UTF-8/base64, separators only, JSON oddities) under six content types, arbitrary WebSocket frames (reserved opcodes, lone continuations, unfinished fragments, 2^62 declared length, invalid UTF-8, unmasked) and raw WebTransport stream bytes, heartbeats of both directions in every phase, malformed query strings and methods, oversized declared/chunked bodies, upgrade candidates whose revision does not match the session's followed by upgrade and heartbeats, malformed WebTransport handshake packets, repeated probes, aborted requests, waits; next to it a canary session exchanges a message in both directions after every step; oracle: no handler panics (a panic in a reader/timer goroutine kills the test process and is attributed by the driver from the journal), the canary is never disturbed, the offender closes at most once, every handler returns once its client is gone and no goroutine is left when all clients are gone. non-trivial: a script with a mutated field the server did not refuse at admission").Use(t)
	known := map[string]bool{sigNilPingTimer: isKnown("C09", sigNilPingTimer), sigWTNullHS: isKnown("C09", sigWTNullHS), sigV3LengthSpin: isKnown("C09", sigV3LengthSpin)}
	rapid.Check(t, propC09(t, col, known))
	col.RequireClasses(t, "mutated-body", "mutated-frame", "mismatched-candidate", "mutated-wt-handshake", "repeated-probe", "heartbeat-any-phase", "offender-closed", "offender-survived", "hostile-header", "hostile-header.Accept-Encoding", "hostile-header.User-Agent", "hostile-header-on-a-poll-with-data-waiting")
}

// ---- (c) work proportional to the bytes received --------------------------------

// postTime posts body to a fresh revision-3 polling session and returns the
// wall-clock time the handler took (minimum of 3).
func postTime(t *testing.T, body []byte, ct string) time.Duration {
	best := time.Duration(1<<62 - 1)
	for rep := 0; rep < 3; rep++ {
		o := config.DefaultServerOptions()
		o.SetAllowEIO3(true)
		w := NewWorld(o)
		pc := &PollClient{W: w, O: ClientOpts{Rev: 3, EIO: "3"}}
		e := pc.StartHandshake()
		waitReturned(e)
		if err := pc.FinishHandshake(); err != nil {
			t.Fatalf("handshake: %v", err)
		}
		t0 := time.Now()
		ex := pc.StartPostRaw(body, ct, nil)
		waitReturned(ex)
		d := time.Since(t0)
		if d < best {
			best = d
		}
		w.Srv.Close()
	}
	return best
}

func TestC09WorkProportional(t *testing.T) {
	col := NewCollector("TestC09WorkProportional",
		"metamorphic: for the two length-prefixed inbound formats of revision 3 (string payload '<n>:<packet>' and binary payload <0|1><digits of n><0xff><packet>) the same few bytes are posted with the declared length n inflated to 10^3 and to 10^6 (nothing else changes, no extra bytes are sent); oracle: the handler's time for 10^6 is less than 50x its time for 10^3 (minimum of 3 runs each, times below 0.2ms counted as 0.2ms): work must follow the bytes received, not the number the client wrote. A relative measure: machine load cancels out; no absolute time budget is a verdict. every case is non-trivial").Use(t)
	known := isKnown("C09", sigV3LengthSpin)
	floor := 200 * time.Microsecond
	type fmtCase struct {
		name string
		ct   string
		mk   func(n int) []byte
	}
	digits := func(n int) []byte {
		var out []byte
		for _, c := range fmt.Sprint(n) {
			out = append(out, byte(c-'0'))
		}
		return out
	}
	cases := []fmtCase{
		{"v3 string payload", "text/plain;charset=UTF-8", func(n int) []byte { return []byte(fmt.Sprintf("%d:4a", n)) }},
		{"v3 binary payload, string packet", "application/octet-stream", func(n int) []byte { return append(append([]byte{0}, digits(n)...), 0xff, '4', 'a') }},
		{"v3 binary payload, binary packet", "application/octet-stream", func(n int) []byte { return append(append([]byte{1}, digits(n)...), 0xff, 4, 'a') }},
	}
	var bad []string
	for _, fc := range cases {
		small := postTime(t, fc.mk(1000), fc.ct)
		big := postTime(t, fc.mk(1000000), fc.ct)
		if small < floor {
			small = floor
		}
		if big < floor {
			big = floor
		}
		ratio := float64(big) / float64(small)
		col.Case(fc.name, true, map[string]any{"format": fc.name, "t(10^3)": small.String(), "t(10^6)": big.String(), "ratio": ratio}, "format")
		if ratio >= 50 {
			bad = append(bad, fmt.Sprintf("%s: declared length 10^3 -> %v, 10^6 -> %v (x%.0f) for the same 4-9 bytes", fc.name, small, big, ratio))
		}
	}
	demoFinding(t, col, "C09", sigV3LengthSpin, len(bad) > 0, strings.Join(bad, "; "))
	_ = known
}

// propC09 is the property body of TestC09Adversarial, shared with the native fuzz target (rapid.MakeFuzz).
func propC09(t *testing.T, col *Collector, known map[string]bool) func(rt *rapid.T) {
	return func(rt *rapid.T) {
		c := genC09(rt, known, col)
		journal("C09 %v", c)
		var fail string
		var stats map[string]bool
		res := bubble(t, func() { fail, stats = runC09(c) })
		var cl []string
		for k := range stats {
			cl = append(cl, k)
		}
		sort.Strings(cl)
		nt := stats["mutated-body"] || stats["mutated-frame"] || stats["mismatched-candidate"] || stats["mutated-wt-handshake"] || stats["repeated-probe"] || stats["heartbeat-any-phase"]
		col.Case(fmt.Sprint(c), nt, map[string]any{"case": clipStr(fmt.Sprint(c), 700)}, cl...)
		res.rethrow()
		if fail != "" {
			rt.Fatalf("%v\n%s", clipStr(fmt.Sprint(c), 2000), clipStr(fail, 2500))
		}
		if res.Leak != "" {
			rt.Fatalf("%v: goroutines left after every client had gone: %s", clipStr(fmt.Sprint(c), 1500), clipStr(res.Leak, 3000))
		}
	}
}

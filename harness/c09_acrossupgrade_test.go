package harness

// C09 / C11: a polling request that is in the server's hands at the very
// moment the session's upgrade completes. The request has been verified
// against the session (held at the yield point between verification and the
// hand-over to the session's transport) when the candidate's upgrade packet
// switches the transport. Whatever the server decides about the request, it
// must answer it once and its handler must return.

import (
	"encoding/json"
	"fmt"
	"sort"
	"testing"
	"time"

	"github.com/zishang520/engine.io/v2/config"
	"github.com/zishang520/engine.io/v2/types"
	"pgregory.net/rapid"
)

const sigRequestAcrossUpgrade = "polling-request-verified-before-and-handed-over-after-an-upgrade-never-answered"

type auCase struct {
	Rev     int
	To      string // websocket | webtransport
	Req     string // poll | post | postThenGone
	N       int    // messages in the data request
	Outcome string // upgrade | candidateDrops | sessionCloses : what happens while the request is held
}

func (c auCase) String() string {
	return fmt.Sprintf("{rev%d to=%s held=%s(%d msgs) meanwhile=%s}", c.Rev, c.To, c.Req, c.N, c.Outcome)
}

func runAU(c auCase) (fail string, stats map[string]bool) {
	stats = map[string]bool{}
	o := config.DefaultServerOptions()
	o.SetAllowEIO3(true)
	o.SetTransports(types.NewSet("polling", "websocket", "webtransport"))
	o.SetPingInterval(10 * time.Minute)
	o.SetPingTimeout(10 * time.Minute)
	w := NewWorld(o)
	defer w.Teardown()
	g := InstallGates(nil)
	defer g.Uninstall()
	eio := "4"
	if c.Rev == 3 {
		eio = "3"
	}
	pc := &PollClient{W: w, O: ClientOpts{Rev: c.Rev, EIO: eio}}
	pc.StartHandshake()
	Settle()
	if err := pc.FinishHandshake(); err != nil {
		return "harness: " + err.Error(), stats
	}
	sr := w.Get(pc.Sid)
	// a canary on its own session
	cs, why := doHandshake(w, c06HS{Carrier: "polling", EIO: "4"})
	if cs == nil {
		return "harness: canary: " + why, stats
	}
	csr := w.Get(cs.pc.Sid)
	// candidate, probed; the pending poll is released by the server's noop
	pc.StartPoll()
	Settle()
	var wc *WSClient
	var tc *WTClient
	send := func(p Pkt) {
		if wc != nil {
			wc.SendPacket(p, nil)
		} else {
			tc.SendPacket(p)
		}
	}
	if c.To == "websocket" {
		wc = &WSClient{W: w, O: ClientOpts{Rev: c.Rev, EIO: eio}, Sid: pc.Sid}
		wc.Start()
		Settle()
		wc.Pump()
	} else {
		tc = &WTClient{W: w, O: ClientOpts{Rev: 4}, Sid: pc.Sid}
		tc.Start()
		Settle()
		tc.OpenBidi()
		tc.SendHandshake()
		Settle()
	}
	send(ctlD(tPing, "probe"))
	Settle()
	for i := 0; i < 4 && pc.Poll != nil; i++ {
		time.Sleep(100 * time.Millisecond)
		Settle()
		pc.Pump()
	}
	if pc.Poll != nil {
		return "harness: pending poll not released during the probe", stats
	}
	// the request that will be held between verification and hand-over
	gp := GatePoint{"server.HandleRequest.verified", g.Count("server.HandleRequest.verified")}
	g.mu.Lock()
	g.plan[gp] = true
	g.mu.Unlock()
	var held *Exchange
	var msgs []Pkt
	errsBefore := len(w.ConnErrs)
	if c.Req == "poll" {
		held = pc.StartPoll()
	} else {
		for i := 0; i < c.N; i++ {
			msgs = append(msgs, msgT(fmt.Sprintf("held-%d", i)))
		}
		held = pc.StartPost(msgs, false)
	}
	Settle()
	parked := false
	for _, p := range g.Parked() {
		if p == gp {
			parked = true
		}
	}
	if !parked {
		return "harness: the request did not reach the yield point", stats
	}
	stats["request-held-between-verification-and-hand-over"] = true
	nBefore := len(sr.Msgs)
	switch c.Outcome {
	case "upgrade":
		send(ctl(tUpgrade))
		Settle()
		if sr.Sock.Transport().Name() != c.To {
			g.Release(gp)
			return fmt.Sprintf("harness: the upgrade did not complete while the request was held (transport %s)", sr.Sock.Transport().Name()), stats
		}
		stats["upgrade-completed-while-the-request-was-held"] = true
	case "candidateDrops":
		if wc != nil {
			wc.Drop()
		} else {
			tc.Drop()
		}
		Settle()
	case "sessionCloses":
		sr.Sock.Close(true)
		Settle()
	}
	if c.Req == "postThenGone" {
		// the client gives up on the request while it is still held
		held.Abort()
		stats["client-gone-while-held"] = true
	}
	g.Release(gp)
	Settle()
	if c.Req == "poll" && c.Outcome == "candidateDrops" && len(sr.Closes) == 0 && !held.Snap().Responded {
		// the session stays on polling: the poll is simply its pending poll; it is answered when there is something to say
		w.AppSend(sr, msgT("for the pending poll"), nil, false, 0)
		Settle()
		stats["held-poll-became-the-pending-poll"] = true
	}
	snap := held.Snap()
	what := fmt.Sprintf("%s request verified before and handed over after '%s'", c.Req, c.Outcome)
	if snap.Panic != nil {
		return fmt.Sprintf("%s: handler panicked: %v", what, snap.Panic), stats
	}
	if !snap.Returned {
		return fmt.Sprintf("%s: the handler never returned (answered: %v): nothing will ever answer this request, and with its body unread the server does not even notice the client going away", what, snap), stats
	}
	if !snap.Responded && !snap.Aborted {
		return fmt.Sprintf("%s: the handler returned without any response", what), stats
	}
	if snap.HeaderCalls > 1 {
		return fmt.Sprintf("%s: %d status lines", what, snap.HeaderCalls), stats
	}
	if snap.Responded && snap.Status == 200 && c.Req == "post" {
		// acknowledged: then its messages were delivered
		if got := sr.Msgs[nBefore:]; !pktsEqual(got, msgs) {
			return fmt.Sprintf("%s: acknowledged 200 ok but the application received %s of %s", what, pktsString(got), pktsString(msgs)), stats
		}
		stats["held-request-processed"] = true
	} else if snap.Responded {
		stats[fmt.Sprintf("held-request-answered-%d", snap.Status)] = true
		if got := sr.Msgs[nBefore:]; len(got) != 0 && snap.Status != 200 {
			return fmt.Sprintf("%s: refused (%d) but %s was delivered", what, snap.Status, pktsString(got)), stats
		}
	}
	if snap.Responded && snap.Status == 400 && len(snap.Body) > 0 {
		// refused by the server with one of the documented error objects (C05): then exactly one connection_error
		// event carries the same code
		var je jsonErr
		if err := json.Unmarshal(snap.Body, &je); err == nil && je.Code != nil {
			stats[fmt.Sprintf("held-request-refused-with-code-%d", *je.Code)] = true
			newErrs := w.ConnErrs[errsBefore:]
			if len(newErrs) != 1 || newErrs[0] == nil || newErrs[0].CodeMessage == nil || newErrs[0].Code != *je.Code {
				return fmt.Sprintf("%s: answered 400 %s, and %d connection_error events were emitted for it (want exactly one with code %d)", what, snap.Body, len(newErrs), *je.Code), stats
			}
			// which of the documented answers: a session that is gone is unknown (code 1), a session that lives on
			// another transport by now makes this a bad request (code 3)
			want := map[string]int{"sessionCloses": 1, "upgrade": 3}[c.Outcome]
			if want != 0 && *je.Code != want {
				return fmt.Sprintf("%s: answered %s, the documented answer here is code %d", what, snap.Body, want), stats
			}
		}
	}
	// the session goes on (unless it was closed), on its new transport after an upgrade
	switch c.Outcome {
	case "upgrade":
		if len(sr.Closes) != 0 {
			return fmt.Sprintf("%s: the session closed (%v)", what, sr.Closes), stats
		}
		n := len(sr.Msgs)
		send(msgT("on the new transport"))
		Settle()
		if len(sr.Msgs) != n+1 {
			return what + ": the upgraded session no longer delivers messages", stats
		}
	case "candidateDrops":
		if len(sr.Closes) != 0 && !(c.Req == "postThenGone") {
			return fmt.Sprintf("%s: the session closed (%v)", what, sr.Closes), stats
		}
	}
	// the canary is undisturbed
	n := len(csr.Msgs)
	cs.pc.StartPost([]Pkt{msgT("canary")}, false)
	Settle()
	if len(csr.Msgs) != n+1 || len(csr.Closes) != 0 {
		return what + ": another session was disturbed", stats
	}
	if wc != nil {
		wc.Drop()
	} else {
		tc.Drop()
	}
	Settle()
	return "", stats
}

func TestC09RequestAcrossUpgrade(t *testing.T) {
	col := NewCollector("TestC09RequestAcrossUpgrade",
		"rapid: polling session (revision 3/4) with a probed websocket/webtransport candidate; a poll or a data request (1-3 messages, possibly abandoned by its client) is held at the yield point between its verification and the hand-over to the session's transport while the candidate's upgrade packet completes the switch (or the candidate drops, or the application closes the session); then it goes on; oracle: the handler returns, exactly one response (or the client is gone), an acknowledged data request was delivered and a refused one was not, the session works on its new transport, another session is undisturbed, no goroutine left. non-trivial: the upgrade completed while the request was held").Use(t)
	known := isKnown("C09", sigRequestAcrossUpgrade)
	rapid.Check(t, func(rt *rapid.T) {
		c := auCase{
			Rev:     rapid.SampledFrom([]int{4, 4, 3}).Draw(rt, "rev"),
			To:      rapid.SampledFrom([]string{"websocket", "websocket", "webtransport"}).Draw(rt, "to"),
			Req:     rapid.SampledFrom([]string{"poll", "post", "post", "postThenGone"}).Draw(rt, "req"),
			N:       rapid.IntRange(1, 3).Draw(rt, "n"),
			Outcome: rapid.SampledFrom([]string{"upgrade", "upgrade", "upgrade", "candidateDrops", "sessionCloses"}).Draw(rt, "meanwhile"),
		}
		if c.Rev == 3 {
			c.To = "websocket"
		}
		if known && c.Outcome == "upgrade" {
			col.Exclude("request held across a completed upgrade (known finding " + sigRequestAcrossUpgrade + ")")
			c.Outcome = "candidateDrops"
		}
		journal("C09 across upgrade %v", c)
		var fail string
		var stats map[string]bool
		res := bubble(t, func() { fail, stats = runAU(c) })
		var cl []string
		for k := range stats {
			cl = append(cl, k)
		}
		sort.Strings(cl)
		cl = append(cl, "held."+c.Req, "meanwhile."+c.Outcome, "to."+c.To)
		col.Case(c.String(), stats["upgrade-completed-while-the-request-was-held"], map[string]any{"case": c.String()}, cl...)
		res.rethrow()
		if fail != "" {
			rt.Fatalf("%v\n%s", c, clipStr(fail, 1500))
		}
		if res.Leak != "" {
			rt.Fatalf("%v: %s", c, clipStr(res.Leak, 1500))
		}
	})
	req := []string{"request-held-between-verification-and-hand-over", "held.poll", "held.post", "held.postThenGone", "to.websocket", "to.webtransport", "meanwhile.candidateDrops", "meanwhile.sessionCloses"}
	if !known {
		req = append(req, "upgrade-completed-while-the-request-was-held")
	}
	col.RequireClasses(t, req...)
}

// TestC09RequestAcrossUpgradeFinding: deterministic demonstration of the repaired defect.
func TestC09RequestAcrossUpgradeFinding(t *testing.T) {
	col := NewCollector("TestC09RequestAcrossUpgradeFinding", "deterministic: a data request / a poll of a polling session held between verification and hand-over while the websocket (webtransport) candidate's upgrade packet completes the switch; oracle of TestC09RequestAcrossUpgrade. every case is non-trivial").Use(t)
	for _, c := range []auCase{
		{Rev: 4, To: "websocket", Req: "post", N: 2, Outcome: "upgrade"},
		{Rev: 4, To: "webtransport", Req: "poll", N: 1, Outcome: "upgrade"},
		{Rev: 3, To: "websocket", Req: "postThenGone", N: 1, Outcome: "upgrade"},
	} {
		var fail string
		res := bubble(t, func() { fail, _ = runAU(c) })
		res.rethrow()
		if fail == "" && res.Leak != "" {
			fail = "bubble: " + clipStr(res.Leak, 300)
		}
		col.Case(c.String(), true, map[string]any{"case": c.String(), "result": clipStr(fail, 300)}, "across-upgrade")
		demoFinding(t, col, "C09", sigRequestAcrossUpgrade, fail != "", fmt.Sprintf("%v: %s", c, clipStr(fail, 400)))
	}
}

package harness

// C16 — polling responses: payload, headers, compression, JSONP wrapper.

import (
	"bytes"
	"fmt"
	"net/http"
	"regexp"
	"sort"
	"strconv"
	"strings"
	"testing"
	"time"

	"github.com/zishang520/engine.io-go-parser/packet"
	"github.com/zishang520/engine.io/v2/config"
	"github.com/zishang520/engine.io/v2/types"
	"pgregory.net/rapid"
)

const (
	sigDeflateRaw   = "content-encoding-deflate-is-raw-deflate-not-zlib"
	sigCodingSubstr = "content-coding-chosen-by-substring-of-accept-encoding"
	sigV3BinText    = "v3-binary-payload-non-ascii-text-double-utf8-encoded"
)

type c16Send struct {
	P        Pkt
	Compress int // 0 = nil options (default: compress), 1 = Compress true, 2 = Compress false
}

type c16AE struct {
	Set bool
	AE  string
}

type c16Case struct {
	Rev       int
	B64       bool
	JSONP     bool
	J         string
	Threshold int // -1: compression option left at its default (1024)
	AE        string
	AESet     bool
	// PollAE: the Accept-Encoding of the poll that fetches batch i (nil: every request carries the session's
	// first one): a header is a property of the request, not of the session (a proxy may rewrite it per request)
	PollAE    []c16AE
	Batches   [][]c16Send
	CloseLast bool // end with Close(false): exercises the transport's own close packet
	// Pre: response headers a host application's handler has set on the ResponseWriter before it delegates to
	// the engine (defaults such as Content-Type: text/html)
	Pre http.Header
}

func (c c16Case) String() string {
	var bs []string
	for _, b := range c.Batches {
		var ps []string
		for _, s := range b {
			ps = append(ps, fmt.Sprintf("%v/c%d", s.P, s.Compress))
		}
		bs = append(bs, "["+strings.Join(ps, " ")+"]")
	}
	return fmt.Sprintf("{rev%d b64=%v jsonp=%v j=%q threshold=%d accept-encoding=%q(set=%v) per-poll=%+v batches=%s close=%v preset=%v}", c.Rev, c.B64, c.JSONP, c.J, c.Threshold, c.AE, c.AESet, c.PollAE, strings.Join(bs, " "), c.CloseLast, c.Pre)
}

var c16AEs = []string{"gzip", "deflate", "br", "zstd", "gzip, deflate, br", "deflate, gzip;q=0.5", "br;q=1.0, zstd;q=0.8", "identity", "*", "compress", "GZIP", " gzip ", "gzip,deflate", "x-gzip", "xgzip", "abbr", "notdeflated", "zstdx, brotli", "bri, dez", "", "gzip;q=0", "gz ip",
	// parameters in every odd shape a client may send: bare names, empty values, several, stray separators
	"gzip;q", "gzip;", "gzip;q=", "gzip;q=abc", "gzip;foo=bar", "gzip;q=1;x", "br;q;level=3, gzip;q", ";q=1", ",", ";;", ",,gzip;;q==1,", "gzip;q=0.0001", "deflate;Q=0, br;q", "gzip;q=1.0000000000000000000000001", "gzip; q = 0.5 ; x"}

var c16Texts = []string{"hello", "", "quote\"d", "back\\slash", "new\nline", "cr\rlf\n", " sep ", "</script><script>alert(1)</script>", "<!-- x -->", "a&b<c>d", "ünï😀", "tab\t", "\x00\x01\x1f", "');alert(1);//", "]]>", "\\u2028", "%22"}

func genC16(rt *rapid.T, knownDeflate, knownSubstr, knownV3BinText bool, col *Collector) c16Case {
	c := c16Case{Rev: 4}
	if rapid.IntRange(0, 2).Draw(rt, "rev3") == 0 {
		c.Rev = 3
	}
	c.JSONP = rapid.IntRange(0, 2).Draw(rt, "jsonp") == 0
	c.B64 = c.JSONP || rapid.Bool().Draw(rt, "b64")
	if c.JSONP {
		c.J = rapid.OneOf(rapid.SampledFrom([]string{"0", "7", "123", "", "abc", "1a2b", ");alert(1)//", "0]('x');//", "-1", "1e3", "٣", " 4 ", "%31", "９"}), rapid.StringMatching(`[ -~]{0,12}`)).Draw(rt, "j")
	}
	c.Threshold = rapid.SampledFrom([]int{-1, 0, 1, 100, 1024, 1 << 30}).Draw(rt, "threshold")
	drawAE := func(l string) c16AE {
		a := c16AE{Set: rapid.IntRange(0, 5).Draw(rt, l+"Set") > 0}
		if a.Set {
			a.AE = rapid.SampledFrom(c16AEs).Draw(rt, l)
			if knownDeflate && aeTokens(a.AE)["deflate"] && !aeTokens(a.AE)["gzip"] {
				col.Exclude("Accept-Encoding selecting deflate (known finding " + sigDeflateRaw + ")")
				a.AE = "gzip"
			}
			if knownSubstr && codingBySubstring(a.AE) != codingByToken(a.AE) {
				col.Exclude("Accept-Encoding whose substring match differs from its tokens (known finding " + sigCodingSubstr + ")")
				a.AE = "gzip"
			}
		}
		return a
	}
	first := drawAE("ae")
	c.AESet, c.AE = first.Set, first.AE
	nb := rapid.IntRange(1, 4).Draw(rt, "batches")
	if rapid.IntRange(0, 2).Draw(rt, "aePerPoll") == 0 {
		for i := 0; i < nb; i++ {
			c.PollAE = append(c.PollAE, drawAE(fmt.Sprintf("ae%d", i)))
		}
	}
	for i := 0; i < nb; i++ {
		n := rapid.IntRange(1, 4).Draw(rt, "batchLen")
		var b []c16Send
		for j := 0; j < n; j++ {
			l := fmt.Sprintf("b%d.%d", i, j)
			var p Pkt
			switch rapid.IntRange(0, 4).Draw(rt, l+".k") {
			case 0:
				p = msgB(rapid.SliceOfN(rapid.Byte(), 0, 30).Draw(rt, l+".bin"))
			case 1:
				p = msgT(strings.Repeat(rapid.SampledFrom([]string{"a", "ab\n", "<", "é"}).Draw(rt, l+".rep"), rapid.SampledFrom([]int{99, 100, 1023, 1024, 3000}).Draw(rt, l+".n")))
			case 2:
				p = msgB(makePayload(rapid.SampledFrom([]int{100, 1024, 5000}).Draw(rt, l+".bn"), byte(j)))
			default:
				p = msgT(rapid.SampledFrom(c16Texts).Draw(rt, l+".txt"))
			}
			if c.Rev == 4 && !p.Binary {
				p.Data = bytes.ReplaceAll(p.Data, []byte{0x1e}, []byte("?"))
			}
			b = append(b, c16Send{P: p, Compress: rapid.IntRange(0, 2).Draw(rt, l+".compress")})
		}
		c.Batches = append(c.Batches, b)
	}
	c.CloseLast = rapid.IntRange(0, 3).Draw(rt, "closeLast") == 0
	switch rapid.IntRange(0, 5).Draw(rt, "preset") {
	case 0:
		c.Pre = http.Header{"Content-Type": {"text/html; charset=utf-8"}, "X-Content-Type-Options": {"nosniff"}}
	case 1:
		c.Pre = http.Header{"Content-Type": {"application/json"}, "Content-Length": {"0"}, "Vary": {"Accept-Language"}}
	}
	if knownV3BinText && c.Rev == 3 && !c.B64 {
		// recorded parser finding: in a revision-3 binary payload non-ASCII text is written double-encoded
		for i, b := range c.Batches {
			hasBin, hasNonASCII := false, false
			for _, s := range b {
				hasBin = hasBin || s.P.Binary
				hasNonASCII = hasNonASCII || (!s.P.Binary && !isASCII(s.P.Data))
			}
			if hasBin && hasNonASCII {
				col.Exclude("revision-3 batch mixing binary packets and non-ASCII text (known finding " + sigV3BinText + ")")
				for j, s := range b {
					if !s.P.Binary && !isASCII(s.P.Data) {
						c.Batches[i][j].P.Data = []byte(fmt.Sprintf("%+q", s.P.Data))
					}
				}
			}
		}
	}
	return c
}

// aeTokens: the content codings an Accept-Encoding value names (RFC 9110
// list syntax: comma separated, optional parameters after ';').
func aeTokens(v string) map[string]bool {
	out := map[string]bool{}
	for _, el := range strings.Split(v, ",") {
		tok := strings.TrimSpace(strings.SplitN(el, ";", 2)[0])
		if tok != "" {
			out[strings.ToLower(tok)] = true
		}
	}
	return out
}

func codingByToken(v string) string {
	t := aeTokens(v)
	for _, c := range []string{"gzip", "deflate", "br", "zstd"} {
		if t[c] {
			return c
		}
	}
	return ""
}

func codingBySubstring(v string) string {
	for _, c := range []string{"gzip", "deflate", "br", "zstd"} {
		if strings.Contains(v, c) {
			return c
		}
	}
	return ""
}

var jsonpShape = regexp.MustCompile(`(?s)^___eio\[([0-9]*)\]\("(.*)"\);$`)

func digitsOf(s string) string {
	var b strings.Builder
	for i := 0; i < len(s); i++ {
		if s[i] >= '0' && s[i] <= '9' {
			b.WriteByte(s[i])
		}
	}
	return b.String()
}

// checkPollResponse validates one poll response against the packets handed
// to the transport for that cycle.
func checkPollResponse(c c16Case, pc *PollClient, s ExSnap, want []Pkt, anyCompressAsked bool, stats map[string]bool) string {
	if s.Status != 200 {
		return fmt.Sprintf("poll answered with status %d", s.Status)
	}
	if s.HeaderCalls != 1 {
		return fmt.Sprintf("%d WriteHeader calls", s.HeaderCalls)
	}
	for _, k := range []string{"Content-Type", "Content-Length", "Content-Encoding"} {
		if v := s.Header.Values(k); len(v) > 1 {
			return fmt.Sprintf("response carries %d %s header lines %q", len(v), k, v)
		}
	}
	if c.Pre != nil {
		stats["headers-preset-by-the-host-application"] = true
	}
	cl := hdrGet(s.Header, "Content-Length")
	if n, err := strconv.Atoi(cl); err != nil || n != len(s.Body) {
		return fmt.Sprintf("Content-Length %q, %d bytes written", cl, len(s.Body))
	}
	body := s.Body
	enc := hdrGet(s.Header, "Content-Encoding")
	if enc != "" {
		stats["compressed"] = true
		stats["coding."+enc] = true
		thr := c.Threshold
		if thr < 0 {
			thr = 1024
		}
		if !anyCompressAsked {
			return fmt.Sprintf("Content-Encoding %q although no packet of the batch asked for compression", enc)
		}
		if !c.AESet || !aeTokens(c.AE)[enc] {
			return fmt.Sprintf("Content-Encoding %q is not named by the request's Accept-Encoding %q (set=%v)", enc, c.AE, c.AESet)
		}
		dec, err := decodeContent(enc, body)
		if err != nil {
			return fmt.Sprintf("body does not decode under Content-Encoding %q as HTTP defines it: %v (first bytes % x)", enc, err, clip(body, 8))
		}
		if len(dec) < thr {
			return fmt.Sprintf("response of %d bytes compressed although the threshold is %d", len(dec), thr)
		}
		body = dec
	}
	ct := contentTypeBase(s.Header)
	payload := body
	if c.JSONP {
		m := jsonpShape.FindSubmatch(body)
		if m == nil {
			return fmt.Sprintf("JSONP response does not have the form ___eio[<digits>](\"...\"); : %q", clip(body, 120))
		}
		if string(m[1]) != digitsOf(c.J) {
			return fmt.Sprintf("JSONP index %q, the decimal digits of j=%q are %q", m[1], c.J, digitsOf(c.J))
		}
		lit := m[2]
		for _, bad := range []string{"<", ">", "&", " ", " "} {
			if bytes.Contains(lit, []byte(bad)) {
				return fmt.Sprintf("JSONP string literal contains a raw %q: not safe to embed in a script (%q)", bad, clip(lit, 120))
			}
		}
		_, pl, err := parseJSONP(body)
		if err != nil {
			return fmt.Sprintf("JSONP literal is not one valid JavaScript string literal: %v (%q)", err, clip(body, 120))
		}
		payload = pl
		if ct != "text/plain" && ct != "text/javascript" && ct != "application/javascript" {
			return fmt.Sprintf("JSONP response with Content-Type %q", ct)
		}
		for _, p := range want {
			if strings.ContainsAny(string(p.Data), "\"\\\n\r<>&  ") {
				stats["jsonp-escape-needed"] = true
			}
		}
	}
	var got []Pkt
	var err error
	binaryBody := false
	if c.Rev == 4 {
		got, err = decPayloadV4(payload)
	} else if ct == "application/octet-stream" && !c.JSONP {
		binaryBody = true
		stats["v3-binary-body"] = true
		got, err = decPayloadV3Binary(payload)
	} else {
		got, err = decPayloadV3Text(payload)
	}
	if err != nil {
		return fmt.Sprintf("body does not decode as a revision-%d payload: %v (Content-Type %q, %q)", c.Rev, err, ct, clip(payload, 120))
	}
	if !c.JSONP {
		if binaryBody {
			// fine: application/octet-stream
		} else if ct != "text/plain" {
			return fmt.Sprintf("textual payload sent with Content-Type %q", hdrGet(s.Header, "Content-Type"))
		}
		if c.Rev == 3 && !c.B64 {
			hasBin := false
			for _, p := range want {
				hasBin = hasBin || p.Binary
			}
			if hasBin != binaryBody {
				return fmt.Sprintf("revision-3 payload with binary packets=%v sent as Content-Type %q", hasBin, ct)
			}
		}
	}
	if !pktsEqual(got, want) {
		return fmt.Sprintf("response decodes to %s; the transport was handed %s", pktsString(got), pktsString(want))
	}
	return ""
}

func runC16(c c16Case) (fail string, stats map[string]bool) {
	stats = map[string]bool{}
	o := config.DefaultServerOptions()
	o.SetAllowEIO3(true)
	o.SetPingInterval(10 * time.Minute)
	if c.Threshold >= 0 {
		o.SetHttpCompression(&types.HttpCompression{Threshold: c.Threshold})
	}
	w := NewWorld(o)
	defer w.Teardown()
	hdr := http.Header{}
	if c.AESet {
		hdr.Set("Accept-Encoding", c.AE)
	}
	eio := "4"
	if c.Rev == 3 {
		eio = "3"
	}
	pc := &PollClient{W: w, O: ClientOpts{Rev: c.Rev, EIO: eio, B64: c.B64, JSONP: c.JSONP, J: c.J, Extra: hdr, PreHeader: c.Pre}}
	hs := pc.StartHandshake()
	Settle()
	// the handshake response is a poll response like any other: it carries the open packet
	hsSnap := hs.Snap()
	if err := pc.FinishHandshake(); err != nil {
		return "handshake: " + err.Error(), stats
	}
	if f := checkPollResponse(c, pc, hsSnap, pc.Recv[:1], true, stats); f != "" && !strings.Contains(f, "the transport was handed") {
		return "handshake response: " + f, stats
	}
	sr := w.Get(pc.Sid)
	for bi, b := range c.Batches {
		nFlush := 0
		for _, e := range sr.Events {
			if e.Name == "flush" {
				nFlush++
			}
		}
		var want []Pkt
		asked := false
		for _, s := range b {
			var opts *packet.Options
			switch s.Compress {
			case 1:
				opts = &packet.Options{Compress: true}
				asked = true
			case 2:
				opts = &packet.Options{Compress: false}
			default:
				asked = true // nil options default to compress
			}
			w.AppSend(sr, s.P, opts, false, 0)
			want = append(want, s.P)
		}
		cc := c
		if bi < len(c.PollAE) {
			// this poll carries its own Accept-Encoding
			cc.AESet, cc.AE = c.PollAE[bi].Set, c.PollAE[bi].AE
			hdr.Del("Accept-Encoding")
			if cc.AESet {
				hdr.Set("Accept-Encoding", cc.AE)
			}
			if cc.AESet != c.AESet || cc.AE != c.AE {
				stats["accept-encoding-differs-from-the-handshake's"] = true
			}
		}
		last := bi == len(c.Batches)-1
		if last && c.CloseLast {
			sr.Sock.Close(false)
			want = append(want, ctl(tClose))
			stats["close-packet"] = true
		}
		ex := pc.StartPoll()
		Settle()
		snap := ex.Snap()
		if !snap.Responded {
			return fmt.Sprintf("batch %d: poll not answered", bi), stats
		}
		// cross-check with the socket's flush event: exactly one hand-off for this cycle
		var flushed []PRef
		k := 0
		for _, e := range sr.Events {
			if e.Name == "flush" {
				if k >= nFlush {
					flushed = append(flushed, e.Pkts...)
				}
				k++
			}
		}
		if len(flushed) != len(b) {
			return fmt.Sprintf("batch %d: flush events carried %d packets, %d were sent", bi, len(flushed), len(b)), stats
		}
		if len(b) > 1 {
			stats["multi-packet-batch"] = true
		}
		f := checkPollResponse(cc, pc, snap, want, asked, stats)
		if f != "" && last && c.CloseLast {
			// the close packet may ride on this response or be delivered by the next poll,
			// depending on whether the writer goroutine or the closing goroutine runs first
			if f2 := checkPollResponse(cc, pc, snap, want[:len(want)-1], asked, stats); f2 == "" {
				ex2 := pc.StartPoll()
				Settle()
				snap2 := ex2.Snap()
				if !snap2.Responded {
					return fmt.Sprintf("batch %d: close packet neither in the response nor delivered by the next poll", bi), stats
				}
				// the transport's own packets: a noop that carries the buffered close
				f = checkPollResponse(cc, pc, snap2, []Pkt{ctl(tNoop), ctl(tClose)}, false, stats)
				if f != "" {
					f = checkPollResponse(cc, pc, snap2, []Pkt{ctl(tClose)}, false, stats)
				}
				stats["close-packet-on-next-poll"] = true
			}
		}
		if f != "" {
			return fmt.Sprintf("batch %d: %s", bi, f), stats
		}
		pc.Pump()
		if len(pc.Errs) > 0 {
			return fmt.Sprintf("batch %d: client: %v", bi, pc.Errs), stats
		}
	}
	if !c.CloseLast {
		// the transport's own noop: released when the session is closed by the server
		ex := pc.StartPoll()
		Settle()
		sr.Sock.Close(true)
		Settle()
		snap := ex.Snap()
		if !snap.Responded {
			return "pending poll not released on close", stats
		}
		got := []Pkt{ctl(tClose)}
		if f := checkPollResponse(c, pc, snap, got, false, stats); f != "" {
			got = []Pkt{ctl(tNoop)}
			if f2 := checkPollResponse(c, pc, snap, got, false, stats); f2 != "" {
				return "release of the pending poll: " + f, stats
			}
		}
		stats["transport-own-packet"] = true
	}
	if c.JSONP {
		stats["jsonp"] = true
	}
	return "", stats
}

func TestC16PollResponses(t *testing.T) {
	col := NewCollector("TestC16PollResponses",
		"rapid: polling/JSONP session x revision x b64 x httpCompression threshold {default,0,1,100,1024,2^30} x Accept-Encoding {absent, each coding, lists, q-values, case/space variants, tokens that merely contain a coding name (xgzip, abbr, notdeflated, bri), identity, *} x j parameter (digits, letters, injection attempts, non-ASCII digits) x 1-4 batches of 1-4 messages (texts needing escapes: quotes, backslashes, newlines, U+2028/2029, </script>, <!--, control bytes; sizes around the thresholds; binary) with per-packet Compress unset/true/false, ending with Close(false) or a server-side close that releases the pending poll; optionally response headers already set on the ResponseWriter by a host application (Content-Type text/html, Content-Length 0, Vary, nosniff); oracle: one Content-Type / Content-Length / Content-Encoding line each; Content-Length == bytes written; Content-Encoding only if a packet asked, body >= threshold and the coding is a token of Accept-Encoding, and the body decodes under that coding (deflate = zlib format) with an independent decoder; payload decodes with the independent codec of the revision to exactly the packets handed to the transport (or the transport's own close/noop); Content-Type matches the nature of the body; JSONP: ___eio[<digits of j>](\"<one strict JS string literal>\"); with no raw <, >, &, U+2028/9. non-trivial: a compressed response, a JSONP payload needing escapes, or a binary v3 body").Use(t)
	knownDeflate := isKnown("C16", sigDeflateRaw)
	knownSubstr := isKnown("C16", sigCodingSubstr)
	knownV3BinText := isKnown("C16", sigV3BinText)
	rapid.Check(t, func(rt *rapid.T) {
		c := genC16(rt, knownDeflate, knownSubstr, knownV3BinText, col)
		journal("C16 %v", clipStr(c.String(), 3000))
		var fail string
		var stats map[string]bool
		res := bubble(t, func() { fail, stats = runC16(c) })
		var cl []string
		for k := range stats {
			cl = append(cl, k)
		}
		sort.Strings(cl)
		col.Case(c.String(), stats["compressed"] || stats["jsonp-escape-needed"] || stats["v3-binary-body"], map[string]any{"case": clipStr(c.String(), 700)}, cl...)
		res.rethrow()
		if fail != "" {
			rt.Fatalf("%v\n%s", clipStr(c.String(), 2000), clipStr(fail, 1500))
		}
		if res.Leak != "" {
			rt.Fatalf("%v: %s", clipStr(c.String(), 800), clipStr(res.Leak, 1500))
		}
	})
	req := []string{"headers-preset-by-the-host-application", "compressed", "coding.gzip", "coding.br", "coding.zstd", "jsonp", "jsonp-escape-needed", "v3-binary-body", "multi-packet-batch", "close-packet", "transport-own-packet", "accept-encoding-differs-from-the-handshake's"}
	if !knownDeflate {
		req = append(req, "coding.deflate")
	}
	col.RequireClasses(t, req...)
}

func TestC16Findings(t *testing.T) {
	col := NewCollector("TestC16Findings", "deterministic: (a) Accept-Encoding: deflate with a 3000-byte message: body must be zlib; (b) Accept-Encoding values xgzip / abbr / notdeflated / bri, dez that merely contain a coding name: no Content-Encoding may be chosen. every case is non-trivial").Use(t)
	mk := func(ae string) c16Case {
		return c16Case{Rev: 4, Threshold: -1, AE: ae, AESet: true, Batches: [][]c16Send{{{P: msgT(strings.Repeat("abc", 1000))}}}}
	}
	{
		c := mk("deflate")
		var fail string
		res := bubble(t, func() { fail, _ = runC16(c) })
		res.rethrow()
		col.Case("deflate", true, map[string]any{"accept-encoding": "deflate", "result": fail}, "deflate")
		demoFinding(t, col, "C16", sigDeflateRaw, fail != "", fail)
	}
	for _, ae := range []string{"xgzip", "abbr", "notdeflated", "bri, dez"} {
		c := mk(ae)
		var fail string
		res := bubble(t, func() { fail, _ = runC16(c) })
		res.rethrow()
		col.Case(ae, true, map[string]any{"accept-encoding": ae, "result": fail}, "substring")
		demoFinding(t, col, "C16", sigCodingSubstr, fail != "", fmt.Sprintf("Accept-Encoding %q: %s", ae, fail))
	}
	// (c) revision 3, binary support, one batch [binary, non-ASCII text]
	for _, txt := range []string{"é", "日本", "a😀"} {
		c := c16Case{Rev: 3, Threshold: -1, Batches: [][]c16Send{{{P: msgB([]byte{1, 2, 3})}, {P: msgT(txt)}}}}
		var fail string
		res := bubble(t, func() { fail, _ = runC16(c) })
		res.rethrow()
		col.Case("v3bin:"+txt, true, map[string]any{"batch": "[binary 010203, text " + txt + "]", "result": clipStr(fail, 300)}, "v3-binary-text")
		demoFinding(t, col, "C16", sigV3BinText, fail != "", fmt.Sprintf("revision-3 batch [binary, text %q]: %s", txt, clipStr(fail, 300)))
	}
}

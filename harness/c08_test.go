package harness

// C08 — transport upgrade: explicit, at most once, failures never cost the session.

import (
	"fmt"
	"runtime"
	"sort"
	"strings"
	"sync/atomic"
	"testing"
	"time"

	"github.com/zishang520/engine.io/v2/config"
	"github.com/zishang520/engine.io/v2/types"
	"pgregory.net/rapid"
)

const (
	sigProbeLost = "probe-arriving-before-maybeupgrade-attaches-listeners-is-lost"
	upTimeout    = 4 * time.Second
)

type upStep struct {
	Kind string // open | pkt | drop | conformant | toTimeout | send | clientMsg | poll | advance | appClose | probeEarly
	Tr   string // websocket | webtransport
	Sid  string // own | unknown | closed
	Cand int
	Pkt  string // probe | pingOther | pong | message | upgrade | noop | garbage
	D    time.Duration
	N    int // conformant upgrades: further polls the client issues after the first release, before its upgrade packet
}

func (s upStep) String() string {
	switch s.Kind {
	case "open":
		return fmt.Sprintf("open(%s,%s)", s.Tr, s.Sid)
	case "pkt":
		return fmt.Sprintf("pkt#%d(%s)", s.Cand, s.Pkt)
	case "drop":
		return fmt.Sprintf("drop#%d", s.Cand)
	case "heldProbeBurst":
		return fmt.Sprintf("heldProbeBurst(%s,probe+%s+upgrade)", s.Tr, s.Pkt)
	case "conformant", "probeEarly", "conformantSendAtTick", "conformantSecondDuringSwitch", "eagerUpgradeInsideFlush", "conformantSlowUpgradeListener":
		return fmt.Sprintf("%s(%s,repoll=%d)", s.Kind, s.Tr, s.N)
	case "conformantLatePoll":
		return fmt.Sprintf("conformantLatePoll(%s,+%v,repoll=%d)", s.Tr, s.D, s.N)
	case "toTimeout":
		return fmt.Sprintf("toTimeout#%d(%+v)", s.Cand, s.D)
	case "advance":
		return fmt.Sprintf("advance(%v)", s.D)
	}
	return s.Kind
}

type upCase struct {
	Rev   int
	PMD   int // perMessageDeflate: -1 not configured, else threshold
	Steps []upStep
}

func genC08(rt *rapid.T, gates bool, knownProbe bool, col *Collector) upCase {
	c := upCase{Rev: 4}
	if rapid.IntRange(0, 3).Draw(rt, "rev3") == 0 {
		c.Rev = 3
	}
	c.PMD = rapid.SampledFrom([]int{-1, -1, 0, 1024}).Draw(rt, "perMessageDeflate")
	n := rapid.IntRange(2, 12).Draw(rt, "nsteps")
	ncand := 0
	for i := 0; i < n; i++ {
		l := fmt.Sprintf("s%d", i)
		kinds := []string{"open", "open", "open", "send", "clientMsg", "poll", "advance"}
		if rapid.IntRange(0, 7).Draw(rt, l+".conf") == 0 {
			kinds = append(kinds, "conformant", "conformantLatePoll", "conformantSendAtTick", "conformantSecondDuringSwitch", "eagerUpgradeInsideFlush", "conformantSlowUpgradeListener")
		}
		if gates {
			kinds = append(kinds, "heldProbeBurst", "twoCandidatesAtOnce")
		}
		if ncand > 0 {
			kinds = append(kinds, "pkt", "pkt", "pkt", "pkt", "drop", "toTimeout")
		}
		if rapid.IntRange(0, 7).Draw(rt, l+".ac") == 0 {
			kinds = append(kinds, "appClose")
		}
		if gates {
			if !knownProbe {
				kinds = append(kinds, "probeEarly", "probeEarly")
			} else {
				col.Exclude("probe sent before the server attached its listeners to the candidate (known finding " + sigProbeLost + ")")
			}
		}
		if ncand > 0 {
			// keep working on the most recent candidate most of the time, so that scripts get past the probe
			kinds = append(kinds, "pktLast", "pktLast", "pktLast", "pktLast", "pktLast", "pktLast")
		}
		st := upStep{Kind: rapid.SampledFrom(kinds).Draw(rt, l+".kind")}
		if st.Kind == "pktLast" {
			st.Kind = "pkt"
			st.Cand = ncand - 1
			st.Pkt = rapid.SampledFrom([]string{"probe", "probe", "probe", "upgrade", "upgrade", "upgrade", "pingOther", "pong", "message", "noop", "garbage"}).Draw(rt, l+".pktL")
			c.Steps = append(c.Steps, st)
			continue
		}
		trs := []string{"websocket", "websocket", "webtransport"}
		if c.Rev == 3 {
			trs = []string{"websocket"}
		}
		switch st.Kind {
		case "open":
			st.Tr = rapid.SampledFrom(trs).Draw(rt, l+".tr")
			st.Sid = rapid.SampledFrom([]string{"own", "own", "own", "own", "unknown", "closed"}).Draw(rt, l+".sid")
			ncand++
		case "twoCandidatesAtOnce":
			ncand += 2
		case "heldProbeBurst":
			st.Tr = rapid.SampledFrom(trs).Draw(rt, l+".tr")
			st.Pkt = rapid.SampledFrom([]string{"pingOther", "pong", "message", "noop", "garbage"}).Draw(rt, l+".burst")
			ncand++
		case "conformant", "probeEarly", "conformantLatePoll", "conformantSendAtTick", "conformantSecondDuringSwitch", "eagerUpgradeInsideFlush", "conformantSlowUpgradeListener":
			st.Tr = rapid.SampledFrom(trs).Draw(rt, l+".tr")
			st.D = time.Duration(rapid.SampledFrom([]int{0, 50, 100, 150, 250, 1000}).Draw(rt, l+".late")) * time.Millisecond
			st.N = rapid.SampledFrom([]int{0, 0, 1, 2}).Draw(rt, l+".repoll")
			ncand++
		case "pkt":
			st.Cand = rapid.IntRange(0, ncand-1).Draw(rt, l+".cand")
			st.Pkt = rapid.SampledFrom([]string{"probe", "probe", "upgrade", "upgrade", "pingOther", "pong", "message", "noop", "garbage"}).Draw(rt, l+".pkt")
		case "drop", "toTimeout":
			st.Cand = rapid.IntRange(0, ncand-1).Draw(rt, l+".cand")
			st.D = time.Duration(rapid.SampledFrom([]int{-1, 0, 1}).Draw(rt, l+".delta")) * time.Millisecond
		case "advance":
			st.D = time.Duration(rapid.SampledFrom([]int{1, 99, 100, 101, 500, 3999, 4000, 4001}).Draw(rt, l+".d")) * time.Millisecond
		}
		c.Steps = append(c.Steps, st)
	}
	return c
}

type upCand struct {
	tr       string
	wc       *WSClient
	tc       *WTClient
	own      bool
	admitted bool // the reference expects the server to entertain it
	alive    bool // reference: still entertained
	probed   bool
	openedAt time.Duration
	isUp     bool // became the session's transport
	dropped  bool // the client itself ended the connection
}

func (c *upCand) send(p Pkt) {
	if c.wc != nil {
		c.wc.SendPacket(p, nil)
	} else {
		c.tc.SendPacket(p)
	}
}

func (c *upCand) recv() []Pkt {
	if c.wc != nil {
		c.wc.Pump()
		return c.wc.Recv
	}
	c.tc.Pump()
	return c.tc.Recv
}

func (c *upCand) closedByServer() bool {
	if c.wc != nil {
		c.wc.Pump()
		return c.wc.EOF || c.wc.GotClose || c.wc.HTTPStatus != 101
	}
	c.tc.Pump()
	return c.tc.SessionClosed || c.tc.StreamReset
}

func (c *upCand) drop() {
	c.dropped = true
	if c.wc != nil {
		c.wc.Drop()
	} else {
		c.tc.Drop()
	}
}

type upWorld struct {
	w          *World
	c          upCase
	pc         *PollClient
	sr         *SessRec
	cands      []*upCand
	cur        *upCand // the candidate that became the transport (nil: polling)
	upgrading  *upCand
	stats      map[string]bool
	sentDown   []Pkt // application -> client, in order
	sentUp     []Pkt // client -> application, in order
	gotDown    []Pkt
	consumed   map[any]int
	closedSid  string
	sessClosed bool
	g          *Gates
	seq        int
}

func (uw *upWorld) pumpDown() string {
	take := func(key any, msgs []Pkt) {
		for _, m := range msgs[uw.consumed[key]:] {
			uw.gotDown = append(uw.gotDown, m)
		}
		uw.consumed[key] = len(msgs)
	}
	uw.pc.Pump()
	take(uw.pc, uw.pc.Msgs)
	for _, c := range uw.cands {
		if c.wc != nil {
			c.wc.Pump()
			take(c, c.wc.Msgs)
		} else if c.tc != nil {
			c.tc.Pump()
			take(c, c.tc.Msgs)
		}
	}
	if !isPrefix(uw.gotDown, uw.sentDown) {
		return fmt.Sprintf("client received %s, which is not a prefix of what the application sent %s", pktsString(uw.gotDown), pktsString(uw.sentDown))
	}
	if !pktsEqual(uw.sr.Msgs, uw.sentUp) {
		return fmt.Sprintf("application received %s, the client sent on the session's transport %s", pktsString(uw.sr.Msgs), pktsString(uw.sentUp))
	}
	return ""
}

func (uw *upWorld) keepPolling() {
	if uw.cur != nil || uw.sessClosed || uw.pc.Closed {
		return
	}
	for i := 0; i < 3; i++ {
		uw.pc.Pump()
		if uw.pc.Poll != nil || len(uw.sr.Closes) > 0 {
			return
		}
		uw.pc.StartPoll()
		Settle()
	}
}

// invariant after every step
func (uw *upWorld) check(what string) string {
	sock := uw.sr.Sock
	wantName := "polling"
	if uw.cur != nil {
		wantName = uw.cur.tr
	}
	if got := sock.Transport().Name(); got != wantName {
		return fmt.Sprintf("%s: the session's transport is %q; by the candidate scripts so far it must be %q", what, got, wantName)
	}
	if sock.Upgraded() != (uw.cur != nil) {
		return fmt.Sprintf("%s: Upgraded()=%v", what, sock.Upgraded())
	}
	if !uw.sessClosed {
		if len(uw.sr.Closes) > 0 {
			return fmt.Sprintf("%s: the session closed (%v) although nothing but candidate traffic happened", what, uw.sr.Closes)
		}
		if got, want := sock.Upgrading(), uw.upgrading != nil; got != want {
			return fmt.Sprintf("%s: Upgrading()=%v, want %v (a candidate is being entertained: %v)", what, got, want, want)
		}
	}
	nUpgradeEvents := 0
	for _, e := range uw.sr.Events {
		if e.Name == "upgrade" {
			nUpgradeEvents++
		}
	}
	if nUpgradeEvents > 1 {
		return fmt.Sprintf("%s: %d upgrade events", what, nUpgradeEvents)
	}
	for i, c := range uw.cands {
		if c.isUp {
			if c.closedByServer() && !uw.sessClosed {
				return fmt.Sprintf("%s: the candidate #%d that became the session's transport was closed", what, i)
			}
			continue
		}
		if !c.alive && !c.dropped && !c.closedByServer() {
			return fmt.Sprintf("%s: candidate #%d (%s, own sid %v, admitted %v) must have been closed by the server and is still open", what, i, c.tr, c.own, c.admitted)
		}
		if c.alive && !c.dropped && c.closedByServer() {
			return fmt.Sprintf("%s: candidate #%d (%s) was closed although it followed the protocol so far", what, i, c.tr)
		}
	}
	return uw.pumpDown()
}

func (uw *upWorld) openCand(tr, sidKind string) *upCand {
	w := uw.w
	sid := uw.pc.Sid
	switch sidKind {
	case "unknown":
		sid = "nosuchsession"
	case "closed":
		sid = uw.closedSid
	}
	c := &upCand{tr: tr, own: sidKind == "own", openedAt: w.now()}
	eio := "4"
	if uw.c.Rev == 3 {
		eio = "3"
	}
	if tr == "websocket" {
		c.wc = &WSClient{W: w, O: ClientOpts{Rev: uw.c.Rev, EIO: eio}, Sid: sid}
		c.wc.Start()
		Settle()
		c.wc.Pump()
	} else {
		c.tc = &WTClient{W: w, O: ClientOpts{Rev: 4}, Sid: sid}
		c.tc.Start()
		Settle()
		c.tc.OpenBidi()
		c.tc.SendHandshake()
		Settle()
		c.tc.Pump()
	}
	// reference: entertained iff own sid, session open, not upgrading, not upgraded
	c.admitted = c.own && !uw.sessClosed && uw.upgrading == nil && uw.cur == nil
	c.alive = c.admitted
	if c.admitted {
		uw.upgrading = c
	}
	uw.cands = append(uw.cands, c)
	return c
}

func (uw *upWorld) fail(c *upCand) {
	c.alive = false
	if uw.upgrading == c {
		uw.upgrading = nil
	}
}

const sigUnprobedUpgrade = "upgrade-packet-from-a-candidate-that-never-probed-switches-the-transport"

func runC08(c upCase) (fail string, stats map[string]bool) {
	stats = map[string]bool{}
	knownUnprobed := isKnown("C08", sigUnprobedUpgrade)
	o := config.DefaultServerOptions()
	o.SetAllowEIO3(true)
	o.SetTransports(types.NewSet("polling", "websocket", "webtransport"))
	o.SetPingInterval(10 * time.Minute)
	o.SetPingTimeout(10 * time.Minute)
	o.SetUpgradeTimeout(upTimeout)
	if c.PMD >= 0 {
		o.SetPerMessageDeflate(&types.PerMessageDeflate{Threshold: c.PMD})
		stats["perMessageDeflate-configured"] = true
	}
	w := NewWorld(o)
	defer w.Teardown()
	eio := "4"
	if c.Rev == 3 {
		eio = "3"
	}
	uw := &upWorld{w: w, c: c, stats: stats, consumed: map[any]int{}}
	// a session that is already closed (its id is used by candidates for a closed session)
	{
		x := &PollClient{W: w, O: ClientOpts{Rev: c.Rev, EIO: eio}}
		x.StartHandshake()
		Settle()
		if err := x.FinishHandshake(); err != nil {
			return "harness: " + err.Error(), stats
		}
		w.Get(x.Sid).Sock.Close(true)
		Settle()
		uw.closedSid = x.Sid
	}
	pc := &PollClient{W: w, O: ClientOpts{Rev: c.Rev, EIO: eio}}
	pc.StartHandshake()
	Settle()
	if err := pc.FinishHandshake(); err != nil {
		return "harness: " + err.Error(), stats
	}
	uw.pc, uw.sr = pc, w.Get(pc.Sid)
	for _, st := range c.Steps {
		if st.Kind == "probeEarly" || st.Kind == "heldProbeBurst" || st.Kind == "twoCandidatesAtOnce" {
			uw.g = InstallGates(nil)
			defer uw.g.Uninstall()
			break
		}
	}
	uw.keepPolling()

	clientSend := func(p Pkt) {
		if uw.cur != nil {
			uw.cur.send(p)
		} else {
			pc.StartPost([]Pkt{p}, false)
		}
		Settle()
	}

	latePoll := time.Duration(-1)
	rePolls := 0
	// a slow application flush listener (armed by conformantSendAtTick): the session's flush holds its lock longer
	lingerFlush, sendAtTick := false, false
	// armed by conformantSecondDuringSwitch: while an application 'upgrade' listener is still running (the switch
	// is in progress on the candidate's reader goroutine) another candidate for the same session connects and probes
	secondDuringSwitch := false
	// armed by conformantSlowUpgradeListener: the upgrade packet arrives shortly before the attempt's timeout, and
	// an application 'upgrade' listener is still busy when that instant passes
	slowUpgradeListener := false
	var intruder *upCand
	// armed by eagerUpgradeInsideFlush: the application's flush listener is still running (the session's flush has
	// tested the transport and not yet handed the batch over) when the candidate's upgrade packet switches transports
	eagerInFlush := false
	var holdFlush atomic.Pointer[func()]
	uw.sr.Sock.On("flush", func(...any) {
		if lingerFlush {
			linger()
		}
		if h := holdFlush.Swap(nil); h != nil {
			(*h)()
		}
	})
	conformant := func(tr string, early bool) string {
		if uw.sessClosed {
			return ""
		}
		late := latePoll
		latePoll = -1
		if late >= 0 && uw.cur == nil && uw.upgrading == nil {
			// the client is between two polls when it probes: its next poll reaches the server only later
			if pc.Poll != nil {
				w.AppSend(uw.sr, msgT("answers the pending poll"), nil, false, 0)
				uw.sentDown = append(uw.sentDown, msgT("answers the pending poll"))
				Settle()
				if f := uw.pumpDown(); f != "" {
					return f
				}
			}
			if pc.Poll != nil {
				late = -1
			} else {
				stats["poll-arrives-after-the-probe"] = true
			}
		} else {
			late = -1
		}
		var gp GatePoint
		if early {
			gp = GatePoint{"server.upgrade.admitted", uw.g.Count("server.upgrade.admitted")}
			uw.g.mu.Lock()
			uw.g.plan[gp] = true
			uw.g.mu.Unlock()
		}
		cand := uw.openCand(tr, "own")
		if early {
			parked := false
			for _, p := range uw.g.Parked() {
				if p == gp {
					parked = true
				}
			}
			if parked {
				// the client sends its probe as soon as its connection is open: the server has
				// created the candidate transport (its reader runs) but not attached listeners yet
				stats["probe-before-listeners"] = true
				cand.send(ctlD(tPing, "probe"))
				Settle()
				uw.g.Release(gp)
				Settle()
			} else {
				uw.g.mu.Lock()
				delete(uw.g.plan, gp)
				uw.g.mu.Unlock()
				cand.send(ctlD(tPing, "probe"))
				Settle()
			}
		} else if cand.admitted {
			cand.send(ctlD(tPing, "probe"))
			Settle()
		}
		if !cand.admitted {
			return ""
		}
		cand.probed = true
		r := cand.recv()
		if len(r) == 0 || r[len(r)-1].Type != tPong || string(r[len(r)-1].Data) != "probe" {
			return fmt.Sprintf("conformant %s candidate: probe ping not answered with a probe pong (candidate received %v)", tr, r)
		}
		if eagerInFlush {
			eagerInFlush = false
			if pc.Poll != nil && len(uw.sr.Closes) == 0 {
				// an eager client: it does not wait for its poll to come back before it switches. The application
				// sends meanwhile; that flush is inside its 'flush' listener when the upgrade packet is processed
				var entered, switched atomic.Bool
				h := func() {
					entered.Store(true)
					for k := 0; k < 200000 && !switched.Load(); k++ {
						runtime.Gosched()
					}
				}
				holdFlush.Store(&h)
				uw.sr.Sock.Once("upgrade", func(...any) { switched.Store(true) })
				p := msgT(fmt.Sprintf("down%d inside the switch", len(uw.sentDown)))
				uw.sentDown = append(uw.sentDown, p)
				go w.AppSend(uw.sr, p, nil, false, 0)
				for k := 0; k < 200000 && !entered.Load(); k++ {
					runtime.Gosched()
				}
				cand.send(ctl(tUpgrade))
				Settle()
				holdFlush.Store(nil)
				if entered.Load() && switched.Load() {
					stats["upgrade-packet-while-a-flush-is-in-progress"] = true
				}
				if got := uw.sr.Sock.Transport().Name(); got != tr {
					return fmt.Sprintf("eager %s candidate (upgrade packet while the application's flush listener runs): the session's transport is %q", tr, got)
				}
				cand.isUp = true
				uw.cur = cand
				uw.upgrading = nil
				time.Sleep(time.Millisecond)
				Settle()
				if f := uw.pumpDown(); f != "" {
					return f
				}
				if len(uw.sr.Closes) == 0 && len(uw.gotDown) != len(uw.sentDown) {
					return fmt.Sprintf("eager %s candidate (upgrade packet while the application's flush listener runs): the session is open on %s, the application sent %s, the client has received %s", tr, tr, pktsString(uw.sentDown), pktsString(uw.gotDown))
				}
				return ""
			}
		}
		if sendAtTick && pc.Poll != nil {
			// the application sends at the very instant of the server's next poll-release tick, and its flush takes
			// its time: whichever of the two gets the pending poll, the other must leave it alone
			stats["send-at-the-release-tick"] = true
			lingerFlush = true
			defer func() { lingerFlush = false }()
			p := msgT(fmt.Sprintf("down%d at the tick", len(uw.sentDown)))
			uw.sentDown = append(uw.sentDown, p)
			go func() {
				time.Sleep(100 * time.Millisecond)
				w.AppSend(uw.sr, p, nil, false, 0)
			}()
		}
		sendAtTick = false
		// wait for the pending poll to be released with a noop
		before := len(pc.Recv)
		if late >= 0 {
			time.Sleep(late)
			Settle()
		}
		uw.keepPolling()
		for i := 0; i < 4 && pc.Poll != nil; i++ {
			time.Sleep(100 * time.Millisecond)
			Settle()
			pc.Pump()
		}
		if pc.Poll != nil {
			return fmt.Sprintf("conformant %s candidate: the pending poll was not released within 400ms of the probe", tr)
		}
		sawNoop := false
		for _, p := range pc.Recv[before:] {
			if p.Type == tNoop {
				sawNoop = true
			}
		}
		if !sawNoop && len(pc.Recv) == before {
			return fmt.Sprintf("conformant %s candidate: poll released without any packet", tr)
		}
		if f := uw.pumpDown(); f != "" {
			return f
		}
		// a client that handled the poll response before the probe pong polls again: every poll that becomes
		// pending during the attempt is released, not only the first one
		for k := 0; k < rePolls; k++ {
			pc.StartPoll()
			Settle()
			for i := 0; i < 4 && pc.Poll != nil; i++ {
				time.Sleep(100 * time.Millisecond)
				Settle()
				pc.Pump()
			}
			if pc.Poll != nil {
				return fmt.Sprintf("conformant %s candidate: poll #%d issued during the upgrade attempt was not released within 400ms", tr, k+2)
			}
			stats["poll-again-during-upgrade"] = true
			if f := uw.pumpDown(); f != "" {
				return f
			}
		}
		if secondDuringSwitch {
			secondDuringSwitch = false
			uw.sr.Sock.Once("upgrade", func(...any) {
				c2 := &upCand{tr: "websocket", own: true, openedAt: w.now()}
				c2.wc = &WSClient{W: w, O: ClientOpts{Rev: uw.c.Rev, EIO: eio}, Sid: pc.Sid}
				c2.wc.Start()
				linger()
				c2.wc.Pump()
				c2.send(ctlD(tPing, "probe"))
				linger()
				intruder = c2
			})
		}
		slowListenerArmed := false
		if slowUpgradeListener {
			slowUpgradeListener = false
			if left := cand.openedAt + upTimeout - w.now() - 50*time.Millisecond; left > 0 && len(uw.sr.Closes) == 0 {
				time.Sleep(left)
				Settle()
				uw.sr.Sock.Once("upgrade", func(...any) { time.Sleep(100 * time.Millisecond) })
				stats["upgrade-listener-busy-across-the-attempt's-timeout"] = true
				slowListenerArmed = true
			}
		}
		cand.send(ctl(tUpgrade))
		Settle()
		if slowListenerArmed {
			// the listener takes its time; the attempt's timeout instant passes meanwhile
			time.Sleep(150 * time.Millisecond)
			Settle()
		}
		if intruder != nil {
			stats["second-candidate-during-the-switch"] = true
			uw.cands = append(uw.cands, intruder)
			for _, p := range intruder.recv() {
				if p.Type == tPong {
					return fmt.Sprintf("conformant %s candidate: a second candidate that connected while the switch was in progress (inside an application 'upgrade' listener) was entertained: it got a probe pong", tr)
				}
			}
			intruder = nil
		}
		cand.isUp = true
		uw.cur = cand
		uw.upgrading = nil
		stats["conformant-upgrade."+tr] = true
		return ""
	}

	for i, st := range c.Steps {
		what := fmt.Sprintf("step %d %v", i, st)
		if (st.Kind == "pkt" || st.Kind == "drop" || st.Kind == "toTimeout") && st.Cand >= len(uw.cands) {
			continue
		}
		switch st.Kind {
		case "open":
			cand := uw.openCand(st.Tr, st.Sid)
			if !cand.admitted {
				stats["candidate-refused."+st.Sid] = true
				if cand.own && !uw.sessClosed {
					stats["second-candidate-or-already-upgraded"] = true
				}
			}
		case "conformant":
			rePolls = st.N
			if f := conformant(st.Tr, false); f != "" {
				return what + ": " + f, stats
			}
		case "probeEarly":
			rePolls = st.N
			if f := conformant(st.Tr, true); f != "" {
				return what + ": " + f, stats
			}
		case "conformantSecondDuringSwitch":
			rePolls, secondDuringSwitch = st.N, true
			if f := conformant(st.Tr, false); f != "" {
				return what + ": " + f, stats
			}
			secondDuringSwitch = false
		case "eagerUpgradeInsideFlush":
			eagerInFlush = true
			if f := conformant(st.Tr, false); f != "" {
				return what + ": " + f, stats
			}
			eagerInFlush = false
		case "conformantSlowUpgradeListener":
			slowUpgradeListener = true
			if f := conformant(st.Tr, false); f != "" {
				return what + ": " + f, stats
			}
			slowUpgradeListener = false
		case "conformantSendAtTick":
			rePolls, sendAtTick = st.N, true
			if f := conformant(st.Tr, false); f != "" {
				return what + ": " + f, stats
			}
		case "twoCandidatesAtOnce":
			// two candidates for the session arrive at the same moment: the first is past the server's "already
			// upgrading?" test (held at the yield point behind it) when the second one is tested. At most one
			// candidate is entertained at a time: only one of them may get its probe answered
			if uw.g == nil {
				break
			}
			mk := func() *upCand {
				c := &upCand{tr: "websocket", own: true, openedAt: w.now()}
				c.wc = &WSClient{W: w, O: ClientOpts{Rev: uw.c.Rev, EIO: eio}, Sid: pc.Sid}
				return c
			}
			free := !uw.sessClosed && uw.upgrading == nil && uw.cur == nil
			gp := GatePoint{"server.upgrade.admitted", uw.g.Count("server.upgrade.admitted")}
			uw.g.mu.Lock()
			uw.g.plan[gp] = true
			uw.g.mu.Unlock()
			a, b := mk(), mk()
			a.wc.Start()
			Settle()
			heldA := false
			for _, p := range uw.g.Parked() {
				if p == gp {
					heldA = true
				}
			}
			b.wc.Start()
			Settle()
			uw.g.mu.Lock()
			delete(uw.g.plan, gp)
			uw.g.mu.Unlock()
			uw.g.Release(gp)
			Settle()
			a.wc.Pump()
			b.wc.Pump()
			a.send(ctlD(tPing, "probe"))
			b.send(ctlD(tPing, "probe"))
			Settle()
			ponged := 0
			var winner *upCand
			for _, c := range []*upCand{a, b} {
				for _, p := range c.recv() {
					if p.Type == tPong {
						ponged++
						winner = c
					}
				}
			}
			uw.cands = append(uw.cands, a, b)
			if free && heldA {
				stats["two-candidates-past-the-admission-test-together"] = true
			}
			if ponged > 1 {
				return fmt.Sprintf("%s: two candidates for one session arrived at the same moment and both had their probe answered: at most one candidate may be entertained at a time", what), stats
			}
			if !free && ponged > 0 {
				return fmt.Sprintf("%s: a candidate was entertained although the session was closed / upgrading / upgraded", what), stats
			}
			if winner != nil {
				winner.admitted, winner.alive, winner.probed = true, true, true
				uw.upgrading = winner
			}
		case "heldProbeBurst":
			// the candidate does not wait for the probe pong: probe, an unexpected packet and the upgrade packet
			// arrive while the pong is still being written (its writer goroutine is held at its first statement)
			if uw.sessClosed {
				break
			}
			site := map[string]string{"websocket": "ws.send.start", "webtransport": "wt.send.start"}[st.Tr]
			cand := uw.openCand(st.Tr, "own")
			if !cand.admitted {
				break
			}
			gp := GatePoint{site, uw.g.Count(site)}
			uw.g.mu.Lock()
			uw.g.plan[gp] = true
			uw.g.mu.Unlock()
			cand.send(ctlD(tPing, "probe"))
			Settle()
			held := false
			for _, p := range uw.g.Parked() {
				if p == gp {
					held = true
				}
			}
			switch st.Pkt {
			case "pingOther":
				cand.send(ctlD(tPing, "x"))
			case "pong":
				cand.send(ctl(tPong))
			case "message":
				cand.send(msgT("on the candidate"))
			case "noop":
				cand.send(ctl(tNoop))
			default:
				if cand.wc != nil {
					cand.wc.SendMessage(Frame{Data: []byte("9?")}, nil)
				} else {
					cand.tc.SendFrameRaw(wtEncode(false, []byte("9?")))
				}
			}
			cand.send(ctl(tUpgrade))
			Settle()
			uw.g.mu.Lock()
			delete(uw.g.plan, gp)
			uw.g.mu.Unlock()
			uw.g.Release(gp)
			Settle()
			if held {
				stats["burst-while-probe-pong-is-being-written"] = true
			}
			// the unexpected packet ended the attempt: only the candidate pays; the upgrade packet behind it is void
			cand.probed = true
			uw.fail(cand)
			stats["candidate-failed.unexpected-packet"] = true
		case "conformantLatePoll":
			latePoll, rePolls = st.D, st.N
			if f := conformant(st.Tr, false); f != "" {
				return what + ": " + f, stats
			}
		case "pkt":
			cand := uw.cands[st.Cand]
			if cand.isUp {
				break
			}
			if cand.closedByServer() {
				break
			}
			var p Pkt
			switch st.Pkt {
			case "probe":
				p = ctlD(tPing, "probe")
			case "pingOther":
				p = ctlD(tPing, "x")
			case "pong":
				p = ctl(tPong)
			case "message":
				p = msgT("on the candidate")
			case "upgrade":
				p = ctl(tUpgrade)
			case "noop":
				p = ctl(tNoop)
			}
			nr := len(cand.recv())
			if st.Pkt == "garbage" {
				if cand.wc != nil {
					cand.wc.SendMessage(Frame{Data: []byte("9?")}, nil)
				} else {
					cand.tc.SendFrameRaw(wtEncode(false, []byte("9?")))
				}
			} else {
				cand.send(p)
			}
			Settle()
			if !cand.alive {
				break
			}
			switch st.Pkt {
			case "probe":
				cand.probed = true
				r := cand.recv()
				if len(r) != nr+1 || r[nr].Type != tPong || string(r[nr].Data) != "probe" {
					return fmt.Sprintf("%s: probe ping answered with %v, want one probe pong", what, r[nr:]), stats
				}
				stats["probe-exchange"] = true
			case "upgrade":
				if uw.sessClosed {
					uw.fail(cand)
					break
				}
				if !cand.probed {
					// an upgrade packet without a preceding probe exchange: the transport changes only when "the
					// server [has] answered the candidate's probe ping with a probe pong": here it has not, so this is
					// an unexpected packet like any other: only the candidate pays
					stats["upgrade-without-probe"] = true
					if knownUnprobed {
						// (recorded finding: follow what the server did)
						if uw.sr.Sock.Transport().Name() == cand.tr && !cand.closedByServer() {
							cand.isUp, uw.cur, uw.upgrading = true, cand, nil
						} else {
							uw.fail(cand)
						}
						break
					}
					if got := uw.sr.Sock.Transport().Name(); got == cand.tr && uw.cur == nil {
						return fmt.Sprintf("%s: the session's transport changed to %s upon an upgrade packet from a candidate whose probe the server has never answered (no probe was sent)", what, got), stats
					}
					uw.fail(cand)
					break
				}
				cand.isUp, uw.cur, uw.upgrading = true, cand, nil
				stats["upgrade-after-probe"] = true
				if pc.Poll != nil {
					stats["upgrade-with-poll-still-pending"] = true
				}
			default:
				// any other packet ends the attempt: only the candidate pays
				uw.fail(cand)
				stats["candidate-failed.unexpected-packet"] = true
			}
		case "drop":
			cand := uw.cands[st.Cand]
			if cand.isUp {
				break
			}
			cand.drop()
			Settle()
			if cand.alive {
				stats["candidate-failed.drop"] = true
			}
			uw.fail(cand)
		case "toTimeout":
			cand := uw.cands[st.Cand]
			if !cand.alive || cand.isUp {
				break
			}
			at := cand.openedAt + upTimeout + st.D
			if d := at - w.now(); d > 0 {
				time.Sleep(d)
				Settle()
			}
			if w.now() >= cand.openedAt+upTimeout {
				if w.now() == cand.openedAt+upTimeout && st.D == 0 {
					stats["exactly-at-upgrade-timeout"] = true
				}
				uw.fail(cand)
				stats["candidate-failed.timeout"] = true
			}
		case "send":
			if uw.sessClosed {
				break
			}
			uw.seq++
			p := msgT(fmt.Sprintf("down-%d", uw.seq))
			if uw.seq%3 == 0 {
				p = msgB([]byte{byte(uw.seq), 1, 2})
			}
			w.AppSend(uw.sr, p, nil, false, 0)
			uw.sentDown = append(uw.sentDown, p)
			Settle()
		case "clientMsg":
			if uw.sessClosed {
				break
			}
			uw.seq++
			p := msgT(fmt.Sprintf("up-%d", uw.seq))
			uw.sentUp = append(uw.sentUp, p)
			clientSend(p)
		case "poll":
			uw.keepPolling()
		case "advance":
			time.Sleep(st.D)
			Settle()
			for _, cand := range uw.cands {
				if cand.alive && !cand.isUp && w.now() >= cand.openedAt+upTimeout {
					uw.fail(cand)
					stats["candidate-failed.timeout"] = true
				}
			}
		case "appClose":
			if uw.sessClosed {
				break
			}
			stats["session-closed-mid-history"] = true
			uw.sr.Sock.Close(true)
			Settle()
			uw.sessClosed = true
			for _, cand := range uw.cands {
				if !cand.isUp {
					uw.fail(cand)
				}
			}
		}
		uw.keepPolling()
		if f := uw.check(what); f != "" {
			return f, stats
		}
	}
	// afterwards: the session is fully usable, and (if not upgraded) a conformant upgrade still succeeds
	if !uw.sessClosed {
		for _, cand := range uw.cands {
			if cand.alive && !cand.isUp {
				cand.drop()
				Settle()
				uw.fail(cand)
			}
		}
		if f := uw.check("after dropping the remaining candidates"); f != "" {
			return f, stats
		}
		if uw.cur == nil {
			tr := "websocket"
			if c.Rev == 4 && len(c.Steps)%2 == 0 {
				tr = "webtransport"
			}
			if f := conformant(tr, false); f != "" {
				return "final conformant upgrade after the scripted attempts: " + f, stats
			}
			if f := uw.check("final conformant upgrade"); f != "" {
				return f, stats
			}
			stats["later-upgrade-succeeds"] = true
		}
		for k := 0; k < 2; k++ {
			uw.seq++
			up, down := msgT(fmt.Sprintf("final-up-%d", uw.seq)), msgT(fmt.Sprintf("final-down-%d", uw.seq))
			uw.sentUp = append(uw.sentUp, up)
			clientSend(up)
			w.AppSend(uw.sr, down, nil, false, 0)
			uw.sentDown = append(uw.sentDown, down)
			Settle()
			uw.keepPolling()
		}
		for k := 0; k < 5; k++ {
			uw.keepPolling()
			if f := uw.pumpDown(); f != "" {
				return "final traffic: " + f, stats
			}
			if len(uw.gotDown) == len(uw.sentDown) {
				break
			}
			time.Sleep(100 * time.Millisecond)
			Settle()
		}
		if len(uw.gotDown) != len(uw.sentDown) {
			return fmt.Sprintf("final traffic: client received %d of %d application messages", len(uw.gotDown), len(uw.sentDown)), stats
		}
		if f := uw.check("end"); f != "" {
			return f, stats
		}
	}
	return "", stats
}

func TestC08Upgrade(t *testing.T) {
	col := NewCollector("TestC08Upgrade",
		"rapid: a polling session (revision 3/4) and 2-12 steps: open a websocket/webtransport candidate for the session's own, an unknown or a closed sid (also while another candidate is being entertained or after an upgrade), send on a candidate one of {probe ping, other ping, pong, message, upgrade, noop, undecodable frame}, drop a candidate, advance to a candidate's upgrade timeout -1ms/0/+1ms, a complete conformant upgrade (probe, wait for the probe pong, wait for the pending poll to be released, optionally poll again 1-2 times and wait for each release, upgrade), application sends, client messages, polls, time advances, Close(true) of the session; gated variant: the client's probe arrives while the server sits between creating the candidate transport and attaching its listeners; a candidate sends probe, an unexpected packet and the upgrade packet in one burst while the probe pong is still being written; an application Send lands at the very instant of the poll-release tick with a slow flush listener; oracle (reference model of the statement): the transport name changes only when an own-sid candidate sent upgrade, at most once; Upgrading() is true exactly while a candidate is entertained; refused/failed/timed-out candidates are closed by the server and nothing else is; the session never closes; messages in both directions are delivered in order exactly once across the switch; afterwards a conformant upgrade still succeeds and traffic flows. non-trivial: a script that reaches the probe and then fails, or application messages carried across a switch").Use(t)
	knownProbe := isKnown("C08", sigProbeLost)
	for _, gated := range []bool{false, true} {
		rapid.Check(t, func(rt *rapid.T) {
			c := genC08(rt, gated, knownProbe, col)
			journal("C08 %v", c)
			var fail string
			var stats map[string]bool
			res := bubble(t, func() { fail, stats = runC08(c) })
			var cl []string
			for k := range stats {
				cl = append(cl, k)
			}
			sort.Strings(cl)
			failedAfterProbe := stats["probe-exchange"] && (stats["candidate-failed.unexpected-packet"] || stats["candidate-failed.drop"] || stats["candidate-failed.timeout"])
			carried := (stats["conformant-upgrade.websocket"] || stats["conformant-upgrade.webtransport"] || stats["upgrade-after-probe"])
			col.Case(fmt.Sprint(c), failedAfterProbe || carried, map[string]any{"case": clipStr(fmt.Sprint(c), 700), "classes": strings.Join(cl, " ")}, cl...)
			res.rethrow()
			if fail != "" {
				rt.Fatalf("%v\n%s", c, clipStr(fail, 1500))
			}
			if res.Leak != "" {
				rt.Fatalf("%v: %s", c, clipStr(res.Leak, 1500))
			}
		})
	}
	req := []string{"conformant-upgrade.websocket", "conformant-upgrade.webtransport", "candidate-refused.unknown", "candidate-refused.closed", "second-candidate-or-already-upgraded", "candidate-failed.unexpected-packet", "candidate-failed.drop", "candidate-failed.timeout", "upgrade-after-probe", "later-upgrade-succeeds", "session-closed-mid-history", "poll-again-during-upgrade", "poll-arrives-after-the-probe", "send-at-the-release-tick"}
	if !knownProbe {
		req = append(req, "probe-before-listeners")
	}
	req = append(req, "burst-while-probe-pong-is-being-written", "second-candidate-during-the-switch", "perMessageDeflate-configured", "upgrade-packet-while-a-flush-is-in-progress", "upgrade-listener-busy-across-the-attempt's-timeout", "two-candidates-past-the-admission-test-together")
	col.RequireClasses(t, req...)
}

func TestC08ProbeLostFinding(t *testing.T) {
	col := NewCollector("TestC08ProbeLostFinding", "deterministic: polling session, a conformant websocket / webtransport candidate whose probe is sent while the server is between creating the candidate transport and MaybeUpgrade attaching its listeners; oracle: the probe is answered and the upgrade completes. every case is non-trivial").Use(t)
	for _, tr := range []string{"websocket", "webtransport"} {
		c := upCase{Rev: 4, Steps: []upStep{{Kind: "send"}, {Kind: "probeEarly", Tr: tr}, {Kind: "send"}}}
		var fail string
		res := bubble(t, func() { fail, _ = runC08(c) })
		res.rethrow()
		col.Case(fmt.Sprint(c), true, map[string]any{"case": fmt.Sprint(c), "result": clipStr(fail, 300)}, "probe-early")
		demoFinding(t, col, "C08", sigProbeLost, fail != "", tr+": "+clipStr(fail, 400))
	}
}

package harness

// WebSocket client actor with its own RFC 6455 codec (gorilla's client is not
// used, so what the server puts on the wire is observed independently and
// adversarial frame layouts can be expressed).

import (
	"bytes"
	"compress/flate"
	"encoding/binary"
	"fmt"
	"io"
	"net/http"
	"strconv"
	"strings"
	"syscall"
	"time"
)

const (
	opCont   = 0
	opText   = 1
	opBinary = 2
	opClose  = 8
	opPing   = 9
	opPong   = 10
)

type WSFrame struct {
	Fin     bool
	RSV1    bool
	Op      byte
	Payload []byte
}

type WSClient struct {
	W   *World
	O   ClientOpts
	Sid string // non-empty: this connection is an upgrade candidate for Sid
	Ex  *Exchange

	inbuf        []byte
	gotHTTP      bool
	HTTPStatus   int
	HTTPHeader   http.Header
	Frames       []WSFrame
	RecvFrames   []Frame // reassembled data messages
	Recv         []Pkt
	RecvAt       []time.Duration
	Msgs         []Pkt
	Open         *OpenInfo
	GotClose     bool
	CloseCode    int
	CloseText    string
	EOF          bool // server closed the TCP connection
	EOFAt        time.Duration
	Errs         []string
	Deflate      bool // negotiate permessage-deflate
	negotiated   bool
	fragOp       byte
	fragRSV1     bool
	fragBuf      []byte
	inFrag       bool
	MaskKey      [4]byte
	OfferDeflate bool
	// Mod: carrier-level modifications of the upgrade request (early data, a connection that is already gone ...)
	Mod func(*ReqSpec)
}

func (c *WSClient) query() string {
	q := "EIO=" + c.O.eio() + "&transport=websocket"
	if c.O.NoEIO {
		q = "transport=websocket"
	}
	if c.O.B64 {
		q += "&b64=1"
	}
	if c.Sid != "" {
		q += "&sid=" + c.Sid
	}
	if c.O.ExtraQuery != "" {
		q += "&" + c.O.ExtraQuery
	}
	return q
}

// Start issues the upgrade request.
func (c *WSClient) Start() *Exchange {
	spec := NewReq("GET", c.W.Path, c.query())
	h := http.Header{}
	for k, v := range c.O.Extra {
		h[k] = append([]string(nil), v...)
	}
	h.Set("Connection", "Upgrade")
	h.Set("Upgrade", "websocket")
	h.Set("Sec-WebSocket-Version", "13")
	h.Set("Sec-WebSocket-Key", "dGhlIHNhbXBsZSBub25jZQ==")
	if c.OfferDeflate || c.W.WSOfferDeflate {
		h.Set("Sec-WebSocket-Extensions", "permessage-deflate; client_max_window_bits")
	}
	spec.Header = h
	if c.Mod != nil {
		c.Mod(&spec)
	}
	c.Ex = Do(c.W.Srv, spec)
	return c.Ex
}

// Pump consumes whatever the server has written so far.
func (c *WSClient) Pump() {
	if c.Ex == nil {
		return
	}
	c.Ex.mu.Lock()
	conn := c.Ex.Client
	c.Ex.mu.Unlock()
	if conn == nil {
		return
	}
	c.inbuf = append(c.inbuf, conn.r.Drain()...)
	if !c.gotHTTP {
		i := bytes.Index(c.inbuf, []byte("\r\n\r\n"))
		if i < 0 {
			return
		}
		head := string(c.inbuf[:i])
		c.inbuf = c.inbuf[i+4:]
		c.gotHTTP = true
		lines := strings.Split(head, "\r\n")
		if f := strings.Fields(lines[0]); len(f) >= 2 {
			c.HTTPStatus, _ = strconv.Atoi(f[1])
		}
		c.HTTPHeader = http.Header{}
		for _, l := range lines[1:] {
			if k, v, ok := strings.Cut(l, ":"); ok {
				c.HTTPHeader.Add(strings.TrimSpace(k), strings.TrimSpace(v))
			}
		}
		if strings.Contains(c.HTTPHeader.Get("Sec-Websocket-Extensions"), "permessage-deflate") {
			c.negotiated = true
		}
	}
	for {
		f, n, ok := parseWSFrame(c.inbuf)
		if !ok {
			break
		}
		c.inbuf = c.inbuf[n:]
		c.Frames = append(c.Frames, f)
		c.onFrame(f)
	}
	conn.r.mu.Lock()
	eof := conn.r.eof && len(conn.r.buf) == 0
	conn.r.mu.Unlock()
	if eof && !c.EOF {
		c.EOF = true
		c.EOFAt = c.W.now()
	}
}

func parseWSFrame(b []byte) (WSFrame, int, bool) {
	if len(b) < 2 {
		return WSFrame{}, 0, false
	}
	f := WSFrame{Fin: b[0]&0x80 != 0, RSV1: b[0]&0x40 != 0, Op: b[0] & 0x0f}
	masked := b[1]&0x80 != 0
	n := uint64(b[1] & 0x7f)
	off := 2
	switch n {
	case 126:
		if len(b) < 4 {
			return f, 0, false
		}
		n = uint64(binary.BigEndian.Uint16(b[2:]))
		off = 4
	case 127:
		if len(b) < 10 {
			return f, 0, false
		}
		n = binary.BigEndian.Uint64(b[2:])
		off = 10
	}
	var key []byte
	if masked {
		if len(b) < off+4 {
			return f, 0, false
		}
		key = b[off : off+4]
		off += 4
	}
	if uint64(len(b)-off) < n {
		return f, 0, false
	}
	f.Payload = append([]byte(nil), b[off:off+int(n)]...)
	if masked {
		for i := range f.Payload {
			f.Payload[i] ^= key[i%4]
		}
	}
	return f, off + int(n), true
}

func (c *WSClient) onFrame(f WSFrame) {
	switch f.Op {
	case opClose:
		c.GotClose = true
		if len(f.Payload) >= 2 {
			c.CloseCode = int(binary.BigEndian.Uint16(f.Payload))
			c.CloseText = string(f.Payload[2:])
		}
		return
	case opPing, opPong:
		return
	case opText, opBinary:
		if c.inFrag {
			c.Errs = append(c.Errs, "new data frame inside fragmented message")
		}
		c.fragOp, c.fragRSV1, c.fragBuf, c.inFrag = f.Op, f.RSV1, append([]byte(nil), f.Payload...), true
	case opCont:
		if !c.inFrag {
			c.Errs = append(c.Errs, "continuation without start")
			return
		}
		c.fragBuf = append(c.fragBuf, f.Payload...)
	default:
		c.Errs = append(c.Errs, fmt.Sprintf("unknown opcode %d", f.Op))
		return
	}
	if !f.Fin {
		return
	}
	c.inFrag = false
	data := c.fragBuf
	if c.fragRSV1 {
		if !c.negotiated {
			c.Errs = append(c.Errs, "RSV1 set without negotiated extension")
			return
		}
		r := flate.NewReader(io.MultiReader(bytes.NewReader(data), bytes.NewReader([]byte{0x00, 0x00, 0xff, 0xff, 0x01, 0x00, 0x00, 0xff, 0xff})))
		d, err := io.ReadAll(r)
		if err != nil {
			c.Errs = append(c.Errs, "inflate: "+err.Error())
			return
		}
		data = d
	}
	fr := Frame{Binary: c.fragOp == opBinary, Data: data}
	c.RecvFrames = append(c.RecvFrames, fr)
	p, err := decPacketFrame(c.O.Rev, fr)
	if err != nil {
		c.Errs = append(c.Errs, fmt.Sprintf("undecodable frame %v %q: %v", fr.Binary, clip(fr.Data, 60), err))
		return
	}
	c.Recv = append(c.Recv, p)
	c.RecvAt = append(c.RecvAt, c.W.now())
	if p.Type == tMessage {
		c.Msgs = append(c.Msgs, p)
	}
	if p.Type == tOpen && c.Open == nil {
		oi := &OpenInfo{}
		if err := jsonUnmarshal(p.Data, oi); err == nil {
			c.Open = oi
			if c.Sid == "" {
				c.Sid = oi.Sid
			}
		}
	}
}

func buildWSFrame(op byte, fin bool, rsv1 bool, payload []byte, mask bool, key [4]byte, lenForm int) []byte {
	var b []byte
	b0 := op
	if fin {
		b0 |= 0x80
	}
	if rsv1 {
		b0 |= 0x40
	}
	b = append(b, b0)
	mb := byte(0)
	if mask {
		mb = 0x80
	}
	n := len(payload)
	switch {
	case lenForm == 2 || n >= 65536:
		b = append(b, mb|127)
		var l [8]byte
		binary.BigEndian.PutUint64(l[:], uint64(n))
		b = append(b, l[:]...)
	case lenForm == 1 || n >= 126:
		b = append(b, mb|126)
		var l [2]byte
		binary.BigEndian.PutUint16(l[:], uint16(n))
		b = append(b, l[:]...)
	default:
		b = append(b, mb|byte(n))
	}
	if mask {
		b = append(b, key[:]...)
		for i, c := range payload {
			b = append(b, c^key[i%4])
		}
	} else {
		b = append(b, payload...)
	}
	return b
}

func (c *WSClient) conn() *memConn {
	c.Ex.mu.Lock()
	defer c.Ex.mu.Unlock()
	return c.Ex.Client
}

// SendRaw writes raw bytes on the connection.
func (c *WSClient) SendRaw(b []byte) error {
	conn := c.conn()
	if conn == nil {
		return fmt.Errorf("no connection")
	}
	_, err := conn.Write(b)
	return err
}

func (c *WSClient) SendFrame(op byte, fin bool, payload []byte) error {
	return c.SendRaw(buildWSFrame(op, fin, false, payload, true, c.MaskKey, 0))
}

// SendPacket sends one packet as one message, split into the given fragment
// sizes (nil = single frame).
func (c *WSClient) SendPacket(p Pkt, frags []int) error {
	fr := encPacketFrame(c.O.Rev, c.O.B64, p)
	return c.SendMessage(fr, frags)
}

// deflatedLen: the payload length of data as one compressed message (see SendPacketDeflated).
func deflatedLen(data []byte) int {
	var buf bytes.Buffer
	fw, _ := flate.NewWriter(&buf, flate.BestCompression)
	fw.Write(data)
	fw.Flush()
	return buf.Len() - 4
}

// Negotiated reports whether the server accepted permessage-deflate for this connection.
func (c *WSClient) Negotiated() bool { return c.negotiated }

// SendPacketDeflated sends one packet as one compressed message (RFC 7692: the payload is a raw DEFLATE stream
// without its final 00 00 ff ff, RSV1 set on the first frame). Only meaningful when the extension was negotiated.
func (c *WSClient) SendPacketDeflated(p Pkt) error {
	_, err := c.SendPacketDeflatedN(p)
	return err
}

// SendPacketDeflatedN also reports the number of payload bytes on the wire.
func (c *WSClient) SendPacketDeflatedN(p Pkt) (int, error) {
	fr := encPacketFrame(c.O.Rev, c.O.B64, p)
	op := byte(opText)
	if fr.Binary {
		op = opBinary
	}
	var buf bytes.Buffer
	fw, _ := flate.NewWriter(&buf, flate.BestCompression)
	fw.Write(fr.Data)
	fw.Flush()
	comp := buf.Bytes()
	comp = comp[:len(comp)-4]
	return len(comp), c.SendRaw(buildWSFrame(op, true, true, comp, true, c.MaskKey, 0))
}

func (c *WSClient) SendMessage(fr Frame, frags []int) error {
	op := byte(opText)
	if fr.Binary {
		op = opBinary
	}
	data := fr.Data
	if len(frags) == 0 {
		return c.SendFrame(op, true, data)
	}
	first := true
	for _, n := range frags {
		if n > len(data) {
			n = len(data)
		}
		o := byte(opCont)
		if first {
			o = op
		}
		first = false
		if err := c.SendFrame(o, false, data[:n]); err != nil {
			return err
		}
		data = data[n:]
	}
	o := byte(opCont)
	if first {
		o = op
	}
	return c.SendFrame(o, true, data)
}

// StopReading: the client stops reading from the connection (its receive window fills: the server's writes block).
func (c *WSClient) StopReading() {
	if conn := c.conn(); conn != nil {
		conn.r.Stall()
	}
}

// FailServerWrites: the server's next write on the connection fails with a broken pipe while its reader has
// not noticed anything yet.
func (c *WSClient) FailServerWrites() {
	if conn := c.conn(); conn != nil {
		conn.r.FailNextWrite(syscall.EPIPE)
	}
}

// NetworkGivesUp: the network stack reports the connection of a vanished peer as dead (retransmission timeout):
// reads and writes of the server fail.
func (c *WSClient) NetworkGivesUp() {
	if conn := c.conn(); conn != nil {
		conn.r.Fail(syscall.ETIMEDOUT, syscall.ETIMEDOUT)
		conn.w.Fail(syscall.ETIMEDOUT, syscall.ETIMEDOUT)
	}
}

// Drop closes the TCP connection from the client side without a close frame.
func (c *WSClient) Drop() {
	if conn := c.conn(); conn != nil {
		conn.Close()
	}
}

// SendClose sends a close frame.
func (c *WSClient) SendClose(code int, text string) error {
	pl := make([]byte, 2, 2+len(text))
	binary.BigEndian.PutUint16(pl, uint16(code))
	pl = append(pl, text...)
	return c.SendFrame(opClose, true, pl)
}

package harness

// C18 — flush/drain events, send callbacks, listener re-entrancy.
//
//  (a) TestC18Events: the histories of C01 (sends with and without callbacks,
//      concurrent senders, polls, upgrades, gated windows) with the event
//      structure as oracle.
//  (b) TestC18Reentrancy: the matrix {socket events, server events, send
//      callback} x {Send, Close(false), Close(true)} x carrier, enumerated
//      completely; each cell must become quiescent. A cell that wedges is
//      analysed from outside the bubble: a goroutine blocked on a mutex in two
//      consecutive stack dumps is a deadlock, not a timing matter.

import (
	"fmt"
	"regexp"
	"runtime"
	"sort"
	"strings"
	"testing"
	"time"

	"github.com/zishang520/engine.io/v2/config"
	"github.com/zishang520/engine.io/v2/engine"
	"github.com/zishang520/engine.io/v2/transports"
	"github.com/zishang520/engine.io/v2/types"
	"pgregory.net/rapid"
)

const sigFlushReentrancy = "flush-or-drain-listener-calling-send-self-deadlocks"

// eventStructure checks one session's trace.
func eventStructure(w *World, sr *SessRec, stats map[string]bool) string {
	w.mu.Lock()
	defer w.mu.Unlock()
	// socket-level and server-level flush/drain sequences
	var sockFlush [][]PRef
	nSockDrain := 0
	for _, e := range sr.Events {
		switch e.Name {
		case "flush":
			sockFlush = append(sockFlush, e.Pkts)
		case "drain":
			nSockDrain++
		}
	}
	var srvFlush [][]PRef
	nSrvDrain := 0
	for _, e := range w.SrvEvents {
		if e.Sid != sr.Sid {
			continue
		}
		switch e.Name {
		case "srv.flush":
			srvFlush = append(srvFlush, e.Pkts)
		case "srv.drain":
			nSrvDrain++
		}
	}
	// (the recorder attaches at the connection event: the hand-off of the open packet precedes it on the socket)
	closedMidHandOff := false
	if w.OverlappingHandOffs && len(sr.Closes) > 0 {
		// two hand-offs were outstanding on two goroutines and the session was closed meanwhile (by a send callback
		// running on one of them): the hand-off the other goroutine was in the middle of is abandoned where it
		// stands: nothing of a session follows its close event. Its session-level flush may have no server-level
		// counterpart, and hand-offs may lack their drain.
		closedMidHandOff = true
	}
	if len(srvFlush) > 0 && len(srvFlush[0]) == 1 && srvFlush[0][0].Type == "open" && len(srvFlush) == len(sockFlush) && closedMidHandOff {
		sockFlush = sockFlush[:len(sockFlush)-1]
	}
	if len(srvFlush) < len(sockFlush) || len(srvFlush) > len(sockFlush)+1 {
		return fmt.Sprintf("%d flush events on the session, %d on the server for it", len(sockFlush), len(srvFlush))
	}
	off := len(srvFlush) - len(sockFlush)
	for i := range sockFlush {
		if fmt.Sprint(sockFlush[i]) != fmt.Sprint(srvFlush[i+off]) {
			return fmt.Sprintf("hand-off #%d: session flush carries %v, server flush %v", i, sockFlush[i], srvFlush[i+off])
		}
	}
	if closedMidHandOff {
		if nSockDrain > len(sockFlush)+1 || nSrvDrain > len(srvFlush) {
			return fmt.Sprintf("flush/drain counts: session %d/%d, server %d/%d", len(sockFlush), nSockDrain, len(srvFlush), nSrvDrain)
		}
	} else if nSockDrain != len(sockFlush) || nSrvDrain != len(srvFlush) {
		return fmt.Sprintf("flush/drain counts: session %d/%d, server %d/%d", len(sockFlush), nSockDrain, len(srvFlush), nSrvDrain)
	}
	// order within the session's trace: every flush is followed by its drain before the next flush
	// (a polling client may have its next poll served while the goroutine that wrote the previous response has
	// not come back from its write yet: two hand-offs are then outstanding, w.OverlappingHandOffs)
	pendingDrain := 0
	created := map[int]int{}   // tag -> event index of packetCreate
	flushedAt := map[int]int{} // tag -> event index of the flush carrying it
	closeIdx := -1
	lastCbBySender := map[int]int{}
	for i, e := range sr.Events {
		switch e.Name {
		case "flush":
			if pendingDrain > 0 && !w.OverlappingHandOffs {
				return fmt.Sprintf("event #%d: second flush before the drain of the previous hand-off", i)
			}
			pendingDrain++
			if len(e.Pkts) == 0 {
				return fmt.Sprintf("event #%d: flush with no packets", i)
			}
			for _, p := range e.Pkts {
				if p.Tag >= 0 {
					if _, dup := flushedAt[p.Tag]; dup {
						return fmt.Sprintf("packet of Send #%d handed over twice", p.Tag)
					}
					if _, ok := created[p.Tag]; !ok {
						return fmt.Sprintf("packet of Send #%d flushed before its packetCreate event", p.Tag)
					}
					flushedAt[p.Tag] = i
				}
			}
			if len(e.Pkts) >= 2 {
				stats["batch>=2"] = true
			}
		case "drain":
			if pendingDrain == 0 {
				return fmt.Sprintf("event #%d: drain without a preceding flush", i)
			}
			pendingDrain--
		case "packetCreate":
			if len(e.Pkts) == 1 && e.Pkts[0].Tag >= 0 {
				if _, dup := created[e.Pkts[0].Tag]; dup {
					return fmt.Sprintf("packetCreate fired twice for Send #%d", e.Pkts[0].Tag)
				}
				created[e.Pkts[0].Tag] = i
			}
		case "callback":
			tag := e.Pkts[0].Tag
			fi, ok := flushedAt[tag]
			if !ok || fi > i {
				return fmt.Sprintf("callback of Send #%d ran before the flush event of its batch", tag)
			}
			// "in the order of their sends" is defined per sending goroutine
			snd := 0
			for _, sm := range sr.Sent {
				if sm.Tag == tag {
					snd = sm.Sender
				}
			}
			if prev, ok := lastCbBySender[snd]; ok && tag < prev {
				return fmt.Sprintf("callback of Send #%d ran after the callback of the later Send #%d of the same sender", tag, prev)
			}
			lastCbBySender[snd] = tag
			if closeIdx >= 0 {
				return fmt.Sprintf("callback of Send #%d ran after the close event", tag)
			}
			stats["callback-ran"] = true
		case "close":
			if closeIdx < 0 {
				closeIdx = i
			}
		}
	}
	for _, sm := range sr.Sent {
		if len(sm.CbAt) > 1 {
			return fmt.Sprintf("callback of Send #%d ran %d times", sm.Tag, len(sm.CbAt))
		}
		accepted := sm.State == "open" || sm.State == "opening"
		if _, ok := created[sm.Tag]; ok != accepted {
			return fmt.Sprintf("Send #%d issued in state %q: packetCreate fired=%v", sm.Tag, sm.State, ok)
		}
	}
	return ""
}

func TestC18Events(t *testing.T) {
	col := NewCollector("TestC18Events",
		"rapid: the histories of TestC01Outbound (sends with and without callbacks, bursts from two goroutines, polls, waits, upgrades whose check tick and old-transport close cause drains the application did not ask for, Sends inside gated windows) ; oracle over the recorded event trace: every hand-off emits one flush on the session and one on the server with identical packet lists, each followed by one drain before the next flush; packetCreate exactly once per accepted Send and before the flush that carries the packet; no packet handed over twice; a callback runs at most once, after the flush event of its batch, in the order of the Sends, never after the close event. non-trivial: >=2 hand-offs with callbacks and a foreign drain (upgrade), or a batch of >=2 packets with callbacks").Use(t)
	knownPre := isKnown("C01", sigPreEncodedReturn)
	knownRace := isKnown("C01", sigCheckFlushRace)
	var statsC18 map[string]bool
	c01After = func(cw *c01World) string {
		statsC18 = map[string]bool{}
		return eventStructure(cw.w, cw.sr, statsC18)
	}
	defer func() { c01After = nil }()
	rapid.Check(t, func(rt *rapid.T) {
		c := genC01(rt, knownPre, knownRace, col)
		journal("C18 %v", c)
		var fail string
		var stats map[string]bool
		statsC18 = map[string]bool{}
		res := bubble(t, func() { fail, stats = runC01(c) })
		for k := range statsC18 {
			stats["ev."+k] = true
		}
		var cl []string
		for k := range stats {
			cl = append(cl, k)
		}
		sort.Strings(cl)
		nt := stats["ev.callback-ran"] && (stats["upgrade.websocket"] || stats["upgrade.webtransport"] || stats["ev.batch>=2"])
		col.Case(c.String(), nt, map[string]any{"case": clipStr(c.String(), 800)}, cl...)
		res.rethrow()
		if fail != "" {
			rt.Fatalf("%v\n%s", clipStr(c.String(), 2500), clipStr(fail, 1500))
		}
		if res.Leak != "" {
			rt.Fatalf("%v: %s", clipStr(c.String(), 1200), clipStr(res.Leak, 1500))
		}
	})
	col.RequireClasses(t, "ev.callback-ran", "ev.batch>=2", "upgrade.websocket")
}

// ---- (b) re-entrancy matrix ----------------------------------------------------

type reCell struct {
	Event   string // socket event, "srv.<event>" or "callback"
	Action  string // Send | Close(false) | Close(true) | Send+Close(false) | Send+Close(true)
	Carrier string
	Once    bool // the listener is registered with Once instead of On
}

func (c reCell) String() string {
	if c.Once {
		return fmt.Sprintf("%s once-listener -> %s on %s", c.Event, c.Action, c.Carrier)
	}
	return fmt.Sprintf("%s listener -> %s on %s", c.Event, c.Action, c.Carrier)
}

var reSocketEvents = []string{"packet", "packetCreate", "data", "message", "heartbeat", "flush", "drain", "close", "upgrading", "upgrade"}
var reServerEvents = []string{"srv.connection", "srv.flush", "srv.drain", "srv.initial_headers", "srv.headers"}

func reCells() []reCell {
	var out []reCell
	for _, car := range []string{"polling", "websocket", "webtransport"} {
		for _, act := range []string{"Send", "Close(false)", "Close(true)", "Send+Close(false)", "Send+Close(true)"} {
			for _, once := range []bool{false, true} {
				for _, ev := range reSocketEvents {
					out = append(out, reCell{ev, act, car, once})
				}
				for _, ev := range reServerEvents {
					if (ev == "srv.initial_headers" || ev == "srv.headers") && car != "polling" {
						continue
					}
					out = append(out, reCell{ev, act, car, once})
				}
			}
			out = append(out, reCell{"callback", act, car, false})
		}
	}
	return out
}

// runReCell runs the scenario that makes the cell's event fire with a listener performing the action.
func runReCell(c reCell) (fired bool, fail string) {
	o := config.DefaultServerOptions()
	o.SetTransports(types.NewSet("polling", "websocket", "webtransport"))
	o.SetPingInterval(time.Second)
	o.SetPingTimeout(time.Second)
	w := NewWorld(o)
	defer w.Teardown()
	did := false
	act := func(sock engine.Socket) {
		if did {
			return
		}
		did = true
		fired = true
		switch c.Action {
		case "Send":
			sock.Send(types.NewStringBufferString("from a listener"), nil, nil)
		case "Close(false)":
			sock.Close(false)
		case "Send+Close(false)":
			// a last word, then an orderly close: the close finds a packet in the write buffer
			sock.Send(types.NewStringBufferString("bye from a listener"), nil, nil)
			sock.Close(false)
		case "Send+Close(true)":
			sock.Send(types.NewStringBufferString("bye from a listener"), nil, nil)
			sock.Close(true)
		default:
			sock.Close(true)
		}
	}
	var theSock engine.Socket
	if strings.HasPrefix(c.Event, "srv.") {
		name := strings.TrimPrefix(c.Event, "srv.")
		reg := w.Srv.On
		if c.Once {
			// a one-time listener that does not get to act yet (the session does not exist) is spent: register
			// it anew each time until it has acted
			reg = w.Srv.Once
		}
		var lst types.Listener
		lst = func(a ...any) {
			if c.Once && !did {
				defer func() {
					if !did {
						w.Srv.Once(types.EventName(name), lst)
					}
				}()
			}
			switch name {
			case "connection":
				act(a[0].(engine.Socket))
			case "flush", "drain":
				if s, ok := a[0].(engine.Socket); ok && theSock != nil {
					act(s)
				}
			default: // headers events: act on the session once it exists
				if theSock != nil {
					act(theSock)
				}
			}
		}
		reg(types.EventName(name), lst)
	}
	w.OnConn = func(sr *SessRec) {
		theSock = sr.Sock
		if !strings.HasPrefix(c.Event, "srv.") && c.Event != "callback" {
			if c.Once {
				sr.Sock.Once(types.EventName(c.Event), func(...any) { act(sr.Sock) })
			} else {
				sr.Sock.On(types.EventName(c.Event), func(...any) { act(sr.Sock) })
			}
		}
	}
	s, why := doHandshake(w, c06HS{Carrier: c.Carrier, EIO: "4"})
	if s == nil {
		return false, "harness: handshake: " + why
	}
	sr := w.Get(s.open.Sid)
	if sr == nil {
		// closed inside the connection listener: nothing more to drive
		return fired, ""
	}
	cl := hbClient{s: s}
	cl.keepPolling()
	// traffic that makes every event fire
	if c.Event == "callback" {
		sr.Sock.Send(types.NewStringBufferString("with callback"), nil, func(transports.Transport) { act(sr.Sock) })
	} else {
		w.AppSend(sr, msgT("down"), nil, true, 0) // packetCreate, flush, drain (+ server events, headers on polling)
	}
	Settle()
	cl.keepPolling()
	if len(sr.Closes) == 0 {
		cl.send(msgT("up")) // packet, data, message
		Settle()
		cl.keepPolling()
	}
	if len(sr.Closes) == 0 && (c.Event == "upgrading" || c.Event == "upgrade") && s.pc != nil {
		wc, _, _ := Upgrade(w, s.pc, "websocket")
		Settle()
		if wc != nil && sr.Sock.Transport().Name() == "websocket" {
			// the client now talks over the new transport
			s = &c06Sess{wc: wc}
			cl = hbClient{s: s}
		} else if wc != nil {
			// the listener closed the session or the attempt was abandoned: the client lets go of the candidate
			wc.Drop()
			Settle()
		}
	}
	if len(sr.Closes) == 0 && c.Event == "heartbeat" {
		time.Sleep(time.Second) // server ping
		Settle()
		cl.keepPolling()
		cl.send(ctl(tPong))
		Settle()
	}
	if len(sr.Closes) == 0 && c.Event == "close" {
		sr.Sock.Close(true)
		Settle()
	}
	// the session must still be operable (or properly closed): one more round trip
	if len(sr.Closes) == 0 && sr.Sock.ReadyState() == "open" {
		n := len(sr.Msgs)
		cl.keepPolling()
		cl.send(msgT("after"))
		Settle()
		if len(sr.Msgs) != n+1 && len(sr.Closes) == 0 {
			return fired, "the session no longer delivers client messages after the listener's call"
		}
	}
	return fired, ""
}

var blockedRe = regexp.MustCompile(`(?m)^goroutine (\d+) \[(sync\.Mutex\.Lock|sync\.RWMutex\.Lock|sync\.RWMutex\.RLock|semacquire)[^\]]*\]:`)

func mutexBlocked() map[string]string {
	buf := make([]byte, 4<<20)
	buf = buf[:runtime.Stack(buf, true)]
	out := map[string]string{}
	for _, g := range strings.Split(string(buf), "\n\n") {
		if m := blockedRe.FindStringSubmatch(g); m != nil && strings.Contains(g, "engine.io/v2/") {
			out[m[1]] = g
		}
	}
	return out
}

func TestC18Reentrancy(t *testing.T) {
	col := NewCollector("TestC18Reentrancy",
		"exhaustive matrix: {listener registered with On, with Once} x {socket events packet, packetCreate, data, message, heartbeat, flush, drain, close, upgrading, upgrade; server events connection, flush, drain, initial_headers, headers; send callback} x {Send, Close(false), Close(true), Send then Close(false), Send then Close(true)} x {polling, websocket, webtransport}: a listener of the event performs the call the first time it fires, inside a scenario that makes the event fire; oracle: the scenario runs to quiescence and the session still round-trips a message (or is properly closed). A cell that does not finish is examined from outside the bubble: goroutines of the library blocked on a mutex in two stack dumps one second apart prove a deadlock. every cell is non-trivial").Use(t)
	known := isKnown("C18", sigFlushReentrancy)
	var wedged []string
	for _, c := range reCells() {
		journal("C18 cell %v", c)
		if known && (c.Event == "flush" || c.Event == "drain" || c.Event == "srv.flush" || c.Event == "srv.drain") && c.Action == "Send" {
			col.Exclude("Send from a flush/drain listener (known finding " + sigFlushReentrancy + ")")
			continue
		}
		type result struct {
			fired bool
			fail  string
			res   bubbleResult
		}
		done := make(chan result, 1)
		go func() {
			var r result
			r.res = bubble(t, func() { r.fired, r.fail = runReCell(c) })
			done <- r
		}()
		var r result
		select {
		case r = <-done:
		case <-time.After(4 * time.Second):
			// not a verdict by itself: look at what the goroutines are doing
			first := mutexBlocked()
			time.Sleep(time.Second)
			second := mutexBlocked()
			var stuck []string
			for id, st := range first {
				if _, still := second[id]; still {
					stuck = append(stuck, clipStr(st, 1800))
				}
			}
			select {
			case r = <-done:
				// it finished after all (slow machine): fall through to the normal evaluation
			default:
				if len(stuck) == 0 {
					fmt.Printf("HARNESS-BROKEN test=TestC18Reentrancy cell %v did not finish and no goroutine is blocked on a mutex\n", c)
					t.Fatalf("cell %v inconclusive", c)
				}
				msg := fmt.Sprintf("VERIF-WEDGE cell {%v}: the scenario never became quiescent; goroutine(s) of the library blocked on a mutex in two dumps one second apart:\n%s", c, strings.Join(stuck, "\n\n"))
				wedged = append(wedged, msg)
				col.Case(c.String(), true, map[string]any{"cell": c.String(), "result": "wedged"}, "wedged", "carrier."+c.Carrier)
				// the wedged bubble cannot be unwound; its goroutines stay blocked. Carry on with the next cell.
				continue
			}
		}
		cls := []string{"carrier." + c.Carrier, "action." + c.Action}
		if r.fired {
			cls = append(cls, "listener-fired")
		} else {
			cls = append(cls, "event-did-not-fire")
		}
		col.Case(c.String(), true, map[string]any{"cell": c.String(), "fired": r.fired, "result": r.fail}, cls...)
		if r.res.Panicked {
			t.Errorf("cell {%v}: panic: %v\n%s", c, r.res.Value, clipStr(r.res.Stack, 1500))
		}
		if r.fail != "" {
			t.Errorf("cell {%v}: %s", c, r.fail)
		}
		if r.res.Leak != "" {
			t.Errorf("cell {%v}: %s", c, clipStr(r.res.Leak, 1500))
		}
	}
	col.SetExhaustive(true)
	if len(wedged) > 0 {
		detail := fmt.Sprintf("%d cells wedge, first: %s", len(wedged), clipStr(wedged[0], 2500))
		// each wedged cell belongs to one recorded signature, or is a violation of its own
		bySig := map[string][]string{}
		var other []string
		for _, m := range wedged {
			switch {
			case strings.Contains(m, "flush listener -> Send") || strings.Contains(m, "drain listener -> Send"):
				bySig[sigFlushReentrancy] = append(bySig[sigFlushReentrancy], m)
			case strings.Contains(m, "packetCreate once-listener -> Send"):
				bySig[sigOnceListenerSend] = append(bySig[sigOnceListenerSend], m)
			default:
				other = append(other, m)
			}
		}
		for sig, ms := range bySig {
			demoFinding(t, col, "C18", sig, true, fmt.Sprintf("%d cells wedge, first: %s", len(ms), clipStr(ms[0], 2500)))
		}
		if len(other) > 0 {
			t.Errorf("%d cells wedge, first: %s", len(other), clipStr(other[0], 2500))
		}
		_ = detail
	}
}

const sigOnceListenerSend = "once-listener-of-packetCreate-calling-send-deadlocks"

package harness

// C14 — sequences of messages on one WebTransport connection where the
// application keeps a writer beyond its message: NextWriter closes the writer
// before it implicitly, and whatever the former holder does with it later
// (Write, WriteString, Close) must neither add to nor cut the frame of the
// message now being written.

import (
	"bytes"
	"fmt"
	"io"
	"testing"

	webtrans "github.com/zishang520/engine.io/v2/webtransport"
	"pgregory.net/rapid"
)

func TestC14WriterSequence(t *testing.T) {
	col := NewCollector("TestC14WriterSequence",
		"rapid: 2-8 messages on one connection (kind, length 0..2*buffer biased to the frame-length boundaries, role, write buffer size, pool or not), each written through NextWriter in drawn chunks; a drawn subset of the writers is NOT closed by the application (the next NextWriter closes them, which emits their frame), and while a later message is open its predecessors' stale writers are used again (Write, WriteString, Close, in drawn places between that message's chunks); oracle: the stream carries exactly one reference frame per message, in order, each with exactly the bytes written through its own writer while it was open; every late Write / WriteString on a closed writer reports an error and accepts nothing. non-trivial: a stale writer was used while another message was open").Use(t)
	rapid.Check(t, func(rt *rapid.T) {
		W := rapid.SampledFrom(wtWriteBufSizes).Draw(rt, "W")
		eW := effW(W)
		server := rapid.Bool().Draw(rt, "server")
		var pool webtrans.BufferPool
		if rapid.Bool().Draw(rt, "pool") {
			pool = &memPool{}
		}
		pipe := newHalfPipe()
		c := webtrans.NewConn(nil, &memWTStream{out: pipe, in: newHalfPipe()}, server, 0, W, pool, nil, nil)
		n := rapid.IntRange(2, 8).Draw(rt, "messages")
		var want []byte
		var stale []io.WriteCloser
		var hist []string
		staleUsed := false
		for i := 0; i < n; i++ {
			bin := rapid.Bool().Draw(rt, "binary")
			ln := rapid.OneOf(rapid.IntRange(0, 130), rapid.SampledFrom([]int{0, 1, 125, 126, 127, eW - 1, eW, eW + 1, 2 * eW}), rapid.IntRange(0, 2*eW)).Draw(rt, "len")
			if ln < 0 {
				ln = 0
			}
			pl := makePayload(ln, byte(0x10+i))
			mt := webtrans.TextMessage
			if bin {
				mt = webtrans.BinaryMessage
			}
			w, err := c.NextWriter(mt)
			if err != nil {
				rt.Fatalf("history %v: NextWriter #%d: %v", hist, i, err)
			}
			hist = append(hist, fmt.Sprintf("open#%d(bin=%v,len=%d)", i, bin, ln))
			rest := pl
			lateOps := 0
			if len(stale) > 0 {
				lateOps = rapid.IntRange(0, 3).Draw(rt, "lateOps")
			}
			for step := 0; len(rest) > 0 || lateOps > 0; step++ {
				if lateOps > 0 && (len(rest) == 0 || rapid.Bool().Draw(rt, "lateNow")) {
					lateOps--
					staleUsed = true
					k := rapid.IntRange(0, len(stale)-1).Draw(rt, "staleWriter")
					junk := bytes.Repeat([]byte{0xEE}, rapid.IntRange(0, 40).Draw(rt, "junkLen"))
					switch op := rapid.SampledFrom([]string{"Write", "Write", "WriteString", "Close"}).Draw(rt, "lateOp"); op {
					case "Write":
						m, err := stale[k].Write(junk)
						hist = append(hist, fmt.Sprintf("stale#%d.Write(%d)=%d,%v", k, len(junk), m, err))
						if err == nil || m != 0 {
							rt.Fatalf("history %v: Write of %d bytes on a writer that an earlier NextWriter had closed returned (%d, %v): it must be refused", hist, len(junk), m, err)
						}
					case "WriteString":
						m, err := io.WriteString(stale[k], string(junk))
						hist = append(hist, fmt.Sprintf("stale#%d.WriteString(%d)=%d,%v", k, len(junk), m, err))
						if err == nil || m != 0 {
							rt.Fatalf("history %v: WriteString of %d bytes on a writer that an earlier NextWriter had closed returned (%d, %v): it must be refused", hist, len(junk), m, err)
						}
					default:
						err := stale[k].Close()
						hist = append(hist, fmt.Sprintf("stale#%d.Close()=%v", k, err))
					}
					continue
				}
				m := min(len(rest), rapid.IntRange(1, max(1, eW)).Draw(rt, "chunk"))
				if k, err := w.Write(rest[:m]); err != nil || k != m {
					rt.Fatalf("history %v: Write of %d bytes on the open writer #%d returned (%d, %v)", hist, m, i, k, err)
				}
				rest = rest[m:]
			}
			want = append(want, wtEncode(bin, pl)...)
			if i == n-1 || rapid.Bool().Draw(rt, "closeIt") {
				if err := w.Close(); err != nil {
					rt.Fatalf("history %v: Close of writer #%d: %v", hist, i, err)
				}
				hist = append(hist, fmt.Sprintf("close#%d", i))
				if rapid.IntRange(0, 3).Draw(rt, "keepClosedOne") == 0 {
					stale = append(stale, w) // a writer the application closed itself and still holds
				}
			} else {
				stale = append(stale, w)
				hist = append(hist, fmt.Sprintf("left-open#%d", i))
			}
		}
		got := pipe.Drain()
		cls := []string{"no-stale-writer-used"}
		if staleUsed {
			cls = []string{"stale-writer-used-while-another-message-is-open"}
		}
		col.Case(fmt.Sprint(W, server, pool != nil, hist), staleUsed, map[string]any{"W": W, "server": server, "pool": pool != nil, "history": fmt.Sprint(hist)}, cls...)
		if !bytes.Equal(got, want) {
			rt.Fatalf("history %v (W=%d server=%v pool=%v): the stream carries %d bytes, want the %d bytes of one frame per message (first difference at %d)", hist, W, server, pool != nil, len(got), len(want), firstDiff(got, want))
		}
	})
	col.RequireClasses(t, "stale-writer-used-while-another-message-is-open")
}

package harness

// C20, the concurrent Map instantiated with a value type of size zero (struct{}, [0]int): a set-like use that the
// generic type invites. "Ordinary map semantics" do not depend on the value type.

import (
	"fmt"
	"sort"
	"testing"

	"github.com/zishang520/engine.io/v2/types"
	"pgregory.net/rapid"
)

const sigMapZeroSize = "map-with-zero-size-values-loses-stored-keys"

type zsOp struct {
	Kind string
	K    int
}

func (o zsOp) String() string { return fmt.Sprintf("%s(%d)", o.Kind, o.K) }

// runZS applies a script to a Map[int, V] and to a Go map; V is struct{} or [0]int.
func runZS[V comparable](ops []zsOp) (fail string) {
	defer func() {
		if r := recover(); r != nil {
			fail = fmt.Sprintf("panic: %v", r)
		}
	}()
	var zero V
	var m types.Map[int, V]
	mm := map[int]V{}
	var trace []string
	for _, o := range ops {
		trace = append(trace, o.String())
		_, present := mm[o.K]
		switch o.Kind {
		case "store":
			m.Store(o.K, zero)
			mm[o.K] = zero
		case "load":
			if _, ok := m.Load(o.K); ok != present {
				return fmt.Sprintf("after %v: Load(%d) ok=%v, model %v", trace, o.K, ok, present)
			}
		case "loadOrStore":
			if _, loaded := m.LoadOrStore(o.K, zero); loaded != present {
				return fmt.Sprintf("after %v: LoadOrStore(%d) loaded=%v, model %v", trace, o.K, loaded, present)
			}
			mm[o.K] = zero
		case "loadAndDelete":
			if _, loaded := m.LoadAndDelete(o.K); loaded != present {
				return fmt.Sprintf("after %v: LoadAndDelete(%d) loaded=%v, model %v", trace, o.K, loaded, present)
			}
			delete(mm, o.K)
		case "delete":
			m.Delete(o.K)
			delete(mm, o.K)
		case "swap":
			if _, loaded := m.Swap(o.K, zero); loaded != present {
				return fmt.Sprintf("after %v: Swap(%d) loaded=%v, model %v", trace, o.K, loaded, present)
			}
			mm[o.K] = zero
		case "cas":
			if swapped := m.CompareAndSwap(o.K, zero, zero); swapped != present {
				return fmt.Sprintf("after %v: CompareAndSwap(%d) swapped=%v, model %v", trace, o.K, swapped, present)
			}
		case "cad":
			if deleted := m.CompareAndDelete(o.K, zero); deleted != present {
				return fmt.Sprintf("after %v: CompareAndDelete(%d) deleted=%v, model %v", trace, o.K, deleted, present)
			}
			delete(mm, o.K)
		case "range":
			// (consolidates the table: entries move between its two internal maps)
			m.Range(func(int, V) bool { return true })
		case "clear":
			m.Clear()
			mm = map[int]V{}
		}
		if got := m.Len(); got != len(mm) {
			return fmt.Sprintf("after %v: Len()=%d, model %d", trace, got, len(mm))
		}
		keys := m.Keys()
		sort.Ints(keys)
		var want []int
		for k := range mm {
			want = append(want, k)
		}
		sort.Ints(want)
		if fmt.Sprint(keys) != fmt.Sprint(want) {
			return fmt.Sprintf("after %v: Keys()=%v, model %v", trace, keys, want)
		}
	}
	return ""
}

func TestC20MapZeroSizeValues(t *testing.T) {
	col := NewCollector("TestC20MapZeroSizeValues",
		"rapid: scripts of 1-30 operations (Store, Load, LoadOrStore, LoadAndDelete, Delete, Swap, CompareAndSwap, CompareAndDelete, Range, Clear; Len and Keys after every step) over 4 keys on types.Map[int, struct{}] and types.Map[int, [0]int] against a Go map; oracle: every return value and the key set equal the model, nothing panics. non-trivial: a key is looked up after it was stored").Use(t)
	known := isKnown("C20", sigMapZeroSize)
	rapid.Check(t, func(rt *rapid.T) {
		if known {
			col.Exclude("Map with zero-size values (known finding " + sigMapZeroSize + ")")
			return
		}
		n := rapid.IntRange(1, 30).Draw(rt, "nops")
		var ops []zsOp
		stored, lookedUp := map[int]bool{}, false
		for i := 0; i < n; i++ {
			o := zsOp{Kind: rapid.SampledFrom([]string{"store", "store", "load", "load", "loadOrStore", "loadAndDelete", "delete", "swap", "cas", "cad", "range", "clear"}).Draw(rt, "kind"), K: rapid.IntRange(0, 3).Draw(rt, "k")}
			if o.Kind == "store" || o.Kind == "loadOrStore" || o.Kind == "swap" {
				stored[o.K] = true
			} else if stored[o.K] {
				lookedUp = true
			}
			ops = append(ops, o)
		}
		arr := rapid.Bool().Draw(rt, "arrayOfLengthZero")
		var fail string
		if arr {
			fail = runZS[[0]int](ops)
		} else {
			fail = runZS[struct{}](ops)
		}
		cls := "value-type.struct{}"
		if arr {
			cls = "value-type.[0]int"
		}
		col.Case(fmt.Sprint(arr, ops), lookedUp, map[string]any{"valueType": cls, "script": fmt.Sprint(ops)}, cls)
		if fail != "" {
			rt.Fatalf("Map[int, %s]: %s", cls[len("value-type."):], fail)
		}
	})
}

func TestC20MapZeroSizeFinding(t *testing.T) {
	col := NewCollector("TestC20MapZeroSizeFinding", "deterministic: Map[int, struct{}]: Store then Load; Store then LoadOrStore; Store, Range, Store of a second key, Len. every case is non-trivial").Use(t)
	for _, ops := range [][]zsOp{
		{{"store", 1}, {"load", 1}},
		{{"store", 1}, {"loadOrStore", 1}},
		{{"store", 1}, {"range", 0}, {"store", 2}, {"load", 2}},
	} {
		fail := runZS[struct{}](ops)
		col.Case(fmt.Sprint(ops), true, map[string]any{"script": fmt.Sprint(ops), "result": clipStr(fail, 300)}, "value-type.struct{}")
		demoFinding(t, col, "C20", sigMapZeroSize, fail != "", fmt.Sprintf("Map[int, struct{}] %v: %s", ops, clipStr(fail, 300)))
	}
}

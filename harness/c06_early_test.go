package harness

// C06, early client: a websocket client does not have to wait for the open packet before it sends, and the
// transport's reader goroutine runs before the session is declared open. Whatever such a client sends (a revision-3
// ping, to which the server owes a pong; a message), "the first packet the client receives is an open packet" and
// a configured initial packet comes right after it. The handshake goroutine is held at the yield point
// socket.onOpen.open (the session has just been declared open) while the client's packets arrive.

import (
	"fmt"
	"testing"
	"time"

	"github.com/zishang520/engine.io/v2/config"
	"github.com/zishang520/engine.io/v2/types"
	"pgregory.net/rapid"
)

const sigReplyBeforeOpen = "reply-to-an-early-client-packet-overtakes-the-open-packet"

type ecCase struct {
	Rev     int
	Initial string   // "" none, else the text of the configured initial packet
	Pkts    []string // ping | message | noop
	Early   bool     // (unused: gorilla refuses an opening request that is followed by data at once; C05 upgrade failures)
	Gate    bool     // hold the handshake right after the session was declared open
}

func (c ecCase) String() string {
	return fmt.Sprintf("{websocket rev%d initial=%q early-packets=%v first-with-the-request=%v held-after-open=%v}", c.Rev, c.Initial, c.Pkts, c.Early, c.Gate)
}

func runEC(c ecCase) (fail string, stats map[string]bool) {
	stats = map[string]bool{}
	o := config.DefaultServerOptions()
	o.SetAllowEIO3(true)
	o.SetPingInterval(5 * time.Second)
	o.SetPingTimeout(3 * time.Second)
	if c.Initial != "" {
		o.SetInitialPacket(types.NewStringBufferString(c.Initial))
	}
	w := NewWorld(o)
	defer w.Teardown()
	g := InstallGates(nil)
	defer g.Uninstall()
	var gp GatePoint
	if c.Gate {
		gp = GatePoint{"socket.onOpen.open", g.Count("socket.onOpen.open")}
		g.mu.Lock()
		g.plan[gp] = true
		g.mu.Unlock()
	}
	eio := fmt.Sprint(c.Rev)
	raw := func(k string) []byte {
		p, _ := epPkt(k)
		return encPacketFrame(c.Rev, false, p).Data
	}
	wc := &WSClient{W: w, O: ClientOpts{Rev: c.Rev, EIO: eio}}
	if c.Early {
		first := buildWSFrame(opText, true, false, raw(c.Pkts[0]), true, [4]byte{9, 8, 7, 6}, 0)
		wc.Mod = func(r *ReqSpec) { r.EarlyData = first }
	}
	wc.Start()
	Settle()
	held := false
	for _, p := range g.Parked() {
		if p == gp && c.Gate {
			held = true
		}
	}
	if held {
		stats["client-packets-between-the-session-being-declared-open-and-its-open-packet"] = true
	}
	pings := 0
	for i, k := range c.Pkts {
		if k == "ping" {
			pings++
		}
		if c.Early && i == 0 {
			continue
		}
		wc.SendMessage(Frame{Data: raw(k)}, nil)
		Settle()
	}
	if c.Gate {
		g.mu.Lock()
		delete(g.plan, gp)
		g.mu.Unlock()
		g.Release(gp)
		Settle()
	}
	wc.Pump()
	recv := wc.Recv
	if len(recv) == 0 || recv[0].Type != tOpen {
		return fmt.Sprintf("the first packet the client received is not the open packet: %s", pktsString(recv)), stats
	}
	rest := recv[1:]
	if c.Initial != "" {
		if len(rest) == 0 || !rest[0].Equal(msgT(c.Initial)) {
			return fmt.Sprintf("the configured initial packet %q is not the first message right after the open packet: %s", c.Initial, pktsString(recv)), stats
		}
		rest = rest[1:]
	}
	pongs := 0
	for _, p := range rest {
		if p.Type != tPong {
			return fmt.Sprintf("unexpected packet %v after the open packet: %s", p, pktsString(recv)), stats
		}
		pongs++
	}
	if pongs > pings {
		return fmt.Sprintf("%d pongs for %d pings: %s", pongs, pings, pktsString(recv)), stats
	}
	if pongs > 0 {
		stats["early-ping-answered"] = true
	}
	if len(wc.Errs) > 0 {
		return fmt.Sprintf("client could not decode: %v", wc.Errs), stats
	}
	// the session works
	sr := w.Get(wc.Sid)
	if sr == nil || len(sr.Closes) > 0 {
		return fmt.Sprintf("session closed by well-formed early packets %v", c.Pkts), stats
	}
	n := len(sr.Msgs)
	wc.SendPacket(msgT("after"), nil)
	Settle()
	if len(sr.Msgs) != n+1 {
		return "the session no longer delivers client messages", stats
	}
	wc.Drop()
	Settle()
	return "", stats
}

func genEC(rt *rapid.T) ecCase {
	c := ecCase{Rev: 3}
	if rapid.IntRange(0, 3).Draw(rt, "rev4") == 0 {
		c.Rev = 4
	}
	c.Initial = rapid.SampledFrom([]string{"", "", "hello", "0"}).Draw(rt, "initial")
	kinds := []string{"ping", "ping", "message", "noop"}
	if c.Rev == 4 {
		kinds = []string{"message", "noop", "pong"}
	}
	n := rapid.IntRange(1, 3).Draw(rt, "n")
	for i := 0; i < n; i++ {
		c.Pkts = append(c.Pkts, rapid.SampledFrom(kinds).Draw(rt, "pkt"))
	}
	c.Gate = rapid.IntRange(0, 3).Draw(rt, "held") != 0
	return c
}

func TestC06EarlyClient(t *testing.T) {
	col := NewCollector("TestC06EarlyClient",
		"rapid: a websocket handshake (revision 3, sometimes 4; initial packet configured or not) whose client sends 1-3 packets (revision 3: ping, message, noop; revision 4: message, noop, pong) without waiting for the open packet; the handshake goroutine is held at the yield point socket.onOpen.open (the session has just been declared open, its open packet is not on its way yet) while they arrive; oracle: the first packet the client receives is the open packet, the configured initial packet is the first message right after it, then at most one pong per ping, the session works afterwards. non-trivial: the handshake was actually held while packets arrived").Use(t)
	known := isKnown("C06", sigReplyBeforeOpen)
	rapid.Check(t, func(rt *rapid.T) {
		c := genEC(rt)
		if known && c.Rev == 3 {
			col.Exclude("revision-3 pings before the open packet (known finding " + sigReplyBeforeOpen + ")")
			c.Rev = 4
			c.Pkts = []string{"message"}
		}
		journal("C06ec %v", c)
		var fail string
		var stats map[string]bool
		res := bubble(t, func() { fail, stats = runEC(c) })
		res.rethrow()
		var cl []string
		for k := range stats {
			cl = append(cl, k)
		}
		col.Case(c.String(), stats["client-packets-between-the-session-being-declared-open-and-its-open-packet"], map[string]any{"case": c.String()}, cl...)
		if fail != "" {
			rt.Fatalf("%v: %s", c, fail)
		}
		if res.Leak != "" {
			rt.Fatalf("%v: %s", c, clipStr(res.Leak, 1200))
		}
	})
	col.RequireClasses(t, "client-packets-between-the-session-being-declared-open-and-its-open-packet", "early-ping-answered")
}

func TestC06ReplyBeforeOpenFinding(t *testing.T) {
	col := NewCollector("TestC06ReplyBeforeOpenFinding", "deterministic: revision-3 websocket handshake held right after the session was declared open, the client's ping arrives (initial packet configured or not), the handshake goes on; oracle of TestC06EarlyClient. every case is non-trivial").Use(t)
	for _, c := range []ecCase{
		{Rev: 3, Pkts: []string{"ping"}, Gate: true},
		{Rev: 3, Pkts: []string{"ping", "message"}, Gate: true},
		{Rev: 3, Initial: "hello", Pkts: []string{"ping", "ping"}, Gate: true},
	} {
		var fail string
		res := bubble(t, func() { fail, _ = runEC(c) })
		res.rethrow()
		col.Case(c.String(), true, map[string]any{"case": c.String(), "result": clipStr(fail, 300)}, "client-packets-between-the-session-being-declared-open-and-its-open-packet")
		demoFinding(t, col, "C06", sigReplyBeforeOpen, fail != "", fmt.Sprintf("%v: %s", c, clipStr(fail, 300)))
	}
}

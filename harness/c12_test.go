package harness

// C12 — orderly close and shutdown: buffered data first, every session closed once.

import (
	"fmt"
	"io"
	"sort"
	"strings"
	"sync/atomic"
	"testing"
	"time"

	"github.com/zishang520/engine.io/v2/config"
	"github.com/zishang520/engine.io/v2/engine"
	"github.com/zishang520/engine.io/v2/types"
	"pgregory.net/rapid"
)

const (
	sigCloseLosesBatch = "ws-wt-teardown-while-writer-holds-last-batch"
	ocPingInterval     = 25 * time.Second
	ocPingTimeout      = 20 * time.Second
)

type ocSessSpec struct {
	Car      string // polling | websocket | webtransport | up-websocket | up-webtransport (upgraded from polling)
	Rev      int
	K        int    // sends before the close
	Poll     string // polling: pending | later | never
	Later    time.Duration
	GateSend bool // hold the transport's writer goroutine at its first statement while the close runs
	Sizes    []int
	PreClose bool // shutdown cases: the application already called Close(false) on this session (it may still be 'closing')
}

type ocCase struct {
	Sess       []ocSessSpec
	Close      string // close | closeDiscard | server | httpServer
	Target     int    // session closed by close/closeDiscard
	MidUpgrade bool   // target session has an upgrade candidate in flight when closed
	// FinishUpgrade: after a graceful close with data still buffered the probed candidate sends its upgrade packet:
	// the switch completes, the buffered packets leave on the new transport, then the session closes
	FinishUpgrade bool
	// CloseIn: graceful close: the application says a last word and closes from inside a listener of this event
	// of the target session (flush | drain | srv.flush | srv.drain) while the sends are going on: Send(bye), then
	// Close(false). "" = the close is called after the sends, from outside any listener
	CloseIn string
	// CloseHeld: graceful close: the closing goroutine is held inside Close, after it has found packets in the write
	// buffer, while another goroutine (the transport's writer finishing the batch before, or the next poll) hands
	// those packets over; then it goes on
	CloseHeld bool
	// PMD: the server is configured with perMessageDeflate (threshold 0 or 1024): the websocket writer takes its
	// compression branch
	PMD int // 0: not configured; otherwise threshold+1
	// Reconnect: shutdown cases: a client reconnects (a new polling handshake) from the close notification of its
	// old session, i.e. while the shutdown is still going through the table. Whether the shutdown catches the new
	// session as well is not fixed; the table, the count and the set of live sessions must agree afterwards
	Reconnect bool
	// CloseDuringFlush: graceful close from another goroutine while the last batch is inside the application's
	// flush listener: taken from the write buffer (which is empty now) and not yet handed to the transport
	CloseDuringFlush bool
}

func (c ocCase) String() string {
	return fmt.Sprintf("{%+v close=%s target=%d midUpgrade=%v finishUpgrade=%v closeIn=%q closeHeld=%v perMessageDeflate=%d reconnect=%v closeDuringFlush=%v}", c.Sess, c.Close, c.Target, c.MidUpgrade, c.FinishUpgrade, c.CloseIn, c.CloseHeld, c.PMD, c.Reconnect, c.CloseDuringFlush)
}

func genC12(rt *rapid.T, gates bool, known bool, col *Collector) ocCase {
	c := ocCase{}
	n := rapid.IntRange(1, 4).Draw(rt, "nsess")
	for i := 0; i < n; i++ {
		l := fmt.Sprintf("s%d", i)
		sp := ocSessSpec{
			Car:  rapid.SampledFrom([]string{"polling", "polling", "websocket", "webtransport", "up-websocket", "up-webtransport"}).Draw(rt, l+".car"),
			Rev:  4,
			K:    rapid.IntRange(0, 10).Draw(rt, l+".k"),
			Poll: rapid.SampledFrom([]string{"pending", "pending", "later", "never"}).Draw(rt, l+".poll"),
		}
		if (sp.Car == "polling" || sp.Car == "websocket" || sp.Car == "up-websocket") && rapid.IntRange(0, 3).Draw(rt, l+".rev3") == 0 {
			sp.Rev = 3
		}
		sp.Later = time.Duration(rapid.SampledFrom([]int{1, 1000, 29999, 30000, 30001}).Draw(rt, l+".later")) * time.Millisecond
		for j := 0; j < sp.K; j++ {
			sp.Sizes = append(sp.Sizes, rapid.SampledFrom([]int{0, 1, 10, 200, 5000, 70000}).Draw(rt, fmt.Sprintf("%s.z%d", l, j)))
		}
		if gates {
			sp.GateSend = rapid.Bool().Draw(rt, l+".gate")
			if known && sp.GateSend && sp.Car != "polling" {
				col.Exclude("close while the websocket/webtransport writer still holds the last batch (known finding " + sigCloseLosesBatch + ")")
				sp.GateSend = false
			}
		}
		sp.PreClose = rapid.IntRange(0, 2).Draw(rt, l+".preClose") == 0
		c.Sess = append(c.Sess, sp)
	}
	c.PMD = rapid.SampledFrom([]int{0, 0, 1, 1025}).Draw(rt, "perMessageDeflate")
	c.Close = rapid.SampledFrom([]string{"close", "close", "close", "closeDiscard", "server", "httpServer"}).Draw(rt, "close")
	if c.Close != "server" && c.Close != "httpServer" {
		for i := range c.Sess {
			c.Sess[i].PreClose = false
		}
	}
	c.Reconnect = (c.Close == "server" || c.Close == "httpServer") && rapid.IntRange(0, 2).Draw(rt, "reconnect") == 0
	c.Target = rapid.IntRange(0, n-1).Draw(rt, "target")
	c.MidUpgrade = rapid.IntRange(0, 4).Draw(rt, "midUpgrade") == 0
	c.FinishUpgrade = c.MidUpgrade && c.Close == "close" && rapid.Bool().Draw(rt, "finishUpgrade")
	if c.Close == "close" {
		c.CloseIn = rapid.SampledFrom([]string{"", "", "", "flush", "drain", "srv.flush", "srv.drain"}).Draw(rt, "closeIn")
		c.CloseHeld = gates && c.CloseIn == "" && rapid.IntRange(0, 2).Draw(rt, "closeHeld") == 0
		c.CloseDuringFlush = c.CloseIn == "" && !c.CloseHeld && rapid.IntRange(0, 2).Draw(rt, "closeDuringFlush") == 0
	}
	return c
}

type ocSess struct {
	sp   ocSessSpec
	pc   *PollClient // the polling client (also for upgraded sessions: its polling past)
	wc   *WSClient
	tc   *WTClient
	sr   *SessRec
	sent []Pkt
	cand *WSClient // upgrade candidate in flight
	// switched: the candidate completed the upgrade after the close call
	switched bool
}

func (s *ocSess) onPolling() bool { return s.sp.Car == "polling" && !s.switched }

func (s *ocSess) pumpMsgs() []Pkt {
	var out []Pkt
	if s.pc != nil {
		s.pc.Pump()
		out = append(out, s.pc.Msgs...)
	}
	if s.wc != nil {
		s.wc.Pump()
		out = append(out, s.wc.Msgs...)
	}
	if s.tc != nil {
		s.tc.Pump()
		out = append(out, s.tc.Msgs...)
	}
	return out
}

func (s *ocSess) tornDown() bool {
	switch {
	case s.wc != nil:
		s.wc.Pump()
		return s.wc.EOF || s.wc.GotClose
	case s.tc != nil:
		s.tc.Pump()
		return s.tc.SessionClosed || s.tc.StreamReset
	}
	if s.pc.Closed {
		return true
	}
	// a poll that arrives after the close timeout has fired is told that the session is gone
	for _, e := range s.pc.Errs {
		if strings.Contains(e, "status 400") {
			return true
		}
	}
	return false
}

func runC12(c ocCase) (fail string, stats map[string]bool) {
	stats = map[string]bool{}
	o := config.DefaultServerOptions()
	o.SetAllowEIO3(true)
	o.SetTransports(types.NewSet("polling", "websocket", "webtransport"))
	o.SetPingInterval(ocPingInterval)
	o.SetPingTimeout(ocPingTimeout)
	if c.PMD > 0 {
		o.SetPerMessageDeflate(&types.PerMessageDeflate{Threshold: c.PMD - 1})
		stats["perMessageDeflate-configured"] = true
	}
	var w *World
	var hs *types.HttpServer
	if c.Close == "httpServer" {
		// the engine attached to an HTTP server: closing that server must close the engine's sessions
		hs = types.NewWebServer(nil)
		w = &World{Opts: o, Path: "/engine.io/", T0: time.Now(), Sess: map[string]*SessRec{}, tags: map[io.Reader]int{}}
		w.Srv = engine.Attach(hs, o)
		w.attachServerListeners()
	} else {
		w = NewWorld(o)
	}
	defer w.Teardown()
	var g *Gates
	for _, sp := range c.Sess {
		if sp.GateSend || c.CloseHeld {
			g = InstallGates(nil)
			defer g.Uninstall()
			break
		}
	}
	var ss []*ocSess
	for i, sp := range c.Sess {
		s := &ocSess{sp: sp}
		eio := "4"
		if sp.Rev == 3 {
			eio = "3"
		}
		switch sp.Car {
		case "polling", "up-websocket", "up-webtransport":
			pc := &PollClient{W: w, O: ClientOpts{Rev: sp.Rev, EIO: eio}}
			pc.StartHandshake()
			Settle()
			if err := pc.FinishHandshake(); err != nil {
				return fmt.Sprintf("harness: handshake %d: %v", i, err), stats
			}
			s.pc = pc
			if sp.Car != "polling" {
				wc, tc, err := Upgrade(w, pc, strings.TrimPrefix(sp.Car, "up-"))
				if err != nil {
					return fmt.Sprintf("harness: upgrade %d: %v", i, err), stats
				}
				s.wc, s.tc = wc, tc
				stats["upgraded-session"] = true
			}
		case "websocket":
			wc := &WSClient{W: w, O: ClientOpts{Rev: sp.Rev, EIO: eio}}
			wc.Start()
			Settle()
			wc.Pump()
			if wc.Open == nil {
				return "harness: websocket handshake failed", stats
			}
			s.wc = wc
		default:
			tc := &WTClient{W: w, O: ClientOpts{Rev: 4}}
			tc.Start()
			Settle()
			tc.OpenBidi()
			tc.SendHandshake()
			Settle()
			tc.Pump()
			if tc.Open == nil {
				return "harness: webtransport handshake failed", stats
			}
			s.tc = tc
		}
		sid := ""
		switch {
		case s.pc != nil:
			sid = s.pc.Sid
		case s.wc != nil:
			sid = s.wc.Sid
		default:
			sid = s.tc.Sid
		}
		s.sr = w.Get(sid)
		ss = append(ss, s)
	}
	// poll state before the sends
	for _, s := range ss {
		if s.onPolling() && s.sp.Poll == "pending" {
			s.pc.StartPoll()
			Settle()
		}
	}
	// an upgrade in flight on the target session
	tgt := ss[c.Target]
	if c.MidUpgrade && tgt.onPolling() {
		cand := &WSClient{W: w, O: ClientOpts{Rev: tgt.sp.Rev}, Sid: tgt.pc.Sid}
		if tgt.sp.Rev == 3 {
			cand.O.EIO = "3"
		}
		cand.Start()
		Settle()
		cand.Pump()
		cand.SendPacket(ctlD(tPing, "probe"), nil)
		Settle()
		tgt.cand = cand
		stats["close-during-upgrade"] = true
	}
	// the application's last word and close from inside a listener (armed now, fires during the sends)
	didCloseIn, closeInDisarmed := false, false
	if c.CloseIn != "" {
		lst := func(a ...any) {
			if didCloseIn || closeInDisarmed {
				return
			}
			if strings.HasPrefix(c.CloseIn, "srv.") {
				if sock, ok := a[0].(engine.Socket); !ok || sock != tgt.sr.Sock {
					return
				}
			}
			didCloseIn = true
			bye := msgT("bye from a " + c.CloseIn + " listener")
			tgt.sent = append(tgt.sent, bye)
			w.AppSend(tgt.sr, bye, nil, false, 0)
			tgt.sr.Sock.Close(false)
		}
		if strings.HasPrefix(c.CloseIn, "srv.") {
			w.Srv.On(types.EventName(strings.TrimPrefix(c.CloseIn, "srv.")), lst)
		} else {
			tgt.sr.Sock.On(types.EventName(c.CloseIn), lst)
		}
	}
	// sends (the writer goroutine of gated sessions is held at its first statement)
	type held struct{ gp GatePoint }
	var helds []held
	for _, s := range ss {
		if s.sp.GateSend && s.sp.K > 0 {
			site := "polling.send.start"
			if s.wc != nil {
				site = "ws.send.start"
			} else if s.tc != nil {
				site = "wt.send.start"
			}
			gp := GatePoint{site, g.Count(site)}
			g.mu.Lock()
			g.plan[gp] = true
			g.mu.Unlock()
			helds = append(helds, held{gp})
		}
		for j := 0; j < s.sp.K; j++ {
			var p Pkt
			if j%3 == 2 {
				p = msgB(append([]byte{byte(j)}, makePayload(s.sp.Sizes[j], byte(j))...))
			} else {
				p = msgT(fmt.Sprintf("%d:", j) + strings.Repeat("d", s.sp.Sizes[j]))
			}
			if s == tgt && didCloseIn {
				// the application has closed the session from its listener: it sends nothing more
				break
			}
			s.sent = append(s.sent, p)
			w.AppSend(s.sr, p, nil, j%2 == 0, 0)
		}
		Settle()
	}
	parkedAny := false
	if g != nil {
		parkedAny = len(g.Parked()) > 0
		if parkedAny {
			stats["close-while-writer-parked"] = true
		}
	}
	awaitsPoll := map[*ocSess]bool{}
	// shutdown cases: some sessions were already closed gracefully by the application and may still be draining
	for _, s := range ss {
		if s.sp.PreClose {
			s.sr.Sock.Close(false)
			Settle()
			if s.sr.Sock.ReadyState() == "closing" {
				stats["session-still-closing-at-shutdown"] = true
				if s.onPolling() && s.sr.Sock.Transport().ReadyState() == "closing" {
					// nothing was buffered: the polling transport itself is closing and waits for the next poll to
					// carry the close packet (at most the close timeout). "Closing the server closes every
					// session ... and leaves the client table empty": the shutdown does not wait for that poll
					// (earlier rounds had tolerated such a session outliving the shutdown, as upstream does)
					stats["session-awaiting-poll-for-close-packet-at-shutdown"] = true
					if isKnown("C12", sigClosingOutlivesShutdown) {
						awaitsPoll[s] = true
					}
				}
			}
		}
	}
	// a client that reconnects from the close notification of its old session
	var again *PollClient
	if c.Reconnect {
		ss[0].sr.Sock.Once("close", func(...any) {
			again = &PollClient{W: w, O: ClientOpts{Rev: 4}}
			again.StartHandshake()
		})
	}
	closeCallAt := w.now()
	// ---- the close ----
	var closing []*ocSess
	switch c.Close {
	case "close":
		// (a listener that has not fired during the sends stays quiet from now on: the close is called here)
		closeInDisarmed = true
		if didCloseIn {
			stats["last-word-and-close-from-a-listener"] = true
			stats["last-word-and-close-from-a-"+c.CloseIn+"-listener"] = true
		} else if c.CloseHeld && g != nil {
			gpc := GatePoint{"socket.Close.buffered", g.Count("socket.Close.buffered")}
			g.mu.Lock()
			g.plan[gpc] = true
			g.mu.Unlock()
			go tgt.sr.Sock.Close(false)
			Settle()
			heldInClose := false
			for _, p := range g.Parked() {
				if p == gpc {
					heldInClose = true
				}
			}
			if heldInClose {
				// the packets are handed over by somebody else meanwhile: the held writer finishes its batch and the
				// transport takes the next one; a polling client's next poll arrives
				for _, h := range helds {
					g.Release(h.gp)
				}
				Settle()
				if tgt.onPolling() && tgt.pc.Poll == nil && tgt.sp.Poll != "never" {
					tgt.pc.StartPoll()
					Settle()
				}
				if tgt.sr.Sock.ReadyState() == "closing" {
					stats["buffer-handed-over-while-the-closer-is-inside-Close"] = true
				}
			}
			g.mu.Lock()
			delete(g.plan, gpc)
			g.mu.Unlock()
			g.Release(gpc)
			Settle()
		} else if c.CloseDuringFlush {
			park := make(chan struct{})
			var parked atomic.Bool
			tgt.sr.Sock.Once("flush", func(...any) {
				parked.Store(true)
				<-park
			})
			p := msgT("sent right before the close")
			tgt.sent = append(tgt.sent, p)
			go w.AppSend(tgt.sr, p, nil, false, 0)
			Settle()
			tgt.sr.Sock.Close(false)
			Settle()
			close(park)
			Settle()
			if parked.Load() {
				stats["close-while-a-batch-is-inside-its-flush-listener"] = true
			}
		} else {
			tgt.sr.Sock.Close(false)
		}
		closing = []*ocSess{tgt}
		stats["graceful-close"] = true
	case "closeDiscard":
		tgt.sr.Sock.Close(true)
		closing = []*ocSess{tgt}
		stats["discarding-close"] = true
	case "server":
		w.Srv.Close()
		closing = ss
		stats["server-close"] = true
	case "httpServer":
		hs.Close(nil)
		closing = ss
		stats["http-server-close"] = true
	}
	if len(closing) >= 2 {
		stats["shutdown>=2-sessions"] = true
	}
	if c.FinishUpgrade && tgt.cand != nil && tgt.sr.Sock.ReadyState() == "closing" {
		// the session drains: nothing keeps the candidate from completing the switch
		tgt.cand.SendPacket(ctl(tUpgrade), nil)
		Settle()
		stats["upgrade-completed-while-closing"] = true
		tgt.wc, tgt.cand, tgt.switched = tgt.cand, nil, true
	}
	// let the writers go (the close has run while they held their batch)
	Settle()
	if g != nil {
		g.ReleaseAll()
		g.mu.Lock()
		g.plan = map[GatePoint]bool{}
		g.mu.Unlock()
		Settle()
	}
	graceful := c.Close == "close"
	if c.Close == "server" || c.Close == "httpServer" {
		// shutdown is not a matter of time: once the call has returned and everything it started has run,
		// every session has had its close event and the table is empty
		if w.now() != closeCallAt {
			return "harness: virtual time moved during the shutdown call", stats
		}
		for i, s := range ss {
			if awaitsPoll[s] && len(s.sr.Closes) == 0 {
				continue
			}
			if len(s.sr.Closes) != 1 {
				return fmt.Sprintf("right after %s: session #%d %+v has close events %v, ready state %q", c.Close, i, s.sp, s.sr.Closes, s.sr.Sock.ReadyState()), stats
			}
		}
		left := 0
		for _, s := range ss {
			if len(s.sr.Closes) == 0 {
				left++
			}
		}
		if again != nil {
			Settle()
			if err := again.FinishHandshake(); err == nil {
				stats["reconnect-during-the-shutdown"] = true
				if nsr := w.Get(again.Sid); nsr != nil && len(nsr.Closes) == 0 {
					// the newcomer escaped the shutdown: it is a live session like any other
					stats["session-created-during-the-shutdown-survives-it"] = true
					left++
					if _, ok := w.Srv.Clients().Load(again.Sid); !ok {
						return fmt.Sprintf("right after %s: the session %s opened during the shutdown is alive but not in the client table (table %v, count %d)", c.Close, short(again.Sid), shortAll(w.RegistryKeys()), w.Srv.ClientsCount()), stats
					}
					defer nsr.Sock.Close(true)
				}
			}
		}
		if keys := w.RegistryKeys(); len(keys) != left || w.Srv.ClientsCount() != uint64(left) {
			return fmt.Sprintf("right after %s: client table %v, count %d", c.Close, shortAll(keys), w.Srv.ClientsCount()), stats
		}
	}
	// sessions that are not being closed have responsive clients: they answer pings (revision 4) or
	// ping (revision 3) while virtual time passes
	answered := map[*ocSess]int{}
	isClosing := map[*ocSess]bool{}
	for _, s := range closing {
		isClosing[s] = true
	}
	sendTo := func(s *ocSess, p Pkt) {
		switch {
		case s.wc != nil:
			s.wc.SendPacket(p, nil)
		case s.tc != nil:
			s.tc.SendPacket(p)
		default:
			s.pc.StartPost([]Pkt{p}, false)
		}
	}
	pass := func(d time.Duration) {
		for d > 0 {
			step := time.Second
			if d < step {
				step = d
			}
			time.Sleep(step)
			d -= step
			Settle()
			for _, s := range ss {
				if isClosing[s] || len(s.sr.Closes) > 0 {
					continue
				}
				if s.sp.Rev == 3 {
					sendTo(s, ctl(tPing))
					Settle()
				}
				var recv []Pkt
				switch {
				case s.wc != nil:
					s.wc.Pump()
					recv = s.wc.Recv
				case s.tc != nil:
					s.tc.Pump()
					recv = s.tc.Recv
				default:
					s.pc.Pump()
					if s.pc.Poll == nil {
						s.pc.StartPoll()
						Settle()
						s.pc.Pump()
					}
					recv = s.pc.Recv
				}
				pings := 0
				for _, p := range recv {
					if p.Type == tPing {
						pings++
					}
				}
				if s.sp.Rev == 4 && pings > answered[s] {
					answered[s] = pings
					sendTo(s, ctl(tPong))
					Settle()
				}
				if s.onPolling() && s.pc.Poll == nil {
					s.pc.StartPoll()
					Settle()
				}
			}
		}
	}
	// ---- what the clients see ----
	for round := 0; round < 4; round++ {
		for _, s := range closing {
			if s.onPolling() && len(s.sr.Closes) == 0 || (s.onPolling() && !s.pc.Closed) {
				switch s.sp.Poll {
				case "pending":
					s.pc.Pump()
					if s.pc.Poll == nil && !s.pc.Closed {
						s.pc.StartPoll()
						Settle()
					}
				case "later":
					if round == 0 {
						pass(s.sp.Later)
					}
					s.pc.Pump()
					if s.pc.Poll == nil && !s.pc.Closed {
						s.pc.StartPoll()
						Settle()
					}
				}
			}
			s.pumpMsgs()
		}
	}
	for i, s := range closing {
		who := fmt.Sprintf("session #%d %+v", i, s.sp)
		if s.sp.K >= 1 {
			stats[">=1-buffered-packet-at-close"] = true
		}
		neverPolls := s.onPolling() && s.sp.Poll == "never"
		if neverPolls {
			// no further poll: the session must still close within bounded time
			stats["client-never-polls-again"] = true
			bound := 30 * time.Second
			if hb := ocPingInterval + ocPingTimeout; hb > bound {
				bound = hb
			}
			deadline := closeCallAt + bound
			for w.now() < deadline+time.Second && len(s.sr.Closes) == 0 {
				pass(time.Second)
			}
			if len(s.sr.Closes) != 1 {
				return fmt.Sprintf("%s: closed at %v (%s) and the client never polled again: still %q with close events %v at %v", who, closeCallAt, c.Close, s.sr.Sock.ReadyState(), s.sr.Closes, w.now()), stats
			}
			if s.sr.CloseAt > deadline {
				return fmt.Sprintf("%s: close event at %v, later than the bound %v", who, s.sr.CloseAt, deadline), stats
			}
			continue
		}
		if len(s.sr.Closes) != 1 {
			return fmt.Sprintf("%s: after %s and the client reading on: close events %v, ready state %q", who, c.Close, s.sr.Closes, s.sr.Sock.ReadyState()), stats
		}
		got := s.pumpMsgs()
		if graceful {
			if s.sr.Closes[0] != "forced close" {
				return fmt.Sprintf("%s: graceful close reported as %q", who, s.sr.Closes[0]), stats
			}
			if !pktsEqual(got, s.sent) {
				return fmt.Sprintf("%s: Close(false) after %d sends: the client received %d messages %s before the close; sent %s", who, len(s.sent), len(got), seqSizes(got), seqSizes(s.sent)), stats
			}
			if !s.tornDown() {
				return fmt.Sprintf("%s: session closed but the client saw neither a close packet nor the connection ending", who), stats
			}
			if s.onPolling() {
				// the close packet comes after the data
				last := -1
				for k, p := range s.pc.Recv {
					if p.Type == tMessage {
						last = k
					}
				}
				for k, p := range s.pc.Recv {
					if p.Type == tClose && k < last {
						return fmt.Sprintf("%s: close packet received before buffered message #%d", who, last), stats
					}
				}
			}
		} else {
			if s.sr.Closes[0] != "forced close" {
				return fmt.Sprintf("%s: %s reported as %q", who, c.Close, s.sr.Closes[0]), stats
			}
			if !isPrefix(got, s.sent) {
				return fmt.Sprintf("%s: after %s the client had received %s, not a prefix of %s", who, c.Close, seqSizes(got), seqSizes(s.sent)), stats
			}
		}
		// a poll that was pending when the session closed has been answered by then
		if s.onPolling() {
			for _, e := range s.pc.Polls {
				snap := e.Snap()
				if snap.Responded && snap.RespondedAt.Sub(w.T0) > s.sr.CloseAt && e.StartedAt.Sub(w.T0) <= s.sr.CloseAt {
					return fmt.Sprintf("%s: a poll pending at the close (%v) was answered only at %v", who, s.sr.CloseAt, snap.RespondedAt.Sub(w.T0)), stats
				}
				if !snap.Responded && e.StartedAt.Sub(w.T0) <= s.sr.CloseAt {
					return fmt.Sprintf("%s: a poll pending at the close was never answered", who), stats
				}
			}
		}
		if s.cand != nil {
			s.cand.Pump()
			if !s.cand.EOF && !s.cand.GotClose {
				return fmt.Sprintf("%s: the upgrade candidate of the closed session was left open", who), stats
			}
		}
	}
	if c.Close == "server" || c.Close == "httpServer" {
		if again != nil {
			// the session opened during the shutdown is taken out of the picture first
			if nsr := w.Get(again.Sid); nsr != nil && len(nsr.Closes) == 0 {
				nsr.Sock.Close(true)
				Settle()
			}
		}
		pass(31 * time.Second)
		if again != nil {
			// (the old session may have closed only now, by its close timeout: the client reconnected then)
			Settle()
			again.FinishHandshake()
			if nsr := w.Get(again.Sid); nsr != nil && len(nsr.Closes) == 0 {
				if _, ok := w.Srv.Clients().Load(again.Sid); !ok {
					return fmt.Sprintf("after %s: the session %s opened by the reconnecting client is alive but not in the client table", c.Close, short(again.Sid)), stats
				}
				nsr.Sock.Close(true)
				Settle()
			}
		}
		if keys := w.RegistryKeys(); len(keys) != 0 || w.Srv.ClientsCount() != 0 {
			return fmt.Sprintf("after %s: client table %v, count %d", c.Close, shortAll(keys), w.Srv.ClientsCount()), stats
		}
		for i, s := range ss {
			if len(s.sr.Closes) != 1 {
				return fmt.Sprintf("after %s: session #%d has close events %v", c.Close, i, s.sr.Closes), stats
			}
		}
	} else {
		// the other sessions are untouched
		for i, s := range ss {
			if s != tgt && len(s.sr.Closes) != 0 {
				return fmt.Sprintf("closing session #%d closed session #%d too (%v)", c.Target, i, s.sr.Closes), stats
			}
		}
	}
	for _, s := range ss {
		stats["carrier."+s.sp.Car] = true
	}
	return "", stats
}

func seqSizes(ps []Pkt) string {
	var out []string
	for _, p := range ps {
		k := "t"
		if p.Binary {
			k = "b"
		}
		out = append(out, fmt.Sprintf("%s%d", k, len(p.Data)))
	}
	return "[" + strings.Join(out, " ") + "]"
}

func TestC12OrderlyClose(t *testing.T) {
	col := NewCollector("TestC12OrderlyClose",
		"rapid: 1-4 sessions (polling, websocket, webtransport, or upgraded from polling; revision 3/4), each with 0-10 Sends (sizes 0..70000, text/binary, with callbacks) issued with a poll pending / arriving 1ms..30.001s later / never again, optionally an upgrade candidate in flight (which may send its upgrade packet after a graceful close that is still draining: the buffered packets then leave on the new transport), then Close(false), Close(true), Server.Close or closing the attached HTTP server (at shutdown some sessions have already been closed gracefully by the application and may still be draining); gated variant: the transport's writer goroutine is held at its first statement (it holds the last batch) while the close runs; oracle: graceful close => the client receives exactly the sent messages, then the close packet / connection end, reason 'forced close'; a client that never polls again still sees the session close no later than max(30s, heartbeat deadline); discarding closes deliver a prefix; a poll pending at any close is answered by the close event; shutdown => every session exactly one close event, empty client table, count 0, as soon as the call has returned and quiescence is reached (zero virtual time) and again 31 s later; other sessions untouched. non-trivial: >=1 buffered packet at close time or >=2 sessions at shutdown").Use(t)
	known := isKnown("C12", sigCloseLosesBatch)
	for _, gated := range []bool{false, true} {
		rapid.Check(t, func(rt *rapid.T) {
			c := genC12(rt, gated, known, col)
			journal("C12 %v", c)
			var fail string
			var stats map[string]bool
			res := bubble(t, func() { fail, stats = runC12(c) })
			var cl []string
			for k := range stats {
				cl = append(cl, k)
			}
			sort.Strings(cl)
			col.Case(c.String(), stats[">=1-buffered-packet-at-close"] || stats["shutdown>=2-sessions"], map[string]any{"case": clipStr(c.String(), 800), "classes": strings.Join(cl, " ")}, cl...)
			res.rethrow()
			if fail != "" {
				rt.Fatalf("%v\n%s", c, clipStr(fail, 1500))
			}
			if res.Leak != "" {
				rt.Fatalf("%v: %s", c, clipStr(res.Leak, 2500))
			}
		})
	}
	req := []string{"upgrade-completed-while-closing", "session-still-closing-at-shutdown", "graceful-close", "discarding-close", "server-close", "http-server-close", "shutdown>=2-sessions", "client-never-polls-again", "close-during-upgrade", "upgraded-session", "carrier.polling", "carrier.websocket", "carrier.webtransport", "close-while-writer-parked", "last-word-and-close-from-a-flush-listener", "last-word-and-close-from-a-drain-listener", "last-word-and-close-from-a-srv.flush-listener"}
	req = append(req, "buffer-handed-over-while-the-closer-is-inside-Close", "perMessageDeflate-configured", "reconnect-during-the-shutdown", "close-while-a-batch-is-inside-its-flush-listener")
	col.RequireClasses(t, req...)
}

func TestC12CloseLosesBatchFinding(t *testing.T) {
	col := NewCollector("TestC12CloseLosesBatchFinding", "deterministic: websocket / webtransport session, 1 or 3 Sends then Close(false) while the writer goroutine is held at its first statement (it holds the first batch); oracle: the client receives the messages before the connection ends. every case is non-trivial").Use(t)
	for _, car := range []string{"websocket", "webtransport"} {
		for _, k := range []int{1, 3} {
			sizes := []int{10, 5000, 1}[:k]
			c := ocCase{Sess: []ocSessSpec{{Car: car, Rev: 4, K: k, Sizes: sizes, Poll: "pending", GateSend: true}}, Close: "close"}
			bad := 0
			var last string
			for rep := 0; rep < 5; rep++ {
				var fail string
				res := bubble(t, func() { fail, _ = runC12(c) })
				res.rethrow()
				if fail != "" {
					bad++
					last = fail
				}
			}
			col.Case(c.String(), true, map[string]any{"case": c.String(), "failed_runs_of_5": bad, "result": clipStr(last, 300)}, "send-then-close")
			demoFinding(t, col, "C12", sigCloseLosesBatch, bad > 0, fmt.Sprintf("%s, %d sends then Close(false): %d of 5 runs lose data: %s", car, k, bad, clipStr(last, 300)))
		}
	}
}

const sigCloseFromFlushListener = "graceful-close-from-a-flush-listener-closes-before-the-buffered-packet-is-sent"

// TestC12CloseFromFlushListenerFinding: deterministic demonstration: a 'flush' listener says a last word and closes
// gracefully. The drain event Close(false) waited for was that of the batch being handed over, not of the last word.
func TestC12CloseFromFlushListenerFinding(t *testing.T) {
	col := NewCollector("TestC12CloseFromFlushListenerFinding", "deterministic: polling / websocket / webtransport session, one Send; inside the flush (drain, server flush) listener of that hand-off the application calls Send(bye) and Close(false); the client keeps reading; oracle of TestC12OrderlyClose: the client receives both messages before the close. every case is non-trivial").Use(t)
	for _, car := range []string{"polling", "websocket", "webtransport"} {
		for _, in := range []string{"flush", "srv.flush", "drain"} {
			c := ocCase{Sess: []ocSessSpec{{Car: car, Rev: 4, K: 1, Sizes: []int{10}, Poll: "pending"}}, Close: "close", CloseIn: in}
			var fail string
			res := bubble(t, func() { fail, _ = runC12(c) })
			res.rethrow()
			col.Case(c.String(), true, map[string]any{"case": c.String(), "result": clipStr(fail, 300)}, "last-word-and-close-from-a-"+in+"-listener")
			demoFinding(t, col, "C12", sigCloseFromFlushListener, fail != "", fmt.Sprintf("%s, Send(bye)+Close(false) inside a %s listener: %s", car, in, clipStr(fail, 300)))
		}
	}
}

const sigClosingOutlivesShutdown = "gracefully-closing-polling-session-outlives-the-shutdown"

const sigCloseRacingFlush = "graceful-close-racing-with-a-flush-on-another-goroutine-never-completes"

// TestC12CloseRacingFlushFinding: deterministic demonstration: the closing goroutine is held inside Close after it
// has found packets in the write buffer; the next poll (polling) or the writer finishing the batch before
// (websocket / webtransport) hands them over; the closing goroutine goes on.
func TestC12CloseRacingFlushFinding(t *testing.T) {
	col := NewCollector("TestC12CloseRacingFlushFinding", "deterministic: (a) polling session, one Send with no poll pending, Close(false) held at the yield point socket.Close.buffered, the client's next poll arrives, Close goes on; (b) websocket / webtransport session, two Sends behind a held writer, Close(false) held likewise, the writer is released; the client reads on; oracle of TestC12OrderlyClose: every message arrives, then the session closes with 'forced close'. every case is non-trivial").Use(t)
	cases := []ocCase{
		{Sess: []ocSessSpec{{Car: "polling", Rev: 4, K: 1, Sizes: []int{10}, Poll: "later", Later: time.Millisecond}}, Close: "close", CloseHeld: true},
		{Sess: []ocSessSpec{{Car: "polling", Rev: 3, K: 2, Sizes: []int{10, 0}, Poll: "later", Later: time.Millisecond}}, Close: "close", CloseHeld: true},
		{Sess: []ocSessSpec{{Car: "websocket", Rev: 4, K: 2, Sizes: []int{10, 10}, Poll: "pending", GateSend: true}}, Close: "close", CloseHeld: true},
		{Sess: []ocSessSpec{{Car: "webtransport", Rev: 4, K: 2, Sizes: []int{0, 0}, Poll: "pending", GateSend: true}}, Close: "close", CloseHeld: true},
	}
	for _, c := range cases {
		var fail string
		res := bubble(t, func() { fail, _ = runC12(c) })
		res.rethrow()
		col.Case(c.String(), true, map[string]any{"case": c.String(), "result": clipStr(fail, 300)}, "buffer-handed-over-while-the-closer-is-inside-Close")
		demoFinding(t, col, "C12", sigCloseRacingFlush, fail != "", fmt.Sprintf("%v: %s", c, clipStr(fail, 300)))
	}
}

const sigCloseOvertakesFlush = "graceful-close-overtakes-a-batch-inside-its-flush-listener"

// TestC12CloseOvertakesFlushFinding: a batch has been taken from the buffer by a flush on another goroutine
// and is still inside the application's 'flush' listener when Close(false) is called: the buffer looks empty.
func TestC12CloseOvertakesFlushFinding(t *testing.T) {
	col := NewCollector("TestC12CloseOvertakesFlushFinding", "deterministic: one session per carrier, one Send whose hand-over is held inside an application 'flush' listener on another goroutine, Close(false) from the root, the listener is released; oracle of TestC12OrderlyClose: the message arrives, then the session closes with 'forced close'. every case is non-trivial").Use(t)
	cases := []ocCase{
		{Sess: []ocSessSpec{{Car: "polling", Rev: 4, K: 0, Poll: "pending"}}, Close: "close", CloseDuringFlush: true},
		{Sess: []ocSessSpec{{Car: "polling", Rev: 3, K: 0, Poll: "pending"}}, Close: "close", CloseDuringFlush: true},
		{Sess: []ocSessSpec{{Car: "websocket", Rev: 4, K: 0, Poll: "pending"}}, Close: "close", CloseDuringFlush: true},
		{Sess: []ocSessSpec{{Car: "webtransport", Rev: 4, K: 0, Poll: "pending"}}, Close: "close", CloseDuringFlush: true},
		{Sess: []ocSessSpec{{Car: "up-webtransport", Rev: 4, K: 0, Poll: "pending"}}, Close: "close", CloseDuringFlush: true},
	}
	for _, c := range cases {
		var fail string
		res := bubble(t, func() { fail, _ = runC12(c) })
		res.rethrow()
		col.Case(c.String(), true, map[string]any{"case": c.String(), "result": clipStr(fail, 300)}, "close-while-a-batch-is-inside-its-flush-listener")
		demoFinding(t, col, "C12", sigCloseOvertakesFlush, fail != "", fmt.Sprintf("%v: %s", c, clipStr(fail, 300)))
	}
}

package harness

// C01, a Send whose reader fails: the application hands Send an io.Reader (a file, a pipe, a stream from elsewhere)
// that reports an error part-way. That message cannot be delivered; everything else still has to be: the messages
// of the other sessions, and on the same session either everything before it (the session closing with an error)
// or everything but it. In no case may the process go down with it (a panic on a goroutine of the library takes
// every session along; the driver attributes the death of the test process from the journal).

import (
	"errors"
	"fmt"
	"io"
	"testing"
	"time"

	"github.com/zishang520/engine.io/v2/config"
	"github.com/zishang520/engine.io/v2/types"
	"pgregory.net/rapid"
)

type frCase struct {
	Carrier string // polling | jsonp | websocket | webtransport
	Rev     int
	Before  int
	After   int
	GoodN   int  // bytes the reader hands out before it fails
	Pending bool // polling: a poll is pending when the failing Send happens
}

func (c frCase) String() string {
	return fmt.Sprintf("{%s rev%d before=%d after=%d reader-fails-after=%d poll-pending=%v}", c.Carrier, c.Rev, c.Before, c.After, c.GoodN, c.Pending)
}

type failingReader struct {
	data []byte
	err  error
}

func (r *failingReader) Read(p []byte) (int, error) {
	if len(r.data) == 0 {
		return 0, r.err
	}
	n := copy(p, r.data)
	r.data = r.data[n:]
	return n, nil
}

var errReaderBroke = errors.New("the application's reader broke")

func runFR(c frCase) (fail string, stats map[string]bool) {
	stats = map[string]bool{}
	o := config.DefaultServerOptions()
	o.SetAllowEIO3(true)
	o.SetTransports(types.NewSet("polling", "websocket", "webtransport"))
	o.SetPingInterval(10 * time.Minute)
	o.SetPingTimeout(10 * time.Minute)
	w := NewWorld(o)
	defer w.Teardown()
	s, why := doHandshake(w, c06HS{Carrier: c.Carrier, EIO: fmt.Sprint(c.Rev), B64: c.Carrier == "jsonp", J: "4"})
	if s == nil {
		return "harness: handshake: " + why, stats
	}
	by, why := doHandshake(w, c06HS{Carrier: "polling", EIO: "4"})
	if by == nil {
		return "harness: bystander: " + why, stats
	}
	sr, bsr := w.Get(s.open.Sid), w.Get(by.open.Sid)
	cl, bcl := hbClient{s: s}, hbClient{s: by}
	var sent, bsent []Pkt
	seq := 0
	send := func() {
		seq++
		p, q := msgT(fmt.Sprintf("m%d", seq)), msgT(fmt.Sprintf("b%d", seq))
		if len(sr.Closes) == 0 {
			sent = append(sent, p)
			w.AppSend(sr, p, nil, false, 0)
		}
		bsent = append(bsent, q)
		w.AppSend(bsr, q, nil, false, 0)
		Settle()
		cl.keepPolling()
		bcl.keepPolling()
	}
	msgs := func(x *c06Sess) []Pkt {
		var ms []Pkt
		for _, p := range x.recv() {
			if p.Type == tMessage {
				ms = append(ms, p)
			}
		}
		return ms
	}
	for i := 0; i < c.Before; i++ {
		send()
	}
	if s.pc != nil {
		if c.Pending && s.pc.Poll == nil {
			s.pc.StartPoll()
			Settle()
		}
		if !c.Pending && s.pc.Poll != nil {
			w.AppSend(sr, msgT("uses up the pending poll"), nil, false, 0)
			sent = append(sent, msgT("uses up the pending poll"))
			Settle()
			s.pc.Pump()
		}
	}
	journal("C01fr %v: Send with a reader that fails after %d bytes", c, c.GoodN)
	sr.Sock.Send(&failingReader{data: makePayload(c.GoodN, 'x'), err: errReaderBroke}, nil, nil)
	Settle()
	stats["send-with-a-failing-reader."+c.Carrier] = true
	cl.keepPolling()
	for i := 0; i < c.After; i++ {
		send()
	}
	for i := 0; i < 3; i++ {
		cl.keepPolling()
		bcl.keepPolling()
		Settle()
	}
	// the other session got everything
	if got := msgs(by); !pktsEqual(got, bsent) || len(bsr.Closes) != 0 {
		return fmt.Sprintf("another session received %d of %d messages (close events %v) after a Send with a failing reader on this one", len(got), len(bsent), bsr.Closes), stats
	}
	// this session: a prefix; complete (without the broken one) when it is still open
	got := msgs(s)
	var clean []Pkt
	for _, p := range got {
		if len(p.Data) > 0 && p.Data[0] == 'x' || len(p.Data) == 0 {
			// (whatever was made of the broken message is not a message the application sent; tolerated only
			// as a fragment of it)
			stats["fragment-of-the-broken-message-delivered"] = true
			continue
		}
		clean = append(clean, p)
	}
	if !isPrefix(clean, sent) {
		return fmt.Sprintf("the client received %s, sent were %s", pktsString(got), pktsString(sent)), stats
	}
	if len(sr.Closes) == 0 {
		stats["session-still-open"] = true
		if len(clean) != len(sent) {
			return fmt.Sprintf("the session is open; the client received %d of the %d messages whose readers were fine: %s", len(clean), len(sent), pktsString(got)), stats
		}
	} else {
		stats["session-closed"] = true
	}
	return "", stats
}

func TestC01FailingReader(t *testing.T) {
	col := NewCollector("TestC01FailingReader",
		"rapid: a session on polling / JSONP / websocket / webtransport (revision 3/4) next to a bystander session; 0-3 messages to both, then one Send on the session whose io.Reader fails after 0-3000 bytes (with or without a poll pending), then 1-3 more messages to both; oracle: the process survives (the driver attributes a dead test process from the journal), the bystander receives everything and stays open, the session's client has received a prefix of the messages whose readers were fine, all of them if the session is still open. every case is non-trivial").Use(t)
	rapid.Check(t, func(rt *rapid.T) {
		c := frCase{Carrier: rapid.SampledFrom([]string{"polling", "polling", "jsonp", "websocket", "webtransport"}).Draw(rt, "carrier"), Rev: 4,
			Before: rapid.IntRange(0, 3).Draw(rt, "before"), After: rapid.IntRange(1, 3).Draw(rt, "after"),
			GoodN: rapid.SampledFrom([]int{0, 1, 5, 200, 3000}).Draw(rt, "goodBytes"), Pending: rapid.Bool().Draw(rt, "pollPending")}
		if c.Carrier != "webtransport" && rapid.IntRange(0, 3).Draw(rt, "rev3") == 0 {
			c.Rev = 3
		}
		journal("C01fr %v", c)
		var fail string
		var stats map[string]bool
		res := bubble(t, func() { fail, stats = runFR(c) })
		res.rethrow()
		var cl []string
		for k := range stats {
			cl = append(cl, k)
		}
		col.Case(c.String(), true, map[string]any{"case": c.String()}, cl...)
		if fail != "" {
			rt.Fatalf("%v: %s", c, fail)
		}
		if res.Leak != "" {
			rt.Fatalf("%v: %s", c, clipStr(res.Leak, 1500))
		}
	})
	col.RequireClasses(t, "send-with-a-failing-reader.polling", "send-with-a-failing-reader.websocket", "send-with-a-failing-reader.webtransport")
}

var _ = io.EOF

package harness

// C01 — outbound messages: ordered, exactly once, kind preserving, on every
// transport, across batching/compression/pre-encoded frames and across an
// upgrade in the middle of the stream.

import (
	"bytes"
	"encoding/binary"
	"fmt"
	"net/http"
	"runtime"
	"sort"
	"strings"
	"sync"
	"testing"
	"time"

	"github.com/zishang520/engine.io-go-parser/packet"
	"github.com/zishang520/engine.io/v2/config"
	"github.com/zishang520/engine.io/v2/types"
	"pgregory.net/rapid"
)

const (
	sigPreEncodedReturn = "preencoded-frame-drops-rest-of-batch"
	sigCheckFlushRace   = "upgrade-check-noop-races-with-flush-for-the-pending-poll"
)

type c01Send struct {
	Sender int // 0 = root goroutine, 1/2 = concurrent sender goroutines of a burst
	Bin    bool
	Size   int
	Opt    string // nil | compress | nocompress | preencoded
	Cb     bool
}

type c01Step struct {
	Kind  string // send | burst | poll | wait | upgrade | gateCheck | gateSendStart
	Send  c01Send
	Burst [2][]c01Send
	D     time.Duration
	To    string // upgrade target
}

func (s c01Step) String() string {
	switch s.Kind {
	case "send", "gateCheck", "gateSendStart", "slowPoll":
		return fmt.Sprintf("%s(%+v)", s.Kind, s.Send)
	case "burst":
		return fmt.Sprintf("burst(%d|%d)", len(s.Burst[0]), len(s.Burst[1]))
	case "wait":
		return fmt.Sprintf("wait(%v)", s.D)
	case "upgrade":
		return "upgrade(" + s.To + ")"
	}
	return s.Kind
}

type c01Case struct {
	Carrier   string
	Rev       int
	B64       bool
	PMDeflate int // -1 none, else threshold
	HTTPThr   int
	AE        string
	Steps     []c01Step
}

func (c c01Case) String() string {
	return fmt.Sprintf("{%s rev%d b64=%v perMessageDeflate=%d httpCompression=%d accept-encoding=%q steps=%v}", c.Carrier, c.Rev, c.B64, c.PMDeflate, c.HTTPThr, c.AE, c.Steps)
}

var c01Sizes = []int{0, 1, 2, 10, 100, 124, 125, 126, 127, 1000, 1023, 1024, 4086, 4087, 4095, 4096, 4097, 8192, 8200, 16384, 65534, 65535, 65536, 65537, 70000}

func genC01Send(rt *rapid.T, l string, sender int, knownPre bool, col *Collector) c01Send {
	s := c01Send{Sender: sender}
	s.Bin = rapid.IntRange(0, 2).Draw(rt, l+".bin") == 0
	if rapid.IntRange(0, 3).Draw(rt, l+".big") == 0 {
		s.Size = rapid.SampledFrom(c01Sizes).Draw(rt, l+".size")
	} else {
		s.Size = rapid.IntRange(0, 60).Draw(rt, l+".small")
	}
	s.Opt = rapid.SampledFrom([]string{"nil", "nil", "compress", "nocompress", "preencoded"}).Draw(rt, l+".opt")
	if knownPre && s.Opt == "preencoded" {
		col.Exclude("pre-encoded frame option (known finding " + sigPreEncodedReturn + ")")
		s.Opt = "nil"
	}
	s.Cb = rapid.IntRange(0, 3).Draw(rt, l+".cb") == 0
	return s
}

func genC01(rt *rapid.T, knownPre, knownRace bool, col *Collector) c01Case {
	c := c01Case{}
	c.Carrier = rapid.SampledFrom([]string{"polling", "polling", "jsonp", "websocket", "webtransport"}).Draw(rt, "carrier")
	c.Rev = 4
	if c.Carrier != "webtransport" && rapid.IntRange(0, 2).Draw(rt, "rev3") == 0 {
		c.Rev = 3
	}
	c.B64 = c.Carrier == "jsonp" || rapid.IntRange(0, 3).Draw(rt, "b64") == 0
	c.PMDeflate = rapid.SampledFrom([]int{-1, -1, 0, 1024}).Draw(rt, "pmd")
	c.HTTPThr = rapid.SampledFrom([]int{0, 1024, 1024, 1 << 30}).Draw(rt, "httpThr")
	c.AE = rapid.SampledFrom([]string{"", "gzip", "br", "zstd", "deflate"}).Draw(rt, "ae")
	n := rapid.IntRange(2, 16).Draw(rt, "nsteps")
	upgraded := false
	total := 0
	for i := 0; i < n; i++ {
		l := fmt.Sprintf("s%d", i)
		kinds := []string{"send", "send", "send", "send", "burst", "poll", "poll", "wait", "slowPoll"}
		if (c.Carrier == "polling") && !upgraded && c.Rev == 4 || (c.Carrier == "polling" && !upgraded) {
			kinds = append(kinds, "upgrade")
		}
		kinds = append(kinds, "gateSendStart")
		k := rapid.SampledFrom(kinds).Draw(rt, l+".kind")
		st := c01Step{Kind: k}
		switch k {
		case "send", "gateSendStart", "slowPoll":
			st.Send = genC01Send(rt, l, 0, knownPre, col)
			total++
		case "burst":
			for g := 0; g < 2; g++ {
				m := rapid.IntRange(1, 4).Draw(rt, fmt.Sprintf("%s.b%d", l, g))
				for j := 0; j < m; j++ {
					st.Burst[g] = append(st.Burst[g], genC01Send(rt, fmt.Sprintf("%s.b%d.%d", l, g, j), g+1, knownPre, col))
					total++
				}
			}
		case "wait":
			st.D = time.Duration(rapid.SampledFrom([]int{1, 50, 99, 100, 101, 250, 1000}).Draw(rt, l+".d")) * time.Millisecond
		case "upgrade":
			st.To = "websocket"
			if c.Rev == 4 && rapid.Bool().Draw(rt, l+".wt") {
				st.To = "webtransport"
			}
			upgraded = true
			// a send placed inside the window of the upgrade's polling check
			if !knownRace && rapid.Bool().Draw(rt, l+".gateCheck") {
				st.Kind = "gateCheck"
				st.Send = genC01Send(rt, l+".gc", 0, knownPre, col)
				total++
			} else if knownRace {
				col.Exclude("send inside the upgrade check window (known finding " + sigCheckFlushRace + ")")
			}
		}
		if total > 40 {
			break
		}
		c.Steps = append(c.Steps, st)
	}
	return c
}

// payload carries the sender and its sequence number so that the per-sender
// prefix relation can be checked.
func c01Payload(sender, seq, size int, bin bool, asciiOnly bool) Pkt {
	// size is the total data length (at least the tag that identifies sender and sequence number)
	if bin {
		b := make([]byte, 0, size+5)
		b = append(b, byte(sender))
		var q [4]byte
		binary.BigEndian.PutUint32(q[:], uint32(seq))
		b = append(b, q[:]...)
		if size > 5 {
			b = append(b, makePayload(size-5, byte(seq))...)
		}
		return msgB(b)
	}
	head := fmt.Sprintf("%d:%d:", sender, seq)
	fill := "é😀<\"\\\n" + strings.Repeat("x", 64)
	if asciiOnly {
		fill = "e:)<\"\\\n" + strings.Repeat("x", 64)
	}
	var sb strings.Builder
	sb.WriteString(head)
	for sb.Len() < size {
		sb.WriteString(fill[:min(len(fill), size-sb.Len())])
	}
	// cut on a rune boundary, then pad to the exact length
	s := sb.String()
	for len(s) > 0 && !validUTF8Tail(s) {
		s = s[:len(s)-1]
	}
	for len(s) < size {
		s += "."
	}
	return msgT(s)
}

func validUTF8Tail(s string) bool {
	// a string cut inside a multi-byte sequence ends with an incomplete rune
	for i := len(s) - 1; i >= 0 && i >= len(s)-4; i-- {
		c := s[i]
		if c < 0x80 {
			return i == len(s)-1
		}
		if c >= 0xc0 {
			need := 2
			if c >= 0xf0 {
				need = 4
			} else if c >= 0xe0 {
				need = 3
			}
			return len(s)-i == need
		}
	}
	return true
}

func decodeC01(p Pkt) (sender, seq int, ok bool) {
	if p.Binary {
		if len(p.Data) < 5 {
			return 0, 0, false
		}
		return int(p.Data[0]), int(binary.BigEndian.Uint32(p.Data[1:5])), true
	}
	var a, b int
	if _, err := fmt.Sscanf(string(p.Data), "%d:%d:", &a, &b); err != nil {
		return 0, 0, false
	}
	return a, b, true
}

type c01World struct {
	c        c01Case
	w        *World
	sr       *SessRec
	pc       *PollClient
	wc       *WSClient
	tc       *WTClient
	cur      string // transport the client currently reads from
	recv     []Pkt  // messages in the order the client observed them
	seen     [3]int // per sender: next expected sequence number
	sent     [3][]Pkt
	mu       sync.Mutex
	stats    map[string]bool
	consumed [3]int // read offsets into pc/wc/tc Msgs
	// asciiOnly: recorded parser finding (revision-3 binary payloads double-encode non-ASCII text): text stays ASCII
	asciiOnly bool
}

func (cw *c01World) opts(s c01Send, p Pkt) *packet.Options {
	switch s.Opt {
	case "compress":
		return &packet.Options{Compress: true}
	case "nocompress":
		return &packet.Options{Compress: false}
	case "preencoded":
		// as socket.io does: the frame the websocket transport would produce for this very packet
		fr := encPacketFrame(cw.c.Rev, cw.c.B64, p)
		var buf types.BufferInterface
		if fr.Binary {
			buf = types.NewBytesBuffer(append([]byte(nil), fr.Data...))
		} else {
			buf = types.NewStringBuffer(append([]byte(nil), fr.Data...))
		}
		cw.mu.Lock()
		cw.stats["preencoded"] = true
		cw.mu.Unlock()
		return &packet.Options{Compress: true, WsPreEncodedFrame: buf}
	}
	return nil
}

func (cw *c01World) send(s c01Send) {
	cw.mu.Lock()
	seq := len(cw.sent[s.Sender])
	p := c01Payload(s.Sender, seq, s.Size, s.Bin, cw.asciiOnly)
	cw.sent[s.Sender] = append(cw.sent[s.Sender], p)
	cw.mu.Unlock()
	cw.w.AppSend(cw.sr, p, cw.opts(s, p), s.Cb, s.Sender)
}

// pump moves newly received messages into the client's observation log.
func (cw *c01World) pump() string {
	take := func(idx int, msgs []Pkt) {
		for _, m := range msgs[cw.consumed[idx]:] {
			cw.recv = append(cw.recv, m)
		}
		cw.consumed[idx] = len(msgs)
	}
	if cw.pc != nil {
		cw.pc.Pump()
		take(0, cw.pc.Msgs)
		if len(cw.pc.Errs) > 0 {
			return fmt.Sprintf("polling client: %v", cw.pc.Errs)
		}
	}
	if cw.wc != nil {
		cw.wc.Pump()
		take(1, cw.wc.Msgs)
		if len(cw.wc.Errs) > 0 {
			return fmt.Sprintf("websocket client: %v", cw.wc.Errs)
		}
	}
	if cw.tc != nil {
		cw.tc.Pump()
		take(2, cw.tc.Msgs)
		if len(cw.tc.Errs) > 0 {
			return fmt.Sprintf("webtransport client: %v", cw.tc.Errs)
		}
	}
	return cw.prefixCheck()
}

// prefixCheck: what the client has is, per sender, a prefix of what that
// sender passed to Send, each message exactly once and intact.
func (cw *c01World) prefixCheck() string {
	var next [3]int
	for i, m := range cw.recv {
		snd, seq, ok := decodeC01(m)
		if !ok || snd < 0 || snd > 2 {
			return fmt.Sprintf("client received message #%d %v that was never sent", i, m)
		}
		cw.mu.Lock()
		sent := cw.sent[snd]
		cw.mu.Unlock()
		if seq != next[snd] {
			what := "out of order or lost"
			if seq < next[snd] {
				what = "duplicated"
			}
			return fmt.Sprintf("client received (sender %d) message seq %d as its #%d from that sender (expected seq %d): %s; received so far %s", snd, seq, next[snd], next[snd], what, seqString(cw.recv))
		}
		if seq >= len(sent) || !sent[seq].Equal(m) {
			return fmt.Sprintf("client received sender %d seq %d altered: got %v, sent %v", snd, seq, m, sent[min(seq, len(sent)-1)])
		}
		next[snd]++
	}
	cw.seen = next
	return ""
}

func seqString(ps []Pkt) string {
	var out []string
	for _, p := range ps {
		a, b, ok := decodeC01(p)
		if ok {
			out = append(out, fmt.Sprintf("%d.%d", a, b))
		} else {
			out = append(out, "?")
		}
	}
	if len(out) > 40 {
		out = append(out[:20], append([]string{"..."}, out[len(out)-15:]...)...)
	}
	return "[" + strings.Join(out, " ") + "]"
}

// keepReading: a conformant client keeps one poll outstanding / reads frames.
func (cw *c01World) keepReading() string {
	if cw.cur == "polling" && cw.pc != nil && !cw.pc.Closed {
		for i := 0; i < 3; i++ {
			if f := cw.pump(); f != "" {
				return f
			}
			if cw.pc.Poll != nil || len(cw.sr.Closes) > 0 {
				break
			}
			cw.pc.StartPoll()
			Settle()
		}
	}
	return cw.pump()
}

func (cw *c01World) answerPings() {
	// heartbeats are long (10 minutes): nothing to answer in these histories
}

func runC01(c c01Case) (fail string, stats map[string]bool) {
	stats = map[string]bool{}
	o := config.DefaultServerOptions()
	o.SetAllowEIO3(true)
	o.SetTransports(types.NewSet("polling", "websocket", "webtransport"))
	o.SetPingInterval(10 * time.Minute)
	o.SetPingTimeout(10 * time.Minute)
	o.SetHttpCompression(&types.HttpCompression{Threshold: c.HTTPThr})
	if c.PMDeflate >= 0 {
		o.SetPerMessageDeflate(&types.PerMessageDeflate{Threshold: c.PMDeflate})
	}
	w := NewWorld(o)
	defer w.Teardown()
	eio := "4"
	if c.Rev == 3 {
		eio = "3"
	}
	cw := &c01World{c: c, w: w, stats: stats, cur: c.Carrier}
	if c.Rev == 3 && !c.B64 && c.Carrier == "polling" && isKnown("C01", sigV3BinText) {
		cw.asciiOnly = true
		stats["excluded.v3-binary-non-ascii"] = true
	}
	hdr := http.Header{}
	if c.AE != "" {
		hdr.Set("Accept-Encoding", c.AE)
	}
	switch c.Carrier {
	case "polling", "jsonp":
		cw.cur = "polling"
		pc := &PollClient{W: w, O: ClientOpts{Rev: c.Rev, EIO: eio, B64: c.B64, JSONP: c.Carrier == "jsonp", J: "9", Extra: hdr}}
		pc.StartHandshake()
		Settle()
		if err := pc.FinishHandshake(); err != nil {
			return "harness: handshake: " + err.Error(), stats
		}
		cw.pc = pc
	case "websocket":
		wc := &WSClient{W: w, O: ClientOpts{Rev: c.Rev, EIO: eio, B64: c.B64}, OfferDeflate: c.PMDeflate >= 0}
		wc.Start()
		Settle()
		wc.Pump()
		if wc.Open == nil {
			return fmt.Sprintf("harness: websocket handshake failed (status %d, %v)", wc.HTTPStatus, wc.Errs), stats
		}
		cw.wc = wc
	default:
		tc := &WTClient{W: w, O: ClientOpts{Rev: 4, B64: c.B64}}
		tc.Start()
		Settle()
		tc.OpenBidi()
		tc.SendHandshake()
		Settle()
		tc.Pump()
		if tc.Open == nil {
			return "harness: webtransport handshake failed", stats
		}
		cw.tc = tc
	}
	sid := ""
	switch {
	case cw.pc != nil:
		sid = cw.pc.Sid
	case cw.wc != nil:
		sid = cw.wc.Sid
	default:
		sid = cw.tc.Sid
	}
	cw.sr = w.Get(sid)
	var g *Gates
	for _, st := range c.Steps {
		if strings.HasPrefix(st.Kind, "gate") {
			g = InstallGates(nil)
			defer g.Uninstall()
			break
		}
	}
	arm := func(site string) GatePoint {
		gp := GatePoint{site, g.Count(site)}
		g.mu.Lock()
		g.plan[gp] = true
		g.mu.Unlock()
		return gp
	}
	disarm := func(gp GatePoint) {
		g.mu.Lock()
		delete(g.plan, gp)
		g.mu.Unlock()
		g.Release(gp)
	}

	doUpgrade := func(to string, inCheck *c01Send) string {
		if cw.cur != "polling" {
			return ""
		}
		stats["upgrade."+to] = true
		pc := cw.pc
		if pc.Poll == nil {
			pc.StartPoll()
			Settle()
			if f := cw.pump(); f != "" {
				return f
			}
			if pc.Poll == nil {
				pc.StartPoll()
				Settle()
			}
		}
		var cand func(Pkt)
		var candRecv func() []Pkt
		if to == "websocket" {
			wc := &WSClient{W: w, O: ClientOpts{Rev: c.Rev, EIO: eio, B64: c.B64}, Sid: pc.Sid, OfferDeflate: c.PMDeflate >= 0}
			wc.Start()
			Settle()
			wc.Pump()
			if wc.HTTPStatus != 101 {
				return fmt.Sprintf("candidate websocket refused: %d", wc.HTTPStatus)
			}
			cw.wc = wc
			cand = func(p Pkt) { wc.SendPacket(p, nil) }
			candRecv = func() []Pkt { wc.Pump(); return wc.Recv }
		} else {
			tc := &WTClient{W: w, O: ClientOpts{Rev: 4, B64: c.B64}, Sid: pc.Sid}
			tc.Start()
			Settle()
			tc.OpenBidi()
			tc.SendHandshake()
			Settle()
			cw.tc = tc
			cand = func(p Pkt) { tc.SendPacket(p) }
			candRecv = func() []Pkt { tc.Pump(); return tc.Recv }
		}
		var gp GatePoint
		if inCheck != nil {
			gp = arm("socket.upgrade.check")
		}
		cand(ctlD(tPing, "probe"))
		Settle()
		if r := candRecv(); len(r) == 0 || r[len(r)-1].Type != tPong {
			return fmt.Sprintf("probe not answered: %v", r)
		}
		// the server's check tick releases the pending poll with a noop
		for i := 0; i < 4 && pc.Poll != nil; i++ {
			time.Sleep(100 * time.Millisecond)
			Settle()
			if inCheck != nil {
				parked := false
				for _, p := range g.Parked() {
					if p == gp {
						parked = true
					}
				}
				if parked {
					// the application sends while the check sits between its writability test and its noop
					stats["send-inside-check-window"] = true
					// the sender may legitimately block on the session's flush mutex while the
					// check is parked (a goroutine waiting for a mutex is not "durably blocked",
					// so synctest.Wait cannot be used here): give it ample opportunity to run,
					// then let the check continue
					sent := make(chan struct{})
					inj := *inCheck
					go func() { cw.send(inj); close(sent) }()
				spin:
					for k := 0; k < 5000; k++ {
						runtime.Gosched()
						select {
						case <-sent:
							break spin
						default:
						}
					}
					g.Release(gp)
					<-sent
					Settle()
					inCheck = nil
				}
			}
			if f := cw.pump(); f != "" {
				return f
			}
		}
		if inCheck != nil {
			disarm(gp)
			cw.send(*inCheck)
			Settle()
		}
		if len(cw.sr.Closes) > 0 {
			return fmt.Sprintf("session closed during a conformant upgrade: %v", cw.sr.Closes)
		}
		if pc.Poll != nil {
			return "pending poll not released during the upgrade"
		}
		cand(ctl(tUpgrade))
		Settle()
		if got := cw.sr.Sock.Transport().Name(); got != to {
			return fmt.Sprintf("after the upgrade packet the transport is %q", got)
		}
		cw.cur = to
		return cw.pump()
	}

	for i, st := range c.Steps {
		what := fmt.Sprintf("step %d %v", i, st)
		switch st.Kind {
		case "send":
			cw.send(st.Send)
			Settle()
		case "burst":
			stats["concurrent-senders"] = true
			var wg sync.WaitGroup
			for gI := 0; gI < 2; gI++ {
				wg.Add(1)
				go func() {
					defer wg.Done()
					for _, s := range st.Burst[gI] {
						cw.send(s)
					}
				}()
			}
			wg.Wait()
			Settle()
		case "poll":
			if f := cw.keepReading(); f != "" {
				return what + ": " + f, stats
			}
		case "wait":
			time.Sleep(st.D)
			Settle()
		case "upgrade":
			if f := doUpgrade(st.To, nil); f != "" {
				return what + ": " + f, stats
			}
		case "gateCheck":
			s := st.Send
			if f := doUpgrade(st.To, &s); f != "" {
				return what + ": " + f, stats
			}
		case "slowPoll":
			// the client's poll travels over a slow connection: the status line of its response takes its time
			// (the writer blocks in WriteHeader); the message must arrive all the same
			if cw.cur != "polling" {
				cw.send(st.Send)
				Settle()
				break
			}
			if f := cw.pump(); f != "" {
				return what + ": " + f, stats
			}
			hold := make(chan struct{})
			var slow *Exchange
			if cw.pc.Poll == nil && len(cw.sr.Closes) == 0 {
				slow = cw.pc.StartPollMod(func(r *ReqSpec) { r.HoldHeader = hold })
				Settle()
			}
			cw.send(st.Send)
			Settle()
			if slow != nil {
				slow.mu.Lock()
				held := slow.HeldHeader
				slow.mu.Unlock()
				if held {
					stats["poll-response-on-slow-connection"] = true
				}
			}
			close(hold)
			Settle()
		case "gateSendStart":
			// hold the transport's writer goroutine at its first statement, send more, release
			site := map[string]string{"polling": "polling.send.start", "websocket": "ws.send.start", "webtransport": "wt.send.start"}[cw.cur]
			if cw.cur == "polling" && cw.pc.Poll == nil {
				cw.pc.StartPoll()
				Settle()
				if f := cw.pump(); f != "" {
					return what + ": " + f, stats
				}
				if cw.pc.Poll == nil {
					cw.pc.StartPoll()
					Settle()
				}
			}
			gp := arm(site)
			cw.send(st.Send)
			Settle()
			parked := false
			for _, p := range g.Parked() {
				if p == gp {
					parked = true
				}
			}
			if parked {
				stats["send-while-writer-parked"] = true
				extra := st.Send
				extra.Size = 3
				extra.Opt = "nil"
				cw.send(extra)
				Settle()
			}
			disarm(gp)
			Settle()
		}
		if f := cw.pump(); f != "" {
			return what + ": " + f, stats
		}
		if len(cw.sr.Closes) > 0 {
			return fmt.Sprintf("%s: session closed (%v) in a history without any close cause", what, cw.sr.Closes), stats
		}
	}
	// the client keeps reading: everything sent must arrive
	for i := 0; i < 60; i++ {
		if f := cw.keepReading(); f != "" {
			return "final drain: " + f, stats
		}
		done := true
		for s := 0; s < 3; s++ {
			if cw.seen[s] != len(cw.sent[s]) {
				done = false
			}
		}
		if done {
			break
		}
		time.Sleep(50 * time.Millisecond)
		Settle()
	}
	for s := 0; s < 3; s++ {
		if cw.seen[s] != len(cw.sent[s]) {
			return fmt.Sprintf("session open and client reading, but sender %d's messages from seq %d on (of %d) never arrived; received %s; session closes %v", s, cw.seen[s], len(cw.sent[s]), seqString(cw.recv), cw.sr.Closes), stats
		}
	}
	if c01After != nil {
		if f := c01After(cw); f != "" {
			return f, stats
		}
	}
	// cross-check: flush events carried every accepted send exactly once
	nFlushed := 0
	for _, e := range cw.sr.Events {
		if e.Name == "flush" {
			for _, p := range e.Pkts {
				if p.Type == "message" {
					nFlushed++
				}
			}
		}
	}
	total := len(cw.sent[0]) + len(cw.sent[1]) + len(cw.sent[2])
	if nFlushed != total {
		return fmt.Sprintf("flush events carried %d message packets, %d were accepted by Send", nFlushed, total), stats
	}
	// classification
	for _, e := range cw.sr.Events {
		if e.Name == "flush" {
			nm, hasT, hasB := 0, false, false
			for _, p := range e.Pkts {
				if p.Type == "message" {
					nm++
				}
			}
			if nm >= 2 {
				stats["batch>=2"] = true
			}
			_ = hasT
			_ = hasB
		}
	}
	for s := 0; s < 3; s++ {
		for _, p := range cw.sent[s] {
			if len(p.Data) >= 4097 {
				stats["payload>=4097"] = true
			}
		}
	}
	stats["carrier."+c.Carrier] = true
	if total >= 2 {
		stats[">=2-messages"] = true
	}
	return "", stats
}

func TestC01Outbound(t *testing.T) {
	col := NewCollector("TestC01Outbound",
		"rapid: session on polling/JSONP/WebSocket/WebTransport x revision x b64 x perMessageDeflate {none,0,1024} x httpCompression threshold x Accept-Encoding; 2-16 steps: Send of text/binary payloads (sizes 0..70000 incl. 125/126/127, 4086..4097, 65535/65536) with options nil/Compress true/false/pre-encoded frame and optional callback, bursts from two concurrent sender goroutines, polls, waits, a full upgrade polling->websocket/webtransport (optionally with a Send placed inside the upgrade check's test-then-send window through a yield-point gate), and a Send while the transport's writer goroutine is parked at its first statement; the client decodes with the independent codec and keeps reading at the end; oracle: at every quiescent point the received messages are, per sender, a prefix of that sender's Send calls, each exactly once and byte/kind-identical; at the end everything sent has arrived, the session is open, and the flush events carried exactly the accepted sends. non-trivial: >=2 messages and one of: a batch with >=2 messages, a payload >=4097 bytes, a pre-encoded frame, an upgrade between sends, concurrent senders, a gated window").Use(t)
	knownPre := isKnown("C01", sigPreEncodedReturn)
	knownRace := isKnown("C01", sigCheckFlushRace)
	rapid.Check(t, func(rt *rapid.T) {
		c := genC01(rt, knownPre, knownRace, col)
		journal("C01 %v", c)
		var fail string
		var stats map[string]bool
		res := bubble(t, func() { fail, stats = runC01(c) })
		var cl []string
		for k := range stats {
			cl = append(cl, k)
		}
		sort.Strings(cl)
		nt := stats[">=2-messages"] && (stats["batch>=2"] || stats["payload>=4097"] || stats["preencoded"] || stats["upgrade.websocket"] || stats["upgrade.webtransport"] || stats["concurrent-senders"] || stats["send-inside-check-window"] || stats["send-while-writer-parked"])
		col.Case(c.String(), nt, map[string]any{"case": clipStr(c.String(), 900)}, cl...)
		res.rethrow()
		if fail != "" {
			rt.Fatalf("%v\n%s", clipStr(c.String(), 2500), clipStr(fail, 2000))
		}
		if res.Leak != "" {
			rt.Fatalf("%v: %s", clipStr(c.String(), 1200), clipStr(res.Leak, 1500))
		}
	})
	req := []string{"poll-response-on-slow-connection", "carrier.polling", "carrier.jsonp", "carrier.websocket", "carrier.webtransport", "batch>=2", "payload>=4097", "upgrade.websocket", "upgrade.webtransport", "concurrent-senders", "send-while-writer-parked"}
	if !knownPre {
		req = append(req, "preencoded")
	}
	if !knownRace {
		req = append(req, "send-inside-check-window")
	}
	col.RequireClasses(t, req...)
}

// c01After, when set, inspects the finished world of a C01 history (used by C18).
var c01After func(cw *c01World) string

var _ = bytes.Equal

// TestC01Findings: deterministic demonstrations of the two repaired defects.
func TestC01Findings(t *testing.T) {
	col := NewCollector("TestC01Findings", "deterministic: (a) websocket / webtransport session, three Sends in a row, the second with a pre-encoded frame (it shares a batch with the third); (b) polling session, upgrade with a Send placed inside the upgrade check's window; oracle as TestC01Outbound. every case is non-trivial").Use(t)
	for _, carrier := range []string{"websocket", "webtransport"} {
		c := c01Case{Carrier: carrier, Rev: 4, PMDeflate: -1, HTTPThr: 1024, Steps: []c01Step{
			{Kind: "send", Send: c01Send{Size: 5, Opt: "nil"}}, {Kind: "send", Send: c01Send{Size: 6, Opt: "preencoded"}}, {Kind: "send", Send: c01Send{Size: 7, Opt: "nil"}}, {Kind: "send", Send: c01Send{Size: 8, Bin: true, Opt: "nil"}}}}
		var fail string
		res := bubble(t, func() { fail, _ = runC01(c) })
		res.rethrow()
		col.Case(c.String(), true, map[string]any{"case": c.String(), "result": clipStr(fail, 300)}, "preencoded")
		demoFinding(t, col, "C01", sigPreEncodedReturn, fail != "", carrier+": "+clipStr(fail, 400))
	}
	for _, to := range []string{"websocket", "webtransport"} {
		c := c01Case{Carrier: "polling", Rev: 4, PMDeflate: -1, HTTPThr: 1024, Steps: []c01Step{
			{Kind: "send", Send: c01Send{Size: 5, Opt: "nil"}}, {Kind: "gateCheck", To: to, Send: c01Send{Size: 9, Opt: "nil"}}, {Kind: "send", Send: c01Send{Size: 3, Opt: "nil"}}}}
		var fail string
		res := bubble(t, func() { fail, _ = runC01(c) })
		res.rethrow()
		col.Case(c.String(), true, map[string]any{"case": c.String(), "result": clipStr(fail, 300)}, "check-window")
		demoFinding(t, col, "C01", sigCheckFlushRace, fail != "", "upgrade to "+to+": "+clipStr(fail, 400))
	}
}

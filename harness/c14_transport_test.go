package harness

// C14 at the level of the engine's WebTransport transport: the bytes a
// session's WebTransport connection emits for every packet the engine sends
// (application messages with every option the transport special-cases,
// heartbeats, the close of the stream) are exactly one reference frame per
// packet, on sessions opened directly and on sessions upgraded from polling,
// also when one packet.Options value (one pre-encoded frame) is shared by
// several recipients and by several Sends.

import (
	"bytes"
	"fmt"
	"sort"
	"testing"
	"time"

	"github.com/zishang520/engine.io-go-parser/packet"
	"github.com/zishang520/engine.io/v2/config"
	"github.com/zishang520/engine.io/v2/types"
	"pgregory.net/rapid"
)

type twMsg struct {
	Bin   bool
	Size  int
	Opt   string // nil | compress | nocompress | preencoded | preencoded-again (the previous message's options value once more)
	Order []int
}

type twCase struct {
	Upgraded  []bool // per session: reached through an upgrade of a polling session
	B64       []bool
	PMDeflate int
	Msgs      []twMsg
}

func (c twCase) String() string {
	return fmt.Sprintf("{upgraded=%v b64=%v perMessageDeflate=%d msgs=%+v}", c.Upgraded, c.B64, c.PMDeflate, c.Msgs)
}

func genTW(rt *rapid.T) twCase {
	c := twCase{}
	n := rapid.IntRange(1, 3).Draw(rt, "nsess")
	for i := 0; i < n; i++ {
		c.Upgraded = append(c.Upgraded, rapid.IntRange(0, 2).Draw(rt, fmt.Sprintf("s%d.up", i)) == 0)
		c.B64 = append(c.B64, rapid.IntRange(0, 3).Draw(rt, fmt.Sprintf("s%d.b64", i)) == 0)
	}
	c.PMDeflate = rapid.SampledFrom([]int{-1, -1, -1, 0, 1024}).Draw(rt, "pmd")
	m := rapid.IntRange(1, 7).Draw(rt, "nmsgs")
	for i := 0; i < m; i++ {
		l := fmt.Sprintf("m%d", i)
		t := twMsg{Bin: rapid.IntRange(0, 3).Draw(rt, l+".bin") == 0}
		if rapid.IntRange(0, 3).Draw(rt, l+".big") == 0 {
			t.Size = rapid.SampledFrom([]int{0, 1, 124, 125, 126, 127, 4095, 4096, 4097, 8200, 65534, 65535, 65536, 65537}).Draw(rt, l+".size")
		} else {
			t.Size = rapid.IntRange(0, 200).Draw(rt, l+".small")
		}
		t.Opt = rapid.SampledFrom([]string{"nil", "compress", "nocompress", "preencoded", "preencoded", "preencoded-again"}).Draw(rt, l+".opt")
		t.Order = rapid.Permutation(seqInts(n)).Draw(rt, l+".order")
		c.Msgs = append(c.Msgs, t)
	}
	return c
}

func runTW(c twCase) (fail string, stats map[string]bool) {
	stats = map[string]bool{}
	o := config.DefaultServerOptions()
	o.SetTransports(types.NewSet("polling", "websocket", "webtransport"))
	o.SetPingInterval(time.Second)
	o.SetPingTimeout(10 * time.Minute)
	if c.PMDeflate >= 0 {
		o.SetPerMessageDeflate(&types.PerMessageDeflate{Threshold: c.PMDeflate})
	}
	w := NewWorld(o)
	defer w.Teardown()
	type sess struct {
		tc  *WTClient
		sr  *SessRec
		b64 bool
		raw []byte // bytes seen on the stream since the last check
	}
	var ss []*sess
	for i := range c.Upgraded {
		s := &sess{b64: c.B64[i]}
		if c.Upgraded[i] {
			pc := &PollClient{W: w, O: ClientOpts{Rev: 4, B64: c.B64[i]}}
			pc.StartHandshake()
			Settle()
			if err := pc.FinishHandshake(); err != nil {
				return "harness: handshake: " + err.Error(), stats
			}
			_, tc, err := Upgrade(w, pc, "webtransport")
			if err != nil {
				return "harness: upgrade: " + err.Error(), stats
			}
			// (binary support is a property of the connection: the candidate announced none of its own)
			s.b64 = false
			s.tc, s.sr = tc, w.Get(pc.Sid)
			stats["session-upgraded-to-webtransport"] = true
		} else {
			tc := &WTClient{W: w, O: ClientOpts{Rev: 4, B64: c.B64[i]}}
			if c.B64[i] {
				tc.O.ExtraQuery = "b64=1"
			}
			tc.Start()
			Settle()
			tc.OpenBidi()
			tc.SendHandshake()
			Settle()
			tc.Pump()
			if tc.Open == nil {
				return "harness: webtransport handshake failed", stats
			}
			s.tc, s.sr = tc, w.Get(tc.Sid)
			stats["session-opened-on-webtransport"] = true
		}
		// what was emitted so far (open packet, probe pong) was consumed by the client actor
		s.tc.Pump()
		ss = append(ss, s)
	}
	expect := func(s *sess, ps []Pkt, what string) string {
		s.raw = append(s.raw, s.tc.Bidi.out.Drain()...)
		var want []byte
		for _, p := range ps {
			fr := encPacketFrame(4, s.b64, p)
			want = append(want, wtEncode(fr.Binary, fr.Data)...)
		}
		got := s.raw
		s.raw = nil
		if !bytes.Equal(got, want) {
			return fmt.Sprintf("%s: the connection emitted %d bytes (% x ...), the reference frames of %s are %d bytes (% x ...)", what, len(got), clip(got, 24), pktsString(ps), len(want), clip(want, 24))
		}
		return ""
	}
	var prevOpts *packet.Options
	var prevP Pkt
	for mi, m := range c.Msgs {
		p := c01Payload(0, mi, m.Size, m.Bin, true)
		var opts *packet.Options
		switch m.Opt {
		case "compress":
			opts = &packet.Options{Compress: true}
		case "nocompress":
			opts = &packet.Options{Compress: false}
		case "preencoded", "preencoded-again":
			if m.Opt == "preencoded-again" && prevOpts != nil {
				// the application hands the very same options value (and pre-encoded frame) to Send once more, with
				// the packet it was made for
				opts = prevOpts
				p = prevP
				stats["options-value-used-by-two-sends"] = true
				break
			}
			// as socket.io: the frame the websocket transport would produce for this very packet (binary support on)
			fr := encPacketFrame(4, false, p)
			var buf types.BufferInterface
			if fr.Binary {
				buf = types.NewBytesBuffer(append([]byte(nil), fr.Data...))
			} else {
				buf = types.NewStringBuffer(append([]byte(nil), fr.Data...))
			}
			opts = &packet.Options{Compress: true, WsPreEncodedFrame: buf}
			stats["preencoded"] = true
			if len(ss) >= 2 {
				stats["preencoded-frame-shared-by>=2-recipients"] = true
			}
		}
		prevOpts = nil
		if opts != nil && opts.WsPreEncodedFrame != nil {
			prevOpts, prevP = opts, p
		}
		for _, si := range m.Order {
			s := ss[si]
			// a pre-encoded frame is the encoding with binary support; a recipient without it gets the packet encoded for it
			w.AppSend(s.sr, p, opts, false, 0)
			Settle()
			want := p
			if f := expect(s, []Pkt{want}, fmt.Sprintf("message %d (%+v) to session %d (upgraded=%v b64=%v)", mi, m, si, c.Upgraded[si], s.b64)); f != "" {
				if opts != nil && opts.WsPreEncodedFrame != nil && s.b64 && p.Binary {
					// a pre-encoded binary frame handed to a recipient without binary support: the application's
					// own mismatch, not asserted
					stats["excluded.preencoded-binary-frame-for-a-base64-recipient"] = true
					continue
				}
				return f, stats
			}
		}
		if m.Size >= 126 {
			stats["extended-length-form"] = true
		}
	}
	// the engine's own packets: a heartbeat ping is one frame as well
	time.Sleep(time.Second)
	Settle()
	for si, s := range ss {
		if f := expect(s, []Pkt{ctl(tPing)}, fmt.Sprintf("heartbeat ping to session %d", si)); f != "" {
			return f, stats
		}
		stats["heartbeat-frame"] = true
	}
	return "", stats
}

func TestC14TransportFrames(t *testing.T) {
	col := NewCollector("TestC14TransportFrames",
		"rapid: 1-3 sessions on the engine's WebTransport transport (opened directly or upgraded from polling, with and without binary support) on one server (perMessageDeflate unset/0/1024); 1-7 application messages (text/binary, sizes incl. 125/126/127, 4095..4097, 65535/65536) sent to every session in a drawn order with one shared packet.Options value: nil, Compress true/false, a pre-encoded frame, or the previous message's very options value once more; then one heartbeat interval; oracle: after every Send the bytes newly emitted on that session's stream are exactly the reference frame (header + payload) of the reference encoding of that packet, nothing else; the heartbeat ping is one frame. non-trivial: a pre-encoded frame shared by >=2 recipients or used by two Sends, or an extended length form").Use(t)
	rapid.Check(t, func(rt *rapid.T) {
		c := genTW(rt)
		journal("C14 transport %v", c)
		var fail string
		var stats map[string]bool
		res := bubble(t, func() { fail, stats = runTW(c) })
		var cls []string
		for k := range stats {
			cls = append(cls, k)
		}
		sort.Strings(cls)
		col.Case(c.String(), stats["preencoded-frame-shared-by>=2-recipients"] || stats["options-value-used-by-two-sends"] || stats["extended-length-form"], map[string]any{"case": clipStr(c.String(), 900)}, cls...)
		res.rethrow()
		if fail != "" {
			rt.Fatalf("%v\n%s", clipStr(c.String(), 2000), clipStr(fail, 1500))
		}
		if res.Leak != "" {
			rt.Fatalf("%v: %s", clipStr(c.String(), 1000), clipStr(res.Leak, 1500))
		}
	})
	col.RequireClasses(t, "session-upgraded-to-webtransport", "session-opened-on-webtransport", "preencoded-frame-shared-by>=2-recipients", "options-value-used-by-two-sends", "extended-length-form", "heartbeat-frame")
}

package harness

// C02, malformed neighbours: a payload (or a sequence of frames) in which
// well-formed message packets stand next to a packet no decoder accepts. The
// statement leaves the server two ways out for the bad packet - ignore it, or
// end the session because of it (parse error) - but no third: a well-formed
// message submitted while the session is open is delivered.

import (
	"fmt"
	"sort"
	"strings"
	"testing"
	"time"

	"github.com/zishang520/engine.io/v2/config"
	"github.com/zishang520/engine.io/v2/types"
	"pgregory.net/rapid"
)

const sigMalformedSwallows = "malformed-packet-in-a-polling-payload-swallows-the-packets-after-it"

type mfItem struct {
	Bad string // non-empty: the raw text of a packet no decoder accepts
	P   Pkt
}

func (i mfItem) String() string {
	if i.Bad != "" || i.P.Type == 0 {
		return fmt.Sprintf("BAD(%q)", i.Bad)
	}
	return i.P.String()
}

type mfCase struct {
	Carrier string // polling | jsonp | websocket | webtransport
	Rev     int
	B64     bool
	Items   []mfItem
	Split   []int // polling: items per data request (cycled)
}

func (c mfCase) String() string {
	return fmt.Sprintf("{%s rev%d b64=%v items=%v split=%v}", c.Carrier, c.Rev, c.B64, c.Items, c.Split)
}

func genMF(rt *rapid.T) mfCase {
	c := mfCase{}
	c.Carrier = rapid.SampledFrom([]string{"polling", "polling", "polling", "jsonp", "websocket", "webtransport"}).Draw(rt, "carrier")
	c.Rev = 4
	if c.Carrier != "webtransport" && rapid.IntRange(0, 2).Draw(rt, "rev3") == 0 {
		c.Rev = 3
	}
	c.B64 = c.Carrier == "jsonp" || rapid.IntRange(0, 2).Draw(rt, "b64") == 0
	n := rapid.IntRange(2, 8).Draw(rt, "n")
	nbad := 0
	for i := 0; i < n; i++ {
		l := fmt.Sprintf("i%d", i)
		if rapid.IntRange(0, 3).Draw(rt, l+".bad") == 0 && nbad < 2 {
			bads := []string{"9zz", "x", "7", ":", "?4a", "\x00"}
			if c.Rev == 4 {
				bads = append(bads, "", "b@@@", "b*")
			} else {
				bads = append(bads, "b9QUJD", "bx")
			}
			c.Items = append(c.Items, mfItem{Bad: rapid.SampledFrom(bads).Draw(rt, l+".text")})
			if c.Items[len(c.Items)-1].Bad == "" {
				c.Items[len(c.Items)-1].P = Pkt{} // the empty packet
			}
			nbad++
			continue
		}
		if rapid.IntRange(0, 3).Draw(rt, l+".bin") == 0 {
			c.Items = append(c.Items, mfItem{P: msgB([]byte{byte(i), 0xfe, byte(i + 1)})})
		} else {
			c.Items = append(c.Items, mfItem{P: msgT(fmt.Sprintf("m%d-%s", i, rapid.SampledFrom([]string{"", "é", "4", ":", "9zz"}).Draw(rt, l+".t")))})
		}
	}
	if nbad == 0 {
		c.Items[rapid.IntRange(0, len(c.Items)-1).Draw(rt, "badpos")] = mfItem{Bad: "9zz"}
	}
	c.Split = rapid.SliceOfN(rapid.IntRange(1, 5), 1, 3).Draw(rt, "split")
	return c
}

func (i mfItem) isBad() bool { return i.Bad != "" || i.P.Type == 0 }

// encodeItems: the payload a client would produce if its packets were these texts
func mfPayload(rev int, items []mfItem) []byte {
	var out []byte
	for k, it := range items {
		var e []byte
		if it.isBad() {
			e = []byte(it.Bad)
		} else {
			e = encPacketText(rev, it.P)
		}
		if rev == 4 {
			if k > 0 {
				out = append(out, 0x1e)
			}
			out = append(out, e...)
		} else {
			out = append(out, fmt.Sprintf("%d:", utf16Len(e))...)
			out = append(out, e...)
		}
	}
	return out
}

func runMF(c mfCase) (fail string, stats map[string]bool) {
	stats = map[string]bool{}
	o := config.DefaultServerOptions()
	o.SetAllowEIO3(true)
	o.SetTransports(types.NewSet("polling", "websocket", "webtransport"))
	o.SetPingInterval(10 * time.Minute)
	o.SetPingTimeout(10 * time.Minute)
	w := NewWorld(o)
	defer w.Teardown()
	eio := "4"
	if c.Rev == 3 {
		eio = "3"
	}
	s, why := doHandshake(w, c06HS{Carrier: c.Carrier, EIO: eio, B64: c.B64, J: "5"})
	if s == nil {
		return "harness: handshake: " + why, stats
	}
	sr := w.Get(s.open.Sid)
	switch c.Carrier {
	case "polling", "jsonp":
		i, k := 0, 0
		for i < len(c.Items) {
			n := c.Split[k%len(c.Split)]
			k++
			if i+n > len(c.Items) {
				n = len(c.Items) - i
			}
			chunk := c.Items[i : i+n]
			// an empty packet as the only or last element of a revision-4 payload is not expressible (the payload
			// would simply end): keep it in the middle
			body := mfPayload(c.Rev, chunk)
			ct := "text/plain;charset=UTF-8"
			if c.Carrier == "jsonp" {
				body, ct = jsonpFormBody(body), "application/x-www-form-urlencoded"
			}
			closedBefore := len(sr.Closes) > 0
			ex := s.pc.StartPostRaw(body, ct, nil)
			Settle()
			snap := ex.Snap()
			if !snap.Responded {
				return fmt.Sprintf("data request %d (%v) was never answered", k, chunk), stats
			}
			if !closedBefore && len(sr.Closes) == 0 && (snap.Status != 200 || string(snap.Body) != "ok") {
				return fmt.Sprintf("data request %d (%v) answered %v although the session is open", k, chunk, snap), stats
			}
			if closedBefore && snap.Status != 400 {
				return fmt.Sprintf("data request %d after the session closed answered %v, want 400", k, snap), stats
			}
			for j, it := range chunk {
				if it.isBad() && j < len(chunk)-1 {
					stats["malformed-packet-followed-by-others-in-one-payload"] = true
				}
			}
			i += n
		}
	case "websocket":
		for _, it := range c.Items {
			if it.isBad() {
				s.wc.SendMessage(Frame{Data: []byte(it.Bad)}, nil)
			} else {
				s.wc.SendPacket(it.P, nil)
			}
			Settle()
		}
	default:
		for _, it := range c.Items {
			if it.isBad() {
				s.tc.SendFrameRaw(wtEncode(false, []byte(it.Bad)))
			} else {
				s.tc.SendPacket(it.P)
			}
			Settle()
		}
	}
	Settle()
	// reference: the well-formed messages, and for every malformed item the prefix before it
	var all []Pkt
	prefixAt := map[int][]Pkt{}
	for i, it := range c.Items {
		if it.isBad() {
			prefixAt[i] = append([]Pkt(nil), all...)
			continue
		}
		all = append(all, it.P)
	}
	if len(sr.Closes) == 0 {
		stats["malformed-packet-ignored"] = true
		if !pktsEqual(sr.Msgs, all) {
			return fmt.Sprintf("the session is still open and every data request was acknowledged, but the application received %s of the well-formed messages %s: the packets after the malformed one were swallowed", pktsString(sr.Msgs), pktsString(all)), stats
		}
		return "", stats
	}
	stats["malformed-packet-closed-the-session"] = true
	if len(sr.Closes) != 1 || sr.Closes[0] != "parse error" {
		return fmt.Sprintf("the session closed with %v; the only cause in this history is an undecodable packet (parse error)", sr.Closes), stats
	}
	for _, pre := range prefixAt {
		if pktsEqual(sr.Msgs, pre) {
			return "", stats
		}
	}
	return fmt.Sprintf("the session closed with a parse error having delivered %s; that is not the list of well-formed messages before any of the malformed packets (%v)", pktsString(sr.Msgs), c.Items), stats
}

func TestC02Malformed(t *testing.T) {
	col := NewCollector("TestC02Malformed",
		"rapid: session on polling/JSONP/WebSocket/WebTransport x revision x b64; 2-8 packets of which 1-2 are texts no decoder accepts (unknown type character, empty packet, invalid base64, NUL) and the others well-formed text/binary messages, split over 1..n data requests (polling) or sent as one frame each; oracle: every request is answered; either the session is still open and exactly the well-formed messages were delivered in order, or it closed with 'parse error' having delivered exactly the well-formed messages before one of the malformed packets; no third outcome (in particular no well-formed message lost on an open session). non-trivial: a malformed packet followed by other packets in the same payload, or a session closed by it").Use(t)
	known := isKnown("C02", sigMalformedSwallows)
	rapid.Check(t, func(rt *rapid.T) {
		c := genMF(rt)
		if known && (c.Carrier == "polling" || c.Carrier == "jsonp") {
			col.Exclude("malformed packet inside a polling payload (known finding " + sigMalformedSwallows + ")")
			c.Carrier = "websocket"
			c.B64 = false
		}
		journal("C02 malformed %v", c)
		var fail string
		var stats map[string]bool
		res := bubble(t, func() { fail, stats = runMF(c) })
		var cl []string
		for k := range stats {
			cl = append(cl, k)
		}
		sort.Strings(cl)
		cl = append(cl, "carrier."+c.Carrier)
		nt := stats["malformed-packet-followed-by-others-in-one-payload"] || stats["malformed-packet-closed-the-session"]
		col.Case(c.String(), nt, map[string]any{"case": c.String(), "classes": strings.Join(cl, " ")}, cl...)
		res.rethrow()
		if fail != "" {
			rt.Fatalf("%v\n%s", c, fail)
		}
		if res.Leak != "" {
			rt.Fatalf("%v: %s", c, clipStr(res.Leak, 1500))
		}
	})
	req := []string{"carrier.websocket", "carrier.webtransport", "malformed-packet-closed-the-session"}
	if !known {
		req = append(req, "carrier.polling", "carrier.jsonp", "malformed-packet-followed-by-others-in-one-payload")
	}
	col.RequireClasses(t, req...)
}

// TestC02MalformedFinding: deterministic demonstration.
func TestC02MalformedFinding(t *testing.T) {
	col := NewCollector("TestC02MalformedFinding", "deterministic: polling session (revision 4 and 3), one data request carrying message 'a', an undecodable packet '9zz', message 'b'; oracle of TestC02Malformed. every case is non-trivial").Use(t)
	for _, rev := range []int{4, 3} {
		c := mfCase{Carrier: "polling", Rev: rev, Items: []mfItem{{P: msgT("a")}, {Bad: "9zz"}, {P: msgT("b")}}, Split: []int{3}}
		var fail string
		res := bubble(t, func() { fail, _ = runMF(c) })
		res.rethrow()
		col.Case(c.String(), true, map[string]any{"case": c.String(), "result": clipStr(fail, 300)}, "malformed")
		demoFinding(t, col, "C02", sigMalformedSwallows, fail != "", fmt.Sprintf("%v: %s", c, clipStr(fail, 400)))
	}
}

package harness

// C12, clause "whenever a session closes for any reason, its pending poll
// request (if any) is released with a close or noop packet": one polling
// session with a poll pending, every documented close cause, a bystander
// session whose own pending poll must stay untouched.

import (
	"fmt"
	"sort"
	"strings"
	"testing"
	"time"

	"github.com/zishang520/engine.io/v2/config"
	"github.com/zishang520/engine.io/v2/types"
	"pgregory.net/rapid"
)

type prCase struct {
	Rev       int
	JSONP     bool
	Cause     string
	Pre       int  // messages exchanged before the poll is parked
	NMsgs     int  // clientClose: messages in front of the close packet
	Trailing  bool // clientClose: one more message after the close packet
	Bystander bool
	Wait      time.Duration // virtual time the poll has been pending before the cause
}

var prCauses = []string{"clientClose", "clientClose", "pingTimeout", "wrongHeartbeat", "overlapPoll", "overlapPost", "appClose", "appCloseDiscard", "serverClose", "upgradeCompletes"}

func genPR(rt *rapid.T) prCase {
	c := prCase{Rev: 4}
	if rapid.IntRange(0, 2).Draw(rt, "rev3") == 0 {
		c.Rev = 3
	}
	c.JSONP = rapid.IntRange(0, 3).Draw(rt, "jsonp") == 0
	c.Cause = rapid.SampledFrom(prCauses).Draw(rt, "cause")
	c.Pre = rapid.IntRange(0, 2).Draw(rt, "pre")
	c.NMsgs = rapid.IntRange(0, 3).Draw(rt, "nmsgs")
	c.Trailing = rapid.Bool().Draw(rt, "trailing")
	c.Bystander = rapid.Bool().Draw(rt, "bystander")
	c.Wait = time.Duration(rapid.SampledFrom([]int{0, 1, 50, 1000}).Draw(rt, "wait")) * time.Millisecond
	return c
}

const (
	prPingInterval = 3 * time.Second
	prPingTimeout  = 2 * time.Second
)

func runPR(c prCase) (fail string, stats map[string]bool) {
	stats = map[string]bool{}
	o := config.DefaultServerOptions()
	o.SetAllowEIO3(true)
	o.SetTransports(types.NewSet("polling", "websocket", "webtransport"))
	o.SetPingInterval(prPingInterval)
	o.SetPingTimeout(prPingTimeout)
	w := NewWorld(o)
	defer w.Teardown()
	eio := "4"
	if c.Rev == 3 {
		eio = "3"
	}
	mk := func() (*PollClient, *SessRec, string) {
		pc := &PollClient{W: w, O: ClientOpts{Rev: c.Rev, EIO: eio, JSONP: c.JSONP, J: "7", B64: c.JSONP}}
		pc.StartHandshake()
		Settle()
		if err := pc.FinishHandshake(); err != nil {
			return nil, nil, "harness: " + err.Error()
		}
		return pc, w.Get(pc.Sid), ""
	}
	pc, sr, f := mk()
	if f != "" {
		return f, stats
	}
	var by *PollClient
	var bysr *SessRec
	if c.Bystander {
		if by, bysr, f = mk(); f != "" {
			return f, stats
		}
		by.StartPoll()
		Settle()
	}
	for i := 0; i < c.Pre; i++ {
		e := pc.StartPost([]Pkt{msgT(fmt.Sprintf("pre%d", i))}, false)
		Settle()
		if s := e.Snap(); s.Status != 200 {
			return fmt.Sprintf("harness: pre-traffic post answered %v", s), stats
		}
	}
	poll := pc.StartPoll()
	Settle()
	if poll.Snap().Responded {
		return fmt.Sprintf("harness: the poll was answered at once: %v", poll.Snap()), stats
	}
	if c.Wait > 0 {
		time.Sleep(c.Wait)
		Settle()
	}
	if poll.Snap().Responded {
		return fmt.Sprintf("harness: the poll was answered while nothing happened: %v", poll.Snap()), stats
	}
	want := ""
	var refused *Exchange
	var post *Exchange
	switch c.Cause {
	case "clientClose":
		var body []Pkt
		for i := 0; i < c.NMsgs; i++ {
			body = append(body, msgT(fmt.Sprintf("m%d", i)))
		}
		body = append(body, ctl(tClose))
		if c.Trailing {
			body = append(body, msgT("after-close"))
		}
		post = pc.StartPost(body, false)
		Settle()
		want = "transport close"
	case "wrongHeartbeat":
		t := byte(tPing)
		if c.Rev == 3 {
			t = tPong
		}
		post = pc.StartPost([]Pkt{ctl(t)}, false)
		Settle()
		want = "transport error"
	case "overlapPoll":
		refused = pc.StartPoll()
		pc.Poll = poll
		Settle()
		want = "transport error"
	case "overlapPost":
		// two data requests at once: the first one's upload is stalled
		body, ct := pc.EncodePost([]Pkt{msgT("first")}, false)
		first := pc.StartPostRaw(body, ct, func(r *ReqSpec) { r.BlockBodyAt = 1 })
		Settle()
		refused = pc.StartPost([]Pkt{msgT("second")}, false)
		Settle()
		first.Abort()
		Settle()
		want = "transport error"
	case "appClose":
		sr.Sock.Close(false)
		Settle()
		want = "forced close"
	case "appCloseDiscard":
		sr.Sock.Close(true)
		Settle()
		want = "forced close"
	case "serverClose":
		w.Srv.Close()
		Settle()
		want = "forced close"
	case "pingTimeout":
		want = "ping timeout"
		// revision 4: the ping rides on the pending poll; the client polls again and never answers.
		// revision 3: the client simply never pings
		deadline := w.now() + prPingInterval + prPingTimeout + time.Second
		for it := 0; w.now() < deadline && len(sr.Closes) == 0; it++ {
			time.Sleep(10 * time.Millisecond)
			Settle()
			if s := poll.Snap(); s.Responded && len(sr.Closes) == 0 {
				ps, err := pc.decodeBody(s)
				if err != nil || len(ps) != 1 || ps[0].Type != tPing {
					return fmt.Sprintf("the pending poll was answered with %v (%v) while the session was idle", ps, err), stats
				}
				pc.Pump()
				poll = pc.StartPoll()
				Settle()
				stats["poll-carried-the-ping"] = true
			}
			if by != nil && len(bysr.Closes) == 0 {
				// the bystander is responsive
				if s := by.Poll.Snap(); s.Responded {
					by.Pump()
					if c.Rev == 4 {
						by.StartPost([]Pkt{ctl(tPong)}, false)
						Settle()
					}
					by.StartPoll()
					Settle()
				}
				if c.Rev == 3 && it%100 == 0 {
					by.StartPost([]Pkt{ctl(tPing)}, false)
					Settle()
				}
			}
		}
	case "upgradeCompletes":
		// not a close of the session, but the end of the polling transport: the poll is released (noop) before the switch
		to := "websocket"
		if c.Rev == 4 && c.NMsgs%2 == 1 {
			to = "webtransport"
		}
		pc.Poll = poll
		if _, _, err := Upgrade(w, pc, to); err != nil {
			return "conformant upgrade: " + err.Error(), stats
		}
		s := poll.Snap()
		if !s.Responded {
			return "the poll pending at the upgrade was never released", stats
		}
		ps, err := pc.decodeBody(s)
		if err != nil || len(ps) != 1 || ps[0].Type != tNoop {
			return fmt.Sprintf("the poll pending at the upgrade was answered with %v (%v), want a noop packet", ps, err), stats
		}
		if len(sr.Closes) != 0 {
			return fmt.Sprintf("the session closed during a conformant upgrade: %v", sr.Closes), stats
		}
		stats["cause."+c.Cause] = true
		stats["poll-released"] = true
		return "", stats
	}
	stats["cause."+c.Cause] = true
	if len(sr.Closes) != 1 {
		return fmt.Sprintf("cause %s: close events %v, ready state %q", c.Cause, sr.Closes, sr.Sock.ReadyState()), stats
	}
	if sr.Closes[0] != want {
		return fmt.Sprintf("cause %s: closed with %q, want %q", c.Cause, sr.Closes[0], want), stats
	}
	s := poll.Snap()
	if !s.Responded {
		return fmt.Sprintf("cause %s: the session closed (%s) at %v and its pending poll was never answered", c.Cause, sr.Closes[0], sr.CloseAt), stats
	}
	if at := s.RespondedAt.Sub(w.T0); at > sr.CloseAt {
		return fmt.Sprintf("cause %s: pending poll answered at %v, after the close event at %v", c.Cause, at, sr.CloseAt), stats
	}
	if s.HeaderCalls != 1 || s.Status != 200 {
		return fmt.Sprintf("cause %s: pending poll answered %v", c.Cause, s), stats
	}
	ps, err := pc.decodeBody(s)
	if err != nil || len(ps) == 0 {
		return fmt.Sprintf("cause %s: pending poll answered with an undecodable body %q: %v", c.Cause, clip(s.Body, 100), err), stats
	}
	if last := ps[len(ps)-1]; last.Type != tClose && last.Type != tNoop {
		return fmt.Sprintf("cause %s: pending poll released with %v, want a close or noop packet", c.Cause, ps), stats
	}
	stats["poll-released"] = true
	stats["released-with."+pktName(ps[len(ps)-1].Type)] = true
	if refused != nil {
		if rs := refused.Snap(); !rs.Responded || rs.Status != 400 {
			return fmt.Sprintf("cause %s: the overlapping request was answered %v, want 400", c.Cause, rs), stats
		}
	}
	if post != nil {
		if rs := post.Snap(); rs.HeaderCalls != 1 || !rs.Returned {
			return fmt.Sprintf("cause %s: the data request got %v", c.Cause, rs), stats
		}
	}
	if c.Cause == "clientClose" {
		var wantMsgs []Pkt
		for i := 0; i < c.Pre; i++ {
			wantMsgs = append(wantMsgs, msgT(fmt.Sprintf("pre%d", i)))
		}
		for i := 0; i < c.NMsgs; i++ {
			wantMsgs = append(wantMsgs, msgT(fmt.Sprintf("m%d", i)))
		}
		if !pktsEqual(sr.Msgs, wantMsgs) {
			return fmt.Sprintf("clientClose: delivered %s, want %s", pktsString(sr.Msgs), pktsString(wantMsgs)), stats
		}
	}
	// a later poll naming the closed session is refused, never left hanging
	late := pc.StartPoll()
	Settle()
	if ls := late.Snap(); !ls.Responded || ls.Status != 400 {
		return fmt.Sprintf("cause %s: a poll after the close was answered %v", c.Cause, ls), stats
	}
	if by != nil && c.Cause != "serverClose" {
		if len(bysr.Closes) != 0 {
			return fmt.Sprintf("cause %s: the bystander session closed too: %v", c.Cause, bysr.Closes), stats
		}
		if c.Cause != "pingTimeout" && by.Poll.Snap().Responded {
			return fmt.Sprintf("cause %s: the bystander's pending poll was answered: %v", c.Cause, by.Poll.Snap()), stats
		}
		stats["bystander-untouched"] = true
	}
	if by != nil && c.Cause == "serverClose" {
		if len(bysr.Closes) != 1 || !by.Poll.Snap().Responded {
			return fmt.Sprintf("serverClose: bystander close events %v, its pending poll %v", bysr.Closes, by.Poll.Snap()), stats
		}
	}
	return "", stats
}

func pktName(t byte) string {
	switch t {
	case tClose:
		return "close"
	case tNoop:
		return "noop"
	}
	return string(t)
}

func TestC12PollRelease(t *testing.T) {
	col := NewCollector("TestC12PollRelease",
		"rapid: a polling/JSONP session (revision 3/4) with a poll pending for 0..1s, optionally a bystander session with its own pending poll, and one cause ending the session or its polling transport: the client's own close packet in a data request (with 0-3 messages before it and optionally one after it), ping timeout (revision 4: the ping rides on the poll, the client polls again and stays silent), a wrong-direction heartbeat, an overlapping poll, an overlapping data request, Close(false), Close(true), Server.Close, a completed upgrade; oracle: exactly one close event with the cause's reason; the poll pending at that moment has exactly one response, status 200, written no later than the close event, whose last packet is a close or noop packet; the overlapping request gets 400; a later poll is refused with 400; the bystander's poll stays pending and its session open. every case is non-trivial (a poll is pending at the cause)").Use(t)
	rapid.Check(t, func(rt *rapid.T) {
		c := genPR(rt)
		journal("C12pr %+v", c)
		var fail string
		var stats map[string]bool
		res := bubble(t, func() { fail, stats = runPR(c) })
		var cl []string
		for k := range stats {
			cl = append(cl, k)
		}
		sort.Strings(cl)
		col.Case(fmt.Sprintf("%+v", c), true, map[string]any{"case": fmt.Sprintf("%+v", c), "classes": strings.Join(cl, " ")}, cl...)
		res.rethrow()
		if fail != "" {
			rt.Fatalf("%+v\n%s", c, clipStr(fail, 1500))
		}
		if res.Leak != "" {
			rt.Fatalf("%+v: %s", c, clipStr(res.Leak, 1500))
		}
	})
	var req []string
	for _, k := range prCauses {
		req = append(req, "cause."+k)
	}
	col.RequireClasses(t, append(req, "poll-released", "bystander-untouched", "released-with.close", "released-with.noop")...)
}

package harness

// The session world: one engine server built from generated options, an
// event recorder on the application side, and passive client actors (they
// never own goroutines: the root goroutine of a case performs an action,
// waits for quiescence and then pumps the clients).

import (
	"bytes"
	"encoding/json"
	"fmt"
	"io"
	"net/http"
	"sort"
	"strings"
	"sync"
	"testing/synctest"
	"time"

	"github.com/zishang520/engine.io-go-parser/packet"
	"github.com/zishang520/engine.io/v2/config"
	"github.com/zishang520/engine.io/v2/engine"
	"github.com/zishang520/engine.io/v2/transports"
	"github.com/zishang520/engine.io/v2/types"
	wt "github.com/zishang520/webtransport-go"
)

type Ev struct {
	At    time.Duration
	Sid   string
	Name  string
	State string // session ready state sampled when the event was observed
	Msg   *Pkt   // message/data events
	Pkts  []PRef // flush events, packetCreate (1)
	Str   string // close reason, transport name ...
}

func (e Ev) String() string {
	s := fmt.Sprintf("@%v %s %s[%s]", e.At, short(e.Sid), e.Name, e.State)
	if e.Msg != nil {
		s += " " + e.Msg.String()
	}
	if e.Str != "" {
		s += " " + e.Str
	}
	if e.Pkts != nil {
		s += fmt.Sprintf(" %v", e.Pkts)
	}
	return s
}

func short(sid string) string {
	if len(sid) > 6 {
		return sid[:6]
	}
	return sid
}

// PRef identifies a packet seen in a server-side event: its type and, for
// packets whose data reader the harness created, the tag of that send.
type PRef struct {
	Type string
	Tag  int // -1 when unknown
}

func (p PRef) String() string {
	if p.Tag >= 0 {
		return fmt.Sprintf("%s#%d", p.Type, p.Tag)
	}
	return p.Type
}

type SentMsg struct {
	Tag    int
	Pkt    Pkt
	Sender int
	At     time.Duration
	CbAt   []time.Duration // callback invocations
	HasCb  bool
	State  string // ready state when Send was called
}

type SessRec struct {
	Sid       string
	Sock      engine.Socket
	Events    []Ev
	Msgs      []Pkt // message events
	Datas     []Pkt // data events
	Closes    []string
	CloseAt   time.Duration
	Sent      []*SentMsg
	ConnState string // ready state at connection event
	ConnAt    time.Duration
}

type World struct {
	mu             sync.Mutex
	Srv            engine.Server
	Opts           *config.ServerOptions
	Path           string
	T0             time.Time
	Log            []Ev
	Sess           map[string]*SessRec
	Order          []string // sids in connection order
	tags           map[io.Reader]int
	nextTag        int
	ConnErrs       []*types.ErrorMessage
	SrvEvents      []Ev
	fails          []string
	Wts            *wt.Server
	OnConn         func(*SessRec) // extra hook at connection time (runs inside the listener)
	// OverlappingHandOffs: the scenario lets a second hand-off happen before the drain of the one before it
	OverlappingHandOffs bool
	InitialHeaders []string       // sids (or "?") for which initial_headers fired
	HeadersEv      int
	hdrHook        func(name string, h map[string][]string, req *types.HttpContext)
	MsgHook        func(sr *SessRec, p Pkt) // called for every message event, in the listener, outside w.mu
	CbHook         func(sm *SentMsg)        // called at the end of every send callback, outside w.mu
	// WSOfferDeflate: every websocket client of this world offers permessage-deflate in its opening request
	WSOfferDeflate bool
}

func (w *World) Failf(format string, a ...any) {
	w.mu.Lock()
	w.fails = append(w.fails, fmt.Sprintf("@%v ", time.Since(w.T0))+fmt.Sprintf(format, a...))
	w.mu.Unlock()
}

func (w *World) Failed() bool {
	w.mu.Lock()
	defer w.mu.Unlock()
	return len(w.fails) > 0
}

func (w *World) Failures() []string {
	w.mu.Lock()
	defer w.mu.Unlock()
	return append([]string(nil), w.fails...)
}

func (w *World) now() time.Duration { return time.Since(w.T0) }

func bufToPkt(v any) *Pkt {
	switch b := v.(type) {
	case *types.StringBuffer:
		return &Pkt{Type: tMessage, Data: append([]byte(nil), b.Bytes()...)}
	case *types.BytesBuffer:
		return &Pkt{Type: tMessage, Data: append([]byte(nil), b.Bytes()...), Binary: true}
	case types.BufferInterface:
		return &Pkt{Type: tMessage, Data: append([]byte(nil), b.Bytes()...), Binary: true}
	case nil:
		return &Pkt{Type: tMessage}
	}
	return &Pkt{Type: '?'}
}

var socketEvents = []string{"packet", "packetCreate", "data", "message", "heartbeat", "upgrading", "upgrade", "flush", "drain", "close", "error", "open"}

// NewWorld builds a server. Must be called inside the bubble.
func NewWorld(opts *config.ServerOptions) *World {
	w := &World{Opts: opts, Path: "/engine.io/", T0: time.Now(), Sess: map[string]*SessRec{}, tags: map[io.Reader]int{}}
	w.Srv = engine.NewServer(opts)
	w.attachServerListeners()
	return w
}

func (w *World) pref(p *packet.Packet) PRef {
	tag := -1
	if p.Data != nil {
		if t, ok := w.tags[p.Data]; ok {
			tag = t
		}
	}
	return PRef{Type: string(p.Type), Tag: tag}
}

func (w *World) attachServerListeners() {
	srv := w.Srv
	srv.On("connection", func(args ...any) {
		sock := args[0].(engine.Socket)
		w.mu.Lock()
		sr := &SessRec{Sid: sock.Id(), Sock: sock, ConnState: sock.ReadyState(), ConnAt: w.now()}
		w.Sess[sr.Sid] = sr
		w.Order = append(w.Order, sr.Sid)
		w.mu.Unlock()
		for _, name := range socketEvents {
			name := name
			sock.On(types.EventName(name), func(a ...any) {
				var msgHook func(*SessRec, Pkt)
				w.mu.Lock()
				ev := Ev{At: w.now(), Sid: sr.Sid, Name: name, State: sock.ReadyState()}
				switch name {
				case "message":
					ev.Msg = bufToPkt(first(a))
					sr.Msgs = append(sr.Msgs, *ev.Msg)
					msgHook = w.MsgHook
				case "data":
					ev.Msg = bufToPkt(first(a))
					sr.Datas = append(sr.Datas, *ev.Msg)
				case "packet", "packetCreate":
					if p, ok := first(a).(*packet.Packet); ok {
						ev.Pkts = []PRef{w.pref(p)}
					}
				case "flush":
					if ps, ok := first(a).([]*packet.Packet); ok {
						ev.Pkts = []PRef{}
						for _, p := range ps {
							ev.Pkts = append(ev.Pkts, w.pref(p))
						}
					}
				case "close":
					if s, ok := first(a).(string); ok {
						ev.Str = s
					}
					sr.Closes = append(sr.Closes, ev.Str)
					if len(sr.Closes) == 1 {
						sr.CloseAt = ev.At
					}
				case "upgrade", "upgrading":
					if t, ok := first(a).(transports.Transport); ok {
						ev.Str = t.Name()
					}
				case "error":
					ev.Str = fmt.Sprint(a...)
				}
				sr.Events = append(sr.Events, ev)
				w.Log = append(w.Log, ev)
				w.mu.Unlock()
				if msgHook != nil {
					// outside the lock: the hook may block (a slow application listener)
					msgHook(sr, *ev.Msg)
				}
			})
		}
		if w.OnConn != nil {
			w.OnConn(sr)
		}
	})
	srv.On("connection_error", func(args ...any) {
		w.mu.Lock()
		if em, ok := first(args).(*types.ErrorMessage); ok {
			w.ConnErrs = append(w.ConnErrs, em)
		} else {
			w.ConnErrs = append(w.ConnErrs, nil)
		}
		w.mu.Unlock()
	})
	srv.On("flush", func(args ...any) {
		w.mu.Lock()
		ev := Ev{At: w.now(), Name: "srv.flush"}
		if s, ok := first(args).(engine.Socket); ok {
			ev.Sid = s.Id()
		}
		if len(args) > 1 {
			if ps, ok := args[1].([]*packet.Packet); ok {
				ev.Pkts = []PRef{}
				for _, p := range ps {
					ev.Pkts = append(ev.Pkts, w.pref(p))
				}
			}
		}
		w.SrvEvents = append(w.SrvEvents, ev)
		w.mu.Unlock()
	})
	srv.On("drain", func(args ...any) {
		w.mu.Lock()
		ev := Ev{At: w.now(), Name: "srv.drain"}
		if s, ok := first(args).(engine.Socket); ok {
			ev.Sid = s.Id()
		}
		w.SrvEvents = append(w.SrvEvents, ev)
		w.mu.Unlock()
	})
	srv.On("initial_headers", func(args ...any) {
		w.mu.Lock()
		w.InitialHeaders = append(w.InitialHeaders, "x")
		hook := w.hdrHook
		w.mu.Unlock()
		if hook != nil && len(args) > 1 {
			if pb, ok := args[0].(interface{ All() map[string][]string }); ok {
				hook("initial_headers", pb.All(), args[1].(*types.HttpContext))
			}
		}
	})
	srv.On("headers", func(args ...any) {
		w.mu.Lock()
		w.HeadersEv++
		hook := w.hdrHook
		w.mu.Unlock()
		if hook != nil && len(args) > 1 {
			if pb, ok := args[0].(interface{ All() map[string][]string }); ok {
				hook("headers", pb.All(), args[1].(*types.HttpContext))
			}
		}
	})
}

func first(a []any) any {
	if len(a) == 0 {
		return nil
	}
	return a[0]
}

// AppSend sends a message from the application side and records it.
func (w *World) AppSend(sr *SessRec, p Pkt, opts *packet.Options, withCb bool, sender int) *SentMsg {
	var data io.Reader
	if p.Binary {
		data = types.NewBytesBuffer(append([]byte(nil), p.Data...))
	} else {
		data = types.NewStringBuffer(append([]byte(nil), p.Data...))
	}
	w.mu.Lock()
	tag := w.nextTag
	w.nextTag++
	w.tags[data] = tag
	sm := &SentMsg{Tag: tag, Pkt: p, Sender: sender, At: w.now(), HasCb: withCb, State: sr.Sock.ReadyState()}
	sr.Sent = append(sr.Sent, sm)
	w.mu.Unlock()
	var cb engine.SendCallback
	if withCb {
		cb = func(transports.Transport) {
			w.mu.Lock()
			sm.CbAt = append(sm.CbAt, w.now())
			ev := Ev{At: w.now(), Sid: sr.Sid, Name: "callback", State: sr.Sock.ReadyState(), Pkts: []PRef{{Type: "message", Tag: tag}}}
			sr.Events = append(sr.Events, ev)
			w.Log = append(w.Log, ev)
			hook := w.CbHook
			w.mu.Unlock()
			if hook != nil {
				hook(sm)
			}
		}
	}
	sr.Sock.Send(data, opts, cb)
	return sm
}

func (w *World) SessList() []*SessRec {
	w.mu.Lock()
	defer w.mu.Unlock()
	out := make([]*SessRec, 0, len(w.Order))
	for _, sid := range w.Order {
		out = append(out, w.Sess[sid])
	}
	return out
}

func (w *World) Get(sid string) *SessRec {
	w.mu.Lock()
	defer w.mu.Unlock()
	return w.Sess[sid]
}

func (w *World) RegistryKeys() []string {
	k := w.Srv.Clients().Keys()
	sort.Strings(k)
	return k
}

// Teardown closes the server and lets every timer that a closed session may
// legitimately leave pending (polling's 30s close timeout, upgrade timeouts)
// expire, so that whatever is still blocked afterwards is a genuine leftover.
// (A bubble whose root goroutine exits while others are blocked is reported
// as a deadlock even when those goroutines wait for a pending timer.)
func (w *World) Teardown() {
	w.Srv.Close()
	Settle()
	d := 31 * time.Second
	if u := w.Opts.UpgradeTimeout() + time.Second; u > d {
		d = u
	}
	time.Sleep(d)
	Settle()
}

// Settle waits until every goroutine in the bubble is durably blocked.
func Settle() { synctest.Wait() }

// ---------------------------------------------------------------------------
// Polling client

type OpenInfo struct {
	Sid          string   `json:"sid"`
	Upgrades     []string `json:"upgrades"`
	PingInterval int64    `json:"pingInterval"`
	PingTimeout  int64    `json:"pingTimeout"`
	MaxPayload   int64    `json:"maxPayload"`
	Raw          map[string]json.RawMessage
}

type ClientOpts struct {
	Rev        int    // 3 or 4
	EIO        string // raw EIO value; "" = derive from Rev
	B64        bool
	JSONP      bool
	J          string
	Extra      http.Header
	ExtraQuery string
	NoEIO      bool // leave the EIO parameter out
	// PreHeader: response headers a host application's handler or middleware has already set on the
	// ResponseWriter when the engine gets this client's requests
	PreHeader http.Header
	// Chunk > 0: the client's data requests do not declare their length (chunked transfer encoding, as fetch with a
	// stream body or a proxy that re-frames does); the body arrives in pieces of this many bytes
	Chunk int
}

func (o ClientOpts) eio() string {
	if o.EIO != "" {
		return o.EIO
	}
	if o.Rev == 3 {
		return "3"
	}
	return "4"
}

type PollClient struct {
	mu     sync.Mutex // Start* may be called from concurrent goroutines of a case
	W      *World
	O      ClientOpts
	Sid    string
	Open   *OpenInfo
	Poll   *Exchange   // outstanding poll, nil if none
	Polls  []*Exchange // all polls issued
	Posts  []*Exchange
	Recv   []Pkt // every packet received, in order
	RecvAt []time.Duration
	Msgs   []Pkt // message packets received
	Errs   []string
	HS     *Exchange
	Closed bool // close packet seen
}

func (c *PollClient) query(withSid bool) string {
	q := "EIO=" + c.O.eio() + "&transport=polling"
	if c.O.NoEIO {
		q = "transport=polling"
	}
	if c.O.B64 {
		q += "&b64=1"
	}
	if c.O.JSONP {
		q += "&j=" + queryEscape(c.O.J)
	}
	if withSid {
		q += "&sid=" + c.Sid
	}
	if c.O.ExtraQuery != "" {
		q += "&" + c.O.ExtraQuery
	}
	return q
}

func (c *PollClient) hdr() http.Header {
	h := http.Header{}
	for k, v := range c.O.Extra {
		h[k] = append([]string(nil), v...)
	}
	return h
}

// decodeBody decodes a poll response body for this client's revision.
func (c *PollClient) decodeBody(s ExSnap) ([]Pkt, error) {
	body := s.Body
	if enc := hdrGet(s.Header, "Content-Encoding"); enc != "" {
		var err error
		body, err = decodeContent(enc, body)
		if err != nil {
			return nil, fmt.Errorf("content-encoding %s: %w", enc, err)
		}
	}
	if c.O.JSONP {
		_, pl, err := parseJSONP(body)
		if err != nil {
			return nil, err
		}
		body = pl
	}
	if c.O.Rev == 4 {
		return decPayloadV4(body)
	}
	if contentTypeBase(s.Header) == "application/octet-stream" {
		return decPayloadV3Binary(body)
	}
	return decPayloadV3Text(body)
}

// Handshake issues the handshake request; call Settle and then FinishHandshake.
func (c *PollClient) StartHandshake() *Exchange {
	spec := NewReq("GET", c.W.Path, c.query(false))
	spec.Header = c.hdr()
	spec.PreHeader = c.O.PreHeader
	c.HS = Do(c.W.Srv, spec)
	return c.HS
}

func (c *PollClient) FinishHandshake() error {
	s := c.HS.Snap()
	if !s.Responded {
		return fmt.Errorf("handshake not answered: %v", s)
	}
	if s.Status != 200 {
		return fmt.Errorf("handshake status %d body %q", s.Status, s.Body)
	}
	ps, err := c.decodeBody(s)
	if err != nil {
		return fmt.Errorf("handshake body %q: %w", s.Body, err)
	}
	if len(ps) == 0 || ps[0].Type != tOpen {
		return fmt.Errorf("first packet is not open: %v", ps)
	}
	oi := &OpenInfo{}
	if err := json.Unmarshal(ps[0].Data, oi); err != nil {
		return fmt.Errorf("open json %q: %w", ps[0].Data, err)
	}
	_ = json.Unmarshal(ps[0].Data, &oi.Raw)
	c.Open = oi
	c.Sid = oi.Sid
	c.absorb(ps)
	return nil
}

func (c *PollClient) absorb(ps []Pkt) {
	for _, p := range ps {
		c.Recv = append(c.Recv, p)
		c.RecvAt = append(c.RecvAt, c.W.now())
		if p.Type == tMessage {
			c.Msgs = append(c.Msgs, p)
		}
		if p.Type == tClose {
			c.Closed = true
		}
	}
}

// StartPoll issues a poll request (does not check for an outstanding one).
func (c *PollClient) StartPoll() *Exchange { return c.StartPollMod(nil) }

// StartPollMod: a poll request whose carrier-level behaviour is modified (slow connection, pre-set headers ...)
func (c *PollClient) StartPollMod(mod func(*ReqSpec)) *Exchange {
	spec := NewReq("GET", c.W.Path, c.query(true))
	spec.Header = c.hdr()
	spec.PreHeader = c.O.PreHeader
	if mod != nil {
		mod(&spec)
	}
	e := Do(c.W.Srv, spec)
	c.mu.Lock()
	c.Poll = e
	c.Polls = append(c.Polls, e)
	c.mu.Unlock()
	return e
}

// Pump absorbs the outstanding poll's response if it has arrived. Returns
// the packets absorbed.
func (c *PollClient) Pump() []Pkt {
	if c.Poll == nil {
		return nil
	}
	s := c.Poll.Snap()
	if !s.Responded {
		if s.Returned && !s.Aborted && s.Panic == nil && !s.Hijacked {
			// the handler returned without writing: net/http completed the exchange as an empty 200 (and whatever
			// is written to the ResponseWriter from now on reaches nobody)
			c.Poll = nil
			c.Errs = append(c.Errs, fmt.Sprintf("poll completed as an empty 200: its handler returned without having written a response (%d writes came after it returned and reached nobody)", s.WritesAfterReturn))
		}
		return nil
	}
	c.Poll = nil
	if s.Status != 200 {
		c.Errs = append(c.Errs, fmt.Sprintf("poll status %d", s.Status))
		return nil
	}
	ps, err := c.decodeBody(s)
	if err != nil {
		c.Errs = append(c.Errs, fmt.Sprintf("poll body %q (ct=%q ce=%q): %v", clip(s.Body, 200), hdrGet(s.Header, "Content-Type"), hdrGet(s.Header, "Content-Encoding"), err))
		return nil
	}
	c.absorb(ps)
	return ps
}

func clip(b []byte, n int) []byte {
	if len(b) > n {
		return b[:n]
	}
	return b
}

// EncodePost encodes packets as a POST body for this client and returns the
// body and content type.
func (c *PollClient) EncodePost(ps []Pkt, v3binary bool) ([]byte, string) {
	var body []byte
	ct := "text/plain;charset=UTF-8"
	if c.O.Rev == 4 {
		body = encPayloadV4(ps)
	} else if v3binary && !c.O.JSONP {
		body = encPayloadV3Binary(ps)
		ct = "application/octet-stream"
	} else {
		body = encPayloadV3Text(ps)
	}
	if c.O.JSONP {
		body = jsonpFormBody(body)
		ct = "application/x-www-form-urlencoded"
	}
	return body, ct
}

func (c *PollClient) StartPostRaw(body []byte, ct string, mod func(*ReqSpec)) *Exchange {
	spec := NewReq("POST", c.W.Path, c.query(true))
	spec.Header = c.hdr()
	if ct != "" {
		spec.Header.Set("Content-Type", ct)
	}
	spec.Body = body
	spec.HasBody = true
	spec.PreHeader = c.O.PreHeader
	if c.O.Chunk > 0 {
		spec.ContentLength = -1
		spec.BodyChunk = c.O.Chunk
	}
	if mod != nil {
		mod(&spec)
	}
	e := Do(c.W.Srv, spec)
	c.mu.Lock()
	c.Posts = append(c.Posts, e)
	c.mu.Unlock()
	return e
}

func (c *PollClient) StartPost(ps []Pkt, v3binary bool) *Exchange {
	body, ct := c.EncodePost(ps, v3binary)
	return c.StartPostRaw(body, ct, nil)
}

// ---------------------------------------------------------------------------
// helpers for options

func baseOpts() *config.ServerOptions {
	o := config.DefaultServerOptions()
	return o
}

func transportsSet(names ...string) *types.Set[string] { return types.NewSet(names...) }

func pktsString(ps []Pkt) string {
	var b strings.Builder
	b.WriteByte('[')
	for i, p := range ps {
		if i > 0 {
			b.WriteByte(' ')
		}
		b.WriteString(p.String())
	}
	b.WriteByte(']')
	return b.String()
}

func pktsEqual(a, b []Pkt) bool {
	if len(a) != len(b) {
		return false
	}
	for i := range a {
		if !a[i].Equal(b[i]) {
			return false
		}
	}
	return true
}

func isPrefix(got, want []Pkt) bool {
	if len(got) > len(want) {
		return false
	}
	for i := range got {
		if !got[i].Equal(want[i]) {
			return false
		}
	}
	return true
}

var _ = bytes.Equal

// ---------------------------------------------------------------------------
// conformant upgrade of a polling session

// Upgrade performs the documented upgrade handshake of a polling session to
// "websocket" or "webtransport": open the candidate with the session's sid,
// probe ping, wait for the probe pong, let the pending poll be released with
// a noop, send the upgrade packet. Returns the candidate client (exactly one
// of the two is non-nil).
func Upgrade(w *World, pc *PollClient, kind string) (*WSClient, *WTClient, error) {
	return UpgradeAs(w, pc, kind, 0)
}

// UpgradeAs: candRev != 0: the websocket candidate's own request announces this revision (EIO parameter) although
// the session was opened with another one. Nothing in the protocol ties the two together and the server does not
// compare them: the candidate's packets are then encoded as that revision encodes them, the session's heartbeat
// mode stays what the handshake made it.
func UpgradeAs(w *World, pc *PollClient, kind string, candRev int) (*WSClient, *WTClient, error) {
	sr := w.Get(pc.Sid)
	if pc.Poll == nil {
		pc.StartPoll()
		Settle()
	}
	var wc *WSClient
	var tc *WTClient
	send := func(p Pkt) {
		if wc != nil {
			wc.SendPacket(p, nil)
		} else {
			tc.SendPacket(p)
		}
	}
	recv := func() []Pkt {
		if wc != nil {
			wc.Pump()
			return wc.Recv
		}
		tc.Pump()
		return tc.Recv
	}
	if kind == "websocket" {
		wc = &WSClient{W: w, O: ClientOpts{Rev: pc.O.Rev, EIO: pc.O.EIO, NoEIO: pc.O.NoEIO, B64: pc.O.B64}, Sid: pc.Sid}
		if candRev != 0 {
			wc.O.Rev, wc.O.EIO, wc.O.NoEIO = candRev, fmt.Sprint(candRev), false
		}
		wc.Start()
		Settle()
		wc.Pump()
		if wc.HTTPStatus != 101 {
			return nil, nil, fmt.Errorf("candidate websocket not accepted: status %d", wc.HTTPStatus)
		}
	} else {
		tc = &WTClient{W: w, O: ClientOpts{Rev: 4}, Sid: pc.Sid}
		tc.Start()
		Settle()
		tc.OpenBidi()
		tc.SendHandshake()
		Settle()
	}
	send(ctlD(tPing, "probe"))
	Settle()
	r := recv()
	if len(r) == 0 || r[len(r)-1].Type != tPong || string(r[len(r)-1].Data) != "probe" {
		return wc, tc, fmt.Errorf("probe not answered with a probe pong: candidate received %v", r)
	}
	// the server releases the pending poll with a noop within one check period
	for i := 0; i < 3 && pc.Poll != nil; i++ {
		time.Sleep(100 * time.Millisecond)
		Settle()
		pc.Pump()
	}
	if pc.Poll != nil {
		return wc, tc, fmt.Errorf("pending poll was not released during the upgrade")
	}
	send(ctl(tUpgrade))
	Settle()
	if got := sr.Sock.Transport().Name(); got != kind {
		return wc, tc, fmt.Errorf("after the upgrade packet the session's transport is %q", got)
	}
	return wc, tc, nil
}

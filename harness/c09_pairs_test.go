package harness

// C09 (and C03), concurrent pairs: two things happen to one session at the
// same instant, each from its own goroutine, on all cores, repeated. The
// interleaving inside the pair is the Go scheduler's; what is asserted holds
// for every interleaving: the process survives, the session emits at most
// one close event and nothing after it, a bystander keeps working, nothing
// is left behind. (This is the family that exposed the nil dereference of a
// candidate packet racing with the session's close.)

import (
	"fmt"
	"sort"
	"sync"
	"testing"
	"time"

	"github.com/zishang520/engine.io/v2/config"
	"github.com/zishang520/engine.io/v2/types"
	"pgregory.net/rapid"
)

type cpCase struct {
	State string // polling | polling-probed | polling-probed-wt | websocket | webtransport | upgraded | closing
	Rev   int
	A, B  string
	Reps  int
}

func (c cpCase) String() string { return fmt.Sprintf("{%s rev%d %s || %s x%d}", c.State, c.Rev, c.A, c.B, c.Reps) }

var cpStates = []string{"polling", "polling", "polling-probed", "polling-probed", "polling-probed-wt", "websocket", "webtransport", "upgraded", "closing"}
var cpActions = []string{"appSend", "appSendCb", "appClose", "appCloseNow", "clientMsg", "clientClose", "clientWrongHeartbeat", "clientDrop", "clientPoll", "clientPost2",
	"candUpgrade", "candMessage", "candProbe", "candDrop", "candGarbage", "newCandidate", "serverClose", "pingDue", "lookupUnknown"}

type cpWorld struct {
	w    *World
	s    *c06Sess
	sr   *SessRec
	cand *upCand
	rev  int
}

func (cw *cpWorld) act(name string) func() {
	w, s, sr := cw.w, cw.s, cw.sr
	send := func(p Pkt) {
		switch {
		case s.pc != nil:
			s.pc.StartPost([]Pkt{p}, false)
		case s.wc != nil:
			s.wc.SendPacket(p, nil)
		default:
			s.tc.SendPacket(p)
		}
	}
	switch name {
	case "appSend":
		return func() { w.AppSend(sr, msgT("down"), nil, false, 0) }
	case "appSendCb":
		return func() { w.AppSend(sr, msgT("down with callback"), nil, true, 1) }
	case "appClose":
		return func() { sr.Sock.Close(false) }
	case "appCloseNow":
		return func() { sr.Sock.Close(true) }
	case "clientMsg":
		return func() { send(msgT("up")) }
	case "clientClose":
		return func() {
			switch {
			case s.pc != nil:
				s.pc.StartPost([]Pkt{ctl(tClose)}, false)
			case s.wc != nil:
				s.wc.SendClose(1000, "bye")
			default:
				s.tc.CloseSession(0, "bye")
			}
		}
	case "clientWrongHeartbeat":
		return func() {
			if cw.rev == 4 {
				send(ctl(tPing))
			} else {
				send(ctl(tPong))
			}
		}
	case "clientDrop":
		return func() {
			switch {
			case s.pc != nil:
				if p := s.pc.Poll; p != nil {
					p.Abort()
				}
			case s.wc != nil:
				s.wc.Drop()
			default:
				s.tc.Drop()
			}
		}
	case "clientPoll":
		if s.pc == nil {
			return nil
		}
		return func() { s.pc.StartPoll() }
	case "clientPost2":
		if s.pc == nil {
			return nil
		}
		return func() {
			s.pc.StartPost([]Pkt{msgT("one")}, false)
			s.pc.StartPost([]Pkt{msgT("two")}, false)
		}
	case "candUpgrade", "candMessage", "candProbe", "candDrop", "candGarbage":
		c := cw.cand
		if c == nil {
			return nil
		}
		switch name {
		case "candUpgrade":
			return func() { c.send(ctl(tUpgrade)) }
		case "candMessage":
			return func() { c.send(msgT("on the candidate")) }
		case "candProbe":
			return func() { c.send(ctlD(tPing, "probe")) }
		case "candDrop":
			return func() { c.drop() }
		default:
			return func() {
				if c.wc != nil {
					c.wc.SendMessage(Frame{Data: []byte("9?")}, nil)
				} else {
					c.tc.SendFrameRaw(wtEncode(false, []byte("9?")))
				}
			}
		}
	case "newCandidate":
		if s.pc == nil {
			return nil
		}
		return func() {
			wc := &WSClient{W: w, O: ClientOpts{Rev: cw.rev, EIO: fmt.Sprint(cw.rev)}, Sid: s.open.Sid}
			wc.Start()
		}
	case "serverClose":
		return func() { w.Srv.Close() }
	case "pingDue":
		// the heartbeat timer fires at this very instant (arranged by the runner): nothing to do here
		return func() {}
	case "lookupUnknown":
		return func() {
			for k := 0; k < 4; k++ {
				Do(w.Srv, NewReq("GET", w.Path, fmt.Sprintf("EIO=4&transport=polling&sid=nosuch%d", k)))
			}
			w.Srv.Clients().Keys()
		}
	}
	return nil
}

func runCP(c cpCase, stats map[string]bool) string {
	o := config.DefaultServerOptions()
	o.SetAllowEIO3(true)
	o.SetTransports(types.NewSet("polling", "websocket", "webtransport"))
	o.SetPingInterval(2 * time.Second)
	o.SetPingTimeout(time.Second)
	w := NewWorld(o)
	defer w.Teardown()
	// bystander
	by := &PollClient{W: w, O: ClientOpts{Rev: 4}}
	by.StartHandshake()
	Settle()
	if err := by.FinishHandshake(); err != nil {
		return "harness: " + err.Error()
	}
	bysr := w.Get(by.Sid)
	eio := fmt.Sprint(c.Rev)
	carrier := map[string]string{"websocket": "websocket", "webtransport": "webtransport"}[c.State]
	if carrier == "" {
		carrier = "polling"
	}
	s, why := doHandshake(w, c06HS{Carrier: carrier, EIO: eio})
	if s == nil {
		return "harness: handshake: " + why
	}
	cw := &cpWorld{w: w, s: s, sr: w.Get(s.open.Sid), rev: c.Rev}
	switch c.State {
	case "polling", "closing":
		s.pc.StartPoll()
		Settle()
		if c.State == "closing" {
			// graceful close waiting for its buffer to drain: no poll pending, data buffered
			w.AppSend(cw.sr, msgT("answers the poll"), nil, false, 0)
			Settle()
			s.pc.Pump()
			w.AppSend(cw.sr, msgT("buffered"), nil, true, 0)
			cw.sr.Sock.Close(false)
			Settle()
		}
	case "polling-probed", "polling-probed-wt":
		s.pc.StartPoll()
		Settle()
		tr := "websocket"
		if c.State == "polling-probed-wt" {
			tr = "webtransport"
		}
		cand := &upCand{tr: tr, own: true}
		if tr == "websocket" {
			cand.wc = &WSClient{W: w, O: ClientOpts{Rev: c.Rev, EIO: eio}, Sid: s.open.Sid}
			cand.wc.Start()
			Settle()
			cand.wc.Pump()
		} else {
			cand.tc = &WTClient{W: w, O: ClientOpts{Rev: 4}, Sid: s.open.Sid}
			cand.tc.Start()
			Settle()
			cand.tc.OpenBidi()
			cand.tc.SendHandshake()
			Settle()
		}
		cand.send(ctlD(tPing, "probe"))
		Settle()
		cw.cand = cand
		if s.pc.Poll == nil || s.pc.Poll.Snap().Responded {
			s.pc.Pump()
			s.pc.StartPoll()
			Settle()
		}
	case "upgraded":
		wc, _, err := Upgrade(w, s.pc, "websocket")
		if err != nil {
			return "conformant upgrade: " + err.Error()
		}
		s = &c06Sess{wc: wc, open: s.open}
		cw.s = s
	}
	fa, fb := cw.act(c.A), cw.act(c.B)
	if fa == nil || fb == nil {
		return ""
	}
	stats["ran"] = true
	stats["state."+c.State] = true
	stats["action."+c.A] = true
	stats["action."+c.B] = true
	if c.A == "pingDue" || c.B == "pingDue" {
		// both actions are issued at the instant the next heartbeat timer is due
		next := 2 * time.Second
		if c.Rev == 3 {
			next = 3 * time.Second // the revision-3 deadline
		}
		d := cw.sr.ConnAt + next - w.now()
		if d > 0 {
			// the bystander is a responsive client: it has a poll pending and answers its own ping
			by.StartPoll()
			if pd := bysr.ConnAt + 2*time.Second - w.now(); pd > 0 && pd < d+time.Second {
				go func() {
					time.Sleep(pd + time.Millisecond)
					by.StartPost([]Pkt{ctl(tPong)}, false)
				}()
			}
			var wg sync.WaitGroup
			wg.Add(2)
			go func() { defer wg.Done(); time.Sleep(d); fa() }()
			go func() { defer wg.Done(); time.Sleep(d); fb() }()
			// the bystander must survive the wait: it answers its own ping
			time.Sleep(d)
			wg.Wait()
		}
	} else {
		var wg sync.WaitGroup
		start := make(chan struct{})
		wg.Add(2)
		go func() { defer wg.Done(); <-start; fa() }()
		go func() { defer wg.Done(); <-start; fb() }()
		close(start)
		wg.Wait()
	}
	Settle()
	sr := cw.sr
	if len(sr.Closes) > 1 {
		return fmt.Sprintf("%d close events %v", len(sr.Closes), sr.Closes)
	}
	w.mu.Lock()
	closeIdx, closeAt := -1, time.Duration(0)
	var late *Ev
	for i, e := range sr.Events {
		if e.Name == "close" {
			closeIdx, closeAt = i, e.At
			continue
		}
		if closeIdx >= 0 && e.At > closeAt && late == nil {
			ev := e
			late = &ev
		}
	}
	w.mu.Unlock()
	if late != nil {
		return fmt.Sprintf("event %v after the close event (at a later instant)", *late)
	}
	if len(sr.Closes) == 1 && sr.Sock.ReadyState() != "closed" {
		return fmt.Sprintf("close event emitted, ready state %q", sr.Sock.ReadyState())
	}
	if len(sr.Closes) == 1 {
		stats["session-closed"] = true
		if _, ok := w.Srv.Clients().Load(sr.Sid); ok {
			return "closed session still in the client table"
		}
	}
	for _, ex := range append(append([]*Exchange{}, s.pcPolls()...), s.pcPosts()...) {
		if snap := ex.Snap(); snap.Panic != nil {
			return fmt.Sprintf("handler panicked: %v\n%s", snap.Panic, clipStr(snap.PanicStack, 1200))
		} else if snap.HeaderCalls > 1 {
			return fmt.Sprintf("%s request got %d status lines", ex.Method, snap.HeaderCalls)
		}
	}
	// the bystander (unless the whole server was closed)
	if c.A != "serverClose" && c.B != "serverClose" {
		if len(bysr.Closes) != 0 {
			return fmt.Sprintf("the bystander closed: %v", bysr.Closes)
		}
		n := len(bysr.Msgs)
		e := by.StartPost([]Pkt{msgT("bystander")}, false)
		Settle()
		if snap := e.Snap(); snap.Status != 200 || len(bysr.Msgs) != n+1 {
			return fmt.Sprintf("the bystander's message was answered %v", snap)
		}
	}
	if cw.cand != nil {
		cw.cand.drop()
	}
	return ""
}

func (s *c06Sess) pcPolls() []*Exchange {
	if s.pc == nil {
		return nil
	}
	return s.pc.Polls
}

func (s *c06Sess) pcPosts() []*Exchange {
	if s.pc == nil {
		return nil
	}
	return s.pc.Posts
}

func TestC09ConcurrentPairs(t *testing.T) {
	col := NewCollector("TestC09ConcurrentPairs",
		"rapid: a session in a drawn state (polling with a poll pending; polling with a probed websocket / webtransport candidate; websocket; webtransport; upgraded; gracefully closing with data buffered; revision 3/4) next to a bystander, and a drawn PAIR of actions released at the same instant from two goroutines on all cores, the pair repeated 6 times in fresh worlds: application Send (with/without callback), Close(false), Close(true), Server.Close; client message, close packet/frame, wrong-direction heartbeat, connection drop, poll, two simultaneous data requests; candidate upgrade packet, message, second probe, undecodable frame, drop; a second candidate; the heartbeat timer coming due; lookups of unknown ids plus a table iteration. oracle (holds for every interleaving): the process survives, no handler panics or answers twice, at most one close event, no event at a later instant than the close event, closed => ready state closed and out of the table, the bystander still round-trips a message, nothing is left behind (bubble leak check). non-trivial: every executed pair").Use(t)
	rapid.Check(t, func(rt *rapid.T) {
		c := cpCase{Rev: 4, Reps: 6}
		c.State = rapid.SampledFrom(cpStates).Draw(rt, "state")
		if c.State != "webtransport" && c.State != "polling-probed-wt" && rapid.IntRange(0, 3).Draw(rt, "rev3") == 0 {
			c.Rev = 3
		}
		c.A = rapid.SampledFrom(cpActions).Draw(rt, "a")
		c.B = rapid.SampledFrom(cpActions).Draw(rt, "b")
		stats := map[string]bool{}
		for i := 0; i < c.Reps; i++ {
			journal("C09cp %v (repetition %d)", c, i)
			var fail string
			res := bubble(t, func() { fail = runCP(c, stats) })
			res.rethrow()
			if fail == "" && res.Leak != "" {
				fail = clipStr(res.Leak, 1500)
			}
			if fail != "" {
				var cl []string
				for k := range stats {
					cl = append(cl, k)
				}
				sort.Strings(cl)
				col.Case(c.String(), stats["ran"], map[string]any{"case": c.String()}, cl...)
				rt.Fatalf("%v (repetition %d)\n%s", c, i, clipStr(fail, 1800))
			}
		}
		var cl []string
		for k := range stats {
			cl = append(cl, k)
		}
		sort.Strings(cl)
		col.Case(c.String(), stats["ran"], map[string]any{"case": c.String()}, cl...)
	})
	col.RequireClasses(t, "state.polling-probed", "state.polling-probed-wt", "state.upgraded", "state.closing", "action.candUpgrade", "action.pingDue", "session-closed")
}

const (
	sigProbeVsCloseLeak  = "probe-racing-with-session-close-leaks-the-check-interval"
	sigPollVsCloseNoResp = "poll-arriving-while-the-polling-transport-closes-is-never-answered"
)

// TestC09PairFindings: demonstrations of two repaired defects found by
// TestC09ConcurrentPairs. The interleavings are not owned by the harness: the
// pair is repeated on all cores; on a tree with the defect some repetition
// leaves a goroutine behind (reported by the bubble's leak check).
func TestC09PairFindings(t *testing.T) {
	col := NewCollector("TestC09PairFindings", "repetition (10000x each, all cores): (a) polling session with a probed candidate: an overlapping poll (it closes the session) and a second probe on the candidate at the same instant; (b) a gracefully closing polling session with data buffered: the client's close packet and a poll at the same instant; oracle of TestC09ConcurrentPairs (nothing is left behind: no interval goroutine, no request handler without an answer). every case is non-trivial").Use(t)
	for _, d := range []struct {
		sig string
		c   cpCase
	}{
		{sigProbeVsCloseLeak, cpCase{State: "polling-probed", Rev: 4, A: "clientPoll", B: "candProbe"}},
		{sigPollVsCloseNoResp, cpCase{State: "closing", Rev: 4, A: "clientClose", B: "clientPoll"}},
	} {
		bad := ""
		n := 0
		for i := 0; i < 10000 && bad == ""; i++ {
			journal("C09pairs %v (repetition %d)", d.c, i)
			var f string
			res := bubble(t, func() { f = runCP(d.c, map[string]bool{}) })
			res.rethrow()
			n++
			if f != "" {
				bad = f
			} else if res.Leak != "" {
				bad = clipStr(res.Leak, 600)
			}
		}
		col.Case(d.c.String(), true, map[string]any{"case": d.c.String(), "repetitions": n, "result": clipStr(bad, 300)}, d.sig)
		demoFinding(t, col, "C09", d.sig, bad != "", fmt.Sprintf("%v: %s", d.c, clipStr(bad, 500)))
	}
}

package harness

// C16, a poll that reaches a transport which has closed meanwhile: the request has been verified and its session
// looked up again (yield point server.HandleRequest.loaded) when the session ends (client close packet in a data
// request, application close); then it is handed to the transport. "The body of every poll response decodes ...
// to exactly the packets handed to the transport for that cycle (... or the transport's own noop and close
// packets)", in the session's format: a JSONP session gets a JSONP response.

import (
	"fmt"
	"testing"
	"time"

	"github.com/zishang520/engine.io/v2/config"
	"pgregory.net/rapid"
)

type lpCase struct {
	Rev   int
	JSONP bool
	J     string
	How   string // closePacket | appCloseNow | appClose | none
}

func (c lpCase) String() string {
	return fmt.Sprintf("{rev%d jsonp=%v j=%s session-ends-by=%s}", c.Rev, c.JSONP, c.J, c.How)
}

func runLP(c lpCase) (fail string, stats map[string]bool) {
	stats = map[string]bool{}
	o := config.DefaultServerOptions()
	o.SetAllowEIO3(true)
	o.SetPingInterval(10 * time.Minute)
	o.SetPingTimeout(10 * time.Minute)
	w := NewWorld(o)
	defer w.Teardown()
	g := InstallGates(nil)
	defer g.Uninstall()
	pc := &PollClient{W: w, O: ClientOpts{Rev: c.Rev, EIO: fmt.Sprint(c.Rev), JSONP: c.JSONP, J: c.J, B64: c.JSONP}}
	pc.StartHandshake()
	Settle()
	if err := pc.FinishHandshake(); err != nil {
		return "harness: " + err.Error(), stats
	}
	sr := w.Get(pc.Sid)
	gp := GatePoint{"server.HandleRequest.loaded", g.Count("server.HandleRequest.loaded")}
	g.mu.Lock()
	g.plan[gp] = true
	g.mu.Unlock()
	held := pc.StartPoll()
	Settle()
	parked := false
	for _, p := range g.Parked() {
		if p == gp {
			parked = true
		}
	}
	g.mu.Lock()
	delete(g.plan, gp)
	g.mu.Unlock()
	if !parked {
		return "harness: the poll did not reach the yield point", stats
	}
	stats["poll-held-between-look-up-and-hand-over"] = true
	switch c.How {
	case "closePacket":
		pc.StartPost([]Pkt{ctl(tClose)}, false)
	case "appCloseNow":
		sr.Sock.Close(true)
	case "appClose":
		sr.Sock.Close(false)
	}
	Settle()
	stats["session-ends-by."+c.How] = true
	g.Release(gp)
	Settle()
	if c.How == "none" {
		w.AppSend(sr, msgT("for the poll"), nil, false, 0)
		Settle()
	}
	snap := held.Snap()
	if !snap.Responded {
		if c.How == "appClose" {
			// (the graceful close is waiting for this very poll: it must have been used for it)
			return fmt.Sprintf("the poll was handed to a transport that is closing gracefully and was not answered: %v", snap), stats
		}
		return fmt.Sprintf("the poll was not answered: %v", snap), stats
	}
	if snap.Status != 200 {
		// refused: the documented error object, not a payload
		stats["late-poll-refused"] = true
		return "", stats
	}
	stats["late-poll-answered-200"] = true
	ps, err := pc.decodeBody(snap)
	if err != nil {
		return fmt.Sprintf("the poll's response does not decode in the session's format (jsonp=%v, revision %d): %v; body %q, content type %q", c.JSONP, c.Rev, err, clip(snap.Body, 120), hdrGet(snap.Header, "Content-Type")), stats
	}
	for _, p := range ps {
		switch {
		case p.Type == tNoop || p.Type == tClose:
		case c.How == "none" && p.Type == tMessage:
		default:
			return fmt.Sprintf("the poll's response carries %s; the transport had only its own noop / close packets to send", pktsString(ps)), stats
		}
	}
	if len(ps) == 0 {
		return "the poll's response carries no packet at all", stats
	}
	return "", stats
}

func TestC16LatePoll(t *testing.T) {
	col := NewCollector("TestC16LatePoll",
		"rapid: a polling / JSONP session (revision 3/4, drawn callback index) whose poll is held between the session's look-up and the hand-over to its transport (yield point server.HandleRequest.loaded) while the session ends (client close packet in a data request, Close(true), Close(false); control: nothing happens and the application sends); then the poll is handed over; oracle: the poll is answered; a 200 response decodes, with the independent codec, in the session's own format (JSONP wrapper with the session's index for a JSONP session) to the transport's own noop / close packets (control: the message). every case is non-trivial").Use(t)
	rapid.Check(t, func(rt *rapid.T) {
		c := lpCase{Rev: 4, JSONP: rapid.Bool().Draw(rt, "jsonp"), J: rapid.SampledFrom([]string{"0", "3", "17"}).Draw(rt, "j"), How: rapid.SampledFrom([]string{"closePacket", "closePacket", "appCloseNow", "appClose", "none"}).Draw(rt, "how")}
		if rapid.IntRange(0, 2).Draw(rt, "rev3") == 0 {
			c.Rev = 3
		}
		journal("C16lp %v", c)
		var fail string
		var stats map[string]bool
		res := bubble(t, func() { fail, stats = runLP(c) })
		res.rethrow()
		var cl []string
		for k := range stats {
			cl = append(cl, k)
		}
		col.Case(c.String(), true, map[string]any{"case": c.String()}, cl...)
		if fail != "" {
			rt.Fatalf("%v: %s", c, fail)
		}
		if res.Leak != "" {
			rt.Fatalf("%v: %s", c, clipStr(res.Leak, 1500))
		}
	})
	col.RequireClasses(t, "poll-held-between-look-up-and-hand-over", "late-poll-answered-200", "session-ends-by.closePacket")
}

package harness

// C07 — heartbeat. A generated client policy (how long to wait before
// answering the k-th ping, duplicates, unsolicited pongs, unrelated traffic,
// a heartbeat in the wrong direction) is executed against a session inside a
// virtual-time bubble next to a reference timeline computed from the
// statement; ping instants and the close instant/reason are compared for
// equality.

import (
	"fmt"
	"runtime"
	"sort"
	"strings"
	"sync/atomic"
	"testing"
	"time"

	"github.com/zishang520/engine.io/v2/config"
	"github.com/zishang520/engine.io/v2/types"
	"pgregory.net/rapid"
)

type hbReact struct {
	Kind  string        // pong | never | dup | atDeadlineRace
	Delay time.Duration // pong/dup: answer this long after the ping
}

func (r hbReact) String() string {
	if r.Kind == "never" || r.Kind == "atDeadlineRace" {
		return r.Kind
	}
	return fmt.Sprintf("%s+%v", r.Kind, r.Delay)
}

type hbExtra struct {
	At   time.Duration
	Kind string // pong (unsolicited) | msgUp | msgDown | wrongDir | upgrade (polling sessions: a conformant upgrade to websocket / webtransport) | vanish (websocket / webtransport: the peer is gone without a trace, a half-open connection: it neither reads nor sends from now on; the server's writer blocks)
}

func (e hbExtra) String() string { return fmt.Sprintf("%s@%v", e.Kind, e.At) }

type c07Case struct {
	I, T    time.Duration
	Carrier string
	Rev     int
	Reacts  []hbReact       // v4: per ping (cycled)
	Pings   []time.Duration // v3: gaps between client pings, relative to the previous ping (or open)
	Extras  []hbExtra
	Rounds  int
	Chunk   int // polling: the client's data requests (its pongs / pings) carry no declared length
}

func (c c07Case) String() string {
	return fmt.Sprintf("{I=%v T=%v %s rev%d reacts=%v v3gaps=%v extras=%v rounds=%d chunk=%d}", c.I, c.T, c.Carrier, c.Rev, c.Reacts, c.Pings, c.Extras, c.Rounds, c.Chunk)
}

var hbGrid = []time.Duration{time.Millisecond, 2 * time.Millisecond, 3 * time.Millisecond, 10 * time.Millisecond, 100 * time.Millisecond, 250 * time.Millisecond, time.Second, 20 * time.Second, 25 * time.Second, 60 * time.Second}

func genC07(rt *rapid.T) c07Case {
	c := c07Case{}
	dur := func(l string) time.Duration {
		if rapid.Bool().Draw(rt, l+".grid") {
			return rapid.SampledFrom(hbGrid).Draw(rt, l)
		}
		return time.Duration(rapid.Int64Range(1, 60_000).Draw(rt, l+".ms")) * time.Millisecond
	}
	c.I, c.T = dur("I"), dur("T")
	c.Carrier = rapid.SampledFrom([]string{"polling", "websocket", "webtransport"}).Draw(rt, "carrier")
	c.Rev = 4
	if c.Carrier != "webtransport" && rapid.IntRange(0, 2).Draw(rt, "rev3") == 0 {
		c.Rev = 3
	}
	c.Rounds = rapid.IntRange(1, 5).Draw(rt, "rounds")
	if c.Carrier == "polling" && rapid.IntRange(0, 2).Draw(rt, "chunked") == 0 {
		c.Chunk = rapid.SampledFrom([]int{1, 2, 4096}).Draw(rt, "chunk")
	}
	if c.Rev == 4 {
		n := rapid.IntRange(1, 4).Draw(rt, "nReacts")
		for i := 0; i < n; i++ {
			k := rapid.SampledFrom([]string{"pong", "pong", "pong", "dup", "never", "atDeadlineRace", "inDrain"}).Draw(rt, "react")
			r := hbReact{Kind: k}
			if k == "pong" || k == "dup" {
				switch rapid.IntRange(0, 5).Draw(rt, "delayK") {
				case 0:
					r.Delay = 0
				case 1:
					r.Delay = time.Millisecond
				case 2:
					r.Delay = c.T - time.Millisecond
				case 3:
					r.Delay = c.T + time.Millisecond // late
				case 4:
					r.Delay = c.T / 2
				default:
					r.Delay = time.Duration(rapid.Int64Range(0, int64(c.T/time.Millisecond)+2).Draw(rt, "delayMs")) * time.Millisecond
				}
				if r.Delay < 0 {
					r.Delay = 0
				}
			}
			c.Reacts = append(c.Reacts, r)
		}
	} else {
		n := rapid.IntRange(0, 4).Draw(rt, "nPings")
		total := c.I + c.T
		for i := 0; i < n; i++ {
			var g time.Duration
			switch rapid.IntRange(0, 4).Draw(rt, "gapK") {
			case 0:
				g = total - time.Millisecond
			case 1:
				g = total + time.Millisecond // too late: session is gone
			case 2:
				g = c.I
			case 3:
				g = time.Millisecond
			default:
				g = time.Duration(rapid.Int64Range(1, int64(total/time.Millisecond)+1).Draw(rt, "gapMs")) * time.Millisecond
			}
			if g <= 0 {
				g = time.Millisecond
			}
			c.Pings = append(c.Pings, g)
		}
	}
	ne := rapid.IntRange(0, 3).Draw(rt, "nExtras")
	horizon := int64((c.I+c.T)*time.Duration(c.Rounds)/time.Millisecond) + 1
	for i := 0; i < ne; i++ {
		kinds := []string{"msgUp", "msgDown", "msgUp", "msgDown", "wrongDir", "vanish"}
		if c.Rev == 4 {
			kinds = append(kinds, "pong", "pong")
		}
		if c.Carrier == "polling" {
			kinds = append(kinds, "upgrade", "upgrade", "upgrade", "failedCandidate", "failedCandidate")
		}
		e := hbExtra{Kind: rapid.SampledFrom(kinds).Draw(rt, "extraKind")}
		// offsets of 100+i microseconds keep extras off the whole-millisecond grid of pings and deadlines
		e.At = time.Duration(rapid.Int64Range(0, horizon).Draw(rt, "extraAtMs"))*time.Millisecond + time.Duration(100+37*i)*time.Microsecond
		c.Extras = append(c.Extras, e)
	}
	sort.Slice(c.Extras, func(a, b int) bool { return c.Extras[a].At < c.Extras[b].At })
	return c
}

// hbClient abstracts the carrier.
type hbClient struct {
	s        *c06Sess
	vanished *bool // the peer is gone without a trace: it neither reads nor sends any more
}

func (h hbClient) send(p Pkt) {
	if h.vanished != nil && *h.vanished {
		return
	}
	switch {
	case h.s.pc != nil:
		h.s.pc.StartPost([]Pkt{p}, false)
	case h.s.wc != nil:
		h.s.wc.SendPacket(p, nil)
	default:
		h.s.tc.SendPacket(p)
	}
}

// keepPolling makes sure a poll is outstanding (conformant polling client).
func (h hbClient) keepPolling() {
	if h.s.pc == nil || h.s.pc.Closed {
		return
	}
	for i := 0; i < 4; i++ {
		h.s.pc.Pump()
		if h.s.pc.Poll != nil {
			return
		}
		if st := h.s.pc.W.Get(h.s.pc.Sid); st != nil && len(st.Closes) > 0 {
			return
		}
		h.s.pc.StartPoll()
		Settle()
	}
}

type hbObs struct {
	pingsCreated []time.Duration // packetCreate(ping) instants
	pongsCreated []time.Duration
	heartbeats   []time.Duration
	closeAt      time.Duration
	closeReason  string
	closes       int
}

func observeHB(sr *SessRec) hbObs {
	var o hbObs
	for _, e := range sr.Events {
		switch e.Name {
		case "packetCreate":
			if len(e.Pkts) == 1 && e.Pkts[0].Type == "ping" {
				o.pingsCreated = append(o.pingsCreated, e.At)
			}
			if len(e.Pkts) == 1 && e.Pkts[0].Type == "pong" {
				o.pongsCreated = append(o.pongsCreated, e.At)
			}
		case "heartbeat":
			o.heartbeats = append(o.heartbeats, e.At)
		case "close":
			o.closes++
			if o.closes == 1 {
				o.closeAt, o.closeReason = e.At, e.Str
			}
		}
	}
	return o
}

type hbPending struct {
	at   time.Duration
	kind string // pong | extra:<kind> | v3ping
	race bool
}

// runC07 returns "" or the violated clause; stats for the collector.
func runC07(c c07Case) (fail string, stats map[string]bool) {
	stats = map[string]bool{}
	o := config.DefaultServerOptions()
	o.SetPingInterval(c.I)
	o.SetPingTimeout(c.T)
	o.SetAllowEIO3(true)
	o.SetTransports(types.NewSet("polling", "websocket", "webtransport"))
	w := NewWorld(o)
	defer w.Teardown()
	eio := "4"
	if c.Rev == 3 {
		eio = "3"
	}
	s, why := doHandshake(w, c06HS{Carrier: c.Carrier, EIO: eio, Chunk: c.Chunk})
	if s == nil {
		return "harness: handshake failed: " + why, stats
	}
	vanished := false
	cl := hbClient{s, &vanished}
	sr := w.Get(s.open.Sid)
	t0 := sr.ConnAt // the session opened at this instant
	now := func() time.Duration { return w.now() }
	cl.keepPolling()
	// reaction "inDrain": a fast client and a slow application listener: the client's pong is back, and has been
	// processed by the server, before the session's 'drain' listener for the ping's hand-off returns (the timer
	// goroutine that sent the ping is still inside Send)
	var pongInDrain, pongInDrainDone atomic.Bool
	heartbeats := func() int {
		w.mu.Lock()
		defer w.mu.Unlock()
		n := 0
		for _, e := range sr.Events {
			if e.Name == "heartbeat" {
				n++
			}
		}
		return n
	}
	pingsSeen := func() int {
		n := 0
		for _, p := range s.recv() {
			if p.Type == tPing {
				n++
			}
		}
		return n
	}
	sr.Sock.On("drain", func(...any) {
		if !pongInDrain.CompareAndSwap(true, false) {
			return
		}
		hb0, p0, sent := heartbeats(), pingsSeen(), false
		for k := 0; k < 300000; k++ {
			runtime.Gosched()
			if !sent {
				if pingsSeen() > p0 {
					cl.send(ctl(tPong))
					sent = true
				}
			} else if heartbeats() > hb0 {
				pongInDrainDone.Store(true)
				return
			}
		}
	})

	// ---- reference timeline ----
	var expPings []time.Duration
	closed := false
	var expCloseAt time.Duration
	expReason := ""
	closeEither := false // close at expCloseAt is optional (race with a pong at the deadline)
	nextPing := t0 + c.I
	deadline := time.Duration(-1)
	if c.Rev == 3 {
		nextPing = -1
		deadline = t0 + c.I + c.T
	}
	var pend []hbPending
	for _, e := range c.Extras {
		pend = append(pend, hbPending{at: t0 + e.At, kind: "extra:" + e.Kind})
	}
	if c.Rev == 3 {
		at := t0
		for _, g := range c.Pings {
			at += g
			pend = append(pend, hbPending{at: at, kind: "v3ping"})
		}
	}
	sort.SliceStable(pend, func(a, b int) bool { return pend[a].at < pend[b].at })
	pingIdx := 0
	upSeq := 0
	expPongs := 0 // v3: pongs the server must have produced
	horizon := t0 + (c.I+c.T)*time.Duration(c.Rounds+1)
	// revision 3: an upgrade cancels the pending deadline (excluded by the statement, the upstream design); the next
	// client ping arms it again. Until then nothing is asserted about a close: the script ends at the old deadline
	uncertainFrom := time.Duration(-1)

	check := func(where string) string {
		ob := observeHB(sr)
		if fmt.Sprint(ob.pingsCreated) != fmt.Sprint(expPings) {
			return fmt.Sprintf("%s @%v: server created pings at %v, reference timeline says %v", where, now(), ob.pingsCreated, expPings)
		}
		if c.Rev == 3 && len(ob.pongsCreated) != expPongs {
			return fmt.Sprintf("%s @%v: server produced %d pongs for %d client pings", where, now(), len(ob.pongsCreated), expPongs)
		}
		if ob.closes > 1 {
			return fmt.Sprintf("%s: %d close events", where, ob.closes)
		}
		if closed && !closeEither {
			if ob.closes != 1 || ob.closeAt != expCloseAt || ob.closeReason != expReason {
				return fmt.Sprintf("%s @%v: want close(%s) at exactly %v; observed closes=%d at %v reason %q", where, now(), expReason, expCloseAt, ob.closes, ob.closeAt, ob.closeReason)
			}
		} else if !closed && ob.closes != 0 {
			return fmt.Sprintf("%s @%v: session closed at %v with %q although the reference timeline has it open (next ping %v, deadline %v)", where, now(), ob.closeAt, ob.closeReason, nextPing, deadline)
		}
		return ""
	}

	for step := 0; step < 200 && !closed; step++ {
		// next instant at which anything happens
		tn := horizon
		if nextPing >= 0 && nextPing < tn {
			tn = nextPing
		}
		if deadline >= 0 && deadline < tn {
			tn = deadline
		}
		if len(pend) > 0 && pend[0].at < tn {
			tn = pend[0].at
		}
		if tn >= horizon {
			break
		}
		if uncertainFrom >= 0 && tn >= uncertainFrom {
			stats["ended-at-cancelled-deadline"] = true
			return "", stats
		}
		var racer *hbPending
		if len(pend) > 0 && pend[0].at == tn && pend[0].race {
			// issue the client's pong from another goroutine at exactly this instant
			racer = &pend[0]
			d := tn - now()
			go func() {
				time.Sleep(d)
				cl.send(ctl(tPong))
			}()
		}
		if nextPing >= 0 && nextPing == tn && !vanished && s.pc == nil && c.Reacts[pingIdx%len(c.Reacts)].Kind == "inDrain" {
			pongInDrainDone.Store(false)
			pongInDrain.Store(true)
		}
		if d := tn - now(); d > 0 {
			time.Sleep(d)
		}
		Settle()
		pongInDrain.Store(false)
		cl.keepPolling()
		// 1. server-side timers due at this instant
		if deadline >= 0 && deadline == tn {
			if racer != nil {
				// a pong exactly at the deadline: both outcomes allowed
				stats["pong-at-deadline-race"] = true
				ob := observeHB(sr)
				pend = pend[1:]
				if ob.closes == 1 && ob.closeAt == tn && ob.closeReason == "ping timeout" {
					closed, expCloseAt, expReason = true, tn, "ping timeout"
				} else if ob.closes == 0 {
					deadline = -1
					nextPing = tn + c.I
				} else {
					return fmt.Sprintf("pong exactly at the deadline %v: observed closes=%d at %v (%q)", tn, ob.closes, ob.closeAt, ob.closeReason), stats
				}
				if f := check("deadline race"); f != "" {
					return f, stats
				}
				continue
			}
			closed, expCloseAt, expReason = true, tn, "ping timeout"
			stats["timeout"] = true
			break
		}
		if nextPing >= 0 && nextPing == tn {
			expPings = append(expPings, tn)
			nextPing = -1
			deadline = tn + c.T
			// the client sees the ping now and decides how to react
			if f := check("ping"); f != "" {
				return f, stats
			}
			if !vanished {
				recv := s.recv()
				if len(recv) == 0 || recv[len(recv)-1].Type != tPing {
					return fmt.Sprintf("@%v ping created but the client's last packet is %v", now(), recv), stats
				}
			}
			r := c.Reacts[pingIdx%len(c.Reacts)]
			pingIdx++
			if vanished {
				r = hbReact{Kind: "never"}
				stats["ping-to-a-vanished-peer"] = true
			}
			if r.Kind == "inDrain" {
				if pongInDrainDone.Load() {
					// answered, and the answer accepted, at the very instant of the ping
					stats["pong-processed-before-the-ping's-drain-listener-returns"] = true
					deadline, nextPing = -1, tn+c.I
					sort.SliceStable(pend, func(a, b int) bool { return pend[a].at < pend[b].at })
					continue
				}
				r = hbReact{Kind: "pong"}
			}
			switch r.Kind {
			case "pong", "dup":
				if r.Delay == 0 {
					cl.send(ctl(tPong))
					Settle()
					deadline, nextPing = -1, tn+c.I
					if r.Kind == "dup" {
						cl.send(ctl(tPong))
						Settle()
						stats["duplicate-pong"] = true
					}
					cl.keepPolling()
				} else {
					pend = append(pend, hbPending{at: tn + r.Delay, kind: "pong"})
					if r.Kind == "dup" {
						pend = append(pend, hbPending{at: tn + r.Delay, kind: "pong"})
						stats["duplicate-pong"] = true
					}
					if r.Delay == c.T-time.Millisecond || r.Delay == c.T+time.Millisecond {
						stats["within-1ms-of-deadline"] = true
					}
				}
			case "atDeadlineRace":
				pend = append(pend, hbPending{at: tn + c.T, kind: "pong", race: true})
				stats["within-1ms-of-deadline"] = true
			case "never":
			}
			sort.SliceStable(pend, func(a, b int) bool { return pend[a].at < pend[b].at })
			if len(expPings) >= 2 {
				stats[">=2-rounds"] = true
			}
			continue
		}
		// 2. client actions due at this instant
		for len(pend) > 0 && pend[0].at == tn && !closed {
			p := pend[0]
			pend = pend[1:]
			switch p.kind {
			case "pong":
				cl.send(ctl(tPong))
				Settle()
				// accepted: cancels the deadline, next ping one interval from now
				deadline, nextPing = -1, tn+c.I
			case "extra:pong":
				stats["unsolicited-pong"] = true
				cl.send(ctl(tPong))
				Settle()
				deadline, nextPing = -1, tn+c.I
			case "extra:msgUp":
				upSeq++
				n := len(sr.Msgs)
				cl.send(msgT(fmt.Sprintf("up%d", upSeq)))
				Settle()
				if len(sr.Msgs) != n+1 {
					return fmt.Sprintf("@%v unrelated client message not delivered", now()), stats
				}
				stats["other-traffic"] = true
			case "extra:msgDown":
				w.AppSend(sr, msgT("down"), nil, false, 0)
				Settle()
				stats["other-traffic"] = true
			case "extra:upgrade":
				// applicable when nothing else is due while the handshake runs (it takes up to three check
				// periods of virtual time) and, on revision 4, no ping is outstanding (excluded by the statement)
				next := horizon
				for _, x := range []time.Duration{nextPing, deadline} {
					if x >= 0 && x < next {
						next = x
					}
				}
				if len(pend) > 0 && pend[0].at < next {
					next = pend[0].at
				}
				if s.pc == nil || next-tn < 450*time.Millisecond {
					break
				}
				if c.Rev == 4 && deadline >= 0 {
					stats["excluded.upgrade-while-ping-outstanding"] = true
					break
				}
				to := "websocket"
				if c.Rev == 4 && len(c.Extras)%2 == 0 {
					to = "webtransport"
				}
				candRev := 0
				if to == "websocket" && len(c.Extras)%3 != 0 {
					// the candidate announces the other revision for itself; the heartbeat mode is the session's
					candRev = 7 - c.Rev
					stats["upgrade-candidate-announcing-the-other-revision"] = true
				}
				wc, tc, err := UpgradeAs(w, s.pc, to, candRev)
				if err != nil {
					return fmt.Sprintf("@%v conformant upgrade to %s failed: %v", now(), to, err), stats
				}
				s.pc, s.wc, s.tc = nil, wc, tc
				stats["upgraded-to-"+to] = true
				if c.Rev == 3 {
					uncertainFrom, deadline = deadline, -1
				}
			case "extra:failedCandidate":
				// an upgrade attempt that comes to nothing: a websocket candidate for the session connects and sends
				// something that is not a probe, or goes away again; only the candidate pays, the session's
				// heartbeat (a ping may be outstanding) goes on as if nothing had happened
				if s.pc == nil || vanished {
					break
				}
				cand := &WSClient{W: w, O: ClientOpts{Rev: c.Rev, EIO: eio}, Sid: s.pc.Sid}
				cand.Start()
				Settle()
				cand.Pump()
				if cand.HTTPStatus == 101 {
					if len(c.Extras)%2 == 0 {
						cand.SendPacket(msgT("not a probe"), nil)
					} else {
						cand.Drop()
					}
					Settle()
					cand.Drop()
					Settle()
					stats["failed-upgrade-attempt"] = true
					if deadline >= 0 {
						stats["failed-upgrade-attempt-while-a-deadline-is-armed"] = true
					}
				}
			case "extra:vanish":
				if s.pc != nil || vanished {
					break
				}
				// from now on the peer neither reads nor sends; the next write of the server blocks (window full)
				stats["peer-vanished"] = true
				vanished = true
				if s.wc != nil {
					s.wc.StopReading()
				} else {
					s.tc.StopReading()
				}
				w.AppSend(sr, msgT("a write that blocks"), nil, false, 0)
				Settle()
				// whatever the client had planned does not happen
				pend = nil
			case "extra:wrongDir":
				stats["wrong-direction"] = true
				hb := len(observeHB(sr).heartbeats)
				if c.Rev == 4 {
					cl.send(ctl(tPing))
				} else {
					cl.send(ctl(tPong))
				}
				Settle()
				closed, expCloseAt, expReason = true, tn, "transport error"
				if n := len(observeHB(sr).heartbeats); n != hb {
					return fmt.Sprintf("@%v heartbeat in the wrong direction produced a heartbeat event", now()), stats
				}
			case "v3ping":
				expPongs++
				cl.send(ctl(tPing))
				Settle()
				deadline = tn + c.I + c.T
				if uncertainFrom >= 0 {
					uncertainFrom = -1
					stats["v3-ping-after-upgrade"] = true
				}
				stats["v3-ping"] = true
				if len(c.Pings) >= 2 {
					stats[">=2-rounds"] = true
				}
				cl.keepPolling()
				recv := s.recv()
				if len(recv) == 0 || recv[len(recv)-1].Type != tPong {
					return fmt.Sprintf("@%v client ping not answered with a pong; last packets %v", now(), recv), stats
				}
			}
			cl.keepPolling()
		}
		if f := check("step"); f != "" {
			return f, stats
		}
	}
	Settle()
	if f := check("end"); f != "" {
		return f, stats
	}
	// after the verdict: let one more full period pass; nothing more may happen
	time.Sleep(c.I + c.T + time.Millisecond)
	Settle()
	if closed {
		ob := observeHB(sr)
		if ob.closes != 1 || len(ob.pingsCreated) != len(expPings) {
			return fmt.Sprintf("after the close at %v: closes=%d pings=%v (expected %v)", expCloseAt, ob.closes, ob.pingsCreated, expPings), stats
		}
	}
	if !closed {
		stats["stayed-open"] = true
	}
	if vanished {
		if closed && expReason == "ping timeout" {
			// "silent peers are closed": the session and, within the bounded wait for the batch its writer still
			// holds (30 s), the connection: a vanished peer must not keep connection and writer for ever
			stats["vanished-peer-timed-out"] = true
			time.Sleep(30*time.Second + time.Millisecond)
			Settle()
			down := false
			if s.wc != nil {
				if conn := s.wc.conn(); conn != nil {
					conn.r.mu.Lock()
					down = conn.r.eof || conn.r.werr != nil
					conn.r.mu.Unlock()
				}
			} else {
				s.tc.Pump()
				_, reset := s.tc.Bidi.WriteCancelled()
				down = s.tc.SessionClosed || reset
			}
			if !down {
				return fmt.Sprintf("the session of a vanished peer closed (ping timeout) at %v, but %v later the server still has not closed the connection (its writer is blocked in a write to the peer)", expCloseAt, now()-expCloseAt), stats
			}
		}
		// in the end the network stack gives up on the connection
		if s.wc != nil {
			s.wc.NetworkGivesUp()
		} else {
			s.tc.NetworkGivesUp()
		}
		Settle()
	}
	return "", stats
}

func TestC07Heartbeat(t *testing.T) {
	col := NewCollector("TestC07Heartbeat",
		"rapid: pingInterval/pingTimeout on a millisecond grid (1ms..60s), carrier polling/websocket/webtransport, revision 4 or 3, a client policy (per ping: pong after 0, 1ms, T-1ms, T/2, T+1ms, random; duplicate pong; never; pong issued by another goroutine at exactly the deadline; revision 3: client ping gaps incl. I+T-1ms and I+T+1ms), 0-3 extra actions off the millisecond grid (unsolicited pong, message up/down, heartbeat in the wrong direction, on websocket/webtransport sessions the peer vanishing without a trace (it neither reads nor sends any more, the server's writer blocks in its write; the session must close at exactly the deadline all the same, and the server must have closed the connection 30 s later), on polling sessions a conformant upgrade to websocket/webtransport while no ping is outstanding, after which the timeline continues on the new transport; on revision 3 the upgrade cancels the deadline until the next client ping, as the statement excludes); executed event by event in a virtual-time bubble next to a reference timeline; oracle: instants of server pings, of the close event and its reason equal the timeline exactly (a pong at exactly the deadline may go either way), never closed while pongs are in time, wrong direction => close(transport error) at that instant and no heartbeat event, nothing happens after the close. non-trivial: >=2 heartbeat rounds and a reaction within 1ms of a deadline, or a wrong-direction/unsolicited/duplicate heartbeat").Use(t)
	rapid.Check(t, func(rt *rapid.T) {
		c := genC07(rt)
		journal("C07 %v", c)
		var fail string
		var stats map[string]bool
		res := bubble(t, func() { fail, stats = runC07(c) })
		var cl []string
		for k := range stats {
			cl = append(cl, k)
		}
		sort.Strings(cl)
		cl = append(cl, "carrier."+c.Carrier, fmt.Sprintf("rev%d", c.Rev))
		if c.Chunk > 0 {
			cl = append(cl, "heartbeats-in-data-requests-without-declared-length", "upgrade-candidate-announcing-the-other-revision", "pong-processed-before-the-ping's-drain-listener-returns")
		}
		nt := (stats[">=2-rounds"] && stats["within-1ms-of-deadline"]) || stats["wrong-direction"] || stats["unsolicited-pong"] || stats["duplicate-pong"] || stats["pong-at-deadline-race"]
		col.Case(c.String(), nt, map[string]any{"case": c.String(), "classes": strings.Join(cl, " ")}, cl...)
		res.rethrow()
		if fail != "" {
			rt.Fatalf("%v\n%s", c, fail)
		}
		if res.Leak != "" {
			rt.Fatalf("%v: %s", c, clipStr(res.Leak, 1500))
		}
	})
	col.RequireClasses(t, "failed-upgrade-attempt", "failed-upgrade-attempt-while-a-deadline-is-armed", "peer-vanished", "vanished-peer-timed-out", "timeout", "stayed-open", "within-1ms-of-deadline", "pong-at-deadline-race", "wrong-direction", "unsolicited-pong", "duplicate-pong", "v3-ping", "v3-ping-after-upgrade", "upgraded-to-websocket", "upgraded-to-webtransport", "other-traffic", "carrier.polling", "carrier.websocket", "carrier.webtransport", "heartbeats-in-data-requests-without-declared-length")
}

const sigVanishedPeer = "closed-session-keeps-connection-and-writer-of-a-peer-that-stopped-reading"

// TestC07VanishedPeerFinding: deterministic demonstration of the repaired defect (a regression of an earlier
// repair, see known-findings.txt).
func TestC07VanishedPeerFinding(t *testing.T) {
	col := NewCollector("TestC07VanishedPeerFinding", "deterministic: websocket / webtransport session (interval 100ms, timeout 50ms), the peer vanishes without a trace 10ms after the handshake (it neither reads nor sends any more; the server's next write blocks); oracle of TestC07Heartbeat: close(ping timeout) at exactly 150ms, and 30s later the server has closed the connection. every case is non-trivial").Use(t)
	for _, car := range []string{"websocket", "webtransport"} {
		c := c07Case{I: 100 * time.Millisecond, T: 50 * time.Millisecond, Carrier: car, Rev: 4, Reacts: []hbReact{{Kind: "pong"}},
			Extras: []hbExtra{{At: 10*time.Millisecond + 100*time.Microsecond, Kind: "vanish"}}, Rounds: 2}
		var fail string
		res := bubble(t, func() { fail, _ = runC07(c) })
		res.rethrow()
		if fail == "" && res.Leak != "" {
			fail = "bubble: " + clipStr(res.Leak, 300)
		}
		col.Case(c.String(), true, map[string]any{"case": c.String(), "result": clipStr(fail, 300)}, "peer-vanished")
		demoFinding(t, col, "C07", sigVanishedPeer, fail != "", car+": "+clipStr(fail, 400))
	}
}

const sigPongBeforeDeadlineArmed = "deadline-armed-after-the-pong-of-its-ping-was-processed"

// TestC07PongBeforeDeadlineFinding: deterministic demonstration: a fast client's pong is processed while the
// session's drain listener for the ping's hand-off is still running, i.e. before the ping callback arms the deadline.
func TestC07PongBeforeDeadlineFinding(t *testing.T) {
	col := NewCollector("TestC07PongBeforeDeadlineFinding", "deterministic: websocket / webtransport session, revision 4, (interval, timeout) in {(100ms, 60ms), (651ms, 651ms), (25s, 20s)}; the client answers every ping at once and the answer is processed before the application's drain listener for the ping returns; oracle of TestC07Heartbeat: pings one interval after each accepted pong, the session is never closed. every case is non-trivial").Use(t)
	for _, car := range []string{"websocket", "webtransport"} {
		for _, it := range [][2]time.Duration{{100 * time.Millisecond, 60 * time.Millisecond}, {651 * time.Millisecond, 651 * time.Millisecond}, {25 * time.Second, 20 * time.Second}} {
			c := c07Case{I: it[0], T: it[1], Carrier: car, Rev: 4, Reacts: []hbReact{{Kind: "inDrain"}}, Rounds: 3}
			var fail string
			res := bubble(t, func() { fail, _ = runC07(c) })
			res.rethrow()
			if fail == "" && res.Leak != "" {
				fail = "bubble: " + clipStr(res.Leak, 300)
			}
			col.Case(c.String(), true, map[string]any{"case": c.String(), "result": clipStr(fail, 300)}, "pong-processed-before-the-ping's-drain-listener-returns")
			demoFinding(t, col, "C07", sigPongBeforeDeadlineArmed, fail != "", fmt.Sprintf("%v: %s", c, clipStr(fail, 400)))
		}
	}
}

package harness

// C19 — timers: fire exactly once when due, never after cancellation, refresh
// re-arms, intervals tick once per period until cancelled, cancellation
// returns promptly and leaves no goroutine behind.
//
// A script of timer operations at generated virtual instants is drawn by
// rapid (outside the bubble), executed inside a testing/synctest bubble next
// to a reference model, and the recorded callback start times are compared
// with the model after every step (exact equality of virtual instants).

import (
	"fmt"
	"runtime"
	"sort"
	"strings"
	"sync"
	"testing"
	"time"

	"github.com/zishang520/engine.io/v2/utils"
	"pgregory.net/rapid"
)

const (
	sigIntervalTick = "interval-cancelled-between-tick-and-rearm-keeps-ticking"
)

type tOp struct {
	Kind string        // timeout interval refresh stop clear clearNil clear2 clearAtDue refreshAtDue advance gateTickClear gateTickPass gateStopDouble
	I    int           // timer index
	D    time.Duration // period for creation, amount for advance
	Cb   time.Duration // callback running time (creation)
	Mode string        // advance: rel (D) | due-1 | due | due+1 (relative to timer I's next due)
	Self int           // interval: its own callback cancels it on the Self-th tick (0 = never)
	Now  bool          // creation: cancel immediately, before the timer goroutine had a chance to run
}

func (o tOp) String() string {
	switch o.Kind {
	case "timeout", "interval":
		x := ""
		if o.Self > 0 {
			x += fmt.Sprintf(",selfClear@%d", o.Self)
		}
		if o.Now {
			x += ",cancelAtOnce"
		}
		return fmt.Sprintf("%s#%d(d=%v,cb=%v%s)", o.Kind, o.I, o.D, o.Cb, x)
	case "advance":
		if o.Mode == "rel" {
			return fmt.Sprintf("advance(%v)", o.D)
		}
		return fmt.Sprintf("advance(%s of #%d)", o.Mode, o.I)
	case "clearNil":
		return "clear(nil)"
	}
	return fmt.Sprintf("%s#%d", o.Kind, o.I)
}

type genTimer struct {
	self      bool
	interval  bool
	d         time.Duration
	cancelled bool
}

var c19Periods = []time.Duration{0, 1, 2, 1000, time.Millisecond, 7 * time.Millisecond, 100 * time.Millisecond, time.Second, 25 * time.Second}

// periods beyond what other runtimes can express (2^31-1 ms is the limit of a JavaScript timer): "in a month", "never"
var c19LongPeriods = []time.Duration{(1<<31 - 1) * time.Millisecond, (1 << 31) * time.Millisecond, 25 * 24 * time.Hour, 31 * 24 * time.Hour, 366 * 24 * time.Hour, 10000 * 24 * time.Hour}

func genC19Script(rt *rapid.T, gates bool) []tOp {
	var ops []tOp
	var ts []genTimer
	n := rapid.IntRange(2, 14).Draw(rt, "nops")
	liveIntervals := func() (cnt int, minD time.Duration) {
		for _, t := range ts {
			if t.interval && !t.cancelled {
				cnt++
				if minD == 0 || t.d < minD {
					minD = t.d
				}
			}
		}
		return
	}
	for len(ops) < n {
		l := fmt.Sprintf("op%d", len(ops))
		choices := []string{"timeout", "interval", "advance", "advance"}
		if len(ts) >= 4 {
			choices = []string{"advance"}
		}
		if len(ts) > 0 {
			choices = append(choices, "refresh", "refresh2", "stop", "clear", "clear2", "clearAtDue", "refreshAtDue", "advanceDue", "advanceDue", "advanceDue", "clearNil")
			if gates {
				choices = append(choices, "gateTickClear", "gateTickPass", "gateStopDouble", "gateTickClear", "gateTimeoutClear", "gateTimeoutClear", "gateTimeoutPass", "gateTimeoutClearRefresh", "gateTimeoutClearRefresh")
			}
		}
		k := rapid.SampledFrom(choices).Draw(rt, l+".kind")
		switch k {
		case "timeout", "interval":
			var d time.Duration
			if rapid.IntRange(0, 9).Draw(rt, l+".long") == 0 {
				d = rapid.SampledFrom(c19LongPeriods).Draw(rt, l+".dl")
			} else if rapid.Bool().Draw(rt, l+".tbl") {
				d = rapid.SampledFrom(c19Periods).Draw(rt, l+".d")
			} else {
				d = time.Duration(rapid.Int64Range(1, int64(2*time.Second)).Draw(rt, l+".dr"))
			}
			if k == "interval" && d < 1000 {
				d = 1000 // an interval of (almost) zero never lets virtual time advance
			}
			cb := time.Duration(0)
			if rapid.IntRange(0, 3).Draw(rt, l+".cbk") == 0 {
				cb = time.Duration(rapid.Int64Range(1, int64(3*min(d, 10*time.Second))+1000).Draw(rt, l+".cb"))
			}
			o := tOp{Kind: k, I: len(ts), D: d, Cb: cb}
			switch rapid.IntRange(0, 7).Draw(rt, l+".variant") {
			case 0:
				o.Now = true
			case 1:
				if k == "interval" {
					o.Self = rapid.IntRange(1, 3).Draw(rt, l+".self")
				}
			}
			ts = append(ts, genTimer{interval: k == "interval", d: d, cancelled: o.Now, self: o.Self > 0})
			ops = append(ops, o)
		case "advance":
			cnt, minD := liveIntervals()
			maxAdv := int64(30 * time.Second)
			if cnt > 0 && minD < time.Hour && int64(minD)*12 < maxAdv {
				maxAdv = int64(minD) * 12
			}
			if cnt == 0 && rapid.IntRange(0, 5).Draw(rt, l+".far") == 0 {
				// weeks go by
				maxAdv = int64(40 * 24 * time.Hour)
			}
			ops = append(ops, tOp{Kind: "advance", Mode: "rel", D: time.Duration(rapid.Int64Range(0, maxAdv).Draw(rt, l+".adv"))})
		case "advanceDue":
			i := rapid.IntRange(0, len(ts)-1).Draw(rt, l+".i")
			m := rapid.SampledFrom([]string{"due-1", "due", "due+1"}).Draw(rt, l+".mode")
			ops = append(ops, tOp{Kind: "advance", Mode: m, I: i})
		case "clearNil":
			ops = append(ops, tOp{Kind: k})
		case "refresh", "refresh2", "refreshAtDue":
			i := rapid.IntRange(0, len(ts)-1).Draw(rt, l+".i")
			if k == "refresh2" && ts[i].interval {
				continue
			}
			if ts[i].interval && (k == "refreshAtDue" || ts[i].cancelled || ts[i].self) {
				// refreshing an interval at its tick instant or after its
				// cancellation is outside what callers do and what the
				// statement fixes; draw something else
				continue
			}
			ts[i].cancelled = false
			ops = append(ops, tOp{Kind: k, I: i})
		case "stop", "clear", "clear2", "clearAtDue":
			i := rapid.IntRange(0, len(ts)-1).Draw(rt, l+".i")
			ts[i].cancelled = true
			ops = append(ops, tOp{Kind: k, I: i})
		case "gateTickClear", "gateTickPass":
			cnt, _ := liveIntervals()
			if cnt != 1 {
				continue
			}
			for i, t := range ts {
				if t.interval && !t.cancelled {
					if k == "gateTickClear" {
						ts[i].cancelled = true
					}
					ops = append(ops, tOp{Kind: k, I: i})
				}
			}
		case "gateTimeoutClear", "gateTimeoutPass", "gateTimeoutClearRefresh":
			// the same window of a timeout: its goroutine has received the tick and not yet started the callback
			var cand []int
			for i, t := range ts {
				if !t.interval && !t.cancelled {
					cand = append(cand, i)
				}
			}
			if len(cand) == 0 {
				continue
			}
			i := rapid.SampledFrom(cand).Draw(rt, l+".i")
			if k == "gateTimeoutClear" {
				ts[i].cancelled = true
			}
			ops = append(ops, tOp{Kind: k, I: i})
		case "gateStopDouble":
			i := rapid.IntRange(0, len(ts)-1).Draw(rt, l+".i")
			ts[i].cancelled = true
			ops = append(ops, tOp{Kind: k, I: i})
		}
	}
	return ops
}

type mTimer struct {
	interval bool
	d, cb    time.Duration
	armed    bool
	due      time.Duration
	t        *utils.Timer
	self     int // cancels itself from its own callback on this tick
	fires    int
	exp      []time.Duration // mandatory callback start instants
	opt      []time.Duration // optional ones (operation raced with the due instant)
}

type c19World struct {
	mu       sync.Mutex
	t0       time.Time
	obs      [][]time.Duration
	ts       []*mTimer
	fails    []string
	stats    map[string]bool
	selfDone []func() bool
}

func (w *c19World) now() time.Duration { return time.Since(w.t0) }

// clipDur renders at most the first and last few instants of a list.
func clipDur(d []time.Duration) string {
	if len(d) <= 10 {
		return fmt.Sprint(d)
	}
	return fmt.Sprintf("%v ... (%d in total) ... %v", d[:5], len(d), d[len(d)-3:])
}
func (w *c19World) failf(f string, a ...any) {
	w.fails = append(w.fails, fmt.Sprintf("@%v ", w.now())+fmt.Sprintf(f, a...))
}

// settleTo moves the model forward: everything due at or before now has
// fired; skip (>=0) names a timer whose firing at exactly `now` is optional.
func (w *c19World) settleTo(now time.Duration, skip int) {
	for i, m := range w.ts {
		for m.armed && m.due <= now {
			if i == skip && m.due == now {
				m.opt = append(m.opt, m.due)
			} else {
				m.exp = append(m.exp, m.due)
			}
			m.fires++
			if m.interval && !(m.self > 0 && m.fires >= m.self) {
				m.due += m.d
			} else {
				m.armed = false
			}
		}
	}
}

func (w *c19World) check(what string) {
	for i, f := range w.selfDone {
		if !f() {
			w.fails = append(w.fails, fmt.Sprintf("@%v after %s: ClearInterval called by interval #%d from its own callback has not returned at a quiescent point", time.Since(w.t0), what, i))
			return
		}
	}
	w.mu.Lock()
	defer w.mu.Unlock()
	for i, m := range w.ts {
		obs := append([]time.Duration(nil), w.obs[i]...)
		sort.Slice(obs, func(a, b int) bool { return obs[a] < obs[b] })
		opt := append([]time.Duration(nil), m.opt...)
		e := 0
		for _, o := range obs {
			if e < len(m.exp) && m.exp[e] == o {
				e++
				continue
			}
			used := false
			for k, x := range opt {
				if x == o {
					opt = append(opt[:k], opt[k+1:]...)
					used = true
					break
				}
			}
			if !used {
				w.fails = append(w.fails, fmt.Sprintf("@%v after %s: timer #%d callback started at %v; model expects starts at %s (optional %s), observed %s", time.Since(w.t0), what, i, o, clipDur(m.exp), clipDur(m.opt), clipDur(obs)))
				return
			}
		}
		if e != len(m.exp) {
			w.fails = append(w.fails, fmt.Sprintf("@%v after %s: timer #%d callback due at %v did not start; model expects %s (optional %s), observed %s", time.Since(w.t0), what, i, m.exp[e], clipDur(m.exp), clipDur(m.opt), clipDur(obs)))
			return
		}
	}
}

// runAsync runs fn in a new goroutine and reports whether it returned by the
// next quiescent point (zero virtual time).
func (w *c19World) prompt(what string, fns ...func()) {
	done := make([]bool, len(fns))
	var mu sync.Mutex
	for i, fn := range fns {
		go func() {
			fn()
			mu.Lock()
			done[i] = true
			mu.Unlock()
		}()
	}
	t := w.now()
	Settle()
	mu.Lock()
	defer mu.Unlock()
	for i, d := range done {
		if !d {
			w.failf("%s: cancellation call %d did not return (blocked at a quiescent point, no virtual time elapsed since %v)", what, i, t)
		}
	}
}

func runC19(ops []tOp, w *c19World) {
	w.t0 = time.Now()
	base := runtime.NumGoroutine()
	var g *Gates
	for _, o := range ops {
		if strings.HasPrefix(o.Kind, "gate") {
			g = InstallGates(nil)
			defer g.Uninstall()
			break
		}
	}
	var maxCb time.Duration
	for si, o := range ops {
		if len(w.fails) > 0 {
			break
		}
		what := fmt.Sprintf("step %d %v", si, o)
		switch o.Kind {
		case "timeout", "interval":
			i := len(w.ts)
			m := &mTimer{interval: o.Kind == "interval", d: o.D, cb: o.Cb, armed: true, due: w.now() + o.D, self: o.Self}
			selfDone := true
			nCalls := 0
			if o.Cb > maxCb {
				maxCb = o.Cb
			}
			w.mu.Lock()
			w.ts = append(w.ts, m)
			w.obs = append(w.obs, nil)
			w.mu.Unlock()
			fn := func() {
				w.mu.Lock()
				w.obs[i] = append(w.obs[i], w.now())
				nCalls++
				mine := o.Self > 0 && nCalls == o.Self
				if mine {
					selfDone = false
					w.stats["self-cancel-from-callback"] = true
				}
				w.mu.Unlock()
				if mine {
					// the usual "stop after n ticks" idiom: must not block
					utils.ClearInterval(m.t)
					w.mu.Lock()
					selfDone = true
					w.mu.Unlock()
				}
				if o.Cb > 0 {
					time.Sleep(o.Cb)
				}
			}
			w.selfDone = append(w.selfDone, func() bool { w.mu.Lock(); defer w.mu.Unlock(); return selfDone })
			if m.interval {
				m.t = utils.SetInterval(fn, o.D)
			} else {
				m.t = utils.SetTimeout(fn, o.D)
			}
			if o.Now {
				// cancel before the timer's goroutine has run at all
				w.stats["cancel-right-after-arm"] = true
				if o.D == 0 {
					m.opt = append(m.opt, w.now())
				}
				m.armed = false
				w.prompt(what+" (cancelled at once)", func() { utils.ClearTimeout(m.t) })
			}
			Settle()
			w.settleTo(w.now(), -1)
		case "advance":
			d := o.D
			if o.Mode != "rel" {
				m := w.ts[o.I]
				if !m.armed {
					continue
				}
				d = m.due - w.now()
				switch o.Mode {
				case "due-1":
					d--
				case "due+1":
					d++
				}
				w.stats["advance."+o.Mode] = true
				if d < 0 {
					continue
				}
				// bound the number of ticks of other intervals
				for _, x := range w.ts {
					if x.interval && x.armed && d > 40*x.d {
						d = 40 * x.d
					}
				}
			}
			time.Sleep(d)
			Settle()
			w.settleTo(w.now(), -1)
		case "clearNil":
			w.prompt(what, func() { utils.ClearTimeout(nil) }, func() { utils.ClearInterval(nil) })
		case "refresh":
			m := w.ts[o.I]
			if m.armed {
				w.stats["refresh.pending"] = true
			} else {
				w.stats["refresh.fired-or-stopped"] = true
			}
			m.t.Refresh()
			m.armed, m.due = true, w.now()+m.d
			Settle()
			w.settleTo(w.now(), -1)
		case "refresh2":
			// two goroutines refresh the same timeout at once (pending, fired or cancelled): one callback, one period
			// after the refresh; nothing left behind once it is cancelled (the end-of-case goroutine check)
			m := w.ts[o.I]
			w.stats["concurrent-refresh"] = true
			if !m.armed {
				w.stats["concurrent-refresh.fired-or-stopped"] = true
			}
			if m.d == 0 {
				// a period of zero fires between the two refreshes in one serialisation and not in the other
				w.prompt(what, func() { m.t.Refresh() })
			} else {
				w.prompt(what, func() { m.t.Refresh() }, func() { m.t.Refresh() })
			}
			m.armed, m.due = true, w.now()+m.d
			w.settleTo(w.now(), -1)
		case "stop":
			m := w.ts[o.I]
			w.prompt(what, func() { m.t.Stop() })
			m.armed = false
		case "clear":
			m := w.ts[o.I]
			if m.interval {
				w.prompt(what, func() { utils.ClearInterval(m.t) })
			} else {
				w.prompt(what, func() { utils.ClearTimeout(m.t) })
			}
			m.armed = false
		case "clear2":
			m := w.ts[o.I]
			w.stats["concurrent-cancel"] = true
			w.prompt(what, func() { utils.ClearTimeout(m.t) }, func() { m.t.Stop() })
			m.armed = false
		case "clearAtDue", "refreshAtDue":
			m := w.ts[o.I]
			if !m.armed || m.due <= w.now() {
				continue
			}
			d := m.due - w.now()
			for _, x := range w.ts {
				if x != m && x.interval && x.armed && d > 40*x.d {
					d = 0
				}
			}
			if d == 0 {
				// too many ticks of a faster interval in between: do the operation now instead
				if o.Kind == "clearAtDue" {
					w.prompt(what, func() { utils.ClearTimeout(m.t) })
					m.armed = false
				} else {
					m.t.Refresh()
					m.armed, m.due = true, w.now()+m.d
					Settle()
					w.settleTo(w.now(), -1)
				}
				break
			}
			w.stats[o.Kind] = true
			returned := false
			go func() {
				time.Sleep(d)
				if o.Kind == "clearAtDue" {
					utils.ClearTimeout(m.t)
				} else {
					m.t.Refresh()
				}
				returned = true
			}()
			time.Sleep(d)
			Settle()
			if !returned {
				w.failf("%s: the call issued at the due instant did not return", what)
			}
			w.settleTo(w.now(), o.I)
			if o.Kind == "clearAtDue" {
				m.armed = false
			} else {
				m.armed, m.due = true, w.now()+m.d
			}
		case "gateTickClear", "gateTickPass", "gateTimeoutClear", "gateTimeoutPass", "gateTimeoutClearRefresh":
			m := w.ts[o.I]
			isTimeout := o.Kind == "gateTimeoutClear" || o.Kind == "gateTimeoutPass" || o.Kind == "gateTimeoutClearRefresh"
			if !m.armed || m.interval == isTimeout {
				continue
			}
			site := "timer.interval.tick"
			if isTimeout {
				site = "timer.timeout.tick"
				// the next arrival at the yield point must be this timer's: no other timeout falls due before it
				other := false
				for j, x := range w.ts {
					if j != o.I && !x.interval && x.armed && x.due <= m.due {
						other = true
					}
				}
				// (and no interval ticks a hundred thousand times while this step waits for the due instant)
				for _, x := range w.ts {
					if x.interval && x.armed && (m.due-w.now())/max(x.d, 1) > 100000 {
						other = true
					}
				}
				if other || m.d > time.Hour {
					continue
				}
			}
			d := m.due - w.now()
			gp := GatePoint{site, g.Count(site)}
			g.mu.Lock()
			g.plan[gp] = true
			g.mu.Unlock()
			time.Sleep(d)
			Settle()
			parked := false
			for _, p := range g.Parked() {
				if p == gp {
					parked = true
				}
			}
			if !parked {
				// the tick was not delivered at its due instant: let the model say so
				g.mu.Lock()
				delete(g.plan, gp)
				g.mu.Unlock()
				w.settleTo(w.now(), -1)
				if o.Kind == "gateTickClear" || o.Kind == "gateTimeoutClear" || o.Kind == "gateTimeoutClearRefresh" {
					w.prompt(what, func() { utils.ClearInterval(m.t) })
					m.armed = false
				}
				break
			}
			w.stats[o.Kind] = true
			if o.Kind == "gateTickClear" || o.Kind == "gateTimeoutClear" || o.Kind == "gateTimeoutClearRefresh" {
				// cancel inside the window between tick and re-arm. The loop goroutine is held right after it
				// received the tick, the cancellation returns (prompt checks that) before the goroutine is let
				// go: whatever callback of this timer starts afterwards starts after the cancellation returned,
				// so this tick's callback must not start (no "same instant" tolerance: the order is known)
				nopt := len(m.opt)
				w.settleTo(w.now(), o.I)
				m.opt = m.opt[:nopt]
				w.prompt(what+" (inside tick window)", func() { utils.ClearInterval(m.t) })
				m.armed = false
				if o.Kind == "gateTimeoutClearRefresh" {
					// ... and the cancelled timeout is refreshed before the held goroutine goes on: the callback of the
					// cancelled round still must not start; the refreshed round is due one full period from now
					m.t.Refresh()
					m.armed, m.due = true, w.now()+m.d
				}
			} else {
				w.settleTo(w.now(), -1)
			}
			g.Release(gp)
			Settle()
		case "gateStopDouble":
			m := w.ts[o.I]
			if !m.armed {
				continue
			}
			gp := GatePoint{"timer.Stop.stopped", g.Count("timer.Stop.stopped")}
			g.mu.Lock()
			g.plan[gp] = true
			g.mu.Unlock()
			aDone := false
			go func() { m.t.Stop(); aDone = true }()
			Settle()
			parked := len(g.Parked()) > 0
			if parked {
				w.stats["gateStopDouble"] = true
				// a second cancellation while the first is between stopping the runtime timer and signalling
				w.prompt(what+" (second cancel inside Stop window)", func() { utils.ClearTimeout(m.t) })
				g.Release(gp)
				Settle()
			} else {
				g.mu.Lock()
				delete(g.plan, gp)
				g.mu.Unlock()
			}
			if !aDone {
				w.failf("%s: first cancellation did not return", what)
			}
			m.armed = false
		}
		w.check(what)
	}
	// tear down: cancel everything, let running callbacks finish, nothing may be left
	if len(w.fails) == 0 {
		var fns []func()
		for _, m := range w.ts {
			m := m
			fns = append(fns, func() { utils.ClearTimeout(m.t) })
			m.armed = false
		}
		w.prompt("final cancellation of all timers", fns...)
		before := w.now()
		time.Sleep(maxCb + 3*time.Second)
		Settle()
		w.check("final cancellation (+" + (w.now() - before).String() + ")")
		if n := runtime.NumGoroutine(); n != base && len(w.fails) == 0 {
			if dump := goroutineDump("utils.SetTimeout", "utils.SetInterval", "utils.(*Timer)"); dump != "" {
				w.failf("after cancelling every timer %d goroutine(s) are left behind:\n%s", n-base, dump)
			}
		}
	}
	if g != nil {
		g.Uninstall()
	}
}

func c19Property(t *testing.T, col *Collector, gates bool) func(rt *rapid.T) {
	return func(rt *rapid.T) {
		ops := genC19Script(rt, gates)
		journal("C19 %v", ops)
		w := &c19World{stats: map[string]bool{}}
		res := bubble(t, func() { runC19(ops, w) })
		nontrivial := false
		var classes []string
		for k := range w.stats {
			classes = append(classes, k)
			if k != "refresh.fired-or-stopped" {
				nontrivial = true
			}
		}
		sort.Strings(classes)
		for _, o := range ops {
			if o.Kind == "interval" {
				classes = append(classes, "has-interval")
				break
			}
		}
		for _, o := range ops {
			if (o.Kind == "interval" || o.Kind == "timeout") && o.D >= (1<<31-1)*time.Millisecond {
				classes = append(classes, "period-of-weeks-or-more")
				break
			}
		}
		for _, o := range ops {
			if o.Kind == "advance" && o.Mode == "rel" && o.D > 24*time.Hour {
				classes = append(classes, "advance-of-days")
				break
			}
		}
		col.Case(fmt.Sprint(ops), nontrivial, map[string]any{"script": fmt.Sprint(ops), "classes": classes}, classes...)
		if res.Panicked {
			rt.Fatalf("panic in case %v: %v\n%s", ops, res.Value, res.Stack)
		}
		if len(w.fails) > 0 {
			rt.Fatalf("script %v\n%s", ops, strings.Join(w.fails, "\n"))
		}
		if res.Leak != "" {
			rt.Fatalf("script %v: bubble ended with blocked goroutines (%s)\n%s", ops, res.Leak, goroutineDump("utils."))
		}
	}
}

func TestC19Timers(t *testing.T) {
	col := NewCollector("TestC19Timers",
		"rapid: scripts of 2-14 operations over <=4 timers (SetTimeout/SetInterval with boundary-biased periods (0 ... 25 s, and periods of weeks to decades: 2^31-1 ms, 2^31 ms, 25 / 31 / 366 / 10000 days) and callback running times, Refresh, Stop, ClearTimeout/ClearInterval incl. nil, two concurrent cancellations, cancellation/refresh issued by another goroutine at exactly the due instant, advances to due-1ns/due/due+1ns/random) executed in a synctest bubble next to a reference model; oracle: callback start instants equal the model's exactly (a call racing with the due instant makes that one start optional), every cancellation returns in zero virtual time, no goroutine left after cancelling everything. non-trivial: the script contains an advance to within 1ns of a due instant, a refresh of a pending timer, a concurrent cancellation or an operation at the due instant").Use(t)
	rapid.Check(t, c19Property(t, col, false))
	col.RequireClasses(t, "advance.due-1", "advance.due", "advance.due+1", "refresh.pending", "refresh.fired-or-stopped", "concurrent-cancel", "clearAtDue", "refreshAtDue", "has-interval", "self-cancel-from-callback", "cancel-right-after-arm", "period-of-weeks-or-more", "advance-of-days")
}

func TestC19TimersGated(t *testing.T) {
	col := NewCollector("TestC19TimersGated",
		"as TestC19Timers, plus gate steps that park the interval goroutine between receiving its tick and re-arming (vhook timer.interval.tick) and cancel it inside that window, and park a canceller between stopping the runtime timer and signalling (vhook timer.Stop.stopped) while a second cancellation runs. non-trivial: as TestC19Timers or a gate fired").Use(t)
	rapid.Check(t, c19Property(t, col, true))
	col.RequireClasses(t, "gateTickClear", "gateTickPass", "gateStopDouble", "concurrent-refresh.fired-or-stopped", "gateTimeoutClear", "gateTimeoutPass", "gateTimeoutClearRefresh")
}

// TestC19IntervalTickWindow is the deterministic demonstration of the defect
// repaired by the "fix: ClearInterval racing with a tick" commit.
func TestC19IntervalTickWindow(t *testing.T) {
	col := NewCollector("TestC19IntervalTickWindow", "deterministic: interval of period p in {1ms,100ms}, parked in the tick window at tick k in {1,3}, ClearInterval inside the window, then 50 periods of virtual time; oracle: no callback starts after ClearInterval returned. every case is non-trivial").Use(t)
	for _, p := range []time.Duration{time.Millisecond, 100 * time.Millisecond} {
		for _, k := range []int{1, 3} {
			ops := []tOp{{Kind: "interval", I: 0, D: p}}
			for i := 1; i < k; i++ {
				ops = append(ops, tOp{Kind: "advance", Mode: "due", I: 0})
			}
			ops = append(ops, tOp{Kind: "gateTickClear", I: 0}, tOp{Kind: "advance", Mode: "rel", D: 50 * p})
			w := &c19World{stats: map[string]bool{}}
			res := bubble(t, func() { runC19(ops, w) })
			col.Case(fmt.Sprint(ops), true, map[string]any{"script": fmt.Sprint(ops), "failures": w.fails}, "tick-window")
			bad := len(w.fails) > 0 || res.Leak != "" || res.Panicked
			detail := ""
			if bad {
				detail = fmt.Sprintf("script %v: %v %s", ops, w.fails, res.Leak)
			}
			demoFinding(t, col, "C19", sigIntervalTick, bad, detail)
		}
	}
}

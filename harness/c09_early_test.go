package harness

// C09, early packets: a websocket / webtransport client does not have to wait for the open packet before it sends.
// The server's handshake is held inside the hand-off of the open packet (an application listener of the server's
// flush event that takes its time: no source hook needed) while the client's first packets arrive: the session is
// "open" for the reader goroutine, the handshake goroutine has not finished setting it up.

import (
	"fmt"
	"sort"
	"testing"
	"time"

	"github.com/zishang520/engine.io/v2/config"
	"github.com/zishang520/engine.io/v2/types"
	"pgregory.net/rapid"
)

type epCase struct {
	Carrier string // websocket | webtransport
	Rev     int
	Pkts    []string // pong | ping | message | close | upgrade | noop | probe | garbage | empty
	Early   bool     // websocket: the first packet travels with the opening request (already in the read buffer at the hijack)
	// HoldOpen: instead of the open packet's hand-off, the handshake goroutine is held at the yield point
	// socket.onOpen.open: the session has just been declared open (its open packet is queued), the server has not
	// registered it nor announced it to the application; the reader goroutine takes the client's packets
	HoldOpen bool
}

func (c epCase) String() string {
	return fmt.Sprintf("{%s rev%d early-packets=%v with-the-request=%v held-right-after-open=%v}", c.Carrier, c.Rev, c.Pkts, c.Early, c.HoldOpen)
}

func epPkt(k string) (Pkt, []byte) {
	switch k {
	case "pong":
		return ctl(tPong), nil
	case "ping":
		return ctl(tPing), nil
	case "probe":
		return ctlD(tPing, "probe"), nil
	case "message":
		return msgT("early"), nil
	case "close":
		return ctl(tClose), nil
	case "upgrade":
		return ctl(tUpgrade), nil
	case "noop":
		return ctl(tNoop), nil
	case "empty":
		return Pkt{}, []byte{}
	}
	return Pkt{}, []byte("9?")
}

func runEP(c epCase) (fail string, stats map[string]bool) {
	stats = map[string]bool{}
	o := config.DefaultServerOptions()
	o.SetAllowEIO3(true)
	o.SetTransports(types.NewSet("polling", "websocket", "webtransport"))
	o.SetPingInterval(5 * time.Second)
	o.SetPingTimeout(3 * time.Second)
	w := NewWorld(o)
	defer w.Teardown()
	aw := &advWorld{w: w, stats: stats}
	cs, why := doHandshake(w, c06HS{Carrier: "polling", EIO: "4"})
	if cs == nil {
		return "harness: canary: " + why, stats
	}
	aw.canary, aw.canarySR = cs.pc, w.Get(cs.pc.Sid)
	// the application's listener of the server's flush event takes its time for the next hand-off (the open packet)
	park := make(chan struct{})
	armed, parked := !c.HoldOpen, false
	var g *Gates
	var gp GatePoint
	if c.HoldOpen {
		g = InstallGates(nil)
		defer g.Uninstall()
		gp = GatePoint{"socket.onOpen.open", g.Count("socket.onOpen.open")}
		g.mu.Lock()
		g.plan[gp] = true
		g.mu.Unlock()
	}
	w.Srv.On("flush", func(...any) {
		if armed {
			armed = false
			parked = true
			<-park
		}
	})
	eio := "4"
	if c.Rev == 3 {
		eio = "3"
	}
	var wc *WSClient
	var tc *WTClient
	raw := func(k string) []byte {
		p, b := epPkt(k)
		if b != nil {
			return b
		}
		return encPacketFrame(c.Rev, false, p).Data
	}
	if c.Carrier == "websocket" {
		wc = &WSClient{W: w, O: ClientOpts{Rev: c.Rev, EIO: eio}}
		if c.Early && len(c.Pkts) > 0 {
			first := buildWSFrame(opText, true, false, raw(c.Pkts[0]), true, [4]byte{9, 8, 7, 6}, 0)
			wc.Mod = func(r *ReqSpec) { r.EarlyData = first }
			stats["first-packet-with-the-opening-request"] = true
		}
		wc.Start()
		Settle()
		wc.Pump()
	} else {
		tc = &WTClient{W: w, O: ClientOpts{Rev: 4}}
		tc.Start()
		Settle()
		tc.OpenBidi()
		tc.SendHandshake()
		Settle()
	}
	if parked {
		stats["packets-while-the-handshake-hands-over-the-open-packet"] = true
	}
	if g != nil {
		for _, p := range g.Parked() {
			if p == gp {
				stats["packets-to-an-open-session-the-server-has-not-registered-yet"] = true
			}
		}
	}
	for i, k := range c.Pkts {
		if c.Carrier == "websocket" && c.Early && i == 0 {
			continue
		}
		if wc != nil {
			wc.SendMessage(Frame{Data: raw(k)}, nil)
		} else {
			tc.SendFrameRaw(wtEncode(false, raw(k)))
		}
		Settle()
		stats["early."+k] = true
	}
	armed = false
	close(park)
	if g != nil {
		g.mu.Lock()
		delete(g.plan, gp)
		g.mu.Unlock()
		g.Release(gp)
	}
	Settle()
	// the session is either usable or properly closed; nobody else was disturbed
	var sr *SessRec
	if wc != nil {
		wc.Pump()
		if wc.Open != nil {
			sr = w.Get(wc.Sid)
		}
	} else {
		tc.Pump()
		if tc.Open != nil {
			sr = w.Get(tc.Sid)
		}
	}
	if sr == nil {
		// closed by one of the early packets before it was ever announced to the application
		stats["session-closed"] = true
		stats["session-closed-before-it-was-announced"] = true
	}
	if sr != nil {
		if len(sr.Closes) > 1 {
			return fmt.Sprintf("%d close events", len(sr.Closes)), stats
		}
		if len(sr.Closes) == 0 && sr.Sock.ReadyState() == "open" {
			stats["session-usable-afterwards"] = true
			n := len(sr.Msgs)
			if wc != nil {
				wc.SendPacket(msgT("after"), nil)
			} else {
				tc.SendPacket(msgT("after"))
			}
			Settle()
			if len(sr.Msgs) != n+1 && len(sr.Closes) == 0 {
				return "the session is open but no longer delivers client messages", stats
			}
		} else {
			stats["session-closed"] = true
		}
	}
	if f := aw.canaryOK("early packets"); f != "" {
		return f, stats
	}
	if wc != nil {
		wc.Drop()
	} else {
		tc.Drop()
	}
	Settle()
	return "", stats
}

func TestC09EarlyPackets(t *testing.T) {
	col := NewCollector("TestC09EarlyPackets",
		"rapid: a websocket / webtransport handshake (revision 3/4) whose hand-off of the open packet is held inside an application listener of the server's flush event (the session still being opened), or whose handshake goroutine is held at the yield point socket.onOpen.open (the session open, not yet registered nor announced), while the client, which need not wait for the open packet, sends 1-3 packets (pong, ping, probe ping, message, close, upgrade, noop, an empty frame, undecodable bytes; on websocket the first one may travel with the opening request); next to it a canary session; oracle: the process survives (a panic in a reader goroutine kills the test process and is attributed by the driver from the journal), the session is usable afterwards or closed exactly once, the canary is undisturbed, nothing is left behind when the client has gone. every case is non-trivial").Use(t)
	rapid.Check(t, func(rt *rapid.T) {
		c := epCase{Carrier: rapid.SampledFrom([]string{"websocket", "websocket", "webtransport"}).Draw(rt, "carrier"), Rev: 4}
		if c.Carrier == "websocket" && rapid.IntRange(0, 2).Draw(rt, "rev3") == 0 {
			c.Rev = 3
		}
		c.Pkts = rapid.SliceOfN(rapid.SampledFrom([]string{"pong", "pong", "ping", "ping", "probe", "message", "close", "upgrade", "noop", "garbage", "empty"}), 1, 3).Draw(rt, "pkts")
		c.Early = c.Carrier == "websocket" && rapid.IntRange(0, 2).Draw(rt, "early") == 0
		c.HoldOpen = !c.Early && rapid.Bool().Draw(rt, "heldRightAfterOpen")
		journal("C09 early packets %v", c)
		var fail string
		var stats map[string]bool
		res := bubble(t, func() { fail, stats = runEP(c) })
		var cl []string
		for k := range stats {
			cl = append(cl, k)
		}
		sort.Strings(cl)
		col.Case(c.String(), true, map[string]any{"case": c.String()}, cl...)
		res.rethrow()
		if fail != "" {
			rt.Fatalf("%v: %s", c, clipStr(fail, 2000))
		}
		if res.Leak != "" {
			rt.Fatalf("%v: goroutines left after the client had gone: %s", c, clipStr(res.Leak, 3000))
		}
	})
	col.RequireClasses(t, "packets-to-an-open-session-the-server-has-not-registered-yet", "packets-while-the-handshake-hands-over-the-open-packet", "early.pong", "early.ping", "early.message", "first-packet-with-the-opening-request", "session-usable-afterwards", "session-closed")
}

package harness

// C18, callback chains: batches of Sends with callbacks whose callbacks
// themselves call Send (with a callback) and may take their time. The order
// clause is about Send calls in real time: a Send issued from inside a
// callback was issued after every Send of the batch being acknowledged, so
// its callback runs after theirs.

import (
	"fmt"
	"runtime"
	"sort"
	"strings"
	"testing"
	"time"

	"github.com/zishang520/engine.io/v2/config"
	"github.com/zishang520/engine.io/v2/types"
	"pgregory.net/rapid"
)

type chCase struct {
	// polling | websocket | webtransport | up-websocket | up-webtransport (conformant upgrade first) |
	// eager-websocket | eager-webtransport: an eager client switches while its poll's response, carrying a Send with
	// a callback, is still being written (the polling writer is held), another Send with a callback being buffered |
	// fast-polling: a polling client that polls again the moment a response has arrived, while the server goroutine
	// that wrote the response has not come back from its write: two hand-offs (and their callback groups) are
	// outstanding at once
	Carrier string
	Rev     int
	Batches [][]string // per batch, per Send: plain | resend | linger | resendLinger | nocb | closer (its callback closes the session: Close(true))
	Hold    bool       // ws/wt: hold the writer goroutine at its first statement while the batch is buffered
}

func (c chCase) String() string {
	return fmt.Sprintf("{%s rev%d hold=%v batches=%v}", c.Carrier, c.Rev, c.Hold, c.Batches)
}

func genCH(rt *rapid.T) chCase {
	c := chCase{Rev: 4}
	c.Carrier = rapid.SampledFrom([]string{"polling", "websocket", "websocket", "webtransport", "up-websocket", "up-webtransport", "eager-websocket", "eager-webtransport", "fast-polling"}).Draw(rt, "carrier")
	if !strings.Contains(c.Carrier, "webtransport") && rapid.IntRange(0, 3).Draw(rt, "rev3") == 0 {
		c.Rev = 3
	}
	// websocket/webtransport: the writer goroutine is always held while the root goroutine issues the batch, so that
	// every Send of the batch precedes, in real time, every Send issued from a callback (without the hold the root's
	// Sends and the callbacks' Sends are concurrent and only their per-goroutine order is defined)
	c.Hold = true
	nb := rapid.IntRange(1, 3).Draw(rt, "nbatches")
	for b := 0; b < nb; b++ {
		n := rapid.IntRange(1, 4).Draw(rt, fmt.Sprintf("b%d.n", b))
		var batch []string
		for i := 0; i < n; i++ {
			batch = append(batch, rapid.SampledFrom([]string{"plain", "plain", "resend", "linger", "resendLinger", "resendLinger", "nocb", "closer"}).Draw(rt, fmt.Sprintf("b%d.%d", b, i)))
		}
		c.Batches = append(c.Batches, batch)
	}
	return c
}

// linger keeps a callback busy while every other runnable goroutine gets the processor many times. (Not
// time.Sleep: where the library runs callbacks under one of its mutexes, a goroutine waiting for that mutex is
// not durably blocked and the bubble's clock could never advance.)
func linger() {
	for k := 0; k < 3000; k++ {
		runtime.Gosched()
	}
}

func runCH(c chCase) (fail string, stats map[string]bool) {
	stats = map[string]bool{}
	o := config.DefaultServerOptions()
	o.SetAllowEIO3(true)
	o.SetTransports(types.NewSet("polling", "websocket", "webtransport"))
	o.SetPingInterval(10 * time.Minute)
	o.SetPingTimeout(10 * time.Minute)
	w := NewWorld(o)
	defer w.Teardown()
	eio := "4"
	if c.Rev == 3 {
		eio = "3"
	}
	car := strings.TrimPrefix(strings.TrimPrefix(c.Carrier, "up-"), "eager-")
	eager := strings.HasPrefix(c.Carrier, "eager-")
	fast := c.Carrier == "fast-polling"
	if fast {
		car = "polling"
	}
	var s *c06Sess
	if eager {
		var why string
		s, why = doHandshake(w, c06HS{Carrier: "polling", EIO: eio})
		if s == nil {
			return "harness: handshake: " + why, stats
		}
	} else if strings.HasPrefix(c.Carrier, "up-") {
		var why string
		s, why = doHandshake(w, c06HS{Carrier: "polling", EIO: eio})
		if s == nil {
			return "harness: handshake: " + why, stats
		}
		wc, tc, err := Upgrade(w, s.pc, car)
		if err != nil {
			return "conformant upgrade: " + err.Error(), stats
		}
		s = &c06Sess{wc: wc, tc: tc, open: s.open}
	} else {
		var why string
		s, why = doHandshake(w, c06HS{Carrier: car, EIO: eio})
		if s == nil {
			return "harness: handshake: " + why, stats
		}
	}
	sr := w.Get(s.open.Sid)
	cl := hbClient{s: s}
	var g *Gates
	if c.Hold && car != "polling" {
		g = InstallGates(nil)
		defer g.Uninstall()
	}
	var oldPC *PollClient
	closedByCallback := false
	behaviour := map[int]string{} // tag -> what its callback does
	seq := 0
	var sentAll []Pkt
	send := func(kind string) {
		seq++
		p := msgT(fmt.Sprintf("m%d", seq))
		w.mu.Lock()
		behaviour[w.nextTag] = kind
		sentAll = append(sentAll, p)
		w.mu.Unlock()
		w.AppSend(sr, p, nil, kind != "nocb", 0)
	}
	w.CbHook = func(sm *SentMsg) {
		w.mu.Lock()
		kind := behaviour[sm.Tag]
		w.mu.Unlock()
		switch kind {
		case "resend":
			stats["send-from-callback"] = true
			send("plain")
		case "closer":
			// the application has had enough: callbacks of the same hand-off that have not run yet must not
			// run after the close event
			stats["session-closed-from-a-send-callback"] = true
			closedByCallback = true
			sr.Sock.Close(true)
		case "linger":
			linger()
		case "resendLinger":
			stats["send-from-callback"] = true
			stats["send-from-lingering-callback"] = true
			send("plain")
			linger()
		}
	}
	if eager {
		pc := s.pc
		oldPC = pc
		if pc.Poll == nil {
			pc.StartPoll()
			Settle()
		}
		gpp := GatePoint{"polling.send.start", g.Count("polling.send.start")}
		g.mu.Lock()
		g.plan[gpp] = true
		g.mu.Unlock()
		send("plain") // handed to the pending poll; the polling writer is held before it writes the response
		Settle()
		held := false
		for _, p := range g.Parked() {
			if p == gpp {
				held = true
			}
		}
		send("plain") // buffered behind it
		wc, tc, err := eagerUpgrade(w, pc, car)
		if err != nil {
			return "eager upgrade: " + err.Error(), stats
		}
		if held {
			stats["switch-while-a-poll-response-with-a-callback-is-being-written"] = true
		}
		send("plain") // goes out on the new transport
		Settle()
		g.mu.Lock()
		delete(g.plan, gpp)
		g.mu.Unlock()
		g.Release(gpp)
		Settle()
		pc.Pump()
		s = &c06Sess{wc: wc, tc: tc, open: s.open}
		cl = hbClient{s: s}
		ev := map[string]bool{}
		if f := eventStructure(w, sr, ev); f != "" {
			return "eager upgrade: " + f, stats
		}
	}
	for bi, batch := range c.Batches {
		what := fmt.Sprintf("batch %d %v", bi, batch)
		var gp GatePoint
		held := false
		switch {
		case car == "polling":
			// no poll pending: the Sends are buffered together and leave with the next poll
			if s.pc.Poll != nil {
				send("nocb")
				Settle()
				s.pc.Pump()
			}
		case g != nil:
			site := map[string]string{"websocket": "ws.send.start", "webtransport": "wt.send.start"}[car]
			gp = GatePoint{site, g.Count(site)}
			g.mu.Lock()
			g.plan[gp] = true
			g.mu.Unlock()
			send("nocb") // the writer goroutine takes this one and is held; the batch queues up behind it
			Settle()
			for _, p := range g.Parked() {
				if p == gp {
					held = true
				}
			}
		}
		if fast && len(batch) >= 2 {
			// the first half leaves with a poll whose response reaches the client in full while the goroutine that
			// wrote it is still inside its Write; the client polls again at once and takes the second half
			half := len(batch) / 2
			for _, k := range batch[:half] {
				send(k)
			}
			hold := make(chan struct{})
			first := s.pc.StartPollMod(func(r *ReqSpec) { r.HoldAfterBody = hold })
			Settle()
			first.mu.Lock()
			heldBody := first.HeldBody
			first.mu.Unlock()
			s.pc.Pump()
			for _, k := range batch[half:] {
				send(k)
			}
			if heldBody {
				w.OverlappingHandOffs = true
				stats["next-poll-served-before-the-previous-response's-writer-came-back"] = true
			}
			// the second poll's hand-off waits for the transport's send lock, which the first writer still holds: a
			// goroutine waiting for a mutex never counts as quiescent, so give everybody the processor instead
			s.pc.StartPoll()
			linger()
			close(hold)
			Settle()
			s.pc.Pump()
			batch = nil
		}
		for _, k := range batch {
			send(k)
		}
		if held {
			stats["batch-buffered-behind-held-writer"] = true
		} else if g != nil {
			return "harness: the writer goroutine did not reach its yield point", stats
		}
		if g != nil {
			g.mu.Lock()
			delete(g.plan, gp)
			g.mu.Unlock()
			g.Release(gp)
		}
		Settle()
		for i := 0; i < 6; i++ {
			cl.keepPolling()
			time.Sleep(10 * time.Millisecond)
			Settle()
		}
		if closedByCallback {
			// closed by one of its callbacks: exactly one close event, and nothing of the session after it
			time.Sleep(time.Second)
			Settle()
			if len(sr.Closes) != 1 || sr.Closes[0] != "forced close" {
				return fmt.Sprintf("%s: a send callback called Close(true): close events %v", what, sr.Closes), stats
			}
			w.mu.Lock()
			closeAt, late := -1, ""
			for k, e := range sr.Events {
				if e.Name == "close" && closeAt < 0 {
					closeAt = k
				} else if closeAt >= 0 && e.Name == "callback" && late == "" {
					late = fmt.Sprint(e)
				}
			}
			w.mu.Unlock()
			if late != "" {
				return fmt.Sprintf("%s: a send callback ran after the close event (another callback of the same hand-off had closed the session): %s", what, late), stats
			}
			ev := map[string]bool{}
			if f := eventStructure(w, sr, ev); f != "" {
				return what + ": " + f, stats
			}
			stats["carrier."+c.Carrier] = true
			return "", stats
		}
		if len(sr.Closes) > 0 {
			return fmt.Sprintf("%s: session closed (%v) without any cause", what, sr.Closes), stats
		}
		ev := map[string]bool{}
		if f := eventStructure(w, sr, ev); f != "" {
			return what + ": " + f, stats
		}
		for k := range ev {
			stats["ev."+k] = true
		}
	}
	for i := 0; i < 10; i++ {
		cl.keepPolling()
		time.Sleep(20 * time.Millisecond)
		Settle()
	}
	// everything sent has arrived, every callback has run exactly once
	var got []Pkt
	if oldPC != nil {
		// what the eager client's last poll brought
		for _, p := range oldPC.Recv {
			if p.Type == tMessage {
				got = append(got, p)
			}
		}
	}
	for _, p := range s.recv() {
		if p.Type == tMessage {
			got = append(got, p)
		}
	}
	w.mu.Lock()
	want := append([]Pkt(nil), sentAll...)
	w.mu.Unlock()
	if len(got) != len(want) {
		return fmt.Sprintf("client received %d of %d messages: %s", len(got), len(want), pktsString(got)), stats
	}
	for _, sm := range sr.Sent {
		if eager {
			// callbacks of batches that were in flight on the transport the eager client abandoned may be lost;
			// the structure (at most once, after the flush, in order) is checked below
			break
		}
		if sm.HasCb && len(sm.CbAt) != 1 {
			return fmt.Sprintf("callback of Send #%d ran %d times although the session is open and the client has read everything", sm.Tag, len(sm.CbAt)), stats
		}
	}
	ev := map[string]bool{}
	if f := eventStructure(w, sr, ev); f != "" {
		return "end: " + f, stats
	}
	stats["carrier."+c.Carrier] = true
	return "", stats
}

func TestC18CallbackChains(t *testing.T) {
	col := NewCollector("TestC18CallbackChains",
		"rapid: a session on polling/websocket/webtransport (direct or upgraded; revision 3/4) and 1-3 batches of 1-4 Sends buffered together (polling: no poll pending; websocket/webtransport: behind a writer goroutine held at its first statement) whose callbacks do nothing, call Send with a callback of their own, stay busy for a few thousand scheduler yields, or both; oracle: the event-structure invariants of TestC18Events (flush/drain pairing, packetCreate once and first, callback at most once and after its batch's flush, callbacks in the order of the Send calls: a Send issued inside a callback comes after every Send of the acknowledged batch) and, the session being open and the client reading, every message arrives and every callback has run exactly once. non-trivial: a batch of >=2 packets with a callback that sends").Use(t)
	rapid.Check(t, func(rt *rapid.T) {
		c := genCH(rt)
		journal("C18ch %v", c)
		var fail string
		var stats map[string]bool
		res := bubble(t, func() { fail, stats = runCH(c) })
		var cl []string
		for k := range stats {
			cl = append(cl, k)
		}
		sort.Strings(cl)
		col.Case(c.String(), stats["ev.batch>=2"] && stats["send-from-callback"], map[string]any{"case": c.String(), "classes": strings.Join(cl, " ")}, cl...)
		res.rethrow()
		if fail != "" {
			rt.Fatalf("%v\n%s", c, clipStr(fail, 1500))
		}
		if res.Leak != "" {
			rt.Fatalf("%v: %s", c, clipStr(res.Leak, 1500))
		}
	})
	col.RequireClasses(t, "next-poll-served-before-the-previous-response's-writer-came-back", "carrier.fast-polling", "ev.batch>=2", "send-from-lingering-callback", "batch-buffered-behind-held-writer", "carrier.polling", "carrier.websocket", "carrier.webtransport", "carrier.up-websocket", "carrier.eager-websocket", "carrier.eager-webtransport", "switch-while-a-poll-response-with-a-callback-is-being-written", "session-closed-from-a-send-callback")
}

// eagerUpgrade: the candidate probes, gets its pong and sends the upgrade packet at once, without waiting for the
// client's poll to come back (a client that does not pause its polling transport first).
func eagerUpgrade(w *World, pc *PollClient, kind string) (*WSClient, *WTClient, error) {
	sr := w.Get(pc.Sid)
	var wc *WSClient
	var tc *WTClient
	if kind == "websocket" {
		wc = &WSClient{W: w, O: ClientOpts{Rev: pc.O.Rev, EIO: pc.O.EIO, B64: pc.O.B64}, Sid: pc.Sid}
		wc.Start()
		Settle()
		wc.Pump()
		if wc.HTTPStatus != 101 {
			return nil, nil, fmt.Errorf("candidate websocket not accepted: status %d", wc.HTTPStatus)
		}
		wc.SendPacket(ctlD(tPing, "probe"), nil)
	} else {
		tc = &WTClient{W: w, O: ClientOpts{Rev: 4}, Sid: pc.Sid}
		tc.Start()
		Settle()
		tc.OpenBidi()
		tc.SendHandshake()
		Settle()
		tc.SendPacket(ctlD(tPing, "probe"))
	}
	Settle()
	var r []Pkt
	if wc != nil {
		wc.Pump()
		r = wc.Recv
	} else {
		tc.Pump()
		r = tc.Recv
	}
	if len(r) == 0 || r[len(r)-1].Type != tPong {
		return wc, tc, fmt.Errorf("probe not answered with a probe pong: candidate received %v", r)
	}
	if wc != nil {
		wc.SendPacket(ctl(tUpgrade), nil)
	} else {
		tc.SendPacket(ctl(tUpgrade))
	}
	Settle()
	if got := sr.Sock.Transport().Name(); got != kind {
		return wc, tc, fmt.Errorf("after the upgrade packet the session's transport is %q", got)
	}
	return wc, tc, nil
}

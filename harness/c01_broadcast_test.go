package harness

// C01, broadcast family: the application sends the same message to several
// sessions, sharing one packet.Options value (and therefore one pre-encoded
// WebSocket frame) between all recipients, which is how socket.io's adapter
// uses the option: the frame is encoded once, the data reader is cloned per
// recipient. Every recipient must receive every message exactly once, intact
// and in order, whatever mixture of transports the recipients use.

import (
	"fmt"
	"net/http"
	"sort"
	"strings"
	"testing"
	"time"

	"github.com/zishang520/engine.io-go-parser/packet"
	"github.com/zishang520/engine.io/v2/config"
	"github.com/zishang520/engine.io/v2/types"
	"pgregory.net/rapid"
)

type bcSess struct {
	Carrier string // polling | jsonp | websocket | webtransport | up-websocket | up-webtransport
	Rev     int
	B64     bool
}

type bcMsg struct {
	Bin    bool
	Size   int
	Opt    string // nil | compress | nocompress | preencoded (text only, as socket.io)
	Order  []int  // order in which the recipients are served
	PollAt int    // after this message every polling client polls (0/1)
}

type bcCase struct {
	Sess      []bcSess
	Msgs      []bcMsg
	PMDeflate int
}

func (c bcCase) String() string {
	return fmt.Sprintf("{sessions=%+v perMessageDeflate=%d msgs=%+v}", c.Sess, c.PMDeflate, c.Msgs)
}

func genBC(rt *rapid.T) bcCase {
	c := bcCase{}
	n := rapid.IntRange(2, 4).Draw(rt, "nsess")
	for i := 0; i < n; i++ {
		l := fmt.Sprintf("sess%d", i)
		s := bcSess{Rev: 4}
		s.Carrier = rapid.SampledFrom([]string{"websocket", "websocket", "polling", "jsonp", "webtransport", "up-websocket", "up-webtransport"}).Draw(rt, l+".carrier")
		if !strings.Contains(s.Carrier, "webtransport") && rapid.IntRange(0, 3).Draw(rt, l+".rev3") == 0 {
			s.Rev = 3
		}
		s.B64 = s.Carrier == "jsonp" || rapid.IntRange(0, 3).Draw(rt, l+".b64") == 0
		c.Sess = append(c.Sess, s)
	}
	c.PMDeflate = rapid.SampledFrom([]int{-1, -1, -1, 0, 1024}).Draw(rt, "pmd")
	m := rapid.IntRange(1, 8).Draw(rt, "nmsgs")
	for i := 0; i < m; i++ {
		l := fmt.Sprintf("m%d", i)
		b := bcMsg{}
		b.Bin = rapid.IntRange(0, 3).Draw(rt, l+".bin") == 0
		if rapid.IntRange(0, 4).Draw(rt, l+".big") == 0 {
			b.Size = rapid.SampledFrom(c01Sizes).Draw(rt, l+".size")
		} else {
			b.Size = rapid.IntRange(0, 60).Draw(rt, l+".small")
		}
		b.Opt = rapid.SampledFrom([]string{"nil", "compress", "nocompress", "preencoded", "preencoded"}).Draw(rt, l+".opt")
		if b.Bin && b.Opt == "preencoded" {
			b.Opt = "compress"
		}
		b.Order = rapid.Permutation(seqInts(n)).Draw(rt, l+".order")
		b.PollAt = rapid.IntRange(0, 1).Draw(rt, l+".poll")
		c.Msgs = append(c.Msgs, b)
	}
	return c
}

func seqInts(n int) []int {
	out := make([]int, n)
	for i := range out {
		out[i] = i
	}
	return out
}

type bcClient struct {
	s    bcSess
	pc   *PollClient
	wc   *WSClient
	tc   *WTClient
	cur  string
	sr   *SessRec
	recv []Pkt
	off  [3]int
}

func (b *bcClient) pump() string {
	take := func(i int, msgs []Pkt) {
		b.recv = append(b.recv, msgs[b.off[i]:]...)
		b.off[i] = len(msgs)
	}
	if b.pc != nil {
		b.pc.Pump()
		take(0, b.pc.Msgs)
		if len(b.pc.Errs) > 0 {
			return fmt.Sprintf("polling client: %v", b.pc.Errs)
		}
	}
	if b.wc != nil {
		b.wc.Pump()
		take(1, b.wc.Msgs)
		if len(b.wc.Errs) > 0 {
			return fmt.Sprintf("websocket client: %v", b.wc.Errs)
		}
	}
	if b.tc != nil {
		b.tc.Pump()
		take(2, b.tc.Msgs)
		if len(b.tc.Errs) > 0 {
			return fmt.Sprintf("webtransport client: %v", b.tc.Errs)
		}
	}
	return ""
}

func (b *bcClient) read() string {
	if b.cur == "polling" && !b.pc.Closed {
		for i := 0; i < 3; i++ {
			if f := b.pump(); f != "" {
				return f
			}
			if b.pc.Poll != nil || len(b.sr.Closes) > 0 {
				break
			}
			b.pc.StartPoll()
			Settle()
		}
	}
	return b.pump()
}

func runBC(c bcCase) (fail string, stats map[string]bool) {
	stats = map[string]bool{}
	o := config.DefaultServerOptions()
	o.SetAllowEIO3(true)
	o.SetTransports(types.NewSet("polling", "websocket", "webtransport"))
	o.SetPingInterval(10 * time.Minute)
	o.SetPingTimeout(10 * time.Minute)
	if c.PMDeflate >= 0 {
		o.SetPerMessageDeflate(&types.PerMessageDeflate{Threshold: c.PMDeflate})
	}
	w := NewWorld(o)
	defer w.Teardown()
	var cl []*bcClient
	for i, s := range c.Sess {
		b := &bcClient{s: s}
		eio := "4"
		if s.Rev == 3 {
			eio = "3"
		}
		stats["carrier."+s.Carrier] = true
		switch s.Carrier {
		case "websocket":
			wc := &WSClient{W: w, O: ClientOpts{Rev: s.Rev, EIO: eio, B64: s.B64}, OfferDeflate: c.PMDeflate >= 0}
			wc.Start()
			Settle()
			wc.Pump()
			if wc.Open == nil {
				return fmt.Sprintf("harness: session %d: websocket handshake failed (%d %v)", i, wc.HTTPStatus, wc.Errs), stats
			}
			b.wc, b.cur = wc, "websocket"
			b.sr = w.Get(wc.Sid)
		case "webtransport":
			tc := &WTClient{W: w, O: ClientOpts{Rev: 4, B64: s.B64}}
			tc.Start()
			Settle()
			tc.OpenBidi()
			tc.SendHandshake()
			Settle()
			tc.Pump()
			if tc.Open == nil {
				return fmt.Sprintf("harness: session %d: webtransport handshake failed", i), stats
			}
			b.tc, b.cur = tc, "webtransport"
			b.sr = w.Get(tc.Sid)
		default:
			pc := &PollClient{W: w, O: ClientOpts{Rev: s.Rev, EIO: eio, B64: s.B64, JSONP: s.Carrier == "jsonp", J: "3", Extra: http.Header{}}}
			pc.StartHandshake()
			Settle()
			if err := pc.FinishHandshake(); err != nil {
				return fmt.Sprintf("harness: session %d: handshake: %v", i, err), stats
			}
			b.pc, b.cur = pc, "polling"
			b.sr = w.Get(pc.Sid)
			if strings.HasPrefix(s.Carrier, "up-") {
				to := strings.TrimPrefix(s.Carrier, "up-")
				wc, tc, err := Upgrade(w, pc, to)
				if err != nil {
					return fmt.Sprintf("session %d: conformant upgrade failed: %v", i, err), stats
				}
				b.wc, b.tc, b.cur = wc, tc, to
			}
		}
		cl = append(cl, b)
	}
	var sent []Pkt
	for mi, m := range c.Msgs {
		p := c01Payload(0, mi, m.Size, m.Bin, true)
		sent = append(sent, p)
		var opts *packet.Options
		switch m.Opt {
		case "compress":
			opts = &packet.Options{Compress: true}
		case "nocompress":
			opts = &packet.Options{Compress: false}
		case "preencoded":
			// the text frame is the same for every revision and base64 mode: "4" + data
			fr := encPacketFrame(4, false, p)
			opts = &packet.Options{Compress: true, WsPreEncodedFrame: types.NewStringBuffer(append([]byte(nil), fr.Data...))}
			stats["preencoded-shared"] = true
		}
		for _, si := range m.Order {
			b := cl[si]
			w.AppSend(b.sr, p, opts, false, 0)
		}
		Settle()
		for si, b := range cl {
			var f string
			if m.PollAt == 1 {
				f = b.read()
			} else {
				f = b.pump()
			}
			if f == "" && !isPrefix(b.recv, sent) {
				f = fmt.Sprintf("received %s, broadcast so far %s", pktsString(b.recv), pktsString(sent))
			}
			if f != "" {
				return fmt.Sprintf("message %d, recipient %d (%+v): %s", mi, si, b.s, f), stats
			}
			if len(b.sr.Closes) > 0 {
				return fmt.Sprintf("message %d: recipient %d (%+v) closed (%v) without any cause", mi, si, b.s, b.sr.Closes), stats
			}
		}
	}
	for si, b := range cl {
		for i := 0; i < 40 && len(b.recv) < len(sent); i++ {
			if f := b.read(); f != "" {
				return fmt.Sprintf("final drain, recipient %d (%+v): %s", si, b.s, f), stats
			}
			time.Sleep(50 * time.Millisecond)
			Settle()
		}
		if !pktsEqual(b.recv, sent) {
			return fmt.Sprintf("recipient %d (%+v) received %s; broadcast %s", si, b.s, pktsString(b.recv), pktsString(sent)), stats
		}
	}
	nws := 0
	for _, b := range cl {
		if b.cur == "websocket" {
			nws++
		}
	}
	if nws >= 2 && stats["preencoded-shared"] && c.PMDeflate < 0 {
		stats["preencoded-frame-shared-by>=2-websocket-recipients"] = true
	}
	if len(sent) >= 2 {
		stats[">=2-messages"] = true
	}
	return "", stats
}

func TestC01Broadcast(t *testing.T) {
	col := NewCollector("TestC01Broadcast",
		"rapid: 2-4 sessions on a drawn mixture of polling/JSONP/WebSocket/WebTransport/upgraded-to-WebSocket/upgraded-to-WebTransport x revision x b64; 1-8 messages, each passed to Send on every session in a drawn recipient order with ONE shared packet.Options value (nil / Compress true/false / a pre-encoded text frame shared by all recipients, as socket.io's adapter does) and a data reader cloned per recipient; polling recipients poll after a drawn subset of the messages; oracle: every recipient's decoded messages are a prefix of the broadcast list at every quiescent point and equal to it at the end, nobody closes. non-trivial: >=2 messages and a pre-encoded frame shared by >=2 recipients on a WebSocket transport").Use(t)
	rapid.Check(t, func(rt *rapid.T) {
		c := genBC(rt)
		journal("C01bc %v", c)
		var fail string
		var stats map[string]bool
		res := bubble(t, func() { fail, stats = runBC(c) })
		var cls []string
		for k := range stats {
			cls = append(cls, k)
		}
		sort.Strings(cls)
		col.Case(c.String(), stats[">=2-messages"] && stats["preencoded-frame-shared-by>=2-websocket-recipients"], map[string]any{"case": clipStr(c.String(), 900)}, cls...)
		res.rethrow()
		if fail != "" {
			rt.Fatalf("%v\n%s", clipStr(c.String(), 2500), clipStr(fail, 2000))
		}
		if res.Leak != "" {
			rt.Fatalf("%v: %s", clipStr(c.String(), 1200), clipStr(res.Leak, 1500))
		}
	})
	col.RequireClasses(t, "carrier.websocket", "carrier.polling", "carrier.webtransport", "carrier.up-websocket", "preencoded-frame-shared-by>=2-websocket-recipients")
}

package harness

// C08, a candidate that goes away while the session attaches to it: MaybeUpgrade has marked the session as
// upgrading and attached the candidate's packet listener (its reader goroutine runs from then on); the attempt's
// close and error listeners come next. The handshake goroutine is held at the yield point
// socket.MaybeUpgrade.reading while the candidate's connection ends or fails; "Upgrading() is true exactly while a
// candidate is entertained" and the next candidate is entertained at once.

import (
	"fmt"
	"testing"
	"time"

	"github.com/zishang520/engine.io/v2/config"
	"github.com/zishang520/engine.io/v2/types"
	"pgregory.net/rapid"
)

const sigCandidateLostWhileAttaching = "candidate-ending-while-its-listeners-are-attached-leaves-the-session-upgrading"

type caCase struct {
	Rev   int
	To    string // websocket | webtransport
	What  string // drop | garbage | probe | nothing : what the candidate does while the server is held
	Then  string // upgradeNow | wait : afterwards a fresh conformant upgrade at once, or after the attempt's timeout
	Again string // transport of the second, conformant candidate
}

func (c caCase) String() string {
	return fmt.Sprintf("{rev%d candidate=%s while-being-attached=%s then=%s(%s)}", c.Rev, c.To, c.What, c.Then, c.Again)
}

func runCA(c caCase) (fail string, stats map[string]bool) {
	stats = map[string]bool{}
	o := config.DefaultServerOptions()
	o.SetAllowEIO3(true)
	o.SetTransports(types.NewSet("polling", "websocket", "webtransport"))
	o.SetPingInterval(10 * time.Minute)
	o.SetPingTimeout(10 * time.Minute)
	o.SetUpgradeTimeout(5 * time.Second)
	w := NewWorld(o)
	defer w.Teardown()
	g := InstallGates(nil)
	defer g.Uninstall()
	eio := fmt.Sprint(c.Rev)
	pc := &PollClient{W: w, O: ClientOpts{Rev: c.Rev, EIO: eio}}
	pc.StartHandshake()
	Settle()
	if err := pc.FinishHandshake(); err != nil {
		return "harness: " + err.Error(), stats
	}
	sr := w.Get(pc.Sid)
	pc.StartPoll()
	Settle()
	gp := GatePoint{"socket.MaybeUpgrade.reading", g.Count("socket.MaybeUpgrade.reading")}
	g.mu.Lock()
	g.plan[gp] = true
	g.mu.Unlock()
	var wc *WSClient
	var tc *WTClient
	if c.To == "websocket" {
		wc = &WSClient{W: w, O: ClientOpts{Rev: c.Rev, EIO: eio}, Sid: pc.Sid}
		wc.Start()
		Settle()
		wc.Pump()
	} else {
		tc = &WTClient{W: w, O: ClientOpts{Rev: 4}, Sid: pc.Sid}
		tc.Start()
		Settle()
		tc.OpenBidi()
		tc.SendHandshake()
		Settle()
	}
	parked := false
	for _, p := range g.Parked() {
		if p == gp {
			parked = true
		}
	}
	if !parked {
		return "harness: the candidate did not reach the yield point", stats
	}
	stats["candidate-acts-while-the-session-attaches-to-it"] = true
	if !sr.Sock.Upgrading() {
		return "a candidate is being entertained and Upgrading() is false", stats
	}
	sendRaw := func(b []byte) {
		if wc != nil {
			wc.SendMessage(Frame{Data: b}, nil)
		} else {
			tc.SendFrameRaw(wtEncode(false, b))
		}
	}
	gone := false
	switch c.What {
	case "drop":
		if wc != nil {
			wc.Drop()
		} else {
			tc.Drop()
		}
		gone = true
	case "garbage":
		// an undecodable packet: the attempt fails
		sendRaw([]byte("9?"))
		gone = true
	case "probe":
		sendRaw(encPacketFrame(c.Rev, false, ctlD(tPing, "probe")).Data)
	}
	Settle()
	g.mu.Lock()
	delete(g.plan, gp)
	g.mu.Unlock()
	g.Release(gp)
	Settle()
	stats["while-attaching."+c.What] = true
	if len(sr.Closes) != 0 {
		return fmt.Sprintf("the session closed (%v)", sr.Closes), stats
	}
	if gone {
		if sr.Sock.Upgrading() {
			return fmt.Sprintf("the candidate %s while the session was attaching to it; no candidate is being entertained any more and Upgrading() is still true", map[string]string{"drop": "went away", "garbage": "sent an undecodable packet"}[c.What]), stats
		}
	} else if !sr.Sock.Upgrading() {
		return "the candidate is still there and Upgrading() is false", stats
	}
	if !gone {
		// let go of the first candidate by the book
		if wc != nil {
			wc.Drop()
		} else {
			tc.Drop()
		}
		Settle()
		if sr.Sock.Upgrading() {
			return "the candidate went away and Upgrading() is still true", stats
		}
	}
	if c.Then == "wait" {
		time.Sleep(5*time.Second + time.Millisecond)
		Settle()
		pc.Pump()
		if len(sr.Closes) != 0 {
			return fmt.Sprintf("the session closed (%v) when the abandoned attempt's timeout came due", sr.Closes), stats
		}
	}
	// the session is still on polling and a conformant upgrade succeeds
	if got := sr.Sock.Transport().Name(); got != "polling" {
		return fmt.Sprintf("the session's transport is %q", got), stats
	}
	pc.Pump()
	wc2, tc2, err := Upgrade(w, pc, c.Again)
	if err != nil || sr.Sock.Transport().Name() != c.Again {
		return fmt.Sprintf("a conformant upgrade to %s after the failed attempt: %v (transport %s, upgrading=%v)", c.Again, err, sr.Sock.Transport().Name(), sr.Sock.Upgrading()), stats
	}
	n := len(sr.Msgs)
	if wc2 != nil {
		wc2.SendPacket(msgT("after"), nil)
	} else {
		tc2.SendPacket(msgT("after"))
	}
	Settle()
	if len(sr.Msgs) != n+1 {
		return "the upgraded session does not deliver messages", stats
	}
	if wc2 != nil {
		wc2.Drop()
	} else {
		tc2.Drop()
	}
	Settle()
	return "", stats
}

func TestC08CandidateWhileAttaching(t *testing.T) {
	col := NewCollector("TestC08CandidateWhileAttaching",
		"rapid: a polling session (revision 3/4) and a websocket / webtransport candidate; the server goroutine that entertains it is held at the yield point socket.MaybeUpgrade.reading (session marked upgrading, the candidate's packet listener attached and its reader running, the attempt's close and error listeners not yet) while the candidate goes away, sends an undecodable packet, sends its probe, or does nothing; then a fresh conformant upgrade at once or after the abandoned attempt's timeout; oracle: Upgrading() is true exactly while a candidate is entertained, the session stays open on polling, the fresh upgrade succeeds and traffic flows. every case is non-trivial").Use(t)
	known := isKnown("C08", sigCandidateLostWhileAttaching)
	rapid.Check(t, func(rt *rapid.T) {
		c := caCase{Rev: 4, To: rapid.SampledFrom([]string{"websocket", "webtransport"}).Draw(rt, "to")}
		if c.To == "websocket" && rapid.IntRange(0, 2).Draw(rt, "rev3") == 0 {
			c.Rev = 3
		}
		c.What = rapid.SampledFrom([]string{"drop", "drop", "garbage", "probe", "nothing"}).Draw(rt, "what")
		if known && (c.What == "drop" || c.What == "garbage") {
			col.Exclude("candidate ending while being attached (known finding " + sigCandidateLostWhileAttaching + ")")
			c.What = "probe"
		}
		c.Then = rapid.SampledFrom([]string{"upgradeNow", "upgradeNow", "wait"}).Draw(rt, "then")
		c.Again = rapid.SampledFrom([]string{"websocket", "webtransport"}).Draw(rt, "again")
		if c.Rev == 3 {
			c.Again = "websocket"
		}
		journal("C08ca %v", c)
		var fail string
		var stats map[string]bool
		res := bubble(t, func() { fail, stats = runCA(c) })
		res.rethrow()
		var cl []string
		for k := range stats {
			cl = append(cl, k)
		}
		col.Case(c.String(), true, map[string]any{"case": c.String()}, cl...)
		if fail != "" {
			rt.Fatalf("%v: %s", c, fail)
		}
		if res.Leak != "" {
			rt.Fatalf("%v: %s", c, clipStr(res.Leak, 1500))
		}
	})
	req := []string{"candidate-acts-while-the-session-attaches-to-it", "while-attaching.probe", "while-attaching.nothing"}
	if !known {
		req = append(req, "while-attaching.drop", "while-attaching.garbage")
	}
	col.RequireClasses(t, req...)
}

func TestC08CandidateLostFinding(t *testing.T) {
	col := NewCollector("TestC08CandidateLostFinding", "deterministic: polling session, a websocket / webtransport candidate that goes away (or sends an undecodable packet) while the server is held between attaching the candidate's packet listener and the attempt's close and error listeners; oracle of TestC08CandidateWhileAttaching. every case is non-trivial").Use(t)
	for _, c := range []caCase{
		{Rev: 4, To: "websocket", What: "drop", Then: "upgradeNow", Again: "websocket"},
		{Rev: 3, To: "websocket", What: "drop", Then: "upgradeNow", Again: "websocket"},
		{Rev: 4, To: "webtransport", What: "drop", Then: "upgradeNow", Again: "webtransport"},
		{Rev: 4, To: "websocket", What: "garbage", Then: "upgradeNow", Again: "websocket"},
	} {
		var fail string
		res := bubble(t, func() { fail, _ = runCA(c) })
		res.rethrow()
		col.Case(c.String(), true, map[string]any{"case": c.String(), "result": clipStr(fail, 300)}, "candidate-acts-while-the-session-attaches-to-it")
		demoFinding(t, col, "C08", sigCandidateLostWhileAttaching, fail != "", fmt.Sprintf("%v: %s", c, clipStr(fail, 300)))
	}
}

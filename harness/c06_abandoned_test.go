package harness

// C06 / C04 / C12, a handshake whose client leaves while the open packet is being handed over: the server's
// handshake goroutine is held inside an application listener of the server's flush event (the open packet is in
// the transport's hands, the session not yet registered nor announced) while the client goes away: a websocket or
// webtransport client drops its connection, a polling client aborts its handshake request. "An admitted handshake
// creates exactly one session [and] announces it with exactly one connection event": a session that is closed
// already is not announced as an open one, nothing of it stays in the client table (C04), and a shutdown afterwards
// leaves the table empty (C12).

import (
	"fmt"
	"testing"
	"time"

	"github.com/zishang520/engine.io/v2/config"
	"github.com/zishang520/engine.io/v2/types"
	"pgregory.net/rapid"
)

type haCase struct {
	Carrier  string // polling | websocket | webtransport
	Rev      int
	Others   int    // healthy sessions opened before
	Then     string // wait | shutdown | shutdownAtOnce
	StayOpen bool   // control: the client does not leave
}

func (c haCase) String() string {
	return fmt.Sprintf("{%s rev%d others=%d then=%s client-stays=%v}", c.Carrier, c.Rev, c.Others, c.Then, c.StayOpen)
}

func runHA(c haCase) (fail string, stats map[string]bool) {
	stats = map[string]bool{}
	o := config.DefaultServerOptions()
	o.SetAllowEIO3(true)
	o.SetTransports(types.NewSet("polling", "websocket", "webtransport"))
	o.SetPingInterval(5 * time.Second)
	o.SetPingTimeout(3 * time.Second)
	w := NewWorld(o)
	defer w.Teardown()
	var others []*c06Sess
	for i := 0; i < c.Others; i++ {
		s, why := doHandshake(w, c06HS{Carrier: []string{"polling", "websocket"}[i%2], EIO: "4"})
		if s == nil {
			return "harness: " + why, stats
		}
		others = append(others, s)
	}
	park := make(chan struct{})
	armed, parked := true, false
	w.Srv.On("flush", func(...any) {
		if armed {
			armed = false
			parked = true
			<-park
		}
	})
	connBefore := len(w.Order)
	eio := fmt.Sprint(c.Rev)
	var leave func()
	switch c.Carrier {
	case "polling":
		pc := &PollClient{W: w, O: ClientOpts{Rev: c.Rev, EIO: eio}}
		hs := pc.StartHandshake()
		leave = func() { hs.Abort() }
	case "websocket":
		wc := &WSClient{W: w, O: ClientOpts{Rev: c.Rev, EIO: eio}}
		wc.Start()
		leave = func() { wc.Drop() }
	default:
		tc := &WTClient{W: w, O: ClientOpts{Rev: 4}}
		tc.Start()
		Settle()
		tc.OpenBidi()
		tc.SendHandshake()
		leave = func() { tc.Drop() }
	}
	Settle()
	if !parked {
		armed = false
		return "harness: the open packet's hand-over was not observed", stats
	}
	stats["client-acts-while-the-open-packet-is-handed-over"] = true
	if !c.StayOpen {
		leave()
		Settle()
		stats["client-left."+c.Carrier] = true
	} else {
		stats["control"] = true
	}
	close(park)
	Settle()
	hbs := make([]hbClient, len(others))
	answered := make([]int, len(others))
	for i, s := range others {
		hbs[i] = hbClient{s: s}
	}
	service := func(d time.Duration) {
		for ; d > 0; d -= time.Second {
			time.Sleep(time.Second)
			Settle()
			for i := range hbs {
				hbs[i].keepPolling()
				pings := 0
				for _, p := range others[i].recv() {
					if p.Type == tPing {
						pings++
					}
				}
				if pings > answered[i] {
					answered[i] = pings
					hbs[i].send(ctl(tPong))
					Settle()
					hbs[i].keepPolling()
				}
			}
		}
	}
	if c.Then != "shutdownAtOnce" {
		service(10 * time.Second) // beyond ping interval + ping timeout
	}
	announced := w.Order[connBefore:]
	if !c.StayOpen {
		// whatever was announced has closed by now (the peer is gone); nothing of it is registered
		for _, sid := range announced {
			sr := w.Get(sid)
			if c.Then != "shutdownAtOnce" && len(sr.Closes) != 1 {
				return fmt.Sprintf("the client left during the handshake; session %s was announced (state at the connection event %q) and has emitted %d close events 10 s later (state %q)", short(sid), sr.ConnState, len(sr.Closes), sr.Sock.ReadyState()), stats
			}
			if sr.ConnState != "open" {
				return fmt.Sprintf("session %s was handed to the application in state %q", short(sid), sr.ConnState), stats
			}
		}
		if c.Then != "shutdownAtOnce" {
			if keys := w.RegistryKeys(); len(keys) != len(others) || int(w.Srv.ClientsCount()) != len(others) {
				return fmt.Sprintf("the client left during the handshake; 10 s later the client table holds %d sessions and the count is %d, %d healthy sessions exist", len(keys), w.Srv.ClientsCount(), len(others)), stats
			}
		}
	}
	if c.Then != "wait" {
		w.Srv.Close()
		Settle()
		time.Sleep(31 * time.Second)
		Settle()
		stats["shutdown"] = true
		if keys := w.RegistryKeys(); len(keys) != 0 || w.Srv.ClientsCount() != 0 {
			return fmt.Sprintf("after closing the server the client table holds %v and the count is %d", shortAll(keys), w.Srv.ClientsCount()), stats
		}
		for _, sid := range w.Order {
			if sr := w.Get(sid); len(sr.Closes) != 1 {
				return fmt.Sprintf("after closing the server session %s has %d close events", short(sid), len(sr.Closes)), stats
			}
		}
	}
	return "", stats
}

func TestC06HandshakeAbandoned(t *testing.T) {
	col := NewCollector("TestC06HandshakeAbandoned",
		"rapid: 0-2 healthy sessions, then a polling / websocket / webtransport handshake (revision 3/4) whose server goroutine is held inside an application listener of the server's flush event while the open packet is handed over; meanwhile the client leaves (drops its connection / aborts its handshake request; control: stays); then 10 s pass and / or the server is closed; oracle: a session handed to the application is open at that moment, a session whose client left has closed exactly once 10 s later, the client table and the count hold exactly the healthy sessions, and after closing the server the table is empty, the count 0 and every announced session has exactly one close event. non-trivial: the client left while the open packet was handed over").Use(t)
	rapid.Check(t, func(rt *rapid.T) {
		c := haCase{Carrier: rapid.SampledFrom([]string{"polling", "websocket", "webtransport"}).Draw(rt, "carrier"), Rev: 4,
			Others: rapid.IntRange(0, 2).Draw(rt, "others"), Then: rapid.SampledFrom([]string{"wait", "shutdown", "shutdownAtOnce"}).Draw(rt, "then"),
			StayOpen: rapid.IntRange(0, 4).Draw(rt, "stays") == 0}
		if c.Carrier != "webtransport" && rapid.IntRange(0, 2).Draw(rt, "rev3") == 0 {
			c.Rev = 3
		}
		journal("C06ha %v", c)
		var fail string
		var stats map[string]bool
		res := bubble(t, func() { fail, stats = runHA(c) })
		res.rethrow()
		var cl []string
		for k := range stats {
			cl = append(cl, k)
		}
		col.Case(c.String(), !c.StayOpen, map[string]any{"case": c.String()}, cl...)
		if fail != "" {
			rt.Fatalf("%v: %s", c, fail)
		}
		if res.Leak != "" {
			rt.Fatalf("%v: %s", c, clipStr(res.Leak, 1500))
		}
	})
	col.RequireClasses(t, "client-left.polling", "client-left.websocket", "client-left.webtransport", "control", "shutdown")
}

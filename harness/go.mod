module verif/harness

go 1.26.8

require (
	github.com/andybalholm/brotli v1.1.1
	github.com/anishathalye/porcupine v1.3.0
	github.com/gorilla/websocket v1.5.3
	github.com/klauspost/compress v1.18.0
	github.com/quic-go/quic-go v0.50.1
	github.com/zishang520/engine.io-go-parser v1.3.2
	github.com/zishang520/engine.io/v2 v2.0.0
	github.com/zishang520/webtransport-go v0.8.6
	pgregory.net/rapid v1.3.0
)

require (
	github.com/gookit/color v1.5.4 // indirect
	github.com/quic-go/qpack v0.5.1 // indirect
	github.com/vmihailenco/msgpack/v5 v5.4.1 // indirect
	github.com/vmihailenco/tagparser/v2 v2.0.0 // indirect
	github.com/xo/terminfo v0.0.0-20210125001918-ca9a967f8778 // indirect
	golang.org/x/crypto v0.35.0 // indirect
	golang.org/x/exp v0.0.0-20240506185415-9bf2ced13842 // indirect
	golang.org/x/net v0.36.0 // indirect
	golang.org/x/sys v0.30.0 // indirect
	golang.org/x/text v0.22.0 // indirect
)

replace github.com/zishang520/engine.io/v2 => /repo

package harness

// Overlapping handshakes (C06 and C17). The writer goroutine that will put
// handshake A's open packet (and, for polling, its response headers with the
// cookie) on the wire is held at its first statement while further handshakes
// B, C, ... run to completion on the same server; then A's writer goes on.
// Whatever a handshake "prepares once" and renders later - the open packet's
// JSON, the cookie - must still be A's own when it is finally rendered.

import (
	"fmt"
	"net/http"
	"runtime"
	"sort"
	"strings"
	"testing"
	"time"

	"github.com/zishang520/engine.io/v2/config"
	"github.com/zishang520/engine.io/v2/types"
	"pgregory.net/rapid"
)

type ovCase struct {
	Outer  c06HS   // polling | jsonp | websocket: its writer is held
	Inner  []c06HS // handshakes that run while it is held
	Cookie bool
	Procs  int // GOMAXPROCS for the case (1: everything shares one P and its caches; 0: unchanged)
}

func (c ovCase) String() string {
	return fmt.Sprintf("{outer=%v inner=%v cookie=%v procs=%d}", c.Outer, c.Inner, c.Cookie, c.Procs)
}

func genOV(rt *rapid.T) ovCase {
	c := ovCase{}
	c.Outer = c06HS{Carrier: rapid.SampledFrom([]string{"polling", "polling", "jsonp", "websocket"}).Draw(rt, "outer"), EIO: rapid.SampledFrom([]string{"4", "4", "3"}).Draw(rt, "outerEIO"), J: "3"}
	c.Outer.B64 = c.Outer.Carrier == "jsonp"
	n := rapid.IntRange(1, 4).Draw(rt, "ninner")
	for i := 0; i < n; i++ {
		h := c06HS{Carrier: rapid.SampledFrom([]string{"polling", "polling", "jsonp", "websocket", "webtransport"}).Draw(rt, "inner"), EIO: rapid.SampledFrom([]string{"4", "4", "3"}).Draw(rt, "innerEIO"), J: "4"}
		h.B64 = h.Carrier == "jsonp"
		if h.Carrier == "webtransport" {
			h.EIO = "4"
		}
		c.Inner = append(c.Inner, h)
	}
	c.Cookie = rapid.IntRange(0, 3).Draw(rt, "cookie") != 0
	c.Procs = rapid.SampledFrom([]int{0, 1, 1}).Draw(rt, "procs")
	return c
}

func cookieOf(e *Exchange) (string, int) {
	s := e.Snap()
	vals := s.Header.Values("Set-Cookie")
	if len(vals) == 0 {
		return "", 0
	}
	resp := http.Response{Header: http.Header{"Set-Cookie": vals}}
	cs := resp.Cookies()
	if len(cs) == 0 {
		return "", len(vals)
	}
	return cs[0].Value, len(vals)
}

func runOV(c ovCase) (fail06, fail17 string, stats map[string]bool) {
	stats = map[string]bool{}
	if c.Procs > 0 {
		defer runtime.GOMAXPROCS(runtime.GOMAXPROCS(c.Procs))
	}
	o := config.DefaultServerOptions()
	o.SetAllowEIO3(true)
	o.SetTransports(types.NewSet("polling", "websocket", "webtransport"))
	o.SetPingInterval(10 * time.Minute)
	o.SetPingTimeout(10 * time.Minute)
	if c.Cookie {
		ck := httpCookieIO
		o.SetCookie(&ck)
	}
	w := NewWorld(o)
	defer w.Teardown()
	g := InstallGates(nil)
	defer g.Uninstall()
	site := "polling.send.start"
	if c.Outer.Carrier == "websocket" {
		site = "ws.send.start"
	}
	gp := GatePoint{site, g.Count(site)}
	g.mu.Lock()
	g.plan[gp] = true
	g.mu.Unlock()
	// A starts; its writer parks before the open packet is encoded / the response headers are built
	co := ClientOpts{Rev: c.Outer.rev(), EIO: c.Outer.EIO, B64: c.Outer.B64}
	var apc *PollClient
	var awc *WSClient
	if c.Outer.Carrier == "websocket" {
		awc = &WSClient{W: w, O: co}
		awc.Start()
	} else {
		if c.Outer.Carrier == "jsonp" {
			co.JSONP, co.J = true, c.Outer.J
		}
		apc = &PollClient{W: w, O: co}
		apc.StartHandshake()
	}
	Settle()
	held := false
	for _, p := range g.Parked() {
		if p == gp {
			held = true
		}
	}
	if held {
		stats["handshakes-while-the-first-one's-writer-is-held"] = true
	}
	if len(w.Order) != 1 {
		g.Release(gp)
		return fmt.Sprintf("handshake A (%v): %d connection events while its open packet is being written, want 1", c.Outer, len(w.Order)), "", stats
	}
	type done struct {
		h   c06HS
		s   *c06Sess
		sid string // id of the session the server created for this handshake (connection order)
	}
	var all []done
	for i, h := range c.Inner {
		before := len(w.Order)
		s, why := doHandshake(w, h)
		if s == nil {
			g.Release(gp)
			return fmt.Sprintf("handshake #%d %v refused while another handshake is in progress: %s", i+1, h, why), "", stats
		}
		if len(w.Order) != before+1 {
			g.Release(gp)
			return fmt.Sprintf("handshake #%d %v: %d connection events", i+1, h, len(w.Order)-before), "", stats
		}
		all = append(all, done{h, s, w.Order[len(w.Order)-1]})
		stats["inner."+h.Carrier] = true
	}
	g.Release(gp)
	Settle()
	as := &c06Sess{hs: c.Outer}
	if awc != nil {
		awc.Pump()
		if awc.Open == nil {
			return fmt.Sprintf("handshake A over websocket: no open packet after its writer went on (status %d, errs %v)", awc.HTTPStatus, awc.Errs), "", stats
		}
		as.wc, as.open = awc, awc.Open
	} else {
		if err := apc.FinishHandshake(); err != nil {
			return "handshake A: " + err.Error(), "", stats
		}
		as.pc, as.open = apc, apc.Open
	}
	all = append([]done{{c.Outer, as, w.Order[0]}}, all...)
	stats["outer."+c.Outer.Carrier] = true
	seen := map[string]int{}
	for i, d := range all {
		name := fmt.Sprintf("handshake #%d %v", i, d.h)
		if i == 0 {
			name = fmt.Sprintf("handshake A %v (its writer was held while %d others ran)", d.h, len(all)-1)
		}
		if d.s.open.Sid != d.sid && fail06 == "" {
			fail06 = fmt.Sprintf("%s: the client's open packet names session %s, the session created for this handshake is %s (sessions in connection order %v)", name, short(d.s.open.Sid), short(d.sid), shortAll(w.Order))
		}
		if j, dup := seen[d.s.open.Sid]; dup && fail06 == "" {
			fail06 = fmt.Sprintf("%s and handshake #%d were both told session id %s", name, j, short(d.s.open.Sid))
		}
		seen[d.s.open.Sid] = i
		if d.s.open.PingInterval != 600000 || d.s.open.MaxPayload != 1000000 {
			if fail06 == "" {
				fail06 = fmt.Sprintf("%s: open packet advertises %+v", name, *d.s.open)
			}
		}
		if d.s.pc != nil {
			val, n := cookieOf(d.s.pc.HS)
			if c.Cookie {
				stats["cookie-on-overlapping-handshakes"] = true
				if (n != 1 || val != d.sid) && fail17 == "" {
					fail17 = fmt.Sprintf("%s: handshake response carries %d Set-Cookie headers, value %q; the session created for this handshake is %s", name, n, val, d.sid)
				}
			} else if n != 0 && fail17 == "" {
				fail17 = fmt.Sprintf("%s: Set-Cookie without a configured cookie", name)
			}
		}
		if e := d.s.errs(); len(e) > 0 && fail06 == "" {
			fail06 = fmt.Sprintf("%s: client could not decode what it received: %v", name, e)
		}
	}
	return fail06, fail17, stats
}

func ovTest(t *testing.T, name, prop string) {
	col := NewCollector(name,
		"rapid: handshake A (polling/JSONP/websocket, revision 3/4) whose writer goroutine is held at its first statement (yield point polling.send.start / ws.send.start) while 1-4 further handshakes (polling/JSONP/websocket/webtransport) run to completion on the same server, then A's writer goes on; cookie configured or not; GOMAXPROCS 1 (everything shares one P and its caches) or unchanged; oracle ("+prop+"): every client's open packet names exactly the session the server created for its own handshake (connection order), no id handed out twice, configured values advertised; with a cookie each polling handshake response carries exactly one Set-Cookie whose value is that handshake's own session id. non-trivial: the writer was actually held while another handshake ran").Use(t)
	rapid.Check(t, func(rt *rapid.T) {
		c := genOV(rt)
		journal("%s %v", prop, c)
		var f06, f17 string
		var stats map[string]bool
		res := bubble(t, func() { f06, f17, stats = runOV(c) })
		var cl []string
		for k := range stats {
			cl = append(cl, k)
		}
		sort.Strings(cl)
		cl = append(cl, fmt.Sprintf("procs=%d", c.Procs))
		col.Case(c.String(), stats["handshakes-while-the-first-one's-writer-is-held"], map[string]any{"case": c.String(), "classes": strings.Join(cl, " ")}, cl...)
		res.rethrow()
		fail := f06
		if prop == "C17" {
			fail = f17
			if fail == "" && strings.HasPrefix(f06, "handshake") && strings.Contains(f06, "refused") {
				fail = f06
			}
		}
		if fail != "" {
			rt.Fatalf("%v\n%s", c, fail)
		}
		if res.Leak != "" {
			rt.Fatalf("%v: %s", c, clipStr(res.Leak, 1500))
		}
	})
	req := []string{"handshakes-while-the-first-one's-writer-is-held", "outer.polling", "outer.websocket", "outer.jsonp", "inner.polling", "inner.websocket", "inner.webtransport", "procs=1", "procs=0"}
	if prop == "C17" {
		req = append(req, "cookie-on-overlapping-handshakes")
	}
	col.RequireClasses(t, req...)
}

func TestC06Overlap(t *testing.T) { ovTest(t, "TestC06Overlap", "C06") }
func TestC17Overlap(t *testing.T) { ovTest(t, "TestC17Overlap", "C17") }

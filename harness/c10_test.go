package harness

// C10 — the maximum payload size is enforced on every inbound path.

import (
	"bytes"
	"encoding/binary"
	"fmt"
	"sort"
	"strings"
	"testing"
	"time"

	"github.com/zishang520/engine.io/v2/config"
	"github.com/zishang520/engine.io/v2/engine"
	"github.com/zishang520/engine.io/v2/types"
	"pgregory.net/rapid"
)

const (
	sigChunkedUnbounded = "polling-body-without-content-length-read-unbounded"
	c10Slack            = 8192 // constant number of bytes the server may consume beyond the limit (one buffer)
)

type c10Case struct {
	L        int64
	Path     string // polling | jsonp | ws | wt
	Rev      int
	Size     int64  // body / message-frame payload size to present
	SizeCls  string // L-1 | L | L+1 | 2L | >>L
	Decl     string // polling: exact | unknown | lying-small | lying-big
	Multi    int    // number of packets in a polling payload
	Layout   string // ws: single | fragments | header-only-64bit | deflated (permessage-deflate negotiated, the message sent compressed: a few bytes on the wire) ; wt: min | form16 | form64 | header-only-64bit
	Frag     int    // ws fragments: size of each fragment (<= L)
	B64      bool
	Upgraded bool
	Cut      int // wt: the frame reaches the server in two pieces, the first of this many bytes (0 = in one piece)
	// Other: after this server was built the application changes the limit on its options object to this value
	// and builds a second server from it (0 = no second server): every server keeps the limit it was built with
	Other int64
	// Overlap: polling: another data request of the same session is still uploading (its body held half-way) when
	// this one arrives. The server refuses an overlapping request; what it may consume of its body is bounded all the same
	Overlap bool
	// BlockedWriter: websocket: the peer has stopped reading and the server's writer is stuck in a write when the
	// oversized message arrives (the connection cannot be torn down at once); more messages follow it
	BlockedWriter bool
	// BinaryMsg: websocket: the message is a binary one (its own branch of the transport's reader)
	BinaryMsg bool
}

func (c c10Case) String() string {
	return fmt.Sprintf("{L=%d %s rev%d size=%d(%s) decl=%s packets=%d layout=%s frag=%d b64=%v upgraded=%v cut=%d otherServerLimit=%d overlap=%v blockedWriter=%v binary=%v}", c.L, c.Path, c.Rev, c.Size, c.SizeCls, c.Decl, c.Multi, c.Layout, c.Frag, c.B64, c.Upgraded, c.Cut, c.Other, c.Overlap, c.BlockedWriter, c.BinaryMsg)
}

func genC10(rt *rapid.T, known bool, col *Collector) c10Case {
	c := c10Case{}
	c.L = rapid.OneOf(
		rapid.SampledFrom([]int64{1, 2, 3, 10, 100, 125, 126, 127, 1000, 4096, 65535, 65536, 100_000, 1_000_000}),
		rapid.Int64Range(1, 200_000),
	).Draw(rt, "L")
	c.Path = rapid.SampledFrom([]string{"polling", "polling", "jsonp", "ws", "ws", "wt", "wt"}).Draw(rt, "path")
	// websocket/webtransport reached through an upgrade of a polling session instead of a direct handshake
	c.Upgraded = (c.Path == "ws" || c.Path == "wt") && c.L >= 64 && rapid.IntRange(0, 2).Draw(rt, "upgraded") == 0
	switch rapid.IntRange(0, 5).Draw(rt, "otherServer") {
	case 0:
		c.Other = c.L*10 + 1
	case 1:
		c.Other = c.L/2 + 1
	}
	c.Rev = 4
	if (c.Path == "polling" || c.Path == "ws") && rapid.IntRange(0, 2).Draw(rt, "rev3") == 0 {
		c.Rev = 3
	}
	c.SizeCls = rapid.SampledFrom([]string{"L-1", "L", "L+1", "L+1", "2L", ">>L"}).Draw(rt, "sizeCls")
	switch c.SizeCls {
	case "L-1":
		c.Size = c.L - 1
	case "L":
		c.Size = c.L
	case "L+1":
		c.Size = c.L + 1
	case "2L":
		c.Size = 2 * c.L
	default:
		c.Size = c.L + 100_000 + rapid.Int64Range(0, 50_000).Draw(rt, "extra")
	}
	switch c.Path {
	case "polling", "jsonp":
		c.Decl = rapid.SampledFrom([]string{"exact", "unknown", "unknown", "lying-small", "lying-big"}).Draw(rt, "decl")
		if known && c.Decl == "unknown" && c.Size > c.L {
			col.Exclude("oversized body without Content-Length (known finding " + sigChunkedUnbounded + ")")
			c.Decl = "exact"
		}
		c.Multi = rapid.IntRange(1, 4).Draw(rt, "packets")
		c.B64 = c.Path == "jsonp" || rapid.Bool().Draw(rt, "b64")
		c.Overlap = c.L >= 8 && rapid.IntRange(0, 3).Draw(rt, "overlap") == 0
	case "ws":
		c.Layout = rapid.SampledFrom([]string{"single", "single", "fragments", "header-only-64bit", "deflated", "deflated"}).Draw(rt, "layout")
		c.BinaryMsg = rapid.Bool().Draw(rt, "binaryMsg")
		c.BlockedWriter = (c.Layout == "single" || c.Layout == "deflated") && c.Size > c.L && c.L >= 16 && rapid.IntRange(0, 2).Draw(rt, "blockedWriter") == 0
		if c.Layout == "fragments" {
			c.Frag = int(rapid.Int64Range(1, c.L).Draw(rt, "frag"))
			if c.Size/int64(c.Frag) > 3000 {
				c.Frag = int(c.Size/3000) + 1
				if int64(c.Frag) > c.L {
					c.Layout = "single"
				}
			}
		}
	case "wt":
		c.Layout = rapid.SampledFrom([]string{"min", "min", "form16", "form64", "header-only-64bit"}).Draw(rt, "layout")
		c.Cut = rapid.SampledFrom([]int{0, 0, 1, 2, 3, 4, 5, 8, 9, 10}).Draw(rt, "cut")
	}
	return c
}

// buildPollingBody returns a payload of exactly size bytes made of k message
// packets (text, the last one is the filler), or nil when that size cannot be hit.
func buildPollingBody(pc *PollClient, size int64, k int) ([]byte, []Pkt) {
	if size < 1 {
		return nil, nil
	}
	var small []Pkt
	for i := 0; i < k-1; i++ {
		small = append(small, msgT(fmt.Sprintf("m%d", i)))
	}
	for f := size; f >= 0 && f > size-40; f-- {
		ps := append(append([]Pkt{}, small...), msgT(strings.Repeat("a", int(f))))
		body, _ := pc.EncodePost(ps, false)
		if int64(len(body)) == size {
			return body, ps
		}
		if int64(len(body)) < size && f == size {
			return nil, nil
		}
	}
	if k > 1 {
		return buildPollingBody(pc, size, 1)
	}
	return nil, nil
}

type c10Canary struct {
	pc  *PollClient
	sr  *SessRec
	seq int
}

func (c *c10Canary) ok(w *World) string {
	c.seq++
	n := len(c.sr.Msgs)
	ex := c.pc.StartPost([]Pkt{msgT("c")}, false)
	Settle()
	s := ex.Snap()
	if s.Status != 200 || len(c.sr.Msgs) != n+1 || len(c.sr.Closes) != 0 {
		return fmt.Sprintf("another session was disturbed: its post -> %v, messages %d -> %d, closes %v", s, n, len(c.sr.Msgs), c.sr.Closes)
	}
	return ""
}

func runC10(c c10Case) (fail string, stats map[string]bool) {
	stats = map[string]bool{}
	o := config.DefaultServerOptions()
	o.SetMaxHttpBufferSize(c.L)
	o.SetAllowEIO3(true)
	o.SetTransports(types.NewSet("polling", "websocket", "webtransport"))
	o.SetPingInterval(300 * time.Second)
	if c.Layout == "deflated" {
		o.SetPerMessageDeflate(&types.PerMessageDeflate{Threshold: 1024})
	}
	w := NewWorld(o)
	defer w.Teardown()
	w.WSOfferDeflate = c.Layout == "deflated"
	if c.Other > 0 {
		// the application reuses its options object for a second server with another limit
		stats["second-server-built-from-the-same-options-object"] = true
		o.SetMaxHttpBufferSize(c.Other)
		other := engine.NewServer(o)
		defer other.Close()
		if got := w.Srv.Opts().MaxHttpBufferSize(); got != c.L {
			return fmt.Sprintf("a second server was built from the application's options object after its limit had been changed to %d: the first server's limit is now %d, it was built with %d", c.Other, got, c.L), stats
		}
	}
	// the canary needs room for its own one-byte message: "4c" is 2 bytes
	var canary *c10Canary
	if c.L >= 2 {
		cs, why := doHandshake(w, c06HS{Carrier: "polling", EIO: "4"})
		if cs == nil {
			return "harness: canary handshake: " + why, stats
		}
		canary = &c10Canary{pc: cs.pc, sr: w.Get(cs.pc.Sid)}
	}
	maxDelivered := func() int {
		m := 0
		for _, sr := range w.SessList() {
			for _, p := range sr.Msgs {
				if len(p.Data) > m {
					m = len(p.Data)
				}
			}
		}
		return m
	}
	eio := "4"
	if c.Rev == 3 {
		eio = "3"
	}
	over := c.Size > c.L
	if over {
		stats["oversized"] = true
	} else {
		stats["within-limit"] = true
	}
	if c.SizeCls == "L-1" || c.SizeCls == "L" || c.SizeCls == "L+1" {
		stats["within-1-of-limit"] = true
	}
	switch c.Path {
	case "polling", "jsonp":
		s, why := doHandshake(w, c06HS{Carrier: c.Path, EIO: eio, B64: c.B64, J: "1"})
		if s == nil {
			return "harness: handshake: " + why, stats
		}
		sr := w.Get(s.pc.Sid)
		body, pkts := buildPollingBody(s.pc, c.Size, c.Multi)
		if body == nil {
			stats["size-not-constructible"] = true
			return "", stats
		}
		_, ct := s.pc.EncodePost(pkts, false)
		var ex *Exchange
		declared := int64(len(body))
		var first *Exchange
		if c.Overlap {
			// a first data request whose upload is stuck after two bytes
			fb, fct := s.pc.EncodePost([]Pkt{{Type: '4', Data: []byte("abcd")}}, false)
			first = s.pc.StartPostRaw(fb, fct, func(r *ReqSpec) { r.BlockBodyAt = 2 })
			Settle()
			if first.Snap().Responded {
				return "harness: the held upload was answered early: " + fmt.Sprint(first.Snap()), stats
			}
			stats["overlapping-a-held-upload"] = true
			defer func() { first.Abort() }()
		}
		ex = s.pc.StartPostRaw(body, ct, func(r *ReqSpec) {
			switch c.Decl {
			case "unknown":
				r.ContentLength = -1
				r.BodyChunk = 4096
				stats["no-declared-length"] = true
			case "lying-small":
				// declares fewer bytes than it carries: the server sees only the declared part
				declared = int64(len(body)) / 2
				r.ContentLength = declared
			case "lying-big":
				declared = int64(len(body)) + 1000
				r.ContentLength = declared
			}
		})
		Settle()
		snap := ex.Snap()
		consumed := ex.body.Consumed()
		stats["decl."+c.Decl] = true
		if consumed > c.L+c10Slack {
			return fmt.Sprintf("server consumed %d bytes of a request body, limit %d (+%d allowed)", consumed, c.L, c10Slack), stats
		}
		if m := maxDelivered(); int64(m) > c.L {
			return fmt.Sprintf("a message of %d bytes was delivered, limit %d", m, c.L), stats
		}
		if c.Overlap {
			// refused as an overlap or for its size: which of the two is C11's business; nothing of it is delivered
			if !snap.Responded || (snap.Status != 400 && snap.Status != 413) {
				return fmt.Sprintf("data request overlapping a held upload answered %v, want a refusal (400 or 413)", snap), stats
			}
			if len(sr.Msgs) != 0 {
				return fmt.Sprintf("data request overlapping a held upload: %d messages delivered", len(sr.Msgs)), stats
			}
			return "", stats
		}
		switch {
		case c.Decl == "lying-small":
			// what the server sees is a truncated payload of declared bytes: any clean outcome, never an oversized delivery
			if declared > c.L && snap.Status != 413 {
				return fmt.Sprintf("declared %d > limit %d answered %v, want 413", declared, c.L, snap), stats
			}
		case c.Decl == "lying-big":
			if declared > c.L {
				if snap.Status != 413 {
					return fmt.Sprintf("declared Content-Length %d above the limit %d answered %v, want 413", declared, c.L, snap), stats
				}
				if consumed != 0 && over {
					// fine either way; it must just not exceed the bound (checked above)
				}
			}
		case over:
			if !snap.Responded || snap.Status != 413 {
				return fmt.Sprintf("body of %d bytes (limit %d, length %s) answered %v, want 413", len(body), c.L, c.Decl, snap), stats
			}
			if len(sr.Msgs) != 0 {
				return fmt.Sprintf("oversized body: %d messages delivered", len(sr.Msgs)), stats
			}
			stats["413"] = true
		default:
			// delivery of what fits is C02's business; here only: not refused for its size
			if snap.Status == 413 {
				return fmt.Sprintf("body of %d bytes within the limit %d was refused with 413", len(body), c.L), stats
			}
			if snap.Status == 200 && pktsEqual(sr.Msgs, pkts) {
				stats["delivered"] = true
			}
		}
		// the same session's next data request, a small one that fits: nothing of the request before it (refused
		// or not) may be joined to it
		if fb, fct := s.pc.EncodePost([]Pkt{msgT("f")}, false); len(sr.Closes) == 0 && int64(len(fb)) <= c.L {
			nBefore := len(sr.Msgs)
			fe := s.pc.StartPostRaw(fb, fct, nil)
			Settle()
			fs := fe.Snap()
			if snap.Status == 413 {
				stats["data-request-after-a-refused-one"] = true
			}
			if m := maxDelivered(); int64(m) > c.L {
				return fmt.Sprintf("after a data request of %d bytes (length %s) answered %d, the session's next request (%d bytes) led to a message of %d bytes being delivered, limit %d", len(body), c.Decl, snap.Status, len(fb), m, c.L), stats
			}
			if fs.Status == 413 {
				return fmt.Sprintf("after a data request of %d bytes (length %s) answered %d, the session's next request of %d bytes (limit %d) was refused with 413", len(body), c.Decl, snap.Status, len(fb), c.L), stats
			}
			if fs.Status == 200 {
				if got := sr.Msgs[nBefore:]; len(got) != 1 || !got[0].Equal(msgT("f")) {
					return fmt.Sprintf("after a data request of %d bytes (length %s) answered %d, the session's next request carried one message \"f\" and was acknowledged; delivered: %s", len(body), c.Decl, snap.Status, pktsString(got)), stats
				}
			}
		}
	case "ws":
		var s *c06Sess
		if c.Upgraded {
			ps, why := doHandshake(w, c06HS{Carrier: "polling", EIO: eio})
			if ps == nil {
				return "harness: handshake: " + why, stats
			}
			wc, _, err := Upgrade(w, ps.pc, "websocket")
			if err != nil {
				return "harness: upgrade: " + err.Error(), stats
			}
			s = &c06Sess{wc: wc}
			stats["after-upgrade"] = true
		} else {
			var why string
			s, why = doHandshake(w, c06HS{Carrier: "websocket", EIO: eio})
			if s == nil {
				return "harness: handshake: " + why, stats
			}
		}
		sr := w.Get(s.wc.Sid)
		srvRead := func() int64 { return s.wc.conn().w.ReadCount() }
		before := srvRead()
		if c.Layout == "header-only-64bit" {
			// a frame header announcing a huge payload, no data behind it
			hdr := []byte{0x81, 0x80 | 127}
			var l [8]byte
			binary.BigEndian.PutUint64(l[:], uint64(c.L)+1<<40)
			hdr = append(append(hdr, l[:]...), 1, 2, 3, 4)
			s.wc.SendRaw(hdr)
			Settle()
			s.wc.Pump()
			stats["header-only"] = true
			if len(sr.Closes) != 1 || !s.wc.EOF {
				return fmt.Sprintf("frame header announcing %d bytes (limit %d): session closes=%v connection ended=%v, want the connection terminated without waiting for data", uint64(c.L)+1<<40, c.L, sr.Closes, s.wc.EOF), stats
			}
		} else {
			if c.Size < 1 {
				stats["size-not-constructible"] = true
				return "", stats
			}
			// the frame's payload is the encoded packet: Size bytes in all (a binary message of revision 4 travels
			// without a type byte)
			overheadB := len(encPacketFrame(c.Rev, false, Pkt{Type: tMessage, Binary: c.BinaryMsg, Data: []byte("a")}).Data) - 1
			if c.Size-int64(overheadB) < 0 {
				stats["size-not-constructible"] = true
				return "", stats
			}
			data := bytes.Repeat([]byte("a"), int(c.Size)-overheadB)
			wire := 0 // deflated: payload bytes of the frame on the wire
			var frags []int
			if c.Layout == "fragments" {
				for n := int64(0); n+int64(c.Frag) < c.Size; n += int64(c.Frag) {
					frags = append(frags, c.Frag)
				}
				stats["fragmented"] = true
			}
			if c.BlockedWriter {
				s.wc.StopReading()
				w.AppSend(sr, msgT(strings.Repeat("w", 300000)), nil, false, 0)
				Settle()
				stats["oversized-message-while-the-writer-is-blocked"] = true
				defer s.wc.NetworkGivesUp()
			}
			if c.Layout == "deflated" {
				if !s.wc.Negotiated() {
					return "harness: permessage-deflate was not negotiated", stats
				}
				wire, _ = s.wc.SendPacketDeflatedN(Pkt{Type: tMessage, Data: data, Binary: c.BinaryMsg})
				if c.BinaryMsg && over {
					stats["compressed-binary-frame-inflating-past-the-limit"] = true
				}
				stats["compressed-frame"] = true
				if over {
					stats["compressed-frame-inflating-past-the-limit"] = true
				}
			} else {
				s.wc.SendPacket(Pkt{Type: tMessage, Data: data, Binary: c.BinaryMsg}, frags)
			}
			Settle()
			if c.BlockedWriter {
				// (the library's own refusal of an oversized frame first tries to write a close frame, for up to a
				// second, behind the blocked writer)
				time.Sleep(1500 * time.Millisecond)
				Settle()
				// the client, unaware, sends on: none of this may be consumed by a server that has given up on the connection
				for k := 0; k < 4; k++ {
					s.wc.SendPacket(Pkt{Type: tMessage, Data: bytes.Repeat([]byte("m"), int(c.L)-1)}, nil)
					Settle()
				}
				if m := maxDelivered(); int64(m) > c.L {
					return fmt.Sprintf("a message of %d bytes was delivered over websocket (%s), limit %d", m, c.Layout, c.L), stats
				}
				if len(sr.Msgs) != 0 || len(sr.Closes) != 1 {
					return fmt.Sprintf("oversized websocket message (%d > %d, %s) while the server's writer is blocked: %d messages delivered, closes %v", c.Size, c.L, c.Layout, len(sr.Msgs), sr.Closes), stats
				}
				if got := srvRead() - before; got > c.L+14+c10Slack {
					return fmt.Sprintf("after an oversized websocket message (%s) the server went on reading the connection while its writer was blocked: %d bytes consumed, limit %d (+%d allowed)", c.Layout, got, c.L, 14+c10Slack), stats
				}
				return "", stats
			}
			s.wc.Pump()
			if m := maxDelivered(); int64(m) > c.L {
				return fmt.Sprintf("a message of %d bytes was delivered over websocket (%s), limit %d", m, c.Layout, c.L), stats
			}
			if over {
				if len(sr.Msgs) != 0 {
					return fmt.Sprintf("oversized websocket message (%d > %d) delivered", c.Size, c.L), stats
				}
				if len(sr.Closes) != 1 || !s.wc.EOF {
					return fmt.Sprintf("oversized websocket message (%d > %d, %s): closes=%v connection ended=%v", c.Size, c.L, c.Layout, sr.Closes, s.wc.EOF), stats
				}
				stats["connection-terminated"] = true
			} else if int64(wire) > c.L {
				// a tiny message whose compressed form is the larger one: a frame above the limit on the wire
				stats["compressed-form-above-the-limit"] = true
			} else {
				if len(sr.Closes) != 0 {
					return fmt.Sprintf("websocket message of %d bytes within the limit %d terminated the connection: closes %v", c.Size, c.L, sr.Closes), stats
				}
				if len(sr.Msgs) == 1 && bytes.Equal(sr.Msgs[0].Data, data) {
					stats["delivered"] = true
				}
			}
		}
		// frame headers of the fragments that carry the first L+1 payload bytes do not count as payload
		overhead := int64(14)
		if c.Layout == "fragments" && c.Frag > 0 {
			overhead = ((c.L+1)/int64(c.Frag) + 2) * 14
		}
		if got := srvRead() - before; got > c.L+overhead+c10Slack {
			return fmt.Sprintf("server consumed %d bytes of the websocket stream for one message, limit %d (+%d frame headers +%d allowed)", got, c.L, overhead, c10Slack), stats
		}
	case "wt":
		var s *c06Sess
		if c.Upgraded {
			ps, why := doHandshake(w, c06HS{Carrier: "polling", EIO: "4"})
			if ps == nil {
				return "harness: handshake: " + why, stats
			}
			_, tc, err := Upgrade(w, ps.pc, "webtransport")
			if err != nil {
				return "harness: upgrade: " + err.Error(), stats
			}
			s = &c06Sess{tc: tc}
			stats["after-upgrade"] = true
		} else {
			var why string
			s, why = doHandshake(w, c06HS{Carrier: "webtransport", EIO: "4"})
			if s == nil {
				return "harness: handshake: " + why, stats
			}
		}
		sr := w.Get(s.tc.Sid)
		before := s.tc.Bidi.in.ReadCount()
		if c.Layout == "header-only-64bit" {
			hdr := []byte{127}
			var l [8]byte
			binary.BigEndian.PutUint64(l[:], uint64(c.L)+1<<40)
			s.tc.SendFrameRaw(append(hdr, l[:]...))
			Settle()
			s.tc.Pump()
			stats["header-only"] = true
			if len(sr.Closes) != 1 || !s.tc.SessionClosed {
				return fmt.Sprintf("webtransport frame header announcing a huge payload: closes=%v session closed=%v", sr.Closes, s.tc.SessionClosed), stats
			}
		} else {
			if c.Size < 1 {
				stats["size-not-constructible"] = true
				return "", stats
			}
			data := bytes.Repeat([]byte("a"), int(c.Size-1))
			form := map[string]int{"min": 0, "form16": 1, "form64": 2}[c.Layout]
			payload := append([]byte("4"), data...)
			if form == 1 && len(payload) > 65535 {
				form = 2
			}
			raw := wtEncodeForm(false, payload, form)
			if c.Cut > 0 && c.Cut < len(raw) {
				if c.Cut < len(raw)-len(payload) {
					stats["frame-header-split-in-transit"] = true
				}
			}
			s.tc.SendFrameRawCut(raw, c.Cut)
			Settle()
			s.tc.Pump()
			if m := maxDelivered(); int64(m) > c.L {
				return fmt.Sprintf("a message of %d bytes was delivered over webtransport, limit %d", m, c.L), stats
			}
			if over {
				if len(sr.Msgs) != 0 {
					return fmt.Sprintf("oversized webtransport message (%d > %d) delivered", c.Size, c.L), stats
				}
				if len(sr.Closes) != 1 || !s.tc.SessionClosed {
					return fmt.Sprintf("oversized webtransport frame (%d > %d, %s): closes=%v session closed=%v", c.Size, c.L, c.Layout, sr.Closes, s.tc.SessionClosed), stats
				}
				stats["connection-terminated"] = true
			} else {
				if len(sr.Closes) != 0 {
					return fmt.Sprintf("webtransport message of %d bytes within the limit %d (%s) terminated the session: closes %v", c.Size, c.L, c.Layout, sr.Closes), stats
				}
				if len(sr.Msgs) == 1 && bytes.Equal(sr.Msgs[0].Data, data) {
					stats["delivered"] = true
				}
			}
		}
		if got := s.tc.Bidi.in.ReadCount() - before; got > c.L+c10Slack {
			return fmt.Sprintf("server consumed %d bytes of the webtransport stream for one frame, limit %d (+%d allowed)", got, c.L, c10Slack), stats
		}
	}
	if canary != nil {
		if f := canary.ok(w); f != "" {
			return f, stats
		}
	}
	return "", stats
}

func TestC10MaxPayload(t *testing.T) {
	col := NewCollector("TestC10MaxPayload",
		"rapid: limit L (boundary table 1..1e6 and random), inbound path polling/jsonp/websocket/webtransport x revision, presented size L-1, L, L+1, 2L, L+100000.., polling: Content-Length exact / unknown (chunked) / lying small / lying big, 1-4 packets per payload, b64; websocket: single frame, fragments each <= L, header announcing 2^40 bytes with no data; webtransport: minimal/16-bit/64-bit length forms and a huge header only; oracle: no message event longer than L, bytes consumed from the instrumented body/stream <= L + 8192, oversized polling body => 413 and nothing delivered, oversized frame => that connection ends and its session closes once, sizes within the limit are not refused (their delivery is C02's oracle), a canary session keeps round-tripping. non-trivial: size within 1 of the limit or no declared length").Use(t)
	known := isKnown("C10", sigChunkedUnbounded)
	rapid.Check(t, func(rt *rapid.T) {
		c := genC10(rt, known, col)
		journal("C10 %v", c)
		var fail string
		var stats map[string]bool
		res := bubble(t, func() { fail, stats = runC10(c) })
		var cl []string
		for k := range stats {
			cl = append(cl, k)
		}
		sort.Strings(cl)
		cl = append(cl, "path."+c.Path)
		col.Case(c.String(), stats["within-1-of-limit"] || stats["no-declared-length"], map[string]any{"case": c.String(), "classes": strings.Join(cl, " ")}, cl...)
		res.rethrow()
		if fail != "" {
			rt.Fatalf("%v\n%s", c, fail)
		}
		if res.Leak != "" {
			rt.Fatalf("%v: %s", c, clipStr(res.Leak, 1500))
		}
	})
	col.RequireClasses(t, "413", "data-request-after-a-refused-one", "delivered", "connection-terminated", "header-only", "fragmented", "within-1-of-limit", "path.polling", "path.jsonp", "path.ws", "path.wt", "decl.lying-big", "decl.lying-small", "after-upgrade", "frame-header-split-in-transit", "second-server-built-from-the-same-options-object", "overlapping-a-held-upload", "compressed-frame-inflating-past-the-limit", "oversized-message-while-the-writer-is-blocked", "compressed-binary-frame-inflating-past-the-limit")
}

func TestC10ChunkedFinding(t *testing.T) {
	col := NewCollector("TestC10ChunkedFinding", "deterministic: limit 100, polling POST of 101 / 5000 / 300000 bytes without Content-Length (revision 4 and 3); oracle: 413, nothing delivered, at most limit+8192 bytes consumed. every case is non-trivial").Use(t)
	for _, rev := range []int{4, 3} {
		for _, size := range []int64{101, 5000, 300000} {
			c := c10Case{L: 100, Path: "polling", Rev: rev, Size: size, SizeCls: ">>L", Decl: "unknown", Multi: 1}
			var fail string
			res := bubble(t, func() { fail, _ = runC10(c) })
			res.rethrow()
			col.Case(c.String(), true, map[string]any{"case": c.String(), "result": fail}, "chunked")
			demoFinding(t, col, "C10", sigChunkedUnbounded, fail != "", fmt.Sprintf("%v: %s", c, fail))
		}
	}
}

const sigDeflatedUnbounded = "websocket-message-sent-compressed-is-delivered-whatever-it-inflates-to"

// TestC10DeflatedFinding: deterministic demonstration: permessage-deflate configured and negotiated, the client
// sends one compressed frame of a few dozen bytes that inflates to a message far above the limit.
func TestC10DeflatedFinding(t *testing.T) {
	col := NewCollector("TestC10DeflatedFinding", "deterministic: limit 1000, perMessageDeflate configured, websocket session (direct and upgraded, revision 4 and 3) whose client negotiated permessage-deflate and sends one compressed frame that inflates to 1001 / 5000 / 300000 bytes; oracle: nothing above the limit is delivered, the connection is terminated, the bystander is undisturbed. every case is non-trivial").Use(t)
	for _, rev := range []int{4, 3} {
		for _, up := range []bool{false, true} {
			for _, size := range []int64{1001, 5000, 300000} {
				c := c10Case{L: 1000, Path: "ws", Rev: rev, Size: size, SizeCls: ">>L", Layout: "deflated", Upgraded: up}
				var fail string
				res := bubble(t, func() { fail, _ = runC10(c) })
				res.rethrow()
				col.Case(c.String(), true, map[string]any{"case": c.String(), "result": fail}, "compressed-frame-inflating-past-the-limit")
				demoFinding(t, col, "C10", sigDeflatedUnbounded, fail != "", fmt.Sprintf("%v: %s", c, fail))
			}
		}
	}
}

package harness

// C13 / C14, several prepared messages alive at once: an application (or the engine, for a broadcast) prepares
// messages first and writes them later, to one or several connections of either role. Each must arrive as it was
// prepared, whatever else was prepared in between.

import (
	"bytes"
	"fmt"
	"testing"

	webtrans "github.com/zishang520/engine.io/v2/webtransport"
	"pgregory.net/rapid"
)

func TestC13PreparedTogether(t *testing.T) {
	col := NewCollector("TestC13PreparedTogether",
		"rapid: 2-6 prepared messages (kind, boundary-biased length 0..70000) all created first, then written in a drawn order, each to a server-side and a client-side connection (drawn write buffer sizes), possibly twice; a further message is prepared between two writes; the peers read through a fragmenting stream; oracle: every connection's peer reads exactly the messages written to it, in order, each identical to what was prepared (kind and bytes), and the bytes on the wire are one reference frame per message. every case is non-trivial").Use(t)
	rapid.Check(t, func(rt *rapid.T) {
		n := rapid.IntRange(2, 6).Draw(rt, "n")
		type pmsg struct {
			bin bool
			pl  []byte
			pm  *webtrans.PreparedMessage
		}
		var ms []pmsg
		prepare := func(i int) pmsg {
			bin := rapid.Bool().Draw(rt, fmt.Sprintf("bin%d", i))
			ln := rapid.OneOf(rapid.IntRange(0, 300), rapid.SampledFrom([]int{0, 1, 125, 126, 127, 4086, 4087, 4096, 65535, 65536, 70000})).Draw(rt, fmt.Sprintf("len%d", i))
			pl := makePayload(ln, byte(0x21+i))
			mt := webtrans.TextMessage
			if bin {
				mt = webtrans.BinaryMessage
			}
			pm, err := webtrans.NewPreparedMessage(mt, pl)
			if err != nil {
				rt.Fatalf("NewPreparedMessage: %v", err)
			}
			return pmsg{bin, pl, pm}
		}
		for i := 0; i < n; i++ {
			ms = append(ms, prepare(i))
		}
		W := rapid.SampledFrom(wtWriteBufSizes).Draw(rt, "W")
		type side struct {
			c    *webtrans.Conn
			pipe *halfPipe
			want []pmsg
		}
		sides := []*side{}
		for _, server := range []bool{true, false} {
			p := newHalfPipe()
			sides = append(sides, &side{c: webtrans.NewConn(nil, &memWTStream{out: p, in: newHalfPipe()}, server, 0, W, nil, nil, nil), pipe: p})
		}
		order := rapid.Permutation(func() []int {
			x := make([]int, n)
			for i := range x {
				x[i] = i
			}
			return x
		}()).Draw(rt, "order")
		extraAt := rapid.IntRange(0, n-1).Draw(rt, "prepareAnotherBeforeWrite")
		for k, i := range order {
			if k == extraAt {
				// one more is prepared while the others wait to be written
				ms = append(ms, prepare(n))
				order = append(order, n)
			}
			for _, sd := range sides {
				times := 1
				if rapid.IntRange(0, 3).Draw(rt, "twice") == 0 {
					times = 2
				}
				for x := 0; x < times; x++ {
					if err := sd.c.WritePreparedMessage(ms[i].pm); err != nil {
						rt.Fatalf("WritePreparedMessage: %v", err)
					}
					sd.want = append(sd.want, ms[i])
				}
			}
		}
		col.Case(fmt.Sprint(n, W, order), true, map[string]any{"messages": n, "W": W, "order": fmt.Sprint(order)}, "several-prepared-messages-alive")
		for si, sd := range sides {
			wire := sd.pipe.Drain()
			var ref []byte
			for _, m := range sd.want {
				ref = append(ref, wtEncode(m.bin, m.pl)...)
			}
			if !bytes.Equal(wire, ref) {
				rt.Fatalf("connection %d (server=%v): the wire carries %d bytes, the reference frames of the %d messages written are %d bytes (first difference at %d)", si, si == 0, len(wire), len(sd.want), len(ref), firstDiff(wire, ref))
			}
			in := newHalfPipe()
			in.Write(wire)
			in.CloseWrite()
			rc := webtrans.NewConn(nil, &memWTStream{in: in, out: newHalfPipe()}, si != 0, 0, 0, nil, nil, nil)
			for k, m := range sd.want {
				mt, data, err := rc.ReadMessage()
				if err != nil || (mt == webtrans.BinaryMessage) != m.bin || !bytes.Equal(data, m.pl) {
					rt.Fatalf("connection %d: message %d read back as kind=%d len=%d err=%v, prepared was bin=%v len=%d", si, k, mt, len(data), err, m.bin, len(m.pl))
				}
			}
		}
	})
}

package harness

// Evidence collection: every property test owns a Collector; at the end of
// the test it is written as JSON to $VERIF_OUT/<name>.json where the driver
// merges the per-test files into /verif/evidence/<id>.json.

import (
	"crypto/sha256"
	"encoding/json"
	"fmt"
	"os"
	"path/filepath"
	"sort"
	"strings"
	"sync"
	"testing"
)

type Collector struct {
	mu          sync.Mutex
	Name        string
	Rule        string
	evaluations int64
	nontrivial  map[[16]byte]struct{}
	classes     map[string]int64
	samples     []any
	sampleEvery int64
	maxSamples  int
	exclusions  map[string]int64
	exhaustive  *bool
	notes       []string
	known       map[string]int64 // known-finding signature -> times observed
	discard     bool             // fuzz workers: count nothing (millions of executions, no evidence file)
}

// NewDiscardCollector returns a collector that records nothing; used by the
// native fuzz targets, whose executions are counted by the fuzzing engine.
func NewDiscardCollector() *Collector {
	c := NewCollector("discard", "")
	c.discard = true
	return c
}

// journalOff disables the per-case journal file (native fuzz targets: the
// engine itself keeps the input that killed a worker).
var journalOff bool

func NewCollector(name, rule string) *Collector {
	return &Collector{
		Name: name, Rule: rule,
		nontrivial: map[[16]byte]struct{}{},
		classes:    map[string]int64{},
		exclusions: map[string]int64{},
		known:      map[string]int64{},
		maxSamples: 6,
	}
}

// Case records one executed case. canon is the canonical rendering used to
// count distinct cases; nontrivial says whether the case satisfies the
// property's stated non-triviality rule; sample (may be nil) is a
// human-readable rendering kept for the first few and then sparsely.
func (c *Collector) Case(canon string, nontrivial bool, sample any, classes ...string) {
	if c.discard {
		return
	}
	c.mu.Lock()
	defer c.mu.Unlock()
	c.evaluations++
	for _, k := range classes {
		c.classes[k]++
	}
	if nontrivial {
		h := sha256.Sum256([]byte(canon))
		var k [16]byte
		copy(k[:], h[:16])
		if _, ok := c.nontrivial[k]; !ok {
			c.nontrivial[k] = struct{}{}
			if sample != nil && len(c.samples) < c.maxSamples {
				n := int64(len(c.nontrivial))
				// keep cases 1,2 and then exponentially spaced ones
				if n <= 2 || n&(n-1) == 0 {
					c.samples = append(c.samples, sample)
				}
			}
		}
	}
}

func (c *Collector) Class(k string) {
	if c.discard {
		return
	}
	c.mu.Lock()
	c.classes[k]++
	c.mu.Unlock()
}

func (c *Collector) ClassN(k string, n int64) {
	if c.discard {
		return
	}
	c.mu.Lock()
	c.classes[k] += n
	c.mu.Unlock()
}

func (c *Collector) Exclude(k string) {
	if c.discard {
		return
	}
	c.mu.Lock()
	c.exclusions[k]++
	c.mu.Unlock()
}

func (c *Collector) Known(sig string) {
	if c.discard {
		return
	}
	c.mu.Lock()
	c.known[sig]++
	c.mu.Unlock()
}

func (c *Collector) Note(s string) {
	if c.discard {
		return
	}
	c.mu.Lock()
	c.notes = append(c.notes, s)
	c.mu.Unlock()
}

func (c *Collector) SetExhaustive(b bool) {
	c.mu.Lock()
	c.exhaustive = &b
	c.mu.Unlock()
}

func (c *Collector) ClassCount(k string) int64 {
	c.mu.Lock()
	defer c.mu.Unlock()
	return c.classes[k]
}

type collectorDump struct {
	Name               string           `json:"name"`
	Rule               string           `json:"rule"`
	Evaluations        int64            `json:"evaluations"`
	DistinctNontrivial int64            `json:"distinct_nontrivial"`
	Classes            map[string]int64 `json:"classes"`
	Samples            []any            `json:"samples"`
	Exclusions         map[string]int64 `json:"exclusions,omitempty"`
	Exhaustive         *bool            `json:"exhaustive,omitempty"`
	Notes              []string         `json:"notes,omitempty"`
	Known              map[string]int64 `json:"known,omitempty"`
	Failed             bool             `json:"failed"`
}

// Flush writes the collector to $VERIF_OUT (if set). Register with t.Cleanup.
func (c *Collector) Flush(t testing.TB) {
	dir := os.Getenv("VERIF_OUT")
	if dir == "" || journalOff {
		return
	}
	c.mu.Lock()
	defer c.mu.Unlock()
	d := collectorDump{
		Name: c.Name, Rule: c.Rule, Evaluations: c.evaluations,
		DistinctNontrivial: int64(len(c.nontrivial)),
		Classes:            c.classes, Samples: c.samples, Exclusions: c.exclusions,
		Exhaustive: c.exhaustive, Notes: c.notes, Known: c.known, Failed: t.Failed(),
	}
	if d.Samples == nil {
		d.Samples = []any{}
	}
	b, err := json.MarshalIndent(d, "", " ")
	if err != nil {
		t.Logf("collector marshal: %v", err)
		return
	}
	shard := os.Getenv("VERIF_SHARD")
	fn := filepath.Join(dir, c.Name+".json")
	if shard != "" {
		fn = filepath.Join(dir, c.Name+"."+shard+".json")
	}
	_ = os.MkdirAll(dir, 0o755)
	if err := os.WriteFile(fn, b, 0o644); err != nil {
		t.Logf("collector write: %v", err)
	}
	// hashes of the distinct non-trivial cases, so the driver can take the
	// union across shards instead of adding overlapping counts
	hb := make([]byte, 0, 8*len(c.nontrivial))
	for k := range c.nontrivial {
		hb = append(hb, k[:8]...)
	}
	_ = os.WriteFile(strings.TrimSuffix(fn, ".json")+".hashes", hb, 0o644)
}

// Use registers the flush and returns the collector.
func (c *Collector) Use(t testing.TB) *Collector {
	t.Cleanup(func() { c.Flush(t) })
	return c
}

// RequireClasses marks the run as broken (not a violation) when a class the
// design calls essential was never generated.
func (c *Collector) RequireClasses(t testing.TB, keys ...string) {
	c.mu.Lock()
	defer c.mu.Unlock()
	var missing []string
	for _, k := range keys {
		if c.classes[k] == 0 {
			missing = append(missing, k)
		}
	}
	sort.Strings(missing)
	if len(missing) > 0 {
		fmt.Printf("HARNESS-BROKEN test=%s essential classes never generated: %v\n", c.Name, missing)
		c.notes = append(c.notes, fmt.Sprintf("essential classes never generated: %v", missing))
	}
}

// journal writes the current case to $VERIF_OUT/current.<pid> so that a
// process-killing failure still leaves a replayable description behind.
func journal(format string, args ...any) {
	noteProgress(fmt.Sprintf(format, args...))
	dir := os.Getenv("VERIF_OUT")
	if dir == "" || journalOff {
		return
	}
	fn := filepath.Join(dir, fmt.Sprintf("current.%d", os.Getpid()))
	if j := os.Getenv("VERIF_JOURNAL"); j != "" {
		fn = j
	}
	_ = os.WriteFile(fn, []byte(fmt.Sprintf(format, args...)), 0o644)
}

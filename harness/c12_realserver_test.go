package harness

// C12 over real sockets: "Closing the server, or the HTTP server it is
// attached to, closes every session, each with exactly one close event, and
// leaves the client table empty" with the server listening on loopback through
// engine.Listen / types.HttpServer.Listen, net/http and gorilla's client. The
// in-memory carriers stand in for this stack everywhere else; here it is the
// real one (real time, small case counts).

import (
	"bytes"
	"fmt"
	"io"
	"net"
	"net/http"
	"os"
	"sort"
	"strings"
	"sync"
	"testing"
	"time"

	ws "github.com/gorilla/websocket"
	"github.com/zishang520/engine.io/v2/config"
	"github.com/zishang520/engine.io/v2/engine"
	"github.com/zishang520/engine.io/v2/types"
	"pgregory.net/rapid"
)

type rsSess struct {
	Transport   string // polling | websocket | upgraded
	PollPending bool   // polling: a poll is pending at shutdown
	Msgs        int    // messages the application sends right before the shutdown (must arrive before the end)
}

type rsCase struct {
	Sess []rsSess
	How  string // engineClose | httpServerClose
}

func (c rsCase) String() string { return fmt.Sprintf("{%s sessions=%+v}", c.How, c.Sess) }

var rsNextPort int

// freePort picks a port outside the kernel's ephemeral range (nobody is handed one of these by listen(:0)), from a
// block of this process's own (processes of a sharded run start at different offsets), and makes sure it is free:
// the library panics when it cannot listen, and a port race with another process would look like its fault.
func freePort() (int, error) {
	if rsNextPort == 0 {
		rsNextPort = 20000 + (os.Getpid()%90)*100
	}
	var last error
	for k := 0; k < 100; k++ {
		p := rsNextPort
		rsNextPort++
		if rsNextPort >= 29900 {
			rsNextPort = 20000
		}
		l, err := net.Listen("tcp", fmt.Sprintf("127.0.0.1:%d", p))
		if err != nil {
			last = err
			continue
		}
		l.Close()
		return p, nil
	}
	return 0, last
}

type rsClient struct {
	base   string
	sid    string
	conn   *ws.Conn
	mu     sync.Mutex
	got    []string // message payloads, in order
	closed bool     // close packet seen / connection ended
	poll   chan string
}

func (c *rsClient) get(q string) (int, string, error) {
	resp, err := http.Get(c.base + "/engine.io/?EIO=4&transport=polling" + q)
	if err != nil {
		return 0, "", err
	}
	defer resp.Body.Close()
	b, err := io.ReadAll(resp.Body)
	return resp.StatusCode, string(b), err
}

func (c *rsClient) absorb(body string) {
	c.mu.Lock()
	defer c.mu.Unlock()
	for _, p := range strings.Split(body, "\x1e") {
		if strings.HasPrefix(p, "4") {
			c.got = append(c.got, p[1:])
		}
		if p == "1" {
			c.closed = true
		}
	}
}

func runRS(c rsCase) (fail string, stats map[string]bool) {
	stats = map[string]bool{}
	port, err := freePort()
	if err != nil {
		return "", map[string]bool{"skipped.loopback-unavailable": true}
	}
	o := config.DefaultServerOptions()
	o.SetPingInterval(time.Minute)
	o.SetPingTimeout(time.Minute)
	var srv engine.Server
	var hs *types.HttpServer
	addr := fmt.Sprintf("127.0.0.1:%d", port)
	if c.How == "httpServerClose" {
		hs = types.NewWebServer(http.HandlerFunc(func(w http.ResponseWriter, _ *http.Request) { http.Error(w, "app", 418) }))
		srv = engine.Attach(hs, o)
		hs.Listen(addr, nil)
	} else {
		srv = engine.Listen(addr, o, nil)
	}
	var mu sync.Mutex
	closes := map[string][]string{}
	socks := map[string]engine.Socket{}
	srv.On("connection", func(a ...any) {
		s := a[0].(engine.Socket)
		mu.Lock()
		socks[s.Id()] = s
		mu.Unlock()
		s.On("close", func(r ...any) {
			mu.Lock()
			closes[s.Id()] = append(closes[s.Id()], fmt.Sprint(r[0]))
			mu.Unlock()
		})
	})
	base := "http://" + addr
	// wait for the listener
	for i := 0; i < 200; i++ {
		if conn, err := net.Dial("tcp", addr); err == nil {
			conn.Close()
			break
		}
		time.Sleep(10 * time.Millisecond)
	}
	var clients []*rsClient
	cleanup := func() {
		for _, cl := range clients {
			if cl.conn != nil {
				cl.conn.Close()
			}
		}
	}
	defer cleanup()
	for i, s := range c.Sess {
		cl := &rsClient{base: base}
		clients = append(clients, cl)
		if s.Transport == "websocket" {
			conn, _, err := ws.DefaultDialer.Dial("ws://"+addr+"/engine.io/?EIO=4&transport=websocket", nil)
			if err != nil {
				return fmt.Sprintf("session %d: websocket dial: %v", i, err), stats
			}
			cl.conn = conn
			_, m, err := conn.ReadMessage()
			if err != nil || !bytes.HasPrefix(m, []byte("0{")) {
				return fmt.Sprintf("session %d: websocket handshake: %q %v", i, m, err), stats
			}
			cl.sid = strings.Split(strings.SplitN(string(m), `"sid":"`, 2)[1], `"`)[0]
			continue
		}
		st, body, err := cl.get("")
		if err != nil || st != 200 || !strings.HasPrefix(body, "0{") {
			return fmt.Sprintf("session %d: polling handshake: %d %q %v", i, st, body, err), stats
		}
		cl.sid = strings.Split(strings.SplitN(body, `"sid":"`, 2)[1], `"`)[0]
		if s.Transport == "upgraded" {
			pollDone := make(chan string, 1)
			go func() { _, b, _ := cl.get("&sid=" + cl.sid); pollDone <- b }()
			conn, _, err := ws.DefaultDialer.Dial("ws://"+addr+"/engine.io/?EIO=4&transport=websocket&sid="+cl.sid, nil)
			if err != nil {
				return fmt.Sprintf("session %d: candidate dial: %v", i, err), stats
			}
			cl.conn = conn
			conn.WriteMessage(ws.TextMessage, []byte("2probe"))
			if _, m, err := conn.ReadMessage(); err != nil || string(m) != "3probe" {
				return fmt.Sprintf("session %d: probe answered %q %v", i, m, err), stats
			}
			select {
			case b := <-pollDone:
				cl.absorb(b)
			case <-time.After(5 * time.Second):
				return fmt.Sprintf("session %d: pending poll not released during the upgrade", i), stats
			}
			conn.WriteMessage(ws.TextMessage, []byte("5"))
			time.Sleep(30 * time.Millisecond)
			stats["upgraded-session"] = true
		}
	}
	// everybody is known to the application
	deadline := time.Now().Add(5 * time.Second)
	for {
		mu.Lock()
		n := len(socks)
		mu.Unlock()
		if n == len(c.Sess) || time.Now().After(deadline) {
			break
		}
		time.Sleep(5 * time.Millisecond)
	}
	// pending polls and readers
	var wg sync.WaitGroup
	for i, s := range c.Sess {
		cl := clients[i]
		if cl.conn != nil {
			wg.Add(1)
			go func() {
				defer wg.Done()
				for {
					_, m, err := cl.conn.ReadMessage()
					if err != nil {
						cl.mu.Lock()
						cl.closed = true
						cl.mu.Unlock()
						return
					}
					cl.absorb(string(m))
				}
			}()
		} else if s.PollPending {
			wg.Add(1)
			stats["poll-pending-at-shutdown"] = true
			go func() {
				defer wg.Done()
				// a conformant client keeps polling until it is told that the session is over
				for k := 0; k < 4; k++ {
					st, b, err := cl.get("&sid=" + cl.sid)
					if err != nil || st != 200 {
						cl.mu.Lock()
						cl.closed = true
						cl.mu.Unlock()
						return
					}
					cl.absorb(b)
					cl.mu.Lock()
					done := cl.closed
					cl.mu.Unlock()
					if done {
						return
					}
				}
			}()
		}
	}
	time.Sleep(50 * time.Millisecond) // let the polls reach the server
	for i, s := range c.Sess {
		mu.Lock()
		sock := socks[clients[i].sid]
		mu.Unlock()
		if sock == nil {
			return fmt.Sprintf("session %d (%s) was never announced to the application", i, s.Transport), stats
		}
		for k := 0; k < s.Msgs; k++ {
			sock.Send(types.NewStringBufferString(fmt.Sprintf("m%d", k)), nil, nil)
		}
	}
	done := make(chan error, 1)
	go func() {
		if hs != nil {
			done <- hs.Close(nil)
		} else {
			srv.Close()
			done <- nil
		}
	}()
	select {
	case <-done:
	case <-time.After(30 * time.Second):
		return "shutdown did not return within 30 s of real time", stats
	}
	fin := make(chan struct{})
	go func() { wg.Wait(); close(fin) }()
	select {
	case <-fin:
	case <-time.After(30 * time.Second):
		return "after the shutdown a client's pending poll / connection was still open 30 s later", stats
	}
	time.Sleep(20 * time.Millisecond)
	mu.Lock()
	defer mu.Unlock()
	for i, cl := range clients {
		if got := closes[cl.sid]; len(got) != 1 {
			return fmt.Sprintf("session %d (%+v): close events %v, want exactly one", i, c.Sess[i], got), stats
		}
	}
	if n := srv.ClientsCount(); n != 0 || srv.Clients().Len() != 0 {
		return fmt.Sprintf("after the shutdown the client table holds %d sessions, count %d", srv.Clients().Len(), n), stats
	}
	if hs == nil {
		if h := srv.HttpServer(); h != nil {
			h.Close(nil)
		}
	}
	if len(c.Sess) >= 2 {
		stats[">=2-sessions"] = true
	}
	stats["how."+c.How] = true
	return "", stats
}

func TestC12RealServerShutdown(t *testing.T) {
	if _, err := freePort(); err != nil {
		t.Skipf("loopback not available: %v", err)
	}
	col := NewCollector("TestC12RealServerShutdown",
		"rapid (real sockets on loopback, real time): a server listening through engine.Listen or attached to a types.HttpServer that listens; 1-4 sessions over net/http polling (with or without a poll pending), WebSocket (gorilla's client), or polling upgraded to WebSocket; the application sends 0-2 messages to each, then Server.Close() or HttpServer.Close(); oracle: the shutdown returns, every pending poll and every connection ends, every session has exactly one close event, client table and count are empty. non-trivial: >=2 sessions or a pending poll").Use(t)
	rapid.Check(t, func(rt *rapid.T) {
		c := rsCase{How: rapid.SampledFrom([]string{"engineClose", "httpServerClose"}).Draw(rt, "how")}
		n := rapid.IntRange(1, 4).Draw(rt, "n")
		for i := 0; i < n; i++ {
			c.Sess = append(c.Sess, rsSess{
				Transport:   rapid.SampledFrom([]string{"polling", "polling", "websocket", "upgraded"}).Draw(rt, "transport"),
				PollPending: rapid.Bool().Draw(rt, "pollPending"),
				Msgs:        rapid.IntRange(0, 2).Draw(rt, "msgs"),
			})
		}
		journal("C12 real server %v", c)
		fail, stats := runRS(c)
		var cl []string
		for k := range stats {
			cl = append(cl, k)
		}
		sort.Strings(cl)
		col.Case(c.String(), stats[">=2-sessions"] || stats["poll-pending-at-shutdown"], map[string]any{"case": c.String()}, cl...)
		if fail != "" {
			rt.Fatalf("%v\n%s", c, fail)
		}
	})
	col.RequireClasses(t, "how.engineClose", "how.httpServerClose", "poll-pending-at-shutdown", "upgraded-session")
}

package harness

import (
	"context"
	"io"
	"net/http"
	"net/url"
	"sync"
	"time"

	"github.com/quic-go/quic-go"
	webtrans "github.com/zishang520/engine.io/v2/webtransport"
	wt "github.com/zishang520/webtransport-go"
	"pgregory.net/rapid"
)

// memWTStream is an in-memory webtransport.Stream.
type memWTStream struct {
	in  *halfPipe
	out *halfPipe
}

func (s *memWTStream) Read(p []byte) (int, error)       { return s.in.Read(p) }
func (s *memWTStream) Write(p []byte) (int, error)      { return s.out.Write(p) }
func (s *memWTStream) Close() error                     { s.out.CloseWrite(); return nil }
func (s *memWTStream) StreamID() quic.StreamID          { return 4 }
func (s *memWTStream) CancelWrite(wt.StreamErrorCode)   {}
func (s *memWTStream) CancelRead(wt.StreamErrorCode)    {}
func (s *memWTStream) SetWriteDeadline(time.Time) error { return nil }
func (s *memWTStream) SetReadDeadline(time.Time) error  { return nil }
func (s *memWTStream) SetDeadline(time.Time) error      { return nil }

// realSession creates a real *webtransport.Session on mocked transport.
type realSession struct {
	S      *wt.Session
	ReqStr *mockStream
	Conn   *mockH3Conn
	ex     *Exchange
}

var (
	sharedWtsOnce sync.Once
	sharedWts     *wt.Server
)

func newRealSession(wts *wt.Server) (*realSession, error) {
	conn := newMockH3Conn()
	str := newMockStream(0)
	u := &url.URL{Path: "/engine.io/"}
	req := &http.Request{Method: http.MethodConnect, URL: u, Proto: "webtransport", ProtoMajor: 3,
		Header: http.Header{"Sec-Webtransport-Http3-Draft02": {"1"}}, Host: "example.test", Body: http.NoBody}
	req = req.WithContext(context.Background())
	e := &Exchange{hdr: http.Header{}}
	e.cond = sync.NewCond(&e.mu)
	s, err := wts.Upgrade(wtRW{e: e, conn: conn, str: str}, req)
	if err != nil {
		return nil, err
	}
	return &realSession{S: s, ReqStr: str, Conn: conn, ex: e}, nil
}

// End lets the session's goroutine finish (client side of the request stream ends).
func (r *realSession) End() {
	r.ReqStr.in.CloseWrite()
}

// ClosedByServer reports the close capsule the server wrote, if any.
func (r *realSession) ClosedByServer() (code uint32, msg string, ok bool) {
	c := &WTClient{ReqStr: r.ReqStr, W: &World{T0: time.Now()}}
	c.capbuf = append(c.capbuf, r.ReqStr.out.Drain()...)
	c.parseCapsules()
	return c.CloseCode, c.CloseMsg, c.SessionClosed
}

type memPool struct {
	mu    sync.Mutex
	items []any
	gets  int
	puts  int
}

func (p *memPool) Get() any {
	p.mu.Lock()
	defer p.mu.Unlock()
	p.gets++
	if n := len(p.items); n > 0 {
		v := p.items[n-1]
		p.items = p.items[:n-1]
		return v
	}
	return nil
}
func (p *memPool) Put(v any) {
	p.mu.Lock()
	p.puts++
	p.items = append(p.items, v)
	p.mu.Unlock()
}

func makePayload(n int, seed byte) []byte {
	b := make([]byte, n)
	x := uint32(seed)*2654435761 + 12345
	for i := range b {
		x = x*1664525 + 1013904223
		b[i] = byte(x >> 24)
	}
	return b
}

func effW(w int) int {
	if w <= 0 {
		return 4096
	}
	return w
}

// genWTLen draws a payload length biased to the boundaries of the frame
// format and of the write buffer (W = effective write buffer size).
func genWTLen(t *rapid.T, W int, label string) (int, string) {
	switch rapid.IntRange(0, 11).Draw(t, label+".cls") {
	case 0:
		return 0, "len=0"
	case 1:
		return rapid.IntRange(1, 123).Draw(t, label), "len<124"
	case 2:
		return rapid.IntRange(124, 128).Draw(t, label), "len~126"
	case 3:
		return rapid.IntRange(65533, 65538).Draw(t, label), "len~65536"
	case 4:
		return max(0, W+rapid.IntRange(-2, 2).Draw(t, label)), "len~W"
	case 5:
		return max(0, 2*W+rapid.IntRange(-2, 2).Draw(t, label)), "len~2W"
	case 6:
		return max(0, W+9+rapid.IntRange(-2, 2).Draw(t, label)), "len~W+9"
	case 7:
		return max(0, 2*(W+9)+rapid.IntRange(-2, 2).Draw(t, label)), "len~2(W+9)"
	case 8:
		return rapid.IntRange(129, 70000).Draw(t, label), "len<70000"
	case 9:
		return rapid.IntRange(65539, 300000).Draw(t, label), "len<300000"
	case 10:
		return max(0, 3*W+rapid.IntRange(-20, 20).Draw(t, label)), "len~3W"
	default:
		return rapid.IntRange(0, 40).Draw(t, label), "len<=40"
	}
}

var wtWriteBufSizes = []int{0, 16, 17, 64, 100, 125, 126, 127, 128, 512, 1024, 4096, 4097, 16384}

type fragReader struct {
	data        []byte
	frags       []int
	i           int
	eofWithData bool
}

func (r *fragReader) Read(p []byte) (int, error) {
	if len(r.data) == 0 {
		return 0, io.EOF
	}
	n := len(p)
	if len(r.frags) > 0 {
		f := r.frags[r.i%len(r.frags)]
		r.i++
		if f > 0 && f < n {
			n = f
		}
	}
	if n > len(r.data) {
		n = len(r.data)
	}
	copy(p, r.data[:n])
	r.data = r.data[n:]
	if len(r.data) == 0 && r.eofWithData {
		return n, io.EOF
	}
	return n, nil
}

const (
	pathWriteMessage = iota
	pathWriterWrite
	pathWriterWriteString
	pathWriterReadFrom
	pathPrepared
	numWTPaths
)

var wtPathNames = []string{"WriteMessage", "NextWriter+Write", "NextWriter+WriteString", "NextWriter+ReadFrom", "WritePreparedMessage"}

// wtWrite writes one message through the given path.
func wtWrite(c *webtrans.Conn, path int, binaryMsg bool, payload []byte, chunks []int, eofWithData bool) error {
	mt := webtrans.TextMessage
	if binaryMsg {
		mt = webtrans.BinaryMessage
	}
	switch path {
	case pathWriteMessage:
		return c.WriteMessage(mt, payload)
	case pathPrepared:
		pm, err := webtrans.NewPreparedMessage(mt, payload)
		if err != nil {
			return err
		}
		return c.WritePreparedMessage(pm)
	}
	w, err := c.NextWriter(mt)
	if err != nil {
		return err
	}
	switch path {
	case pathWriterWrite, pathWriterWriteString:
		rest := payload
		i := 0
		for len(rest) > 0 {
			n := len(rest)
			if len(chunks) > 0 {
				if k := chunks[i%len(chunks)]; k > 0 && k < n {
					n = k
				}
				i++
			}
			if path == pathWriterWrite {
				if _, err := w.Write(rest[:n]); err != nil {
					return err
				}
			} else {
				if _, err := io.WriteString(w, string(rest[:n])); err != nil {
					return err
				}
			}
			rest = rest[n:]
		}
	case pathWriterReadFrom:
		if _, err := w.(io.ReaderFrom).ReadFrom(&fragReader{data: payload, frags: chunks, eofWithData: eofWithData}); err != nil {
			return err
		}
	}
	return w.Close()
}

#!/bin/sh
# development aid: run every check of a tier on the current tree, print one line each
# usage: tools/runall.sh [quick|thorough] [seed]
tier=${1:-quick}; seed=${2:-1}
cd "$(dirname "$0")/.."
for i in 01 02 03 04 05 06 07 08 09 10 11 12 13 14 15 16 17 18 19 20; do
  out=$(VERIF_SEED=$seed ./check C$i --tier $tier 2>&1); rc=$?
  echo "rc=$rc $(echo "$out" | tail -1)"
  if [ $rc -ne 0 ]; then echo "$out" | grep -E "VIOLATION|HARNESS-BROKEN|INCONCLUSIVE|EVIDENCE" | head -5; fi
done

#!/usr/bin/env python3
"""Seeded-change bookkeeping.

  seedtool.py verify <Cxx> <a|b>      confirm a sub-agent's change in its scratch worktree (/tmp/seed/<Cxx>)
                                      and install it as /verif/seeded/<Cxx>-<v>/
  seedtool.py run <Cxx>-<v> [prop..]  apply the patch to /repo, run ./check <prop> --tier quick (default: the
                                      property it was written for), undo the patch, record result.json
  seedtool.py table                   print the detection table

Nothing here is used by the registered checks.
"""
import json, os, shutil, subprocess, sys, time, glob

ROOT = os.path.dirname(os.path.dirname(os.path.abspath(__file__)))
SEEDED = os.path.join(ROOT, "seeded")
ENV = dict(os.environ, GOFLAGS="-mod=mod", GOPROXY="off")


def sh(cmd, cwd, timeout=900):
    t0 = time.time()
    try:
        p = subprocess.run(cmd, shell=True, cwd=cwd, env=ENV, stdout=subprocess.PIPE, stderr=subprocess.STDOUT, text=True,
                           errors="replace", timeout=timeout)
        return p.returncode, p.stdout, time.time() - t0
    except subprocess.TimeoutExpired as ex:
        out = ex.stdout if isinstance(ex.stdout, str) else (ex.stdout or b"").decode("utf8", "replace")
        return 124, out + "\n[timeout]", time.time() - t0


def demo_failed(rc, out):
    import re
    return rc != 0 or re.search(r"^(FAIL|--- FAIL|panic:|fatal error:)", out, re.M) is not None


def clean(wt):
    sh("git reset -q --hard && git clean -fdq -e SEED", wt)


def verify(pid, v):
    wt = "/tmp/seed/%s" % pid
    sd = os.path.join(wt, "SEED", v)
    meta = json.load(open(os.path.join(sd, "meta.json")))
    if not os.path.exists(os.path.join(wt, "SEED", "go.mod")):
        open(os.path.join(wt, "SEED", "go.mod"), "w").write("module seed\n\ngo 1.24\n")
    clean(wt)
    rc, out, _ = sh("git checkout -q --detach main", wt)
    if rc != 0:
        print("cannot update worktree:", out)
        return 2
    head = sh("git rev-parse --short HEAD", wt)[1].strip()
    demo_cmd = meta["demo_cmd"]
    res = {"repo_head": head, "demo_cmd": demo_cmd}
    # 1. demo on the unchanged tree
    rc, out, w = sh(demo_cmd, wt)
    if demo_failed(rc, out) and rc == 0:
        rc = 1
    res["demo_without_change"] = {"rc": rc, "wall_s": round(w, 1), "tail": out[-600:]}
    clean(wt)
    # 2. apply
    rc, out, _ = sh("git apply SEED/%s/patch.diff" % v, wt)
    if rc != 0:
        rc, out, _ = sh("git apply -3 SEED/%s/patch.diff" % v, wt)
    if rc != 0:
        print("PATCH DOES NOT APPLY at %s:\n%s" % (head, out))
        clean(wt)
        return 2
    sh("git reset -q", wt)
    diff = sh("git diff", wt)[1]
    # 3. suite with the change
    rc, out, w = sh("go build ./... && go test -vet=off -count=1 ./...", wt)
    res["suite_with_change"] = {"rc": rc, "wall_s": round(w, 1), "tail": out[-400:]}
    # 4. demo with the change (3 runs)
    fails = 0
    for i in range(3):
        rc, out, w = sh(demo_cmd, wt)
        fails += 1 if demo_failed(rc, out) else 0
    res["demo_with_change"] = {"runs": 3, "failed": fails, "wall_s": round(w, 1), "tail": out[-600:]}
    clean(wt)
    ok = res["demo_without_change"]["rc"] == 0 and res["suite_with_change"]["rc"] == 0 and fails == 3
    res["confirmed"] = ok
    print(json.dumps({k: (x if not isinstance(x, dict) else {kk: vv for kk, vv in x.items() if kk != "tail"}) for k, x in res.items()}, indent=1))
    if not ok:
        print("NOT CONFIRMED; tails:")
        for k in ("demo_without_change", "suite_with_change", "demo_with_change"):
            print("--", k, "\n", res[k]["tail"])
        return 1
    dst = os.path.join(SEEDED, "%s-%s" % (pid, v))
    shutil.rmtree(dst, ignore_errors=True)
    os.makedirs(dst)
    open(os.path.join(dst, "patch.diff"), "w").write(diff)
    shutil.copytree(os.path.join(sd, "demo"), os.path.join(dst, "demo"))
    m = {"property": pid, "summary": meta.get("summary"), "needs": meta.get("needs"), "files_changed": meta.get("files_changed"),
         "demo_cmd": demo_cmd, "origin": "independent sub-agent given only the property text and a scratch worktree",
         "confirmed_by_me": {"at_repo_head": head,
                             "ran": ["demo on unchanged tree (rc 0)", "git apply patch; go build ./... && go test -vet=off -count=1 ./... (rc 0)",
                                     "demo with change, 3 runs (all failed)"],
                             "demo_without_change_rc": res["demo_without_change"]["rc"],
                             "suite_with_change_rc": res["suite_with_change"]["rc"],
                             "demo_with_change_failed_runs": "%d/3" % fails}}
    json.dump(m, open(os.path.join(dst, "meta.json"), "w"), indent=1)
    print("installed", dst)
    return 0


def run(name, props, tier="quick"):
    d = os.path.join(SEEDED, name)
    meta = json.load(open(os.path.join(d, "meta.json")))
    if not props:
        props = [meta["property"]]
    st = sh("git status --porcelain", "/repo")[1].strip()
    if st:
        print("/repo is not clean:", st)
        return 2
    rc, out, _ = sh("git apply %s" % os.path.join(d, "patch.diff"), "/repo")
    if rc != 0:
        rc, out, _ = sh("git apply -3 %s && git reset -q" % os.path.join(d, "patch.diff"), "/repo")
    if rc != 0:
        print("patch does not apply to /repo:", out)
        sh("git reset -q --hard", "/repo")
        return 2
    results = {}
    try:
        for p in props:
            rc, out, w = sh("./check %s --tier %s" % (p, tier), ROOT, timeout=3600)
            vio = [l for l in out.splitlines() if l.startswith("VIOLATION")]
            results[p] = {"rc": rc, "detected": rc == 1 and bool(vio), "wall_s": round(w, 1), "tier": tier,
                          "first_violation_context": "\n".join(out.splitlines()[-25:])[-1800:] if rc != 0 else ""}
            print("%s vs %s: rc=%d detected=%s wall=%.0fs" % (name, p, rc, results[p]["detected"], w))
    finally:
        sh("git reset -q --hard && git clean -fdq", "/repo")
        # evidence files were rewritten by a run against a modified tree: restore the committed ones
        sh("git checkout -q -- evidence", ROOT)
    rf = os.path.join(d, "result.json")
    old = json.load(open(rf)) if os.path.exists(rf) else {}
    old.update(results)
    json.dump(old, open(rf, "w"), indent=1)
    return 0


def prun_one(name, props, tier):
    """like run(), but against a scratch worktree of /repo (VERIF_REPO), so /repo stays untouched and runs can overlap"""
    d = os.path.join(SEEDED, name)
    meta = json.load(open(os.path.join(d, "meta.json")))
    if not props:
        props = [meta["property"]]
    wt = "/tmp/seedrun/%s" % name
    sh("git worktree remove --force %s" % wt, "/repo")
    shutil.rmtree(wt, ignore_errors=True)
    os.makedirs("/tmp/seedrun", exist_ok=True)
    rc, out, _ = sh("git worktree add -q --detach %s HEAD" % wt, "/repo")
    if rc != 0:
        print(name, "worktree failed:", out)
        return name, None
    results = {}
    try:
        rc, out, _ = sh("git apply %s" % os.path.join(d, "patch.diff"), wt)
        if rc != 0:
            print(name, "patch does not apply:", out[-300:])
            return name, None
        for p in props:
            env = "VERIF_REPO=%s VERIF_EVIDENCE_DIR=/tmp/seedrun/ev-%s" % (wt, name)
            rc, out, w = sh("%s ./check %s --tier %s" % (env, p, tier), ROOT, timeout=3600)
            vio = [l for l in out.splitlines() if l.startswith("VIOLATION")]
            results[p] = {"rc": rc, "detected": rc == 1 and bool(vio), "wall_s": round(w, 1), "tier": tier,
                          "first_violation_context": "\n".join(out.splitlines()[-25:])[-1800:] if rc != 0 else ""}
            print("%s vs %s: rc=%d detected=%s wall=%.0fs" % (name, p, rc, results[p]["detected"], w), flush=True)
    finally:
        sh("git worktree remove --force %s" % wt, "/repo")
        shutil.rmtree(wt, ignore_errors=True)
        shutil.rmtree("/tmp/seedrun/ev-%s" % name, ignore_errors=True)
    rf = os.path.join(d, "result.json")
    old = json.load(open(rf)) if os.path.exists(rf) else {}
    old.update(results)
    json.dump(old, open(rf, "w"), indent=1)
    return name, results


def prun(names, props, tier, par):
    from concurrent.futures import ThreadPoolExecutor
    with ThreadPoolExecutor(max_workers=par) as ex:
        list(ex.map(lambda n: prun_one(n, props, tier), names))
    sh("git worktree prune", "/repo")
    return 0


def reverify_one(name):
    """re-confirm an installed seed against the current /repo HEAD in a scratch worktree"""
    d = os.path.join(SEEDED, name)
    meta = json.load(open(os.path.join(d, "meta.json")))
    v = name.split("-")[1]
    wt = "/tmp/seedrun/rv-%s" % name
    sh("git worktree remove --force %s" % wt, "/repo")
    shutil.rmtree(wt, ignore_errors=True)
    os.makedirs("/tmp/seedrun", exist_ok=True)
    rc, out, _ = sh("git worktree add -q --detach %s HEAD" % wt, "/repo")
    head = sh("git rev-parse --short HEAD", wt)[1].strip()
    res = {"at_repo_head": head}
    try:
        os.makedirs(os.path.join(wt, "SEED", v))
        shutil.copytree(os.path.join(d, "demo"), os.path.join(wt, "SEED", v, "demo"))
        open(os.path.join(wt, "SEED", "go.mod"), "w").write("module seed\n\ngo 1.24\n")
        demo_cmd = meta["demo_cmd"].replace("/tmp/seed/%s" % meta["property"], wt)
        rc, out, w = sh(demo_cmd, wt)
        res["demo_without_change_rc"] = 1 if demo_failed(rc, out) else 0
        res["tail0"] = out[-500:]
        clean(wt)
        rc, out, _ = sh("git apply %s" % os.path.join(d, "patch.diff"), wt)
        if rc != 0:
            rc, out, _ = sh("git apply -3 %s && git reset -q" % os.path.join(d, "patch.diff"), wt)
            if rc == 0 and "<<<<<<<" not in sh("git diff", wt)[1]:
                res["rebased"] = True
                newdiff = sh("git diff -- . ':!SEED'", wt)[1]
            else:
                rc = 1
        res["applies"] = rc == 0
        if rc == 0:
            rc, out, w = sh("go build ./... && go test -vet=off -count=1 ./...", wt)
            res["suite_with_change_rc"] = rc
            fails = 0
            for i in range(3):
                rc, out, w = sh(demo_cmd, wt)
                fails += 1 if demo_failed(rc, out) else 0
            res["demo_with_change_failed_runs"] = "%d/3" % fails
            res["tail1"] = out[-500:]
    finally:
        sh("git worktree remove --force %s" % wt, "/repo")
        shutil.rmtree(wt, ignore_errors=True)
    ok = res.get("applies") and res["demo_without_change_rc"] == 0 and res.get("suite_with_change_rc") == 0 and res.get("demo_with_change_failed_runs") == "3/3"
    res["confirmed"] = bool(ok)
    print(name, json.dumps({k: x for k, x in res.items() if not k.startswith("tail")}), flush=True)
    if not ok:
        print("   tail0:", res.get("tail0", "")[-300:].replace("\n", " | "))
        print("   tail1:", res.get("tail1", "")[-300:].replace("\n", " | "))
    if ok and res.get("rebased"):
        open(os.path.join(d, "patch.diff"), "w").write(newdiff)
    meta["reverified"] = {k: x for k, x in res.items() if not k.startswith("tail")}
    json.dump(meta, open(os.path.join(d, "meta.json"), "w"), indent=1)
    return ok


def table():
    for d in sorted(glob.glob(os.path.join(SEEDED, "*"))):
        n = os.path.basename(d)
        rf = os.path.join(d, "result.json")
        r = json.load(open(rf)) if os.path.exists(rf) else {}
        m = json.load(open(os.path.join(d, "meta.json")))
        print("%-8s %-60s %s" % (n, (m.get("summary") or "")[:60], " ".join("%s:%s(%ss)" % (p, "CAUGHT" if x["detected"] else "missed rc=%d" % x["rc"], x["wall_s"]) for p, x in r.items())))


if __name__ == "__main__":
    a = sys.argv[1:]
    if a[0] == "verify":
        sys.exit(verify(a[1], a[2]))
    if a[0] == "run":
        tier = "quick"
        rest = a[2:]
        if "--thorough" in rest:
            tier = "thorough"
            rest.remove("--thorough")
        sys.exit(run(a[1], rest, tier))
    if a[0] == "prun":
        # prun [-j N] [--thorough] [--props C01,C02] name...
        rest = a[1:]
        par, tier, props = 4, "quick", []
        if "-j" in rest:
            i = rest.index("-j"); par = int(rest[i + 1]); del rest[i:i + 2]
        if "--thorough" in rest:
            tier = "thorough"; rest.remove("--thorough")
        if "--props" in rest:
            i = rest.index("--props"); props = rest[i + 1].split(","); del rest[i:i + 2]
        sys.exit(prun(rest, props, tier, par))
    if a[0] == "reverify":
        from concurrent.futures import ThreadPoolExecutor
        names = a[1:] or sorted(os.path.basename(x) for x in glob.glob(os.path.join(SEEDED, "*")))
        with ThreadPoolExecutor(max_workers=6) as ex:
            list(ex.map(reverify_one, names))
        sh("git worktree prune", "/repo")
        sys.exit(0)
    if a[0] == "table":
        table()

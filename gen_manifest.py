#!/usr/bin/env python3
"""Generates MANIFEST.json from checks.json (single source of truth for the driver and the manifest)."""
import json, os
ROOT = os.path.dirname(os.path.abspath(__file__))
table = json.load(open(os.path.join(ROOT, "checks.json")))
props = [json.loads(l) for l in open(os.path.join(ROOT, "properties.jsonl"))]
hooks_commits = [l.strip() for l in open(os.path.join(ROOT, "hook-commits.txt")) if l.strip()]
checks = []
na = []
for p in props:
    pid = p["id"]
    if pid not in table or table[pid].get("not_applicable"):
        na.append({"property_id": pid, "reason": (table.get(pid) or {}).get("not_applicable", "check not built yet (work in progress)")})
        continue
    t = table[pid]
    checks.append({
        "property_id": pid,
        "quick_cmd": "./check %s --tier quick" % pid,
        "thorough_cmd": "./check %s --tier thorough" % pid,
        "evidence_file": "/verif/evidence/%s.json" % pid,
        "replay_cmd_template": "./check %s --replay {path}" % pid,
        "engine": "harness",
        "level_claimed": {"category": t.get("level", "exploration"), "text": t.get("level_text", ""), "design_ref": "DESIGN.md section 4 (%s)" % pid},
        "level_note": t.get("level_note", ""),
        "technique": t.get("technique", "property-based testing (pgregory.net/rapid) against an explicit oracle"),
    })
m = {
    "version": 1,
    "setup_cmd": "./check --setup",
    "hooks": {
        "guard": "verif",
        "enable": "go1.26.8 test -tags verif (harness module /verif/harness with replace => /repo)",
        "baseline_off_cmd": "cd /repo && go test -vet=off -count=1 ./...",
        "source_commits": hooks_commits,
        "add_only": True,
    },
    "engines": [{"name": "harness", "path": "/verif/harness", "serves_properties": [c["property_id"] for c in checks],
                 "kind_free_text": "Go test binary (go1.26.8, testing/synctest virtual time, pgregory.net/rapid generators and state machines, native go fuzzing in the thorough tier, porcupine linearizability checker) driven by /verif/check"}],
    "checks": checks,
    "not_applicable": na,
    "notes": "All randomness comes from rapid (-rapid.seed from VERIF_SEED) or the native fuzzer; known findings are listed in /verif/known-findings.txt; see DESIGN.md.",
}
json.dump(m, open(os.path.join(ROOT, "MANIFEST.json"), "w"), indent=1)
print("checks:", len(checks), "not_applicable:", len(na))
